#!/usr/bin/env python3
"""Rebase whole-file mutants onto /repo's current HEAD.

A mutant is a mutated copy of one repository file under /verif/mutants/<prop>/<name>/<path>.
When /repo receives fix: commits to that file, the copy silently reverts them. For every mutant
file this tool finds the historic version of the repository file it was derived from (the one
with the smallest diff), turns the mutant into a patch against that version and applies the patch
to the current version. Mutants whose patch no longer applies are reported and left alone."""
import os, subprocess, sys, difflib, tempfile
V = "/verif/mutants"
def sh(*a, **k): return subprocess.run(a, capture_output=True, text=True, **k)
def versions(rel):
    out = sh("git", "-C", "/repo", "log", "--format=%H", "--", rel).stdout.split()
    vs = []
    for h in out:
        r = sh("git", "-C", "/repo", "show", f"{h}:{rel}")
        if r.returncode == 0: vs.append((h, r.stdout))
    return vs
changed = failed = same = 0
only = sys.argv[1:] 
for prop in sorted(os.listdir(V)):
    if only and prop not in only: continue
    pd = os.path.join(V, prop)
    if not os.path.isdir(pd): continue
    for name in sorted(os.listdir(pd)):
        md = os.path.join(pd, name)
        if not os.path.isdir(md): continue
        for d, _, fs in os.walk(md):
            for f in fs:
                if not f.endswith(".go"): continue
                p = os.path.join(d, f)
                rel = os.path.relpath(p, md)
                cur_path = os.path.join("/repo", rel)
                if not os.path.exists(cur_path): continue
                mut = open(p).read()
                cur = open(cur_path).read()
                vs = versions(rel)
                if not vs: continue
                def dist(a):
                    return sum(1 for l in difflib.unified_diff(a.splitlines(), mut.splitlines(), lineterm="", n=0) if l[:1] in "+-" and l[:3] not in ("+++", "---"))
                best = min(vs, key=lambda hv: dist(hv[1]))
                if best[1] == cur:
                    same += 1
                    continue
                with tempfile.TemporaryDirectory() as td:
                    open(os.path.join(td, "base"), "w").write(best[1])
                    open(os.path.join(td, "mut"), "w").write(mut)
                    open(os.path.join(td, "cur"), "w").write(cur)
                    diff = sh("diff", "-u", os.path.join(td, "base"), os.path.join(td, "mut")).stdout
                    open(os.path.join(td, "p.diff"), "w").write(diff)
                    r = sh("patch", "--fuzz=3", "-s", "-o", os.path.join(td, "new"), os.path.join(td, "cur"), os.path.join(td, "p.diff"))
                    if r.returncode != 0 or not os.path.exists(os.path.join(td, "new")):
                        print("FAILED to rebase", p, r.stdout[:200], r.stderr[:200]); failed += 1; continue
                    new = open(os.path.join(td, "new")).read()
                    if new == cur:
                        print("WARNING: rebased mutant equals the current file (mutation lost):", p); failed += 1; continue
                    open(p, "w").write(new); changed += 1
                    print("rebased", os.path.relpath(p, V), "from", best[0][:7])
print(f"rebased={changed} already_current={same} failed={failed}")
