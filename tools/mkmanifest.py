#!/usr/bin/env python3
"""Regenerates /verif/MANIFEST.json from the table below (one row per property).
A property without a props/<id>/ directory is listed under not_applicable."""
import json, os
V = "/verif"
CHECKS = {
 "C09": dict(level="exploration", engine="enum", design="5/C09",
   technique="bounded-exhaustive enumeration of generated struct types x boundary values x byte-string mutations on the real tls codec, compared with an independent reference codec",
   text="Every struct type of 1..3 (thorough: 4) fields over a 43-kind alphabet, every boundary value, and every byte string of the mutation family is pushed through tls.Marshal/Unmarshal and an independent AST-based codec; any disagreement in accept set, value, remainder or re-encoding, any panic, and any length-bomb allocation is a violation. Exhaustive inside the stated alphabet, silent outside it.",
   note="Trusts ref/tlsref (written from RFC 5246 s4 and the documented tag grammar). Zero-width vector elements and maxlen:0 are not generated. Allocation is a coarse budget on length-bomb inputs only."),
 "C13": dict(level="exploration", engine="gate", design="5/C13",
   technique="stateless deviation-bounded DFS over all orders/contents of server answers, cancellation instants and waits, on the real retry loop under virtual time (synctest), plus a free-running race-detector pass",
   text="Every choice vector up to the deviation bound (quick 4 / 3 for two callers, thorough 5 / 4) over a 15-answer menu, 4 cancellation instants, slow-server steps and answer orders, for 1-2 callers sharing one JSON client / LogClient with cancellable and deadline contexts; each execution runs to completion in a bubble and its recorded request/answer/return timeline is checked against the statement's bounds (first parsable 200 wins, only transport errors / bad 200 bodies / 408 / 429 / 503 are retried, never earlier than Retry-After, never later than 128 s + jitter unless asked, no added delay after 408, prompt context error, converted POST never a success).",
   note="Jitter (math/rand) is not owned; oracles use only the stated bounds. Interleavings are at HTTP round-trip granularity; the shared back-off state is additionally run free under the race detector (not exhaustive). Trusts testing/synctest's virtual clock."),
 "C16": dict(level="exploration", engine="gate", design="5/C16",
   technique="stateless deviation-bounded DFS over all answer orders, short-read lengths, injected errors, log growth and Stop/cancel instants on the real Fetcher/Scanner with a gated LogClient under virtual time, plus a free-running race-detector pass",
   text="For every scenario (tree size 0..5 (thorough 7), every [start,end) incl. end=0 and end>size, batch 1-3, 1-3 parallel fetchers, matcher workers/buffer/kind, one-shot or continuous with growth steps) every choice vector within the deviation bound (quick 2, thorough 3) is executed to completion: which pending GetRawEntries/GetSTH is answered next and with what (full, each short length, 429, 500, network error), when the log grows, and Stop/cancel at any decision point. Oracle on the recorded deliveries: exactly the range, each index once, the log's bytes, right callback, no request outside the range, termination, continuous mode catches up after growth.",
   note="Interleavings at the granularity of LogClient calls; accesses in between are covered by the free-running race pass (not exhaustive). Back-off jitter is owned for continuous scenarios by seeding math/rand per execution and running them one at a time. Zero-length answers and non-positive batch/worker counts are not generated."),
}
PENDING_REASON = "check not built yet in this round (design in DESIGN.md section 5); not claimed until its machinery exists and passes on the unchanged tree"
checks, na = [], []
ids = ["C%02d" % i for i in range(1, 21)]
for i in ids:
    low = i.lower()
    if i in CHECKS and os.path.isdir(f"{V}/props/{low}"):
        c = CHECKS[i]
        checks.append({
            "property_id": i,
            "quick_cmd": f"./check {low} quick",
            "thorough_cmd": f"./check {low} thorough",
            "evidence_file": f"/verif/evidence/{i}.json",
            "replay_cmd_template": f"./check {low} --replay {{path}}",
            "engine": c["engine"],
            "level_claimed": {"category": c["level"], "text": c["text"], "design_ref": c["design"]},
            "level_note": c["note"],
            "technique": c["technique"],
        })
    else:
        na.append({"property_id": i, "reason": CHECKS.get(i, {}).get("na", PENDING_REASON)})
m = {
 "version": 1,
 "setup_cmd": "./setup.sh",
 "hooks": {
  "guard": "verif",
  "enable": "go test -c -tags verif -overlay /verif/build/overlay.json -vet=off (overlay only ADDS files listed under /verif/overlay; no hook is committed in /repo)",
  "baseline_off_cmd": "cd /repo && go test -mod=mod -vet=off -count=1 -timeout 25m ./...",
  "source_commits": [],
  "add_only": True,
 },
 "engines": [
  {"name": "enum", "path": "engine/enum", "serves_properties": [c["property_id"] for c in checks if c["engine"] == "enum"],
   "kind_free_text": "bounded-exhaustive odometer over finite alphabets on the real code, reference-model oracle"},
  {"name": "gate", "path": "engine/gate", "serves_properties": [c["property_id"] for c in checks if c["engine"] == "gate"],
   "kind_free_text": "stateless deviation-bounded DFS over environment answers/orders/virtual time inside testing/synctest bubbles (go1.26.8)"},
  {"name": "bfs", "path": "engine/bfs", "serves_properties": [c["property_id"] for c in checks if c["engine"] == "bfs"],
   "kind_free_text": "explicit-state BFS whose transition function is the real handler/method (replay on fresh instances)"},
 ],
 "checks": checks,
 "not_applicable": na,
 "notes": "All checks rebuild from /repo's working tree on every invocation (go test -c with replace => /repo). Known findings: /verif/known_findings.json.",
}
json.dump(m, open(f"{V}/MANIFEST.json", "w"), indent=1)
print("claimed:", [c["property_id"] for c in checks], "not_applicable:", len(na))
