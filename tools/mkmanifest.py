#!/usr/bin/env python3
"""Regenerates /verif/MANIFEST.json from the table below (one row per property).
A property without a props/<id>/ directory is listed under not_applicable."""
import json, os
V = "/verif"
CHECKS = {
 "C09": dict(level="exploration", engine="enum", design="5/C09",
   technique="bounded-exhaustive enumeration of generated struct types x boundary values x byte-string mutations on the real tls codec, compared with an independent reference codec",
   text="Every struct type of 1..3 (thorough: 4) fields over a 43-kind alphabet, every boundary value, and every byte string of the mutation family is pushed through tls.Marshal/Unmarshal and an independent AST-based codec; any disagreement in accept set, value, remainder or re-encoding, any panic, and any length-bomb allocation is a violation. Exhaustive inside the stated alphabet, silent outside it.",
   note="Trusts ref/tlsref (written from RFC 5246 s4 and the documented tag grammar). Zero-width vector elements and maxlen:0 are not generated. Allocation is a coarse budget on length-bomb inputs only."),
 "C13": dict(level="exploration", engine="gate", design="5/C13",
   technique="stateless deviation-bounded DFS over all orders/contents of server answers, cancellation instants and waits, on the real retry loop under virtual time (synctest), plus a free-running race-detector pass",
   text="Every choice vector up to the deviation bound (quick 4 / 3 for two callers, thorough 5 / 4) over a 15-answer menu, 4 cancellation instants, slow-server steps and answer orders, for 1-2 callers sharing one JSON client / LogClient with cancellable and deadline contexts; each execution runs to completion in a bubble and its recorded request/answer/return timeline is checked against the statement's bounds (first parsable 200 wins, only transport errors / bad 200 bodies / 408 / 429 / 503 are retried, never earlier than Retry-After, never later than 128 s + jitter unless asked, no added delay after 408, prompt context error, converted POST never a success).",
   note="Jitter (math/rand) is not owned; oracles use only the stated bounds. Interleavings are at HTTP round-trip granularity; the shared back-off state is additionally run free under the race detector (not exhaustive). Trusts testing/synctest's virtual clock."),
 "C16": dict(level="exploration", engine="gate", design="5/C16",
   technique="stateless deviation-bounded DFS over all answer orders, short-read lengths, injected errors, log growth and Stop/cancel instants on the real Fetcher/Scanner with a gated LogClient under virtual time, plus a free-running race-detector pass",
   text="For every scenario (tree size 0..5 (thorough 7), every [start,end) incl. end=0 and end>size, batch 1-3, 1-3 parallel fetchers, matcher workers/buffer/kind, one-shot or continuous with growth steps) every choice vector within the deviation bound (quick 2, thorough 3) is executed to completion: which pending GetRawEntries/GetSTH is answered next and with what (full, each short length, 429, 500, network error), when the log grows, and Stop/cancel at any decision point. Oracle on the recorded deliveries: exactly the range, each index once, the log's bytes, right callback, no request outside the range, termination, continuous mode catches up after growth.",
   note="Interleavings at the granularity of LogClient calls; accesses in between are covered by the free-running race pass (not exhaustive). Back-off jitter is owned for continuous scenarios by seeding math/rand per execution and running them one at a time. Zero-length answers and non-positive batch/worker counts are not generated."),
 "C02": dict(level="exploration", engine="enum", design="5/C02",
   technique="bounded-exhaustive enumeration of chain perturbations x admission options on ValidateChain and both submission endpoints, against an oracle computed from certificate-template metadata",
   text="Every submitted sequence within 1 (thorough: 2) perturbations (drop, swap, duplicate, insert, impostor, non-CA, renamed twin, forged signature, garbage, root present/absent) of every valid path (length 1-4) of a ~200-certificate hierarchy (4 roots, cross-signed and two-level intermediates, pre-issuer, mixed P-256/P-384/RSA/Ed25519), crossed with probe option sets, plus the full admission-option product (NotAfter window incl. +-1 s/ns boundaries, expired/unexpired at three clocks, CA-only, EKU, forbidden extensions) on unperturbed chains, through ctfe.ValidateChain + IsPrecertificate and add-chain / add-pre-chain of a real front end. Accept <=> the statement's predicate; returned path and queued leaf = submitted certificates in order + pool root.",
   note="Trusts ref/pki + ref/der builders and Go std crypto for signing. Assumes pool roots are CAs, no anyEKU leaf, byte-exact name matching, key identifiers are hints only. One recorded known finding (a pool root followed by its own cross-certificate is refused)."),
 "C04": dict(level="exploration", engine="enum", design="5/C04",
   technique="bounded-exhaustive boundary-value products and a systematic mutation family on the real codec and its callers, compared with an independent hand-written RFC 6962 codec",
   text="Every value of the per-field boundary alphabets of every RFC 6962 s3 structure (timestamps, extension/signature lengths 0..65536, cert/TBS lengths across the 1/2/3-byte boundaries incl. 2^24-1, both entry types, all 65536 algorithm codes, chains of 0/1/3, SCT-list totals around 65535) is encoded by the library and by ref/ct6962; every valid encoding x {every prefix, trailing byte, every length +-1 bare and compensated, every type/version code} is decoded by tls.Unmarshal and by every complete-parse API (RawLogEntryFromLeaf, LogEntryFromLeaf, ExtractSCT, ParseSCTsFromSCTList, ParseCertificate's SCT extension, ToSignedTreeHead, ToSignedCertificateTimestamp, base64/JSON methods); signature inputs, leaf hash, verifiers and the JSON API messages are compared with hand-written RFC forms.",
   note="Trusted base: ref/ct6962 (pinned by hand-computed vectors) and the Go standard library. Lengths strictly between the listed boundaries are not tried."),
 "C10": dict(level="exploration", engine="enum", design="5/C10",
   technique="bounded-exhaustive differential enumeration (generated target type x generated input) of the forked decoder against encoding/asn1, with an independent repair-based reference for lax mode",
   text="~2600 target types (20 leaf kinds x 16 tag-modifier sets, SEQUENCE/SET OF, nesting to depth 2 (thorough 3), field-scoped lax) are materialised for both libraries with reflect.StructOf; inputs are std-marshalled boundary values, a catalogue of documented and undocumented malformations at every TLV position plus prefixes and byte perturbations (thorough: pairs), and all strings of <=4/5 bytes over a 12-symbol alphabet. Strict fork == encoding/asn1 in verdict, value and remainder; lax contains strict identically; lax == encoding/asn1 on the input after an independent repair of exactly the three documented malformations at every nesting level; canonical DER re-marshals byte-identically; no panic; length bombs are allocation-bounded.",
   note="encoding/asn1 of the default toolchain (go1.23.5, GOTOOLCHAIN=local) is the strict oracle. The fork's documented strict-mode difference list is read as empty apart from error text. Targets are non-nil pointers."),
 "C15": dict(level="exploration", engine="enum", design="5/C15",
   technique="deviation-bounded exhaustive configuration enumeration with label-carried ground truth, validated as Go value / binary / text proto, plus real SetUpInstance runs along backend growth histories",
   text="From five valid baselines (regular, read-only, mirror, frozen, external storage) every configuration differing in <=2 (thorough <=3) of 20 fields over alphabets of absent/empty/negative/duplicate/odd values, and every small LogMultiConfig shape (backends/log sets absent, empty, duplicate, undefined), is validated by ValidateLogConfig(s)/ValidateLogMultiConfig as a Go value and after binary and text round trips through the real file loaders; accept <=> the statement's rule list over the alphabet labels, never a panic. Every accepted non-external configuration is built with the real SetUpInstance: add endpoints <=> not mirror and not read-only, a frozen log serves exactly its STH as the backend grows, a mirror never exceeds its backend tree.",
   note="External-storage instances are never opened (validation only). Values the statement leaves open (log_id 0, empty window, unknown backend enum, mysql:// with empty DSN, absent sub-messages) are held to no-panic only."),
 "C18": dict(level="exploration", engine="enum", design="5/C18",
   technique="bounded-exhaustive enumeration of windows x boundary instants x shard lists against an interval reference model, plus end-to-end routing into real per-shard front ends",
   text="Every (start, limit) window over {absent, T, T+1ns, T+0.5s, T+1s, T+10s} at three anchors (incl. negative proto seconds and the 2049/2050 switch) and Timestamp corner cases, every instant within +-1 ns / +-1 s of a bound (whole seconds also as real certificates), and every shard list of 1..3 (thorough 4) shards is run through the server's config conversion and NotAfter admission, the temporal client's construction and IndexByDate, and the log-list filter; inside(t) <=> start <= t < limit for all three; routing <=> admission for every (shard, instant), also end to end through TemporalLogClient.AddChain into one real front end per shard; list construction accepted <=> contiguous, ordered, not extending an unbounded side.",
   note="Admission and routing are only reachable at whole-second NotAfter (DER times). Empty windows (start == limit) and server-side inverted windows are treated as undetermined by the statement (must admit/choose nothing)."),
 "C17": dict(level="exploration", engine="gate", design="5/C17",
   technique="stateless deviation-bounded DFS over answer orders, late answers and caller cancellation of the real GetSCTs group races with a gated Submitter under virtual time, over every forced session order and per-log outcome; plus a free-running race-detector pass",
   text="Scenario = policy (Chrome with 2+2 and 1+2 logs, Apple with 3) x base minimum 2/3 (via the real LogsByGroup on certificates of two lifetimes) x every session order of every group forced through the public weight API x every per-log outcome in {SCT, error, hang}; per scenario every choice vector within the deviation bound (quick 1, thorough 2) over which pending submission is answered next, logs answering late and caller cancellation. Oracle from the recorded submissions: success => returned SCTs from distinct logs that issued them, no log asked twice, every policy group satisfied (independent reference); enough willing logs and no cancel => success; always terminates; prompt return after cancel. The race pass runs concurrent AddChain x RefreshRoots, GetSCTs x SetLogWeight(s), and Proxy submissions x log-list refreshes under the race detector.",
   note="Session combinations in which two group races try the same log at the same virtual instant are excluded (the winner is decided between two gate-free steps, which this engine does not enumerate). The race pass is schedule-insensitive for the accesses it executes but not exhaustive. Distributor-level log filtering is covered by C18's Compatible checks and the distributor part of this check."),
 "C05": dict(level="exploration", engine="enum", design="5/C05",
   technique="bounded-exhaustive differential verification (all keys x all 65536 algorithm-code pairs x every single-bit/field mutation of signed objects and signature values) against a reference built from std crypto primitives and hand-written RFC encoders",
   text="Eleven stored keys (RSA 1024/2048/3072, P-224/256/384/521, DSA-1024/160, Ed25519) through seven exhaustive phases: verifier construction x opt-in, all 256x256 (hash, signature) codes x honest signatures under the six hashes, every single-bit and single-field mutation of SCT(x509/precert)/STH objects in both directions, DER signature-value malformations (trailing bytes in/outside, zero/negative/non-minimal r,s, wrong tags, truncation, huge lengths, every bit flip), every signer x verifier pair, the signed log list, and the ctutil / LogInfo paths over real certificates. Library accepts <=> reference accepts; mismatch => error, never nil, never panic; construction policy as stated.",
   note="Trusted base: Go crypto and math/big. 16-byte payloads and one mutation (thorough: two). Embedded SCTs are covered by C03."),
 "C19": dict(level="model_checking", engine="bfs", design="5/C19",
   technique="explicit-state BFS over the real witness (fresh sqlite database per state, states reached by replay of the shortest operation path), every transition compared with a reference witness",
   text="State = stored raw STH per log, read back from the witness database. From every reachable state every operation of the alphabet - Update x {2 configured logs, 1 unknown id} x candidate STHs from an honest and a forked Merkle tree family (sizes 0..5 (thorough 6), other timestamp, right/wrong embedded id, flipped signature, other log's key, unknown key, non-JSON) x 9 proof kinds (correct, empty, for other sizes, other family, truncated, padded, random, duplicated hash), GetSTH, GetLogs - is run on the real code both directly and through the HTTP server and compared with a reference (a map + RFC 6962 consistency verification): applied <=> valid signature for that log and (nothing held or genuine verified extension); refused updates leave every row unchanged and stale/inconsistent ones are answered with the held STH; every cosignature verifies under the witness key over the STH it accompanies.",
   note="The witness keeps no state outside its database table (asserted by reading the code), so rows are restored between the transitions of one expansion. Concurrent updates are serialised by the single-connection pool of the production setting; interleavings of concurrent updates are not yet explored."),
 "C20": dict(level="exploration", engine="gate", design="5/C20",
   technique="stateless deviation-bounded DFS over source/destination answer orders and faults, source growth, cancellation, mastership loss and restarts, on the real migration Controller with a gated HTTP source log and a gated reference pre-ordered backend under virtual time",
   text="Scenario = source size x destination state {empty, honest prefix 1/2, full, ahead, 2-entry prefix of a fork} x batch 1-3 x fetchers/submitters 1-2 x channel size x identity function x one-shot / continuous with growth x Run / RunWhenMaster with a scripted election x restart on the left-over destination; per scenario every choice vector within the deviation bound (quick 2, thorough 3) over which pending source request or destination RPC is answered next and how (full, each short read, 429, 500, network error, bad STH signature, wrong consistency proof, lagging destination root, ResourceExhausted, Internal, DeadlineExceeded). Oracle on the recorded AddSequencedLeaves stream and the final destination: index i holds exactly source i with the configured identity hash; nothing at or beyond the largest validly signed STH served in the pass; no write past a non-empty destination root without an honest consistency proof (none at all on a forked destination); ResourceExhausted retried with the identical request; other destination errors end the pass; successful runs leave no gap; continuous mode catches up after growth.",
   note="The real client.LogClient verifies the STH signatures with the source key. The destination is ref/reflog in pre-ordered mode (first writer wins). Back-off jitter is not owned; retries differing only by jitter are presented together. Interleavings at the granularity of HTTP round trips / RPCs."),
 "C11": dict(level="exploration", engine="enum", design="5/C11",
   technique="bounded-exhaustive template product plus per-TLV-node mutation enumeration through all parser entry points, differential against crypto/x509 of the toolchain, with a coherence-class oracle",
   text="(a) 40960 (thorough 1.97 M) certificate templates = full product of 12 on/off features x 5 basic-constraints shapes x 2 independent conforming encoders, plus rich der-only certificates, CRLs, keys and CSRs, must parse without error and agree field by field with crypto/x509, raw fields being exact sub-slices of the input; (b) every seed x every TLV node x a 44-kind structure-preserving mutation catalogue (thorough: lax-kind second mutation) through all 13 entry points: no panic, no hang, (object, error) in {(obj,nil),(obj,non-fatal),(nil,fatal)} with no nil elements, returned objects survive the package's own methods; (c) ParseCertificates on concatenations gives the per-certificate outcome of ParseCertificate.",
   note="crypto/x509 + encoding/asn1 of go1.23.5 (GOTOOLCHAIN=local) are the field-value reference. Termination is observed as 'returns within 60 s'. Exact raw offsets are demanded only where TLV framing is unambiguous."),
}
PENDING_REASON = "check not built yet in this round (design in DESIGN.md section 5); not claimed until its machinery exists and passes on the unchanged tree"
checks, na = [], []
ids = ["C%02d" % i for i in range(1, 21)]
for i in ids:
    low = i.lower()
    if i in CHECKS and os.path.isdir(f"{V}/props/{low}"):
        c = CHECKS[i]
        checks.append({
            "property_id": i,
            "quick_cmd": f"./check {low} quick",
            "thorough_cmd": f"./check {low} thorough",
            "evidence_file": f"/verif/evidence/{i}.json",
            "replay_cmd_template": f"./check {low} --replay {{path}}",
            "engine": c["engine"],
            "level_claimed": {"category": c["level"], "text": c["text"], "design_ref": c["design"]},
            "level_note": c["note"],
            "technique": c["technique"],
        })
    else:
        na.append({"property_id": i, "reason": CHECKS.get(i, {}).get("na", PENDING_REASON)})
m = {
 "version": 1,
 "setup_cmd": "./setup.sh",
 "hooks": {
  "guard": "verif",
  "enable": "go test -c -tags verif -overlay /verif/build/overlay.json -vet=off (overlay only ADDS files listed under /verif/overlay; no hook is committed in /repo)",
  "baseline_off_cmd": "cd /repo && go test -mod=mod -vet=off -count=1 -timeout 25m ./...",
  "source_commits": [],
  "add_only": True,
 },
 "engines": [
  {"name": "enum", "path": "engine/enum", "serves_properties": [c["property_id"] for c in checks if c["engine"] == "enum"],
   "kind_free_text": "bounded-exhaustive odometer over finite alphabets on the real code, reference-model oracle"},
  {"name": "gate", "path": "engine/gate", "serves_properties": [c["property_id"] for c in checks if c["engine"] == "gate"],
   "kind_free_text": "stateless deviation-bounded DFS over environment answers/orders/virtual time inside testing/synctest bubbles (go1.26.8)"},
  {"name": "bfs", "path": "engine/bfs", "serves_properties": [c["property_id"] for c in checks if c["engine"] == "bfs"],
   "kind_free_text": "explicit-state BFS whose transition function is the real handler/method (replay on fresh instances)"},
 ],
 "checks": checks,
 "not_applicable": na,
 "notes": "All checks rebuild from /repo's working tree on every invocation (go test -c with replace => /repo). Known findings: /verif/known_findings.json.",
}
json.dump(m, open(f"{V}/MANIFEST.json", "w"), indent=1)
print("claimed:", [c["property_id"] for c in checks], "not_applicable:", len(na))
