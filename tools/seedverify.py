#!/usr/bin/env python3
"""seedverify.py <prop> <A|B> [--tier quick|thorough] [--checks c01,c02,...]
Confirms a seeded change delivered by a seeder sub-agent in /tmp/seed/<prop>/out/<X>/ in that
scratch worktree (compiles, existing tests of the touched + named packages pass, the demo fails
with the change and passes without), then runs the property's check against it through the build
overlay (VERIF_MUTANT; /repo is not touched) and stores everything under /verif/seeded/<PROP>-<X>/."""
import json, os, re, shutil, subprocess, sys
prop, var = sys.argv[1], sys.argv[2]
tier = "quick"
checks = [prop]
a = sys.argv[3:]
while a:
    if a[0] == "--tier": tier = a[1]; a = a[2:]
    elif a[0] == "--checks": checks = a[1].split(","); a = a[2:]
    else: a = a[1:]
W = {"A": "/tmp/seed", "B": "/tmp/seed", "C": "/tmp/seed2", "D": "/tmp/seed2", "E": "/tmp/seed3", "F": "/tmp/seed3", "G": "/tmp/seed4", "H": "/tmp/seed4"}.get(var, "/tmp/seed5") + f"/{prop}"; O = f"{W}/out/{var}"
env = dict(os.environ, GOFLAGS="-mod=mod", GOPROXY="off")
env.pop("GOSUMDB", None); env.pop("GOTOOLCHAIN", None)
def sh(cmd, cwd=W, timeout=1800):
    r = subprocess.run(cmd, shell=True, cwd=cwd, env=env, capture_output=True, text=True, timeout=timeout)
    return r.returncode, (r.stdout + r.stderr)
meta = json.load(open(f"{O}/meta.json"))
res = {"property": prop.upper(), "variant": var, "title": meta.get("title"), "what_it_breaks": meta.get("what_it_breaks"), "needs_to_manifest": meta.get("needs_to_manifest")}
sh("git checkout -q -- . && git clean -fdq -e out -e PROPERTY.txt -e KNOWN.txt")
rc, out = sh(f"git apply --check out/{var}/patch.diff")
if rc: print("patch does not apply:", out); sys.exit(2)
files = re.findall(r"^\+\+\+ b/(\S+)", open(f"{O}/patch.diff").read(), re.M)
res["files_changed"] = files
pkgs = sorted({"./" + os.path.dirname(f) + "/" if os.path.dirname(f) else "." for f in files})
named = re.findall(r"(?<![\w/])(\./[\w/]+/?(?:\.\.\.)?|(?<=\s)\.(?=\s))", meta.get("existing_tests_run", ""))
def haspkg(p):
    d = os.path.join(W, p.replace("...", "").rstrip("/") or ".")
    return os.path.isdir(d) and (p.endswith("...") or any(f.endswith(".go") for f in os.listdir(d)))
allp = sorted(set(pkgs) | {p for p in named if haspkg(p)})
demo = meta.get("demo", "")
m = re.search(r"(?:to|as)\s+`?(?:<repo root>/|the repo(?:sitory)? root as\s+)?`?([\w./-]+_test\.go)`?", demo)
dest = m.group(1) if m else None
m = re.search(r"-run[ =]+['\"]?([\w|^$()]+)", demo)
cmd = None
if m and dest:
    pkg = "./" + os.path.dirname(dest) + "/" if os.path.dirname(dest) else "."
    cmd = f"go test -count=1 {'-race ' if '-race' in demo else ''}-run '{m.group(1)}' {pkg}"
demo_src = [f for f in os.listdir(O) if f.endswith("_test.go") or f.endswith(".go")]
if not dest or not cmd or not demo_src:
    print("cannot parse demo instructions:", demo); sys.exit(2)
# 1. with the change
sh(f"git apply out/{var}/patch.diff")
rc_b, out_b = sh("go build ./... 2>&1 | tail -5")
rc_t, out_t = sh("go test -count=1 " + " ".join(allp) + " 2>&1 | grep -v 'no test files' | tail -25", timeout=3600)
tests_ok = "FAIL" not in out_t and "ok" in out_t
if not tests_ok:
    # the repository has wall-clock tests (client TestAddChainRetries) that fail under machine load: re-run the failing packages alone, once
    failing = sorted(set(re.findall(r"^FAIL\s+github.com/google/certificate-transparency-go(\S*)", out_t, re.M)))
    if failing:
        rc_t2, out_t2 = sh("go test -count=1 -p 1 " + " ".join("." + f if f else "." for f in failing) + " 2>&1 | grep -v 'no test files' | tail -25", timeout=3600)
        if "FAIL" not in out_t2 and "ok" in out_t2:
            tests_ok = True
            res["existing_tests_note"] = "first run failed in %s under load; passed when re-run alone" % failing
res["existing_tests_cmd"] = "go test -count=1 " + " ".join(allp)
res["existing_tests_pass_with_change"] = tests_ok
shutil.copy(f"{O}/{demo_src[0]}", f"{W}/{dest}")
rc_d1, out_d1 = sh(cmd + " 2>&1 | tail -15")
demo_fails = "FAIL" in out_d1 or "panic" in out_d1
res["demo_cmd"] = cmd; res["demo_file"] = dest
res["demo_fails_with_change"] = demo_fails
# keep mutated files for the overlay
sd = f"/verif/seeded/{prop.upper()}-{var}"
shutil.rmtree(sd, ignore_errors=True); os.makedirs(f"{sd}/files", exist_ok=True)
for f in files:
    os.makedirs(os.path.dirname(f"{sd}/files/{f}"), exist_ok=True); shutil.copy(f"{W}/{f}", f"{sd}/files/{f}")
# /repo may have received fix commits since the seeder's worktree was cut: re-apply the patch to the
# current /repo versions of the touched files so the overlay carries the seeded change and nothing else
stage = f"/verif/build/seedrun/{prop}-{var}/stage"; shutil.rmtree(stage, ignore_errors=True)
for f in files:
    os.makedirs(os.path.dirname(f"{stage}/{f}"), exist_ok=True); shutil.copy(f"/repo/{f}", f"{stage}/{f}")
rp = subprocess.run(f"patch -p1 -s -N --no-backup-if-mismatch < {O}/patch.diff", shell=True, cwd=stage, capture_output=True, text=True)
res["patch_reapplied_to_current_repo"] = rp.returncode == 0
if rp.returncode == 0:
    for f in files: shutil.copy(f"{stage}/{f}", f"{sd}/files/{f}")
else:
    print("note: patch does not re-apply to current /repo; using the seeder worktree's files:", (rp.stdout + rp.stderr)[-300:])
shutil.rmtree(stage, ignore_errors=True)
# 2. without the change
os.remove(f"{W}/{dest}")
sh("git checkout -q -- .")
shutil.copy(f"{O}/{demo_src[0]}", f"{W}/{dest}")
rc_d0, out_d0 = sh(cmd + " 2>&1 | tail -8")
demo_passes = ("ok" in out_d0) and "FAIL" not in out_d0
res["demo_passes_without_change"] = demo_passes
os.remove(f"{W}/{dest}")
sh("git checkout -q -- . && git clean -fdq -e out -e PROPERTY.txt -e KNOWN.txt")
shutil.copy(f"{O}/patch.diff", f"{sd}/patch.diff"); shutil.copy(f"{O}/{demo_src[0]}", f"{sd}/{demo_src[0]}")
res["confirmed"] = bool(tests_ok and demo_fails and demo_passes)
if not res["confirmed"]:
    res["confirm_output"] = {"tests": out_t[-1500:], "demo_with": out_d1[-800:], "demo_without": out_d0[-800:]}
# 3. our checks, through the overlay
res["checks"] = {}
for c in checks:
    e2 = dict(os.environ, VERIF_OUT=f"/verif/build/seedrun/{prop}-{var}/{c}", VERIF_MUTANT=",".join(f"{f}={sd}/files/{f}" for f in files))
    r = subprocess.run(["/verif/check", c, tier], capture_output=True, text=True, env=e2, cwd="/verif")
    sigs = re.findall(r'sig="((?:[^"\\]|\\.)*)"', r.stdout)
    res["checks"][c.upper()] = {"tier": tier, "exit": r.returncode, "detected": r.returncode == 1 and bool(sigs), "signatures": sigs[:5],
                                "summary": [l for l in r.stdout.splitlines() if re.match(r"C\d+ (quick|thorough):", l) or "BUILD-FAILED" in l][:2]}
res["detected_by"] = [c for c, v in res["checks"].items() if v["detected"]]
m2 = dict(meta); m2["verification"] = res
json.dump(m2, open(f"{sd}/meta.json", "w"), indent=1)
print(json.dumps({k: res[k] for k in ("property", "variant", "title", "confirmed", "existing_tests_pass_with_change", "demo_fails_with_change", "demo_passes_without_change", "detected_by")}))
for c, v in res["checks"].items(): print("  ", c, v["exit"], v["signatures"][:2], v["summary"])
