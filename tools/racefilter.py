#!/usr/bin/env python3
"""racefilter.py <ID> <id> <rc> <stdout-log> [race report files...]
Parses Go race detector reports of the free-running pass (Engine D), keeps those with a frame in a
file listed in props/<id>/race/ANCHORS, prints VIOLATION / KNOWN-FINDING lines, merges a race_pass
section into the evidence file. Exit 1 iff an unlisted race on anchored state was reported."""
import sys, re, json, os, hashlib
ID, low, rc, outlog = sys.argv[1], sys.argv[2], int(sys.argv[3]), sys.argv[4]
files = sys.argv[5:]
anchors = [l.strip() for l in open(f"/verif/props/{low}/race/ANCHORS") if l.strip() and not l.startswith("#")]
text = ""
for f in files:
    if os.path.exists(f):
        text += open(f, errors="replace").read() + "\n"
out = open(outlog, errors="replace").read() if os.path.exists(outlog) else ""
runs = 0
m = re.search(r"RACE-PASS runs=(\d+)", out)
if m: runs = int(m.group(1))
reports = [r for r in text.split("==================") if "WARNING: DATA RACE" in r]
known = {}
try:
    for f in json.load(open("/verif/known_findings.json")).get("findings", []):
        if f["property"] == ID: known[f["signature"]] = f["what"]
except Exception:
    pass
sigs = {}
for r in reports:
    # access stacks: the two blocks starting with Read/Write/Previous
    blocks = re.split(r"\n\n", r)
    acc = [b for b in blocks if re.match(r"\s*(WARNING: DATA RACE\n)?\s*(Read|Write|Previous|Atomic)", b.strip())]
    frames = []
    for b in acc[:2]:
        fs = re.findall(r"^\s+(\S+)\(.*\)\n\s+(\S+?):(\d+)", b, re.M)
        fr = None
        for fn, path, line in fs:
            # the innermost frame inside the repository under test (frames of the toolchain's standard library, of
            # third-party modules and of the harness are skipped: a race on a hash state or an LRU list is attributed
            # to the repository code that shares the object)
            if not path.startswith("/repo/"):
                continue
            fr = (fn.split("/")[-1], path.replace("/repo/", ""))
            break
        frames.append(fr)
    hit = any(fr and any(a in fr[1] for a in anchors) for fr in frames)
    if not hit:
        sigs.setdefault("__elsewhere__", []).append(r)
        continue
    names = sorted(fr[0] for fr in frames if fr)
    sig = "data-race " + " / ".join(names)
    sigs.setdefault(sig, []).append(r)
status = 0
OUT = os.environ.get("VERIF_OUT") or "/verif"
os.makedirs(f"{OUT}/replays/{ID}", exist_ok=True)
unknown = 0
for sig, rs in sorted(sigs.items()):
    if sig == "__elsewhere__": continue
    if sig in known:
        print(f"KNOWN-FINDING: property={ID} {known[sig]} [{sig}] ({len(rs)} reports)")
        continue
    unknown += 1
    p = f"{OUT}/replays/{ID}/race-{hashlib.sha256(sig.encode()).hexdigest()[:12]}.txt"
    open(p, "w").write(rs[0])
    print(f'VIOLATION property={ID} replay={p} sig="{sig}" cases={len(rs)} :: the race detector reports an unsynchronised access on anchored state in the free-running pass')
    status = 1
m = re.search(r"^RACE-PASS STUCK.*$", out, re.M)
if m:
    sig = "free-running pass: operations of the code under test never return (deadlock)"
    if sig in known:
        print(f"KNOWN-FINDING: property={ID} {known[sig]} [{sig}]")
    else:
        p = f"{OUT}/replays/{ID}/race-stuck.txt"
        open(p, "w").write(out[-20000:])
        print(f'VIOLATION property={ID} replay={p} sig="{sig}" cases=1 :: {m.group(0)[:300]}')
        status = 1; unknown += 1
    rc = 66
inconclusive = rc == 99
if inconclusive:
    print(f"{ID} race-pass: the race-detector runtime aborted (internal CHECK / crash outside the code under test) in every attempt; pass inconclusive, no alarm")
elif rc not in (0, 1, 66) and not reports:
    print(f"check {ID}: race pass ended abnormally rc={rc}, see {outlog}")
    status = max(status, 3)
ev = f"{OUT}/evidence/{ID}.json"
if os.path.exists(ev):
    e = json.load(open(ev))
    e["coverage"]["race_pass"] = {"free_running_runs": runs, "reports_total": len(reports), "reports_on_anchored_files": sum(len(v) for k, v in sigs.items() if k != "__elsewhere__"),
        "anchors": anchors, "signatures": sorted(k for k in sigs if k != "__elsewhere__"), "exhaustive": False, "inconclusive_tsan_abort": inconclusive,
        "note": "race detector on free-running scenario bodies; schedule-insensitive for the accesses executed, not exhaustive"}
    if unknown:
        e["violations"] = e.get("violations", 0) + unknown
    json.dump(e, open(ev, "w"), indent=1)
print(f"{ID} race-pass: runs={runs} reports={len(reports)} anchored_signatures={len([k for k in sigs if k != '__elsewhere__'])}")
sys.exit(status)
