#!/bin/bash
# repotest_mutant.sh <prop> <name> <pkg...> : run the repository's own tests of pkgs with the mutant overlaid
prop=$1; name=$2; shift 2
cd /verif
m=""
while IFS= read -r f; do rel=${f#mutants/$prop/$name/}; m="$m,$rel=/verif/$f"; done < <(find "mutants/$prop/$name" -type f -name '*.go')
mkdir -p build/tmp; ov=build/tmp/ov.$prop.$name.json
echo '{"Replace":{}}' > /dev/null
VERIF_MUTANT="${m#,}" python3 - > $ov <<'PY'
import json, os
rep = {}
for part in filter(None, os.environ.get("VERIF_MUTANT","").split(",")):
    tgt, src = part.split("=")
    rep[os.path.join("/repo", tgt)] = src
print(json.dumps({"Replace": rep}))
PY
cd /repo && GOFLAGS=-mod=mod go test -vet=off -count=1 -overlay /verif/$ov "$@" 2>&1 | tail -5
rm -f /verif/$ov
