#!/bin/bash
# seedpair.sh <prop> <X> <Y> <checks> : verify two seeded changes of one property one after the other (they share a worktree)
cd /verif
p=$1; x=$2; y=$3; c=${4:-$p}
for v in $x $y; do python3 tools/seedverify.py $p $v --checks $c > build/seedverify-$p-$v.log 2>&1; echo "== $p $v exit $?"; tail -4 build/seedverify-$p-$v.log | cut -c1-400; done
