#!/usr/bin/env python3
"""Regenerates section 8.1 of DESIGN.md from /verif/seeded/*/meta.json."""
import json, glob, os, re
NOTES = {
 "C02-B": "missed at first; C02 gained malformed-poison variants `05 00 05 00` and `05 81 00`",
 "C03-A": "missed by quick at first (full-form AKI was thorough-only); now in quick",
 "C05-B": "missed at first; C05 gained the combined family 'extra elements inside the SEQUENCE and bytes after it'",
 "C06-A": "missed at first; C06 gained the operation 'backend re-publishes the same tree with a later timestamp' (with get-sth polled before)",
 "C07-B": "missed at first; C07 gained the disconnecting-client pass (failing ResponseWriter, then follow-up requests)",
 "C09-A": "missed at first; C09 gained vectors of select() structs with repeated arms, vectors whose later elements are shorter, and decoding into a reused destination",
 "C10-B": "missed at first; C10's integer alphabets gained every -2^(8k-1) boundary",
 "C12-A": "missed at first; C12 gained sessions of 3-4 calls on one client instance",
 "C13-A": "missed at first; C13's menu gained a Retry-After above the 128 s cap",
 "C13-B": "missed at first; C13's menu gained a transport-level timeout error (errors.Is(err, context.DeadlineExceeded)) with a live caller context",
 "C14-A": "neutralised by fix 94192e0 (hash re-check): with the fix the change no longer breaks the property (its demonstration passes); on the pre-fix tree C14 reports it as `[unparseable-row]`",
 "C02-E": "C02 itself missed it at first (C18 caught it); C02's live pass gained leaves with NotAfter in 2300 and 9999",
 "C02-F": "C02 itself missed it at first (C15 caught it); C02 gained the several-logs-per-process pass (roots files narrow / wide / narrow)",
 "C07-F": "missed at first; C07's stored entries gained a certificate the lenient parser accepts with a non-fatal remark",
 "C09-F": "missed at first; C09 gained the 80 layouts of two selectors with interleaved variant fields",
 "C12-E": "missed at first; C12 gained sessions that submit the same precertificate under another issuer certificate",
 "C14-E": "missed at first; C14's fixtures gained a cross-certified root (one issuing CA, two paths above it) and the group `cross`",
 "C15-E": "missed at first; C15's frozen-STH alphabet gained the genuine signature next to altered size / timestamp / root",
 "C15-F": "missed at first; C15's mirror history gained a lagging backend (later roots smaller than earlier ones)",
 "C01-F": "C01 missed it; C02 gained the path-history pass (chains sharing their first certificates submitted to one instance) and catches it",
 "C03-F": "missed at first; C03 now asks about the same final certificate under another issuer certificate (real, other, real)",
 "C06-E": "missed at first; C06's BFS gained the operation `signfail` (a get-sth while the signer refuses to sign)",
 "C11-E": "missed at first; C11's unknown extensions now rotate over OIDs adjacent to known ones",
 "C17-E": "missed at first; C17 gained the family roots/refreshed-twice",
 "C20-E": "missed at first; C20's source may now publish between two get-sth calls of a one-shot pass",
 "C20-F": "missed at first (empty answers were excluded as outside 'from one up to'); C16 and C20 now answer with an empty entry list as a fault",
 "C02-G": "missed at first; C02 gained two trust anchors with the same subject and key",
 "C02-H": "missed at first; C02 gained a lenient-only certificate (non-minimal serial, via ref/pki SerialContent) followed by extra bytes",
 "C03-H": "missed at first; C03 marks the certificate's own AKI critical in half of the layouts",
 "C05-G": "missed at first; C05 signs digests of the other linked hashes under neighbouring code points",
 "C05-H": "missed at first; C05's log-list cases gained appended line terminators and genuine signatures ending in LF / CR",
 "C06-H": "missed at first; C06 gained `signfail1` (one failing call to the signer)",
 "C08-G": "missed at first; C08's error faults gained unassigned gRPC codes",
 "C11-G": "missed at first; C11 gained critical single-kind SAN certificates with an empty subject",
 "C12-H": "missed at first; C12 gained the TemporalLogClient.GetAcceptedRoots pass",
 "C14-H": "missed at first (drivers were not exercised); C14 gained the SQL driver pass over go-sqlmock",
 "C15-G": "C15 itself missed it at first (C18 caught it); C15's timestamps gained 0001-01-01T00:00:00Z",
 "C15-H": "missed at first; C15 hands accepted PostgreSQL connection strings to the storage constructor",
 "C16-H": "missed at first; C16 gained unparsable entries inside batches",
 "C17-G": "missed at first; C17's answers gained (nil, nil)",
 "C17-H": "missed at first; C17 refuses a negative weight before every scenario and checks group membership",
 "C19-H": "missed at first; C19 now demands the held STH in every 409",
 "C20-G": "missed at first; C20 gained continuous scenarios with a non-zero end_index",
 "C20-H": "missed at first; C20 requires an equal-size forked destination to be reported (also in continuous mode)",
 "C16-A": "missed at first; C16's callback now retains the batches and re-reads them after the scan",
 "C01-D": "missed at first; ref/pki gained RSA keys published with a non-canonical SubjectPublicKeyInfo, used as issuers in C01 and C03",
 "C02-C": "missed at first (every pass pinned `now`); C02 gained the live-instance pass: real SetUpInstance from a LogConfig in a synctest bubble, one instance submitted to before and after the leaves' NotAfter",
 "C02-D": "missed at first (filters were injected as options, not parsed from a configuration); caught by the live-instance pass with 2-3 reject_extensions in every order",
 "C04-D": "missed at first; C04 now holds x509util.ParseSCTsFromCertificate (DER, PEM) to the accept set of the two-step route",
 "C06-C": "C06 itself missed it at first (it computed the client's leaf hash with ctutil, which shares the server's code); C06 now compares the stored issuer_key_hash with the template's",
 "C10-C": "missed at first; C10 gained the reused-destination pass (ordered pairs of valid encodings into one variable) and slices whose first elements differ",
 "C10-D": "missed at first; C10's mutations gained base-128 numbers of 10 and 11 octets that wrap a 64-bit accumulator",
 "C12-D": "missed at first; C12's body-read errors gained the cut at the full body length",
 "C13-C": "missed at first; C13 gained scenarios with a server that keeps failing (window reaches the cap) and a prompt server with owned jitter",
 "C13-D": "missed at first; C13's menu gained the empty 200 body",
 "C14-C": "missed at first; C14 gained 'the request's context ends while its backend read is in flight'",
 "C14-D": "missed at first; C14 gained the two-logs-of-one-process pass with caches from the real constructor",
 "C16-C": "missed at first; C16 gained slow-consumer scenarios (every callback invocation is a gate)",
 "C16-D": "missed at first; C16's answers gained a per-request transport timeout that matches context.DeadlineExceeded",
 "C18-D": "missed at first; C18 now also places windows around the wall clock",
 "C19-C": "missed at first; C19's alphabet gained alias spellings of a configured log id",
 "C01-I": "missed at first; ref/pki gained a P-256 log key whose public coordinate has a leading zero octet, used by C01 on reduced shapes",
 "C03-J": "missed at first; C03's OID neighbours gained the CT arcs under another first arc",
 "C04-J": "missed at first; C04's JSON inputs gained string-escape spellings of base64 characters",
 "C10-I": "missed at first; C10 gained strings under tags numbered like universal string types",
 "C10-J": "missed at first; C10's strings gained non-ASCII code points whose low bytes are printable",
 "C11-I": "missed at first; C11's EC private keys gained zero-padded scalars",
 "C14-I": "missed at first; C14 gained the bound-2 scenario in which a second writer overtakes a failing first writer",
 "C16-I": "missed at first; C16 requires a continuous scan not to end by itself",
 "C16-J": "missed at first; C16's get-sth answers gained HTTP 429 / 404",
 "C17-J": "C18 missed it (C17 caught it once the proxy pass existed); C17 gained the proxy pass over log-list update sequences",
 "C18-J": "missed at first; C18 writes log-list interval bounds with zone offsets at year boundaries",
 "C20-I": "C20's answers gained a server-side Canceled (from the seeder's description, before the first verification run)",
 "C01-K": "missed at first (C14 caught it); C01 and C07 gained a trusted root submitted on its own",
 "C01-L": "missed at first; C01 (and C12) gained precert signing certificates with several EKUs",
 "C02-K": "missed at first; C02 gained leaves carrying the public key that CheckSignatureFrom exempts from the CA test",
 "C03-L": "missed at first; C03's embedded lists gained repeated SCTs",
 "C05-L": "missed at first; C05 gained tree heads at field boundaries (empty tree with an arbitrary root hash)",
 "C06-K": "C06 itself cannot show it (it needs a lagging backend replica); caught by C08's tree-smaller-than-needed faults and by C14",
 "C06-L": "C06 itself runs the default chain storage; caught by C14 (external storage, both read routes) and C08",
 "C07-K": "C07 itself runs the default chain storage; caught by C14 (get-entry-and-proof of a one-leaf tree)",
 "C07-L": "C07 itself missed it at first (C14 caught it); C07's histories gained roots submitted on their own",
 "C08-K": "missed at first; C08 gained replies with several proofs, one of them ill-formed",
 "C09-K": "missed at first; C09 gained selectors of every width with arm values up to 2^64-1",
 "C10-L": "missed at first; C10 gained parameter strings with their parts in another order",
 "C11-K": "missed at first; C11 gained critical name constraints over all pairings of permitted / excluded lists",
 "C12-K": "missed at first; C12 gained get-entries batches of every length around likely thresholds",
 "C12-L": "missed at first; C12 gained a precert signing certificate with several EKUs",
 "C13-K": "missed at first; C13 gained the client-wide Retry-After lower bound",
 "C13-L": "missed at first; C13's menu gained ~100 kB bodies",
 "C16-L": "missed at first; C16 gained leaf-level matchers over entries whose certificate bytes do not parse",
 "C17-L": "missed at first; C17's proxy pass gained content-changing list editions with unchanged / absent version",
 "C20-K": "missed at first; C20's source gained precertificate entries and entries with a non-fatal parser remark",
 "C20-L": "missed at first; C20 gained quota streaks of 3-5 answers and the oracle run-failed-although-nothing-went-wrong",
}
rows = []
for f in sorted(glob.glob("/verif/seeded/*/meta.json")):
    m = json.load(open(f)); v = m.get("verification", {})
    sid = os.path.basename(os.path.dirname(f))
    det = v.get("checks", {})
    by = ", ".join(f"{c} ({'; '.join(s[:70] for s in d['signatures'][:1])})" for c, d in det.items() if d.get("detected")) or "**not detected**"
    if v.get("not_a_violation"):
        by = "not a violation of the properties as stated (see meta.json)"
    conf = "yes" if v.get("confirmed") else "NO"
    rows.append(f"| {sid} | {(m.get('title') or '')[:110]} | {(m.get('needs_to_manifest') or '')[:150].replace('|','/')} | {conf} | {by.replace('|','/')} | {NOTES.get(sid, '')} |")
table = "| id | change (seeded by an independent sub-agent) | needs in order to manifest | confirmed (tests pass, demo fails with / passes without) | caught by (quick tier; first signature) | note |\n|---|---|---|---|---|---|\n" + "\n".join(rows)
n = len(rows); miss = sum(1 for r in rows if "**not detected**" in r); nav = sum(1 for r in rows if "not a violation of the properties" in r)
table += f"\n\n{n} seeded changes; {nav} judged not to violate the stated properties; of the other {n - nav}, {n - nav - miss} are caught by the registered quick checks; {len([k for k in NOTES])} of them only after the check was strengthened as noted (the strengthening generalises the class, e.g. cross-call state on one instance, boundary values of an alphabet, faults on the response path — not the individual change)."
d = open("/verif/DESIGN.md").read()
if "SEED_TABLE_PLACEHOLDER" in d:
    d = d.replace("SEED_TABLE_PLACEHOLDER", "<!-- seedtable:begin -->\n" + table + "\n<!-- seedtable:end -->")
else:
    d = re.sub(r"<!-- seedtable:begin -->.*?<!-- seedtable:end -->", lambda _: "<!-- seedtable:begin -->\n" + table + "\n<!-- seedtable:end -->", d, flags=re.S)
open("/verif/DESIGN.md", "w").write(d)
print(n, "seeds,", miss, "undetected")
