#!/usr/bin/env python3
"""Regenerates section 8.1 of DESIGN.md from /verif/seeded/*/meta.json."""
import json, glob, os, re
NOTES = {
 "C02-B": "missed at first; C02 gained malformed-poison variants `05 00 05 00` and `05 81 00`",
 "C03-A": "missed by quick at first (full-form AKI was thorough-only); now in quick",
 "C05-B": "missed at first; C05 gained the combined family 'extra elements inside the SEQUENCE and bytes after it'",
 "C06-A": "missed at first; C06 gained the operation 'backend re-publishes the same tree with a later timestamp' (with get-sth polled before)",
 "C07-B": "missed at first; C07 gained the disconnecting-client pass (failing ResponseWriter, then follow-up requests)",
 "C09-A": "missed at first; C09 gained vectors of select() structs with repeated arms, vectors whose later elements are shorter, and decoding into a reused destination",
 "C10-B": "missed at first; C10's integer alphabets gained every -2^(8k-1) boundary",
 "C12-A": "missed at first; C12 gained sessions of 3-4 calls on one client instance",
 "C13-A": "missed at first; C13's menu gained a Retry-After above the 128 s cap",
 "C13-B": "missed at first; C13's menu gained a transport-level timeout error (errors.Is(err, context.DeadlineExceeded)) with a live caller context",
 "C16-A": "missed at first; C16's callback now retains the batches and re-reads them after the scan",
}
rows = []
for f in sorted(glob.glob("/verif/seeded/*/meta.json")):
    m = json.load(open(f)); v = m.get("verification", {})
    sid = os.path.basename(os.path.dirname(f))
    det = v.get("checks", {})
    by = ", ".join(f"{c} ({'; '.join(s[:70] for s in d['signatures'][:1])})" for c, d in det.items() if d.get("detected")) or "**not detected**"
    conf = "yes" if v.get("confirmed") else "NO"
    rows.append(f"| {sid} | {(m.get('title') or '')[:110]} | {(m.get('needs_to_manifest') or '')[:150].replace('|','/')} | {conf} | {by.replace('|','/')} | {NOTES.get(sid, '')} |")
table = "| id | change (seeded by an independent sub-agent) | needs in order to manifest | confirmed (tests pass, demo fails with / passes without) | caught by (quick tier; first signature) | note |\n|---|---|---|---|---|---|\n" + "\n".join(rows)
n = len(rows); miss = sum(1 for r in rows if "**not detected**" in r)
table += f"\n\n{n} seeded changes, {n - miss} caught by the registered quick checks; {len([k for k in NOTES])} of them only after the check was strengthened as noted (the strengthening generalises the class, e.g. cross-call state on one instance, boundary values of an alphabet, faults on the response path — not the individual change)."
d = open("/verif/DESIGN.md").read()
if "SEED_TABLE_PLACEHOLDER" in d:
    d = d.replace("SEED_TABLE_PLACEHOLDER", "<!-- seedtable:begin -->\n" + table + "\n<!-- seedtable:end -->")
else:
    d = re.sub(r"<!-- seedtable:begin -->.*?<!-- seedtable:end -->", lambda _: "<!-- seedtable:begin -->\n" + table + "\n<!-- seedtable:end -->", d, flags=re.S)
open("/verif/DESIGN.md", "w").write(d)
print(n, "seeds,", miss, "undetected")
