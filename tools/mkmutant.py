#!/usr/bin/env python3
"""mkmutant.py <prop> <name> <repo-relative-file> <old> <new> [count]
Writes /verif/mutants/<prop>/<name>/<file> = repo file with old replaced by new (exactly `count` times, default 1)."""
import sys, os
prop, name, rel, old, new = sys.argv[1:6]
cnt = int(sys.argv[6]) if len(sys.argv) > 6 else 1
s = open(os.path.join("/repo", rel)).read()
if s.count(old) < 1:
    sys.exit("pattern not found in " + rel)
if cnt == 1 and s.count(old) != 1:
    sys.exit("pattern occurs %d times in %s" % (s.count(old), rel))
s = s.replace(old, new, cnt)
out = os.path.join("/verif/mutants", prop, name, rel)
os.makedirs(os.path.dirname(out), exist_ok=True)
open(out, "w").write(s)
print(out)
