#!/bin/bash
# runmutant.sh <prop> <name> [tier]  : run the check with every file under mutants/<prop>/<name>/ overlaid on /repo
prop=$1; name=$2; tier=${3:-quick}
cd /verif
m=""
while IFS= read -r f; do rel=${f#mutants/$prop/$name/}; m="$m,$rel=/verif/$f"; done < <(find "mutants/$prop/$name" -type f -name '*.go')
# evidence and replays of a mutant run never go to /verif/evidence or /verif/replays
VERIF_OUT="${VERIF_OUT:-/verif/build/mutantrun/$prop-$name}" VERIF_MUTANT="${m#,}" ./check "$prop" "$tier"
