#!/usr/bin/env python3
"""Emit the go build -overlay JSON: every file under /verif/overlay/<rel> is
*added* at /repo/<rel>.  Only additions: a check never replaces a repository
file (mutants for the self-test pass VERIF_MUTANT=<file>=<replacement>)."""
import json, os, sys
root = "/verif/overlay"
rep = {}
for d, _, fs in os.walk(root):
    for f in fs:
        p = os.path.join(d, f)
        rel = os.path.relpath(p, root)
        tgt = os.path.join("/repo", rel)
        if os.path.exists(tgt):
            sys.exit("overlay would replace existing repository file " + tgt)
        rep[tgt] = p
m = os.environ.get("VERIF_MUTANT", "")
for part in filter(None, m.split(",")):
    tgt, src = part.split("=")
    rep[os.path.join("/repo", tgt)] = os.path.abspath(src)
print(json.dumps({"Replace": rep}, indent=1))
