#!/bin/bash
# seedqueue.sh <queuefile> : worker; pops "prop X Y checks" lines (flock) and runs seedpair; ends at a line "END"
q=$1
while :; do
  line=$(flock $q.lock bash -c "head -n1 $q 2>/dev/null; sed -i 1d $q 2>/dev/null")
  if [ -z "$line" ]; then sleep 20; continue; fi
  [ "$line" = END ] && { echo END >> $q; exit 0; }
  /verif/tools/seedpair.sh $line
done
