#!/usr/bin/env python3
"""seedrecheck.py [ID-X ...] [--par N]
Re-runs the registered quick checks against every stored seeded change (or the ones named) without
the seeder's worktree: patch.diff is re-applied to copies of /repo's current files (so /repo fix
commits made since are kept), the result goes through the build overlay (VERIF_MUTANT), /repo is not
touched. Updates verification.checks / detected_by in seeded/<ID-X>/meta.json."""
import json, os, re, shutil, subprocess, sys, glob
from concurrent.futures import ThreadPoolExecutor
args = sys.argv[1:]; par = 3
if "--par" in args:
    i = args.index("--par"); par = int(args[i + 1]); del args[i:i + 2]
ids = args or sorted(os.path.basename(os.path.dirname(f)) for f in glob.glob("/verif/seeded/*/meta.json"))
def one(sid):
    sd = f"/verif/seeded/{sid}"; meta = json.load(open(f"{sd}/meta.json")); v = meta["verification"]
    files = v["files_changed"]
    stage = f"/verif/build/seedrun/{sid}/stage"; shutil.rmtree(stage, ignore_errors=True)
    for f in files:
        os.makedirs(os.path.dirname(f"{stage}/{f}"), exist_ok=True); shutil.copy(f"/repo/{f}", f"{stage}/{f}")
    rp = subprocess.run(f"patch -p1 -s -N --no-backup-if-mismatch < {sd}/patch.diff", shell=True, cwd=stage, capture_output=True, text=True)
    if rp.returncode == 0:
        for f in files: shutil.copy(f"{stage}/{f}", f"{sd}/files/{f}")
    shutil.rmtree(stage, ignore_errors=True)
    checks = list(v.get("checks", {}).keys()) or [sid.split("-")[0]]
    out = {}
    for c in checks:
        e2 = dict(os.environ, VERIF_OUT=f"/verif/build/seedrun/{sid}/{c.lower()}", VERIF_MUTANT=",".join(f"{f}={sd}/files/{f}" for f in files))
        r = subprocess.run(["/verif/check", c.lower(), "quick"], capture_output=True, text=True, env=e2, cwd="/verif")
        sigs = re.findall(r'sig="((?:[^"\\]|\\.)*)"', r.stdout)
        out[c.upper()] = {"tier": "quick", "exit": r.returncode, "detected": r.returncode == 1 and bool(sigs), "signatures": sigs[:5],
                          "summary": [l for l in r.stdout.splitlines() if re.match(r"C\d+ (quick|thorough):", l) or "BUILD-FAILED" in l][:2]}
    v["checks"] = out; v["detected_by"] = [c for c, x in out.items() if x["detected"]]; v["patch_reapplied_to_current_repo"] = rp.returncode == 0
    json.dump(meta, open(f"{sd}/meta.json", "w"), indent=1)
    return sid, v["detected_by"], rp.returncode == 0
with ThreadPoolExecutor(par) as ex:
    for sid, by, ok in ex.map(one, ids):
        print(sid, "detected_by=", by, "" if ok else "(patch did not re-apply; stored files used)", flush=True)
