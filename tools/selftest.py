#!/usr/bin/env python3
"""selftest.py [prop ...] : run every mutant under /verif/mutants/<prop>/<name>/ through the
property's quick check (overlay, /repo untouched, evidence of the unchanged tree untouched) and
record in /verif/selftest.json whether it was caught and by which signatures."""
import json, os, subprocess, sys, re, time, concurrent.futures as cf
V = "/verif"
props = sys.argv[1:] or sorted(d for d in os.listdir(f"{V}/mutants") if os.path.isdir(f"{V}/mutants/{d}") and os.path.isdir(f"{V}/props/{d}"))
jobs = []
for p in props:
    for name in sorted(os.listdir(f"{V}/mutants/{p}")):
        md = f"{V}/mutants/{p}/{name}"
        if not os.path.isdir(md): continue
        files = []
        for d, _, fs in os.walk(md):
            for f in fs:
                if f.endswith(".go"):
                    files.append(os.path.relpath(os.path.join(d, f), md))
        if files: jobs.append((p, name, files))
def run(job):
    p, name, files = job
    out = f"{V}/build/selftest/{p}/{name}"
    os.makedirs(out, exist_ok=True)
    env = dict(os.environ, VERIF_OUT=out, VERIF_MUTANT=",".join(f"{f}={V}/mutants/{p}/{name}/{f}" for f in files))
    t0 = time.time()
    # private binary name is not possible (driver builds build/bin/<id>.test): serialise per property
    r = subprocess.run([f"{V}/check", p, "quick"], capture_output=True, text=True, env=env, cwd=V)
    sigs = re.findall(r'sig="((?:[^"\\]|\\.)*)"', r.stdout)
    return dict(property=p.upper(), mutant=name, files=files, exit=r.returncode, caught=(r.returncode == 1 and bool(sigs)),
                build_failed=("BUILD-FAILED" in r.stdout), signatures=sigs[:6], wall_s=round(time.time() - t0, 1))
res = []
# one property at a time per worker (the driver's binary path is per property)
byprop = {}
for j in jobs: byprop.setdefault(j[0], []).append(j)
def runprop(p): return [run(j) for j in byprop[p]]
with cf.ThreadPoolExecutor(max_workers=int(os.environ.get("SELFTEST_PAR", "3"))) as ex:
    for rs in ex.map(runprop, list(byprop)):
        res += rs
        for r in rs: print(("CAUGHT " if r["caught"] else "ESCAPED") , r["property"], r["mutant"], r["signatures"][:1], flush=True)
old = {}
if os.path.exists(f"{V}/selftest.json"):
    for r in json.load(open(f"{V}/selftest.json"))["results"]: old[(r["property"], r["mutant"])] = r
for r in res: old[(r["property"], r["mutant"])] = r
allr = sorted(old.values(), key=lambda r: (r["property"], r["mutant"]))
json.dump({"note": "deliberate property-breaking changes (whole-file mutants applied through the build overlay) and whether the property's quick check reports a violation", "total": len(allr), "caught": sum(1 for r in allr if r["caught"]), "results": allr}, open(f"{V}/selftest.json", "w"), indent=1)
print("total", len(allr), "caught", sum(1 for r in allr if r["caught"]))
