// genkeys writes the fixed test keys of ref/pki (run once; output is committed).
package main

import (
	"crypto/ecdsa"
	"crypto/ed25519"
	"crypto/elliptic"
	"crypto/rand"
	"crypto/rsa"
	"crypto/x509"
	"encoding/pem"
	"fmt"
	"os"
)

func write(name string, k any) {
	b, err := x509.MarshalPKCS8PrivateKey(k)
	if err != nil {
		panic(err)
	}
	p := pem.EncodeToMemory(&pem.Block{Type: "PRIVATE KEY", Bytes: b})
	if err := os.WriteFile("/verif/ref/pki/keys/"+name+".pem", p, 0o644); err != nil {
		panic(err)
	}
}

func main() {
	for i := 0; i < 10; i++ {
		k, _ := ecdsa.GenerateKey(elliptic.P256(), rand.Reader)
		write(fmt.Sprintf("p256-%d", i), k)
	}
	for i := 0; i < 2; i++ {
		k, _ := ecdsa.GenerateKey(elliptic.P384(), rand.Reader)
		write(fmt.Sprintf("p384-%d", i), k)
	}
	for i := 0; i < 3; i++ {
		k, _ := rsa.GenerateKey(rand.Reader, 2048)
		write(fmt.Sprintf("rsa2048-%d", i), k)
	}
	for i := 0; i < 2; i++ {
		_, k, _ := ed25519.GenerateKey(rand.Reader)
		write(fmt.Sprintf("ed25519-%d", i), k)
	}
}
