#!/bin/bash
# setup_cmd: builds every check's test binary once (warms the Go build cache for
# both toolchains) from files on disk only.
cd /verif || exit 1
export GOFLAGS=-mod=mod GOPROXY=off GOSUMDB=off GOTOOLCHAIN=local CGO_ENABLED=1
mkdir -p build/bin build/tmp evidence replays
python3 tools/mkoverlay.py > build/overlay.json || exit 1
rc=0
for d in props/c*/; do
  id=$(basename "$d"); GO=go
  [ -f "$d/TOOLCHAIN" ] && GO=$(cat "$d/TOOLCHAIN")
  ( $GO test -c -tags verif -overlay build/overlay.json -vet=off -o "build/bin/$id.test" "./props/$id" || echo "setup: build of $id failed" ) &
  if [ -d "$d/race" ]; then
    ( $GO test -c -race -tags verif -overlay build/overlay.json -vet=off -o "build/bin/$id.race.test" "./props/$id/race" || echo "setup: race build of $id failed" ) &
  fi
  # at most 4 concurrent go builds
  while [ "$(jobs -r | wc -l)" -ge 4 ]; do sleep 0.5; done
done
wait
ls build/bin | wc -l
exit $rc
