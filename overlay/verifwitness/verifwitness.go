//go:build verif

// Package verifwitness is the second half of the verification hook: it lives
// outside every `internal` directory and forwards to verifx.
package verifwitness

import (
	"net/http"

	"github.com/google/certificate-transparency-go/internal/witness/api"
	"github.com/google/certificate-transparency-go/internal/witness/cmd/witness/verifx"
	"github.com/google/certificate-transparency-go/internal/witness/verifier"
)

type (
	Witness         = verifx.Witness
	Opts            = verifx.Opts
	CosignedSTH     = api.CosignedSTH
	UpdateRequest   = api.UpdateRequest
	WitnessVerifier = verifier.WitnessVerifier
)

var (
	New                = verifx.New
	NewWitnessVerifier = verifier.NewWitnessVerifier
)

const (
	HTTPGetSTH  = api.HTTPGetSTH
	HTTPUpdate  = api.HTTPUpdate
	HTTPGetLogs = api.HTTPGetLogs
)

// NewHandler returns the witness HTTP API for w.
func NewHandler(w *Witness) http.Handler { return verifx.NewRouter(w) }
