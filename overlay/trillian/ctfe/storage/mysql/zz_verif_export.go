//go:build verif

package mysql

import "database/sql"

// VerifNewWithDB builds the storage over an already opened database handle (the exported
// constructor dials the server and exits the process on failure).
func VerifNewWithDB(db *sql.DB) *IssuanceChainStorage { return &IssuanceChainStorage{db: db} }
