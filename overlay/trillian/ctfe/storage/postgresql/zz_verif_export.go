//go:build verif

package postgresql

import "database/sql"

// VerifNewWithDB builds the storage over an already opened database handle.
func VerifNewWithDB(db *sql.DB) *IssuanceChainStorage { return &IssuanceChainStorage{db: db} }
