//go:build verif

// Verification hook, injected at build time with `go build -overlay` by /verif
// (never committed to the repository). It only ADDS declarations: constructors
// that reach the unexported wiring of a log instance so that a check can inject
// the trust pool, signer, clock and issuance-chain service.
package ctfe

import (
	"context"
	"crypto"

	ct "github.com/google/certificate-transparency-go"
	"github.com/google/certificate-transparency-go/asn1"
	"github.com/google/certificate-transparency-go/trillian/ctfe/cache"
	"github.com/google/certificate-transparency-go/trillian/ctfe/storage"
	"github.com/google/certificate-transparency-go/trillian/util"
	"github.com/google/trillian/monitoring"
)

// VerifParams describes an instance to build around the real newLogInfo / Handlers.
type VerifParams struct {
	Opts       InstanceOptions // Validated.Config (LogId, Prefix, IsMirror, IsReadonly), Client, Deadline, RequestLog, MaskInternalErrors ...
	Validation CertValidationOpts
	RejectExt  []asn1.ObjectIdentifier
	Signer     crypto.Signer
	TimeSource util.TimeSource
	// Store == nil selects the default in-backend chain layout; otherwise the
	// external-storage service is built from Store and Cache.
	Store storage.IssuanceChainStorage
	Cache cache.IssuanceChainCache
}

// VerifNewInstance builds an Instance exactly as setUpLogInfo does after it has
// loaded its inputs.
func VerifNewInstance(p VerifParams) *Instance {
	if p.Opts.MetricFactory == nil {
		p.Opts.MetricFactory = monitoring.InertMetricFactory{}
	}
	if p.Opts.RequestLog == nil {
		p.Opts.RequestLog = new(DefaultRequestLog)
	}
	v := p.Validation
	if p.RejectExt != nil {
		v.rejectExtIds = p.RejectExt
	}
	var svc leafChainBuilder = &directIssuanceChainService{}
	if p.Store != nil {
		svc = newIndirectIssuanceChainService(p.Store, p.Cache)
	}
	li := newLogInfo(p.Opts, v, p.Signer, p.TimeSource, svc)
	return &Instance{Handlers: li.Handlers(p.Opts.Validated.Config.Prefix), STHGetter: li.sthGetter, li: li}
}

// VerifGetSTH calls the instance's internal get-sth path.
func (i *Instance) VerifGetSTH(ctx context.Context) (*ct.SignedTreeHead, error) {
	return i.li.getSTH(ctx)
}

// VerifSetRejectExt sets the forbidden extension list on validation options
// (NewCertValidationOpts has no parameter for it).
func VerifSetRejectExt(v CertValidationOpts, ids []asn1.ObjectIdentifier) CertValidationOpts {
	v.rejectExtIds = ids
	return v
}
