//go:build verif

// Package verifx is a verification hook added at build time through
// `go build -overlay` (never committed to the repository). It re-exports the
// doubly-internal witness package and its HTTP server so that a check outside
// this module path can drive the real code. Declarations only.
package verifx

import (
	ih "github.com/google/certificate-transparency-go/internal/witness/cmd/witness/internal/http"
	"github.com/google/certificate-transparency-go/internal/witness/cmd/witness/internal/witness"
	"github.com/gorilla/mux"
)

type (
	Witness = witness.Witness
	Opts    = witness.Opts
)

var New = witness.New

// NewRouter returns a router serving the witness HTTP API for w.
func NewRouter(w *witness.Witness) *mux.Router {
	r := mux.NewRouter().UseEncodedPath()
	ih.NewServer(w).RegisterHandlers(r)
	return r
}
