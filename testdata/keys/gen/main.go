// Command gen creates the fixed key and certificate material used by the C05
// check (and usable by other checks). It is run ONCE by hand:
//
//	cd /verif && go run ./testdata/keys/gen /verif/testdata/keys
//
// and its output is committed, so that no check run pays for key generation
// and every run sees the same bytes. Only the Go standard library is used.
//
// Files written (PEM):
//
//	rsa1024 rsa2048 rsa2048b rsa3072            PKCS#8 "PRIVATE KEY"
//	p224 p256 p256b p384 p521 ca cab            PKCS#8 "PRIVATE KEY"
//	ed25519                                     PKCS#8 "PRIVATE KEY"
//	dsa1024                                     OpenSSL "DSA PRIVATE KEY" (SEQUENCE{0,p,q,g,y,x})
//	<name>.pub.pem                              PKIX "PUBLIC KEY" (DSA: hand-built SPKI)
//	certs.pem                                   CERTIFICATE blocks with a "name" header:
//	    ca, cab      self-signed CAs (P-256 keys ca / cab)
//	    leaf, leaf2  end-entity certificates issued by ca
//	    precert      as "final" plus the critical CT poison extension (issued by ca)
//	    final        the same TBSCertificate as precert without the poison extension
package main

import (
	"crypto"
	"crypto/dsa"
	"crypto/ecdsa"
	"crypto/ed25519"
	"crypto/elliptic"
	"crypto/rand"
	"crypto/rsa"
	"crypto/x509"
	"crypto/x509/pkix"
	"encoding/asn1"
	"encoding/pem"
	"fmt"
	"math/big"
	"os"
	"path/filepath"
	"time"
)

func must(err error) {
	if err != nil {
		panic(err)
	}
}

var dir string

func writePEM(name, typ string, der []byte, hdr map[string]string) {
	must(os.WriteFile(filepath.Join(dir, name), pem.EncodeToMemory(&pem.Block{Type: typ, Bytes: der, Headers: hdr}), 0o644))
}

func storeKey(name string, priv crypto.Signer) {
	der, err := x509.MarshalPKCS8PrivateKey(priv)
	must(err)
	writePEM(name+".pem", "PRIVATE KEY", der, nil)
	pub, err := x509.MarshalPKIXPublicKey(priv.Public())
	must(err)
	writePEM(name+".pub.pem", "PUBLIC KEY", pub, nil)
}

type dsaPriv struct {
	Version       int
	P, Q, G, Y, X *big.Int
}

type algID struct {
	Algorithm asn1.ObjectIdentifier
	Params    struct{ P, Q, G *big.Int }
}

type spki struct {
	Alg algID
	Key asn1.BitString
}

func main() {
	if len(os.Args) != 2 {
		fmt.Println("usage: gen <output dir>")
		os.Exit(2)
	}
	dir = os.Args[1]
	must(os.MkdirAll(dir, 0o755))

	for _, n := range []struct {
		name string
		bits int
	}{{"rsa1024", 1024}, {"rsa2048", 2048}, {"rsa2048b", 2048}, {"rsa3072", 3072}} {
		k, err := rsa.GenerateKey(rand.Reader, n.bits)
		must(err)
		storeKey(n.name, k)
	}
	ec := map[string]*ecdsa.PrivateKey{}
	for _, n := range []struct {
		name string
		c    elliptic.Curve
	}{{"p224", elliptic.P224()}, {"p256", elliptic.P256()}, {"p256b", elliptic.P256()}, {"p384", elliptic.P384()},
		{"p521", elliptic.P521()}, {"ca", elliptic.P256()}, {"cab", elliptic.P256()}} {
		k, err := ecdsa.GenerateKey(n.c, rand.Reader)
		must(err)
		ec[n.name] = k
		storeKey(n.name, k)
	}
	_, ed, err := ed25519.GenerateKey(rand.Reader)
	must(err)
	storeKey("ed25519", ed)

	var dk dsa.PrivateKey
	must(dsa.GenerateParameters(&dk.Parameters, rand.Reader, dsa.L1024N160))
	must(dsa.GenerateKey(&dk, rand.Reader))
	der, err := asn1.Marshal(dsaPriv{0, dk.P, dk.Q, dk.G, dk.Y, dk.X})
	must(err)
	writePEM("dsa1024.pem", "DSA PRIVATE KEY", der, nil)
	yDER, err := asn1.Marshal(dk.Y)
	must(err)
	var sp spki
	sp.Alg.Algorithm = asn1.ObjectIdentifier{1, 2, 840, 10040, 4, 1}
	sp.Alg.Params.P, sp.Alg.Params.Q, sp.Alg.Params.G = dk.P, dk.Q, dk.G
	sp.Key = asn1.BitString{Bytes: yDER, BitLength: 8 * len(yDER)}
	der, err = asn1.Marshal(sp)
	must(err)
	writePEM("dsa1024.pub.pem", "PUBLIC KEY", der, nil)

	// certificates
	nb := time.Date(2026, 1, 1, 0, 0, 0, 0, time.UTC)
	na := time.Date(2036, 1, 1, 0, 0, 0, 0, time.UTC)
	var blocks []byte
	add := func(name string, der []byte) {
		blocks = append(blocks, pem.EncodeToMemory(&pem.Block{Type: "CERTIFICATE", Bytes: der, Headers: map[string]string{"name": name}})...)
	}
	mkCA := func(name, cn string, serial int64) *x509.Certificate {
		t := &x509.Certificate{SerialNumber: big.NewInt(serial), Subject: pkix.Name{CommonName: cn, Organization: []string{"verif"}},
			NotBefore: nb, NotAfter: na, IsCA: true, BasicConstraintsValid: true, KeyUsage: x509.KeyUsageCertSign}
		der, err := x509.CreateCertificate(rand.Reader, t, t, ec[name].Public(), ec[name])
		must(err)
		add(name, der)
		c, err := x509.ParseCertificate(der)
		must(err)
		return c
	}
	ca := mkCA("ca", "verif test CA", 1)
	mkCA("cab", "verif test CA B", 2)
	leafKey := ec["p256b"]
	leafT := func(serial int64, dns string) *x509.Certificate {
		return &x509.Certificate{SerialNumber: big.NewInt(serial), Subject: pkix.Name{CommonName: dns}, DNSNames: []string{dns},
			NotBefore: nb, NotAfter: na, KeyUsage: x509.KeyUsageDigitalSignature, ExtKeyUsage: []x509.ExtKeyUsage{x509.ExtKeyUsageServerAuth}}
	}
	for _, l := range []struct {
		name   string
		serial int64
		dns    string
		poison bool
	}{{"leaf", 100, "leaf.example.com", false}, {"leaf2", 101, "leaf2.example.com", false},
		{"precert", 102, "pre.example.com", true}, {"final", 102, "pre.example.com", false}} {
		t := leafT(l.serial, l.dns)
		if l.poison {
			t.ExtraExtensions = []pkix.Extension{{Id: asn1.ObjectIdentifier{1, 3, 6, 1, 4, 1, 11129, 2, 4, 3}, Critical: true, Value: []byte{0x05, 0x00}}}
		}
		der, err := x509.CreateCertificate(rand.Reader, t, ca, leafKey.Public(), ec["ca"])
		must(err)
		add(l.name, der)
	}
	must(os.WriteFile(filepath.Join(dir, "certs.pem"), blocks, 0o644))
	fmt.Println("written to", dir)
}
