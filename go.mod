module verif

go 1.23.0

require github.com/google/certificate-transparency-go v0.0.0

require (
	github.com/DATA-DOG/go-sqlmock v1.5.2
	github.com/fullstorydev/grpcurl v1.9.3
	github.com/go-sql-driver/mysql v1.9.1
	github.com/golang/mock v1.6.0
	github.com/google/go-cmp v0.7.0
	github.com/google/trillian v1.7.1
	github.com/gorilla/mux v1.8.1
	github.com/hashicorp/golang-lru/v2 v2.0.7
	github.com/jackc/pgx/v5 v5.7.4
	github.com/kylelemons/godebug v1.1.0
	github.com/mattn/go-sqlite3 v1.14.26
	github.com/prometheus/client_golang v1.21.1
	github.com/rs/cors v1.11.1
	github.com/sergi/go-diff v1.3.1
	github.com/spf13/cobra v1.9.1
	github.com/spf13/pflag v1.0.6
	github.com/tomasen/realip v0.0.0-20180522021738-f0c99a92ddce
	github.com/transparency-dev/merkle v0.0.2
	go.etcd.io/etcd/client/v3 v3.5.21
	go.etcd.io/etcd/etcdctl/v3 v3.5.21
	go.etcd.io/etcd/v3 v3.5.21
	golang.org/x/crypto v0.36.0
	golang.org/x/net v0.38.0
	golang.org/x/time v0.11.0
	google.golang.org/genproto/googleapis/rpc v0.0.0-20250115164207-1a7da9e5054f
	google.golang.org/grpc v1.71.1
	google.golang.org/protobuf v1.36.6
	gopkg.in/yaml.v3 v3.0.1
	k8s.io/klog/v2 v2.130.1
)

require (
	bitbucket.org/creachadair/shell v0.0.8 // indirect
	cel.dev/expr v0.19.1 // indirect
	cloud.google.com/go/auth v0.13.0 // indirect
	cloud.google.com/go/auth/oauth2adapt v0.2.6 // indirect
	cloud.google.com/go/compute/metadata v0.6.0 // indirect
	cloud.google.com/go/monitoring v1.21.2 // indirect
	cloud.google.com/go/trace v1.11.2 // indirect
	contrib.go.opencensus.io/exporter/stackdriver v0.13.14 // indirect
	filippo.io/edwards25519 v1.1.0 // indirect
	github.com/aws/aws-sdk-go v1.51.8 // indirect
	github.com/beorn7/perks v1.0.1 // indirect
	github.com/bgentry/speakeasy v0.1.0 // indirect
	github.com/bufbuild/protocompile v0.14.1 // indirect
	github.com/cenkalti/backoff/v4 v4.3.0 // indirect
	github.com/census-instrumentation/opencensus-proto v0.4.1 // indirect
	github.com/cespare/xxhash/v2 v2.3.0 // indirect
	github.com/cncf/xds/go v0.0.0-20241223141626-cff3c89139a3 // indirect
	github.com/coreos/go-semver v0.3.1 // indirect
	github.com/coreos/go-systemd/v22 v22.5.0 // indirect
	github.com/cpuguy83/go-md2man/v2 v2.0.6 // indirect
	github.com/dustin/go-humanize v1.0.1 // indirect
	github.com/envoyproxy/go-control-plane/envoy v1.32.4 // indirect
	github.com/envoyproxy/protoc-gen-validate v1.2.1 // indirect
	github.com/felixge/httpsnoop v1.0.4 // indirect
	github.com/go-logr/logr v1.4.2 // indirect
	github.com/go-logr/stdr v1.2.2 // indirect
	github.com/gogo/protobuf v1.3.2 // indirect
	github.com/golang-jwt/jwt/v4 v4.5.2 // indirect
	github.com/golang/groupcache v0.0.0-20210331224755-41bb18bfe9da // indirect
	github.com/golang/protobuf v1.5.4 // indirect
	github.com/google/btree v1.1.3 // indirect
	github.com/google/s2a-go v0.1.8 // indirect
	github.com/google/uuid v1.6.0 // indirect
	github.com/googleapis/enterprise-certificate-proxy v0.3.4 // indirect
	github.com/googleapis/gax-go/v2 v2.14.0 // indirect
	github.com/gorilla/websocket v1.5.1 // indirect
	github.com/grpc-ecosystem/go-grpc-middleware v1.4.0 // indirect
	github.com/grpc-ecosystem/go-grpc-prometheus v1.2.0 // indirect
	github.com/grpc-ecosystem/grpc-gateway v1.16.0 // indirect
	github.com/grpc-ecosystem/grpc-gateway/v2 v2.19.1 // indirect
	github.com/inconshreveable/mousetrap v1.1.0 // indirect
	github.com/jackc/pgpassfile v1.0.0 // indirect
	github.com/jackc/pgservicefile v0.0.0-20240606120523-5a60cdf6a761 // indirect
	github.com/jackc/puddle/v2 v2.2.2 // indirect
	github.com/jhump/protoreflect v1.17.0 // indirect
	github.com/jmespath/go-jmespath v0.4.1-0.20220621161143-b0104c826a24 // indirect
	github.com/jonboulle/clockwork v0.4.0 // indirect
	github.com/json-iterator/go v1.1.12 // indirect
	github.com/klauspost/compress v1.17.11 // indirect
	github.com/letsencrypt/pkcs11key/v4 v4.0.0 // indirect
	github.com/lib/pq v1.10.9 // indirect
	github.com/mattn/go-runewidth v0.0.13 // indirect
	github.com/miekg/pkcs11 v1.1.1 // indirect
	github.com/modern-go/concurrent v0.0.0-20180306012644-bacd9c7ef1dd // indirect
	github.com/modern-go/reflect2 v1.0.2 // indirect
	github.com/munnerz/goautoneg v0.0.0-20191010083416-a7dc8b61c822 // indirect
	github.com/olekukonko/tablewriter v0.0.5 // indirect
	github.com/planetscale/vtprotobuf v0.6.1-0.20240319094008-0393e58bdf10 // indirect
	github.com/prometheus/client_model v0.6.1 // indirect
	github.com/prometheus/common v0.62.0 // indirect
	github.com/prometheus/procfs v0.15.1 // indirect
	github.com/prometheus/prometheus v0.51.0 // indirect
	github.com/rivo/uniseg v0.4.4 // indirect
	github.com/russross/blackfriday/v2 v2.1.0 // indirect
	github.com/sirupsen/logrus v1.9.3 // indirect
	github.com/soheilhy/cmux v0.1.5 // indirect
	github.com/tmc/grpc-websocket-proxy v0.0.0-20220101234140-673ab2c3ae75 // indirect
	github.com/urfave/cli v1.22.14 // indirect
	github.com/xiang90/probing v0.0.0-20221125231312-a49e3df8f510 // indirect
	go.etcd.io/bbolt v1.3.11 // indirect
	go.etcd.io/etcd/api/v3 v3.5.21 // indirect
	go.etcd.io/etcd/client/pkg/v3 v3.5.21 // indirect
	go.etcd.io/etcd/client/v2 v2.305.21 // indirect
	go.etcd.io/etcd/etcdutl/v3 v3.5.21 // indirect
	go.etcd.io/etcd/pkg/v3 v3.5.21 // indirect
	go.etcd.io/etcd/raft/v3 v3.5.21 // indirect
	go.etcd.io/etcd/server/v3 v3.5.21 // indirect
	go.etcd.io/etcd/tests/v3 v3.5.21 // indirect
	go.opencensus.io v0.24.0 // indirect
	go.opentelemetry.io/auto/sdk v1.1.0 // indirect
	go.opentelemetry.io/contrib/instrumentation/google.golang.org/grpc/otelgrpc v0.54.0 // indirect
	go.opentelemetry.io/contrib/instrumentation/net/http/otelhttp v0.54.0 // indirect
	go.opentelemetry.io/otel v1.34.0 // indirect
	go.opentelemetry.io/otel/exporters/otlp/otlptrace v1.24.0 // indirect
	go.opentelemetry.io/otel/exporters/otlp/otlptrace/otlptracegrpc v1.24.0 // indirect
	go.opentelemetry.io/otel/metric v1.34.0 // indirect
	go.opentelemetry.io/otel/sdk v1.34.0 // indirect
	go.opentelemetry.io/otel/trace v1.34.0 // indirect
	go.opentelemetry.io/proto/otlp v1.1.0 // indirect
	go.uber.org/multierr v1.11.0 // indirect
	go.uber.org/zap v1.27.0 // indirect
	golang.org/x/mod v0.22.0 // indirect
	golang.org/x/oauth2 v0.25.0 // indirect
	golang.org/x/sync v0.12.0 // indirect
	golang.org/x/sys v0.31.0 // indirect
	golang.org/x/text v0.23.0 // indirect
	golang.org/x/tools v0.29.0 // indirect
	google.golang.org/api v0.214.0 // indirect
	google.golang.org/genproto v0.0.0-20241118233622-e639e219e697 // indirect
	google.golang.org/genproto/googleapis/api v0.0.0-20250106144421-5f5ef82da422 // indirect
	gopkg.in/cheggaaa/pb.v1 v1.0.28 // indirect
	gopkg.in/natefinch/lumberjack.v2 v2.2.1 // indirect
	sigs.k8s.io/yaml v1.4.0 // indirect
)

replace github.com/google/certificate-transparency-go => /repo
