// Package reflog is a reference Trillian-like log backend, written from the
// documented behaviour of the Trillian log RPC API: identity-hash
// de-duplication that echoes the *stored* leaf, an explicit sequencing step,
// log roots with nanosecond timestamps, range reads, RFC 6962 proofs computed
// by ref/merkle, and AddSequencedLeaves for pre-ordered trees. It implements
// trillian.TrillianLogClient so the CT front end can be wired to it in-process.
// Every request is recorded; a Hook can replace any reply (fault injection).
package reflog

import (
	"bytes"
	"context"
	"fmt"
	"sort"
	"sync"

	"verif/ref/merkle"

	"github.com/google/trillian"
	"github.com/google/trillian/types"
	"google.golang.org/genproto/googleapis/rpc/status"
	"google.golang.org/grpc"
	"google.golang.org/grpc/codes"
	gstatus "google.golang.org/grpc/status"
	"google.golang.org/protobuf/proto"
)

// Call is one recorded request.
type Call struct {
	Method string
	Req    proto.Message
}

// Hook may intercept a call. If handled is true, (resp, err) is returned to the
// caller instead of the reference behaviour. next() computes the reference reply.
type Hook func(method string, req proto.Message, next func() (proto.Message, error)) (resp proto.Message, err error)

type Log struct {
	mu        sync.Mutex
	TreeID    int64
	seq       []*trillian.LogLeaf          // integrated leaves, index order
	queue     []*trillian.LogLeaf          // queued, not yet integrated (normal mode)
	byID      map[string]*trillian.LogLeaf // identity hash -> stored leaf (normal mode)
	pre       map[int64]*trillian.LogLeaf  // pre-ordered mode: leaves by index, possibly beyond the integrated prefix
	Preorder  bool
	rootNanos uint64
	revision  uint64
	calls     []Call
	hook      Hook
}

func New(treeID int64) *Log {
	return &Log{TreeID: treeID, byID: map[string]*trillian.LogLeaf{}, pre: map[int64]*trillian.LogLeaf{}, rootNanos: 1}
}

func (l *Log) SetHook(h Hook) { l.mu.Lock(); l.hook = h; l.mu.Unlock() }

// Calls returns a copy of the recorded calls; Reset clears them.
func (l *Log) Calls() []Call {
	l.mu.Lock()
	defer l.mu.Unlock()
	return append([]Call{}, l.calls...)
}
func (l *Log) ResetCalls() { l.mu.Lock(); l.calls = nil; l.mu.Unlock() }

// CallsOf filters recorded calls by method.
func (l *Log) CallsOf(method string) []Call {
	var out []Call
	for _, c := range l.Calls() {
		if c.Method == method {
			out = append(out, c)
		}
	}
	return out
}

// Size is the integrated tree size; Queued the number of pending leaves.
func (l *Log) Size() int   { l.mu.Lock(); defer l.mu.Unlock(); return len(l.seq) }
func (l *Log) Queued() int { l.mu.Lock(); defer l.mu.Unlock(); return len(l.queue) }

// QueuedValues returns the LeafValue of the queued (not yet integrated) leaves in queue order.
func (l *Log) QueuedValues() [][]byte {
	l.mu.Lock()
	defer l.mu.Unlock()
	var out [][]byte
	for _, lf := range l.queue {
		out = append(out, append([]byte{}, lf.LeafValue...))
	}
	return out
}

// Leaf returns the integrated leaf at index i.
func (l *Log) Leaf(i int) *trillian.LogLeaf {
	l.mu.Lock()
	defer l.mu.Unlock()
	return proto.Clone(l.seq[i]).(*trillian.LogLeaf)
}

// Sequence integrates up to k queued leaves (k < 0: all) in queue order and
// publishes a new root with the given timestamp. In pre-ordered mode it
// integrates the contiguous run of stored indices (at most k).
func (l *Log) Sequence(k int, rootNanos uint64) int {
	l.mu.Lock()
	defer l.mu.Unlock()
	n := 0
	if l.Preorder {
		for k < 0 || n < k {
			lf, ok := l.pre[int64(len(l.seq))]
			if !ok {
				break
			}
			l.seq = append(l.seq, lf)
			n++
		}
	} else {
		for len(l.queue) > 0 && (k < 0 || n < k) {
			lf := l.queue[0]
			l.queue = l.queue[1:]
			lf.LeafIndex = int64(len(l.seq))
			l.seq = append(l.seq, lf)
			n++
		}
	}
	l.rootNanos = rootNanos
	l.revision++
	return n
}

// SetRootTime republishes the root with a new timestamp.
func (l *Log) SetRootTime(ns uint64) { l.mu.Lock(); l.rootNanos = ns; l.revision++; l.mu.Unlock() }

func (l *Log) hashes(n int) [][]byte {
	out := make([][]byte, n)
	for i := 0; i < n; i++ {
		out[i] = l.seq[i].MerkleLeafHash
	}
	return out
}

// RootAt returns the Merkle root of the first n integrated leaves.
func (l *Log) RootAt(n int) []byte {
	l.mu.Lock()
	defer l.mu.Unlock()
	return merkle.Root(l.hashes(n))
}

// RootNanos returns the timestamp of the current root.
func (l *Log) RootNanos() uint64 { l.mu.Lock(); defer l.mu.Unlock(); return l.rootNanos }

func (l *Log) slr() *trillian.SignedLogRoot {
	r := types.LogRootV1{TreeSize: uint64(len(l.seq)), RootHash: merkle.Root(l.hashes(len(l.seq))), TimestampNanos: l.rootNanos, Revision: l.revision}
	b, err := r.MarshalBinary()
	if err != nil {
		panic(err)
	}
	return &trillian.SignedLogRoot{LogRoot: b}
}

// SLR returns the current signed log root (for building fault replies).
func (l *Log) SLR() *trillian.SignedLogRoot { l.mu.Lock(); defer l.mu.Unlock(); return l.slr() }

func (l *Log) do(method string, req proto.Message, f func() (proto.Message, error)) (proto.Message, error) {
	l.mu.Lock()
	l.calls = append(l.calls, Call{method, proto.Clone(req)})
	h := l.hook
	l.mu.Unlock()
	next := func() (proto.Message, error) {
		l.mu.Lock()
		defer l.mu.Unlock()
		return f()
	}
	if h != nil {
		return h(method, req, next)
	}
	return next()
}

func cast[T proto.Message](m proto.Message, err error) (T, error) {
	var zero T
	if err != nil || m == nil {
		return zero, err
	}
	return m.(T), nil
}

func (l *Log) checkID(id int64) error {
	if id != l.TreeID {
		return gstatus.Errorf(codes.NotFound, "tree %d not found", id)
	}
	return nil
}

func (l *Log) QueueLeaf(ctx context.Context, in *trillian.QueueLeafRequest, _ ...grpc.CallOption) (*trillian.QueueLeafResponse, error) {
	return cast[*trillian.QueueLeafResponse](l.do("QueueLeaf", in, func() (proto.Message, error) {
		if err := l.checkID(in.LogId); err != nil {
			return nil, err
		}
		if in.Leaf == nil || len(in.Leaf.LeafValue) == 0 {
			return nil, gstatus.Errorf(codes.InvalidArgument, "QueueLeafRequest.Leaf empty")
		}
		if l.Preorder {
			return nil, gstatus.Errorf(codes.InvalidArgument, "tree is PREORDERED_LOG")
		}
		lf := proto.Clone(in.Leaf).(*trillian.LogLeaf)
		lf.MerkleLeafHash = merkle.LeafHash(lf.LeafValue)
		if len(lf.LeafIdentityHash) == 0 {
			lf.LeafIdentityHash = lf.MerkleLeafHash
		}
		if old, ok := l.byID[string(lf.LeafIdentityHash)]; ok {
			return &trillian.QueueLeafResponse{QueuedLeaf: &trillian.QueuedLogLeaf{
				Leaf: proto.Clone(old).(*trillian.LogLeaf), Status: &status.Status{Code: int32(codes.AlreadyExists)}}}, nil
		}
		l.byID[string(lf.LeafIdentityHash)] = lf
		l.queue = append(l.queue, lf)
		return &trillian.QueueLeafResponse{QueuedLeaf: &trillian.QueuedLogLeaf{Leaf: proto.Clone(lf).(*trillian.LogLeaf)}}, nil
	}))
}

func (l *Log) proofFor(index, size int) *trillian.Proof {
	return &trillian.Proof{LeafIndex: int64(index), Hashes: merkle.Path(index, l.hashes(size))}
}

func (l *Log) GetInclusionProof(ctx context.Context, in *trillian.GetInclusionProofRequest, _ ...grpc.CallOption) (*trillian.GetInclusionProofResponse, error) {
	return cast[*trillian.GetInclusionProofResponse](l.do("GetInclusionProof", in, func() (proto.Message, error) {
		if err := l.checkID(in.LogId); err != nil {
			return nil, err
		}
		if in.TreeSize <= 0 || in.LeafIndex < 0 || in.LeafIndex >= in.TreeSize {
			return nil, gstatus.Errorf(codes.InvalidArgument, "bad inclusion proof request")
		}
		r := &trillian.GetInclusionProofResponse{SignedLogRoot: l.slr()}
		if int(in.TreeSize) > len(l.seq) {
			return r, nil
		}
		r.Proof = l.proofFor(int(in.LeafIndex), int(in.TreeSize))
		return r, nil
	}))
}

func (l *Log) GetInclusionProofByHash(ctx context.Context, in *trillian.GetInclusionProofByHashRequest, _ ...grpc.CallOption) (*trillian.GetInclusionProofByHashResponse, error) {
	return cast[*trillian.GetInclusionProofByHashResponse](l.do("GetInclusionProofByHash", in, func() (proto.Message, error) {
		if err := l.checkID(in.LogId); err != nil {
			return nil, err
		}
		if in.TreeSize <= 0 {
			return nil, gstatus.Errorf(codes.InvalidArgument, "GetInclusionProofByHashRequest.TreeSize: %v, want > 0", in.TreeSize)
		}
		if len(in.LeafHash) != 32 {
			return nil, gstatus.Errorf(codes.InvalidArgument, "GetInclusionProofByHashRequest.LeafHash: %d bytes, want 32", len(in.LeafHash))
		}
		r := &trillian.GetInclusionProofByHashResponse{SignedLogRoot: l.slr()}
		size := int(in.TreeSize)
		if in.TreeSize > int64(len(l.seq)) {
			// Real Trillian cannot serve a proof at a size beyond its tree.
			return nil, gstatus.Errorf(codes.NotFound, "No leaf found for hash: %x in tree size %v", in.LeafHash, in.TreeSize)
		}
		for i := 0; i < size; i++ {
			if bytes.Equal(l.seq[i].MerkleLeafHash, in.LeafHash) {
				r.Proof = append(r.Proof, l.proofFor(i, size))
			}
		}
		if len(r.Proof) == 0 {
			return nil, gstatus.Errorf(codes.NotFound, "No leaf found for hash: %x in tree size %v", in.LeafHash, in.TreeSize)
		}
		return r, nil
	}))
}

func (l *Log) GetConsistencyProof(ctx context.Context, in *trillian.GetConsistencyProofRequest, _ ...grpc.CallOption) (*trillian.GetConsistencyProofResponse, error) {
	return cast[*trillian.GetConsistencyProofResponse](l.do("GetConsistencyProof", in, func() (proto.Message, error) {
		if err := l.checkID(in.LogId); err != nil {
			return nil, err
		}
		if in.FirstTreeSize <= 0 || in.SecondTreeSize <= 0 || in.SecondTreeSize < in.FirstTreeSize {
			return nil, gstatus.Errorf(codes.InvalidArgument, "bad consistency proof request %d %d", in.FirstTreeSize, in.SecondTreeSize)
		}
		r := &trillian.GetConsistencyProofResponse{SignedLogRoot: l.slr()}
		if int(in.SecondTreeSize) > len(l.seq) {
			return r, nil
		}
		r.Proof = &trillian.Proof{Hashes: merkle.Proof(int(in.FirstTreeSize), l.hashes(int(in.SecondTreeSize)))}
		return r, nil
	}))
}

func (l *Log) GetLatestSignedLogRoot(ctx context.Context, in *trillian.GetLatestSignedLogRootRequest, _ ...grpc.CallOption) (*trillian.GetLatestSignedLogRootResponse, error) {
	return cast[*trillian.GetLatestSignedLogRootResponse](l.do("GetLatestSignedLogRoot", in, func() (proto.Message, error) {
		if err := l.checkID(in.LogId); err != nil {
			return nil, err
		}
		return &trillian.GetLatestSignedLogRootResponse{SignedLogRoot: l.slr()}, nil
	}))
}

func (l *Log) GetEntryAndProof(ctx context.Context, in *trillian.GetEntryAndProofRequest, _ ...grpc.CallOption) (*trillian.GetEntryAndProofResponse, error) {
	return cast[*trillian.GetEntryAndProofResponse](l.do("GetEntryAndProof", in, func() (proto.Message, error) {
		if err := l.checkID(in.LogId); err != nil {
			return nil, err
		}
		if in.TreeSize <= 0 || in.LeafIndex < 0 || in.LeafIndex >= in.TreeSize {
			return nil, gstatus.Errorf(codes.InvalidArgument, "bad GetEntryAndProof request")
		}
		r := &trillian.GetEntryAndProofResponse{SignedLogRoot: l.slr()}
		size := in.TreeSize
		if size > int64(len(l.seq)) && in.LeafIndex < int64(len(l.seq)) {
			size = int64(len(l.seq))
		}
		if size <= int64(len(l.seq)) {
			r.Proof = l.proofFor(int(in.LeafIndex), int(size))
			r.Leaf = proto.Clone(l.seq[in.LeafIndex]).(*trillian.LogLeaf)
		}
		return r, nil
	}))
}

func (l *Log) InitLog(ctx context.Context, in *trillian.InitLogRequest, _ ...grpc.CallOption) (*trillian.InitLogResponse, error) {
	return &trillian.InitLogResponse{Created: l.SLR()}, nil
}

func (l *Log) GetLeavesByRange(ctx context.Context, in *trillian.GetLeavesByRangeRequest, _ ...grpc.CallOption) (*trillian.GetLeavesByRangeResponse, error) {
	return cast[*trillian.GetLeavesByRangeResponse](l.do("GetLeavesByRange", in, func() (proto.Message, error) {
		if err := l.checkID(in.LogId); err != nil {
			return nil, err
		}
		if in.StartIndex < 0 {
			return nil, gstatus.Errorf(codes.InvalidArgument, "GetLeavesByRangeRequest.StartIndex: %v, want >= 0", in.StartIndex)
		}
		if in.Count <= 0 {
			return nil, gstatus.Errorf(codes.InvalidArgument, "GetLeavesByRangeRequest.Count: %v, want > 0", in.Count)
		}
		r := &trillian.GetLeavesByRangeResponse{SignedLogRoot: l.slr()}
		for i := in.StartIndex; i < int64(len(l.seq)) && i-in.StartIndex < in.Count; i++ {
			r.Leaves = append(r.Leaves, proto.Clone(l.seq[i]).(*trillian.LogLeaf))
		}
		return r, nil
	}))
}

func (l *Log) AddSequencedLeaves(ctx context.Context, in *trillian.AddSequencedLeavesRequest, _ ...grpc.CallOption) (*trillian.AddSequencedLeavesResponse, error) {
	return cast[*trillian.AddSequencedLeavesResponse](l.do("AddSequencedLeaves", in, func() (proto.Message, error) {
		if err := l.checkID(in.LogId); err != nil {
			return nil, err
		}
		if !l.Preorder {
			return nil, gstatus.Errorf(codes.InvalidArgument, "tree is not PREORDERED_LOG")
		}
		if len(in.Leaves) == 0 {
			return nil, gstatus.Errorf(codes.InvalidArgument, "AddSequencedLeavesRequest.Leaves empty")
		}
		next := in.Leaves[0].LeafIndex
		for i, lf := range in.Leaves {
			if lf == nil || len(lf.LeafValue) == 0 || lf.LeafIndex < 0 {
				return nil, gstatus.Errorf(codes.InvalidArgument, "AddSequencedLeavesRequest.Leaves[%d] invalid", i)
			}
			if lf.LeafIndex != next {
				return nil, gstatus.Errorf(codes.FailedPrecondition, "AddSequencedLeavesRequest.Leaves[%v].LeafIndex=%v, want %v", i, lf.LeafIndex, next)
			}
			next++
		}
		r := &trillian.AddSequencedLeavesResponse{}
		for _, in := range in.Leaves {
			lf := proto.Clone(in).(*trillian.LogLeaf)
			lf.MerkleLeafHash = merkle.LeafHash(lf.LeafValue)
			if len(lf.LeafIdentityHash) == 0 {
				lf.LeafIdentityHash = lf.MerkleLeafHash
			}
			q := &trillian.QueuedLogLeaf{Leaf: lf}
			if old, ok := l.pre[lf.LeafIndex]; ok {
				// index already taken: reported per leaf, never overwritten
				q.Status = &status.Status{Code: int32(codes.FailedPrecondition), Message: "conflicting LeafIndex"}
				if bytes.Equal(old.LeafValue, lf.LeafValue) && bytes.Equal(old.ExtraData, lf.ExtraData) && bytes.Equal(old.LeafIdentityHash, lf.LeafIdentityHash) {
					q.Status = &status.Status{Code: int32(codes.AlreadyExists), Message: "identical leaf already stored"}
				}
			} else if dup := l.preByID(lf.LeafIdentityHash); dup != nil {
				q.Status = &status.Status{Code: int32(codes.AlreadyExists), Message: "conflicting LeafIdentityHash"}
			} else {
				l.pre[lf.LeafIndex] = lf
			}
			r.Results = append(r.Results, q)
		}
		return r, nil
	}))
}

func (l *Log) preByID(id []byte) *trillian.LogLeaf {
	for _, lf := range l.pre {
		if bytes.Equal(lf.LeafIdentityHash, id) {
			return lf
		}
	}
	return nil
}

// Stored returns the pre-ordered leaves by index (sorted), including those not yet integrated.
func (l *Log) Stored() []*trillian.LogLeaf {
	l.mu.Lock()
	defer l.mu.Unlock()
	var idx []int64
	for i := range l.pre {
		idx = append(idx, i)
	}
	sort.Slice(idx, func(a, b int) bool { return idx[a] < idx[b] })
	var out []*trillian.LogLeaf
	for _, i := range idx {
		out = append(out, proto.Clone(l.pre[i]).(*trillian.LogLeaf))
	}
	return out
}

// Key is a canonical digest of the backend state (sequenced list + queue).
func (l *Log) Key() string {
	l.mu.Lock()
	defer l.mu.Unlock()
	var b bytes.Buffer
	for _, lf := range l.seq {
		fmt.Fprintf(&b, "s%x;", lf.MerkleLeafHash[:6])
	}
	for _, lf := range l.queue {
		fmt.Fprintf(&b, "q%x;", lf.MerkleLeafHash[:6])
	}
	fmt.Fprintf(&b, "t%d", l.rootNanos)
	return b.String()
}

var _ trillian.TrillianLogClient = (*Log)(nil)
