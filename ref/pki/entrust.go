package pki

import "encoding/hex"

// The SubjectPublicKeyInfo of the "Entrust.net Certification Authority (2048)" root (public knowledge: it is in
// that root certificate). Go's crypto/x509 - and the fork - exempt certificates that carry exactly this key from
// the "issuer must be a CA" test of CheckSignatureFrom. Anyone can put a public key into a certificate request,
// so chains whose leaf carries this key probe what that exemption lets through. No private key is known.
const entrust2048SPKIHex = "30820122300d06092a864886f70d01010105000382010f003082010a028201010097a32d3c9ede05da13c2118d9d8ee3" +
	"7fc74b7e5a9fb3ff62ab73c8286bba1064828713cd5718ff28cec0e60e0691502983d1f2c32adbd8db4e04cc00eb8bb6" +
	"96dcbcaafa527704c1db19e4ae9cfd3c8b03ef4dbc1a0365f9c1b13f7286f238aa19ae10887828da75c33d0282029cb9" +
	"c1657776244c98f76d3138fbdbfedb370276a11897a6ccde20094936246942f6e43762f1596da93ced349ca38edbdc3a" +
	"d7f70a6fef2ed8d5935a7aed084968e241e35a90c18655fc51439de0b2c467b4cb323125f0549f4bd16fdbd4ddfcaf5e" +
	"6c789095deca3a48b9793c9b19d67505a0f988d7c1e8a509e41a15dc8723aab2758c632587d8f83da6c2cc66ffa56668" +
	"550203010001"

func init() {
	spki, err := hex.DecodeString(entrust2048SPKIHex)
	if err != nil {
		panic(err)
	}
	keyCache["entrust2048-public"] = &Key{Name: "entrust2048-public", SPKI: spki, Kind: "rsa2048"}
}
