package pki

import (
	stdx509 "crypto/x509"
	"testing"

	"github.com/google/certificate-transparency-go/x509"
)

func TestBuildParsesAndVerifies(t *testing.T) {
	for _, rk := range []string{"p256-0", "rsa2048-0", "p384-0", "ed25519-0"} {
		root := NewRoot("Root "+rk, LoadKey(rk))
		ca := NewCA("Int", LoadKey("p256-1"), root, CAOpts{})
		leaf := NewLeaf("leaf", LoadKey("p256-2"), ca, LeafOpts{})
		pre := NewLeaf("pre", LoadKey("p256-2"), ca, LeafOpts{Exts: []Ext{ExtSAN("a.example"), ExtPoison()}})
		for _, c := range []*Cert{root, ca, leaf, pre} {
			if _, err := x509.ParseCertificate(c.DER); err != nil {
				t.Fatalf("%s fork parse %s: %v", rk, c.Label, err)
			}
		}
		sr, err := stdx509.ParseCertificate(root.DER)
		if err != nil {
			t.Fatal(err)
		}
		si, err := stdx509.ParseCertificate(ca.DER)
		if err != nil {
			t.Fatal(err)
		}
		sl, err := stdx509.ParseCertificate(leaf.DER)
		if err != nil {
			t.Fatal(err)
		}
		rp, ip := stdx509.NewCertPool(), stdx509.NewCertPool()
		rp.AddCert(sr)
		ip.AddCert(si)
		if _, err := sl.Verify(stdx509.VerifyOptions{Roots: rp, Intermediates: ip, CurrentTime: T0.AddDate(1, 0, 0), KeyUsages: []stdx509.ExtKeyUsage{stdx509.ExtKeyUsageAny}}); err != nil {
			t.Fatalf("%s std verify: %v", rk, err)
		}
	}
}
