// Package pki builds X.509 certificates from explicit templates with the DER
// builder ref/der and signs them with fixed test keys. A built certificate
// remembers its ground truth (who signed it with which key, names, CA bit,
// EKUs, extension list in order with criticality, validity) so that oracles are
// computed from the template, never from parsing the DER.
package pki

import (
	"crypto"
	"crypto/ecdsa"
	"crypto/ed25519"
	"crypto/elliptic"
	"crypto/rand"
	"crypto/rsa"
	"crypto/sha256"
	"crypto/sha512"
	stdx509 "crypto/x509"
	"embed"
	"encoding/pem"
	"fmt"
	"math/big"
	"sync/atomic"
	"strings"
	"time"

	"verif/ref/der"
)

//go:embed keys/*.pem
var keyFS embed.FS

// Key is a named test key.
type Key struct {
	Name string
	Priv crypto.Signer
	SPKI []byte // DER SubjectPublicKeyInfo (std crypto/x509 encoding)
	Kind string // "p256", "p384", "rsa2048", "ed25519"
}

var keyCache = map[string]*Key{}

// LoadKey returns the fixed key with the given file name (e.g. "p256-0").
func LoadKey(name string) *Key {
	if k, ok := keyCache[name]; ok {
		return k
	}
	b, err := keyFS.ReadFile("keys/" + name + ".pem")
	if err != nil {
		panic(err)
	}
	blk, _ := pem.Decode(b)
	p, err := stdx509.ParsePKCS8PrivateKey(blk.Bytes)
	if err != nil {
		panic(err)
	}
	s := p.(crypto.Signer)
	spki, err := stdx509.MarshalPKIXPublicKey(s.Public())
	if err != nil {
		panic(err)
	}
	kind := name
	for i := range name {
		if name[i] == '-' {
			kind = name[:i]
		}
	}
	k := &Key{Name: name, Priv: s, SPKI: spki, Kind: kind}
	keyCache[name] = k
	return k
}

// shortCoordKey derives the P-256 key with the smallest private scalar whose public point has a coordinate
// with a leading zero octet (code that serialises coordinates by hand, without padding, goes wrong on it).
func shortCoordKey() *Key {
	c := elliptic.P256()
	for d := int64(2); d < 100000; d++ {
		x, y := c.ScalarBaseMult(big.NewInt(d).Bytes())
		if len(x.Bytes()) < 32 || len(y.Bytes()) < 32 {
			priv := &ecdsa.PrivateKey{PublicKey: ecdsa.PublicKey{Curve: c, X: x, Y: y}, D: big.NewInt(d)}
			spki, err := stdx509.MarshalPKIXPublicKey(&priv.PublicKey)
			if err != nil {
				panic(err)
			}
			return &Key{Name: "p256-shortcoord", Priv: priv, SPKI: spki, Kind: "p256"}
		}
	}
	panic("no short-coordinate key found")
}

func init() {
	keyCache["p256-shortcoord"] = shortCoordKey()
	// preload so LoadKey is read-only (and goroutine safe) afterwards
	es, _ := keyFS.ReadDir("keys")
	for _, e := range es {
		n := e.Name()
		k := LoadKey(n[:len(n)-4])
		if k.Kind == "rsa2048" {
			// "<name>~nonull": the same key pair published with a valid but non-canonical
			// SubjectPublicKeyInfo (rsaEncryption AlgorithmIdentifier without the NULL parameters,
			// as some CAs issue). Whatever hashes "the issuer's key" must hash these bytes,
			// not a re-encoding of the parsed key.
			pub := k.Priv.Public().(*rsa.PublicKey)
			pk1 := stdx509.MarshalPKCS1PublicKey(pub)
			spki := der.Seq(der.Seq(der.OID(1, 2, 840, 113549, 1, 1, 1)), der.BitString(pk1, 0))
			v := &Key{Name: k.Name + "~nonull", Priv: k.Priv, SPKI: spki, Kind: k.Kind}
			keyCache[v.Name] = v
		}
	}
}

// KeyHash is SHA-256 of the SubjectPublicKeyInfo (issuer_key_hash, log id).
func (k *Key) KeyHash() [32]byte { return sha256.Sum256(k.SPKI) }

// SigAlgDER is the AlgorithmIdentifier this key signs with.
func (k *Key) SigAlgDER() []byte {
	switch k.Kind {
	case "p256":
		return der.Seq(der.OID(1, 2, 840, 10045, 4, 3, 2)) // ecdsa-with-SHA256
	case "p384":
		return der.Seq(der.OID(1, 2, 840, 10045, 4, 3, 3)) // ecdsa-with-SHA384
	case "rsa2048":
		return der.Seq(der.OID(1, 2, 840, 113549, 1, 1, 11), der.Null()) // sha256WithRSAEncryption
	case "ed25519":
		return der.Seq(der.OID(1, 3, 101, 112))
	}
	panic("kind")
}

// SignTBS signs message with the key's algorithm.
func (k *Key) SignTBS(msg []byte) []byte {
	var sig []byte
	var err error
	switch k.Kind {
	case "p256":
		h := sha256.Sum256(msg)
		sig, err = k.Priv.Sign(rand.Reader, h[:], crypto.SHA256)
	case "p384":
		h := sha512.Sum384(msg)
		sig, err = k.Priv.Sign(rand.Reader, h[:], crypto.SHA384)
	case "rsa2048":
		h := sha256.Sum256(msg)
		sig, err = k.Priv.Sign(rand.Reader, h[:], crypto.SHA256)
	case "ed25519":
		sig, err = k.Priv.Sign(rand.Reader, msg, crypto.Hash(0))
	}
	if err != nil {
		panic(err)
	}
	return sig
}

// Verify checks sig over msg with std primitives.
func (k *Key) Verify(msg, sig []byte) bool {
	switch pub := k.Priv.Public().(type) {
	case *ecdsa.PublicKey:
		if k.Kind == "p384" {
			h := sha512.Sum384(msg)
			return ecdsa.VerifyASN1(pub, h[:], sig)
		}
		h := sha256.Sum256(msg)
		return ecdsa.VerifyASN1(pub, h[:], sig)
	case *rsa.PublicKey:
		h := sha256.Sum256(msg)
		return rsa.VerifyPKCS1v15(pub, crypto.SHA256, h[:], sig) == nil
	case ed25519.PublicKey:
		return ed25519.Verify(pub, msg, sig)
	}
	return false
}

// ATV is one AttributeTypeAndValue; Tag is the string type's universal tag.
type ATV struct {
	OID []int
	Tag byte
	Val string
}

// Name is a sequence of RDNs, each a set of ATVs.
type Name [][]ATV

var (
	OIDCN  = []int{2, 5, 4, 3}
	OIDO   = []int{2, 5, 4, 10}
	OIDC   = []int{2, 5, 4, 6}
	OIDOU  = []int{2, 5, 4, 11}
	OIDSer = []int{2, 5, 4, 5}
)

// CN builds the usual C=GB, O=<o>, CN=<cn> name with PrintableString / UTF8String.
func CN(cn string) Name {
	return Name{{{OIDC, 0x13, "GB"}}, {{OIDO, 0x0c, "Verif"}}, {{OIDCN, 0x0c, cn}}}
}

func (n Name) DER() []byte {
	var rdns [][]byte
	for _, rdn := range n {
		var atvs [][]byte
		for _, a := range rdn {
			atvs = append(atvs, der.Seq(der.OID(a.OID...), der.Str(a.Tag, a.Val)))
		}
		rdns = append(rdns, der.Set(atvs...))
	}
	return der.Seq(rdns...)
}

// Ext is one extension, in order.
type Ext struct {
	OID      []int
	Critical bool
	Value    []byte // content of the extnValue OCTET STRING
	Label    string // what it is (ground truth for oracles)
}

func (e Ext) DER() []byte {
	if e.Critical {
		return der.Seq(der.OID(e.OID...), der.Bool(true), der.OctetString(e.Value))
	}
	return der.Seq(der.OID(e.OID...), der.OctetString(e.Value))
}

var (
	OIDBasicConstraints = []int{2, 5, 29, 19}
	OIDKeyUsage         = []int{2, 5, 29, 15}
	OIDEKU              = []int{2, 5, 29, 37}
	OIDSKI              = []int{2, 5, 29, 14}
	OIDAKI              = []int{2, 5, 29, 35}
	OIDSAN              = []int{2, 5, 29, 17}
	OIDPoison           = []int{1, 3, 6, 1, 4, 1, 11129, 2, 4, 3}
	OIDSCTList          = []int{1, 3, 6, 1, 4, 1, 11129, 2, 4, 2}
	OIDEKUCT            = []int{1, 3, 6, 1, 4, 1, 11129, 2, 4, 4}
	OIDEKUServerAuth    = []int{1, 3, 6, 1, 5, 5, 7, 3, 1}
	OIDEKUClientAuth    = []int{1, 3, 6, 1, 5, 5, 7, 3, 2}
	OIDEKUAny           = []int{2, 5, 29, 37, 0}
)

func ExtBasicConstraints(ca bool, critical bool) Ext {
	v := der.Seq()
	if ca {
		v = der.Seq(der.Bool(true))
	}
	return Ext{OID: OIDBasicConstraints, Critical: critical, Value: v, Label: fmt.Sprintf("bc(ca=%v)", ca)}
}
// ExtBasicConstraintsPathLen is a critical basicConstraints with cA TRUE and the given pathLenConstraint.
func ExtBasicConstraintsPathLen(pathLen int) Ext {
	return Ext{OID: OIDBasicConstraints, Critical: true, Value: der.Seq(der.Bool(true), der.Int(int64(pathLen))), Label: fmt.Sprintf("bc(ca=true,pathlen=%d)", pathLen)}
}
func ExtKeyUsage(bits byte, unused byte) Ext {
	return Ext{OID: OIDKeyUsage, Critical: true, Value: der.BitString([]byte{bits}, unused), Label: "ku"}
}
func ExtEKU(oids ...[]int) Ext {
	var l [][]byte
	for _, o := range oids {
		l = append(l, der.OID(o...))
	}
	return Ext{OID: OIDEKU, Value: der.Seq(l...), Label: "eku"}
}
func ExtSKI(id []byte) Ext { return Ext{OID: OIDSKI, Value: der.OctetString(id), Label: "ski"} }
func ExtAKI(id []byte) Ext {
	return Ext{OID: OIDAKI, Value: der.Seq(der.ImplicitPrim(0, id)), Label: "aki"}
}
func ExtSAN(dns ...string) Ext {
	var l [][]byte
	for _, d := range dns {
		l = append(l, der.ImplicitPrim(2, []byte(d)))
	}
	return Ext{OID: OIDSAN, Value: der.Seq(l...), Label: "san"}
}
func ExtPoison() Ext { return Ext{OID: OIDPoison, Critical: true, Value: der.Null(), Label: "poison"} }
func ExtSCTList(tlsList []byte) Ext {
	return Ext{OID: OIDSCTList, Value: der.OctetString(tlsList), Label: "sctlist"}
}
func ExtUnknown(arc int, critical bool, val []byte) Ext {
	return Ext{OID: []int{1, 3, 6, 1, 4, 1, 55555, arc}, Critical: critical, Value: val, Label: fmt.Sprintf("unknown%d", arc)}
}

// Tmpl is a TBSCertificate template.
type Tmpl struct {
	Serial    []byte // magnitude
	Issuer    Name
	Subject   Name
	NotBefore time.Time
	NotAfter  time.Time
	Key       *Key
	IssuerUID []byte // optional [1] IMPLICIT BIT STRING content (without unused-bits octet)
	Exts      []Ext
	// Validity encodings: nil = RFC 5280 rule.
	NotBeforeDER, NotAfterDER []byte
	// SerialContent != nil: the INTEGER's content octets verbatim (e.g. with superfluous leading 00 octets:
	// not DER, accepted only by lenient decoders); Serial is then ignored.
	SerialContent []byte
}

// TBS builds the TBSCertificate signed by a key with the given algorithm.
func (t *Tmpl) TBS(sigAlg []byte) []byte {
	nb, na := t.NotBeforeDER, t.NotAfterDER
	if nb == nil {
		nb = der.Time(t.NotBefore)
	}
	if na == nil {
		na = der.Time(t.NotAfter)
	}
	serial := der.IntMag(t.Serial)
	if t.SerialContent != nil {
		serial = der.TLV(0x02, t.SerialContent)
	}
	parts := [][]byte{
		der.Explicit(0, der.Int(2)),
		serial,
		sigAlg,
		t.Issuer.DER(),
		der.Seq(nb, na),
		t.Subject.DER(),
		t.Key.SPKI,
	}
	if t.IssuerUID != nil {
		parts = append(parts, der.ImplicitPrim(1, append([]byte{0}, t.IssuerUID...)))
	}
	if len(t.Exts) > 0 {
		var es [][]byte
		for _, e := range t.Exts {
			es = append(es, e.DER())
		}
		parts = append(parts, der.Explicit(3, der.Seq(es...)))
	}
	return der.Seq(parts...)
}

// Cert is a built certificate with its ground truth.
type Cert struct {
	DER    []byte
	TBS    []byte
	T      Tmpl
	Signer *Key  // key that produced the signature
	Parent *Cert // issuing certificate (nil for self-signed or forged)
	IsCA   bool
	Label  string
}

// Assemble wraps a TBS with algorithm and signature value.
func Assemble(tbs, sigAlg, sig []byte) []byte {
	return der.Seq(tbs, sigAlg, der.BitString(sig, 0))
}

// Build signs the template with signer.
func Build(t Tmpl, signer *Key) *Cert {
	alg := signer.SigAlgDER()
	tbs := t.TBS(alg)
	sig := signer.SignTBS(tbs)
	c := &Cert{DER: Assemble(tbs, alg, sig), TBS: tbs, T: t, Signer: signer}
	for _, e := range t.Exts {
		if e.Label == "bc(ca=true)" || strings.HasPrefix(e.Label, "bc(ca=true,") {
			c.IsCA = true
		}
	}
	return c
}

var (
	T0 = time.Date(2024, 1, 1, 0, 0, 0, 0, time.UTC)
	T1 = time.Date(2034, 1, 1, 0, 0, 0, 0, time.UTC)
)

var serialCtr atomic.Int64

func nextSerial() []byte {
	n := serialCtr.Add(1) + 1000
	return []byte{byte(n >> 16), byte(n >> 8), byte(n)}
}

// NewRoot builds a self-signed CA.
func NewRoot(cn string, k *Key) *Cert {
	ski := k.KeyHash()
	c := Build(Tmpl{Serial: nextSerial(), Issuer: CN(cn), Subject: CN(cn), NotBefore: T0, NotAfter: T1, Key: k,
		Exts: []Ext{ExtBasicConstraints(true, true), ExtKeyUsage(0x06, 1), ExtSKI(ski[:20])}}, k)
	c.Label = cn
	return c
}

// CAOpts tune an intermediate.
type CAOpts struct {
	NoCA     bool    // omit the CA bit (a non-CA "intermediate")
	EKUs     [][]int // extended key usages
	NoAKI    bool
	NoSKI    bool
	SKI      []byte // subject key identifier to carry instead of the hash of the key (the issuer of a CA certificate chooses it freely)
	SignWith *Key // forge: sign with this key instead of the parent's
}

// NewCA builds an intermediate issued by parent.
func NewCA(cn string, k *Key, parent *Cert, o CAOpts) *Cert {
	var exts []Ext
	if !o.NoCA {
		exts = append(exts, ExtBasicConstraints(true, true))
	}
	exts = append(exts, ExtKeyUsage(0x06, 1))
	if !o.NoSKI {
		ski := k.KeyHash()
		if o.SKI != nil {
			exts = append(exts, ExtSKI(o.SKI))
		} else {
			exts = append(exts, ExtSKI(ski[:20]))
		}
	}
	if !o.NoAKI {
		aki := parent.T.Key.KeyHash()
		exts = append(exts, ExtAKI(aki[:20]))
	}
	if len(o.EKUs) > 0 {
		exts = append(exts, ExtEKU(o.EKUs...))
	}
	signer := parent.T.Key
	if o.SignWith != nil {
		signer = o.SignWith
	}
	c := Build(Tmpl{Serial: nextSerial(), Issuer: parent.T.Subject, Subject: CN(cn), NotBefore: T0, NotAfter: T1, Key: k, Exts: exts}, signer)
	c.Label = cn
	if o.SignWith == nil {
		c.Parent = parent
	}
	return c
}

// LeafOpts tune a leaf.
type LeafOpts struct {
	Exts     []Ext // full extension list, in order (nil: a default SAN + AKI)
	NotAfter time.Time
	Serial   []byte
	SignWith *Key
	Subject  Name
}

// NewLeaf builds an end-entity certificate issued by parent.
func NewLeaf(cn string, k *Key, parent *Cert, o LeafOpts) *Cert {
	exts := o.Exts
	if exts == nil {
		aki := parent.T.Key.KeyHash()
		exts = []Ext{ExtSAN(cn + ".example"), ExtAKI(aki[:20])}
	}
	na := o.NotAfter
	if na.IsZero() {
		na = time.Date(2025, 6, 1, 12, 0, 0, 0, time.UTC)
	}
	ser := o.Serial
	if ser == nil {
		ser = nextSerial()
	}
	subj := o.Subject
	if subj == nil {
		subj = CN(cn)
	}
	signer := parent.T.Key
	if o.SignWith != nil {
		signer = o.SignWith
	}
	c := Build(Tmpl{Serial: ser, Issuer: parent.T.Subject, Subject: subj, NotBefore: T0, NotAfter: na, Key: k, Exts: exts}, signer)
	c.Label = cn
	if o.SignWith == nil {
		c.Parent = parent
	}
	return c
}

// DERs returns the DER of each certificate.
func DERs(cs ...*Cert) [][]byte {
	out := make([][]byte, len(cs))
	for i, c := range cs {
		out[i] = c.DER
	}
	return out
}
