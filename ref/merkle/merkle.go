// Package merkle implements RFC 6962 section 2.1 by its recursive definitions
// (MTH, PATH, PROOF) and the client-side verification algorithms. Naive and
// meant to be obviously right; used as oracle only.
package merkle

import (
	"bytes"
	"crypto/sha256"
)

func LeafHash(leaf []byte) []byte {
	h := sha256.New()
	h.Write([]byte{0})
	h.Write(leaf)
	return h.Sum(nil)
}

func node(l, r []byte) []byte {
	h := sha256.New()
	h.Write([]byte{1})
	h.Write(l)
	h.Write(r)
	return h.Sum(nil)
}

// split returns the largest power of two smaller than n (n > 1).
func split(n int) int {
	k := 1
	for k*2 < n {
		k *= 2
	}
	return k
}

// MTH of a list of leaf *hashes* (RFC: of leaf inputs; hashing is done by LeafHash).
func Root(lh [][]byte) []byte {
	switch len(lh) {
	case 0:
		h := sha256.Sum256(nil)
		return h[:]
	case 1:
		return lh[0]
	}
	k := split(len(lh))
	return node(Root(lh[:k]), Root(lh[k:]))
}

// Path is PATH(m, D[n]).
func Path(m int, lh [][]byte) [][]byte {
	n := len(lh)
	if n <= 1 {
		return [][]byte{}
	}
	k := split(n)
	if m < k {
		return append(Path(m, lh[:k]), Root(lh[k:]))
	}
	return append(Path(m-k, lh[k:]), Root(lh[:k]))
}

// Proof is PROOF(m, D[n]) for 0 < m <= n.
func Proof(m int, lh [][]byte) [][]byte {
	return subproof(m, lh, true)
}

func subproof(m int, lh [][]byte, b bool) [][]byte {
	n := len(lh)
	if m == n {
		if b {
			return [][]byte{}
		}
		return [][]byte{Root(lh)}
	}
	k := split(n)
	if m <= k {
		return append(subproof(m, lh[:k], b), Root(lh[k:]))
	}
	return append(subproof(m-k, lh[k:], false), Root(lh[:k]))
}

// VerifyInclusion checks an audit path (RFC 9162 2.1.3.2 algorithm, equivalent for RFC 6962).
func VerifyInclusion(index, size uint64, leafHash []byte, path [][]byte, root []byte) bool {
	if index >= size {
		return false
	}
	fn, sn := index, size-1
	r := leafHash
	for _, p := range path {
		if sn == 0 {
			return false
		}
		if fn&1 == 1 || fn == sn {
			r = node(p, r)
			if fn&1 == 0 {
				for fn&1 == 0 && fn != 0 {
					fn >>= 1
					sn >>= 1
				}
			}
		} else {
			r = node(r, p)
		}
		fn >>= 1
		sn >>= 1
	}
	return sn == 0 && bytes.Equal(r, root)
}

// VerifyConsistency checks a consistency proof between sizes first <= second.
func VerifyConsistency(first, second uint64, root1, root2 []byte, proof [][]byte) bool {
	switch {
	case first > second:
		return false
	case first == second:
		return len(proof) == 0 && bytes.Equal(root1, root2)
	case first == 0:
		return len(proof) == 0
	}
	p := proof
	if first&(first-1) == 0 { // power of two: prepend root1
		p = append([][]byte{root1}, proof...)
	}
	if len(p) == 0 {
		return false
	}
	fn, sn := first-1, second-1
	for fn&1 == 1 {
		fn >>= 1
		sn >>= 1
	}
	fr, sr := p[0], p[0]
	for _, c := range p[1:] {
		if sn == 0 {
			return false
		}
		if fn&1 == 1 || fn == sn {
			fr = node(c, fr)
			sr = node(c, sr)
			if fn&1 == 0 {
				for fn&1 == 0 && fn != 0 {
					fn >>= 1
					sn >>= 1
				}
			}
		} else {
			sr = node(sr, c)
		}
		fn >>= 1
		sn >>= 1
	}
	return sn == 0 && bytes.Equal(fr, root1) && bytes.Equal(sr, root2)
}
