package merkle

import (
	"fmt"
	"testing"
)

// Self-consistency of the reference: every generated path/proof verifies and
// a tampered one does not, for all sizes up to 20.
func TestSelf(t *testing.T) {
	var lh [][]byte
	for i := 0; i < 20; i++ {
		lh = append(lh, LeafHash([]byte(fmt.Sprint("leaf", i))))
	}
	for n := 1; n <= 20; n++ {
		root := Root(lh[:n])
		for m := 0; m < n; m++ {
			p := Path(m, lh[:n])
			if !VerifyInclusion(uint64(m), uint64(n), lh[m], p, root) {
				t.Fatalf("inclusion %d/%d", m, n)
			}
			if n > 1 && VerifyInclusion(uint64((m+1)%n), uint64(n), lh[m], p, root) {
				t.Fatalf("inclusion wrong index accepted %d/%d", m, n)
			}
		}
		for m := 1; m <= n; m++ {
			pr := Proof(m, lh[:n])
			if !VerifyConsistency(uint64(m), uint64(n), Root(lh[:m]), root, pr) {
				t.Fatalf("consistency %d->%d", m, n)
			}
			if m < n && VerifyConsistency(uint64(m), uint64(n), Root(lh[:m]), Root(lh[:n-1]), pr) && n-1 != m {
				t.Fatalf("consistency wrong root accepted %d->%d", m, n)
			}
		}
	}
}
