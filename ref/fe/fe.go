//go:build verif

// Package fe builds an in-process CT front end (real ctfe handlers) over a
// backend client and drives its HTTP endpoints directly.
package fe

import (
	"bytes"
	"context"
	"crypto"
	"encoding/base64"
	"encoding/json"
	"fmt"
	"io"
	"net/http"
	"net/http/httptest"
	"net/url"
	"sync"
	"time"

	ct "github.com/google/certificate-transparency-go"
	"github.com/google/certificate-transparency-go/trillian/ctfe"
	"github.com/google/certificate-transparency-go/trillian/ctfe/cache"
	"github.com/google/certificate-transparency-go/trillian/ctfe/configpb"
	"github.com/google/certificate-transparency-go/trillian/ctfe/storage"
	"github.com/google/certificate-transparency-go/trillian/util"
	"github.com/google/certificate-transparency-go/x509"
	"github.com/google/certificate-transparency-go/x509util"
	"github.com/google/trillian"
)

// Clock is a settable util.TimeSource.
type Clock struct {
	mu sync.Mutex
	T  time.Time
}

func (c *Clock) Now() time.Time  { c.mu.Lock(); defer c.mu.Unlock(); return c.T }
func (c *Clock) Set(t time.Time) { c.mu.Lock(); c.T = t; c.mu.Unlock() }

// ReqLog records what the front end reports through its RequestLog.
type ReqLog struct {
	mu       sync.Mutex
	Issued   [][]byte
	Statuses []int
}

func (l *ReqLog) Start(ctx context.Context) context.Context         { return ctx }
func (l *ReqLog) LogPrefix(context.Context, string)                 {}
func (l *ReqLog) AddDERToChain(context.Context, []byte)             {}
func (l *ReqLog) AddCertToChain(context.Context, *x509.Certificate) {}
func (l *ReqLog) FirstAndSecond(context.Context, int64, int64)      {}
func (l *ReqLog) StartAndEnd(context.Context, int64, int64)         {}
func (l *ReqLog) LeafIndex(context.Context, int64)                  {}
func (l *ReqLog) TreeSize(context.Context, int64)                   {}
func (l *ReqLog) LeafHash(context.Context, []byte)                  {}
func (l *ReqLog) IssueSCT(_ context.Context, b []byte) {
	l.mu.Lock()
	l.Issued = append(l.Issued, append([]byte{}, b...))
	l.mu.Unlock()
}
func (l *ReqLog) Status(_ context.Context, s int) {
	l.mu.Lock()
	l.Statuses = append(l.Statuses, s)
	l.mu.Unlock()
}
func (l *ReqLog) Snapshot() (issued [][]byte, statuses []int) {
	l.mu.Lock()
	defer l.mu.Unlock()
	return append([][]byte{}, l.Issued...), append([]int{}, l.Statuses...)
}
func (l *ReqLog) Reset() { l.mu.Lock(); l.Issued, l.Statuses = nil, nil; l.mu.Unlock() }

// Config of a front end instance.
type Config struct {
	LogID      int64
	Prefix     string
	Roots      [][]byte // DER
	Signer     crypto.Signer
	Client     trillian.TrillianLogClient
	Clock      *Clock
	Validation func(pool *x509util.PEMCertPool) ctfe.CertValidationOpts // nil: pool only, fixed current time = clock
	Mask       bool
	IsMirror   bool
	IsReadonly bool
	Store      storage.IssuanceChainStorage
	Cache      cache.IssuanceChainCache
	Deadline   time.Duration
}

type FE struct {
	Inst   *ctfe.Instance
	Log    *ReqLog
	Prefix string
	Pool   *x509util.PEMCertPool
}

func New(c Config) (*FE, error) { return NewWithTimeSource(c, c.Clock) }

// NewWithTimeSource is New with an arbitrary time source instead of c.Clock.
func NewWithTimeSource(c Config, ts util.TimeSource) (*FE, error) {
	pool := x509util.NewPEMCertPool()
	for _, r := range c.Roots {
		cert, err := x509.ParseCertificate(r)
		if x509.IsFatal(err) {
			return nil, fmt.Errorf("root: %v", err)
		}
		pool.AddCert(cert)
	}
	var v ctfe.CertValidationOpts
	if c.Validation != nil {
		v = c.Validation(pool)
	} else {
		v = ctfe.NewCertValidationOpts(pool, time.Time{}, false, false, nil, nil, false, nil)
	}
	if c.Prefix == "" {
		c.Prefix = "log"
	}
	if c.Deadline == 0 {
		c.Deadline = time.Hour
	}
	rl := &ReqLog{}
	inst := ctfe.VerifNewInstance(ctfe.VerifParams{
		Opts: ctfe.InstanceOptions{
			Validated:          &ctfe.ValidatedLogConfig{Config: &configpb.LogConfig{LogId: c.LogID, Prefix: c.Prefix, IsMirror: c.IsMirror, IsReadonly: c.IsReadonly}},
			Client:             c.Client,
			Deadline:           c.Deadline,
			RequestLog:         rl,
			MaskInternalErrors: c.Mask,
		},
		Validation: v, Signer: c.Signer, TimeSource: ts, Store: c.Store, Cache: c.Cache,
	})
	return &FE{Inst: inst, Log: rl, Prefix: "/" + c.Prefix, Pool: pool}, nil
}

// Resp is an HTTP response of the front end.
type Resp struct {
	Status int
	Body   []byte
	Header http.Header
}

// Do calls one endpoint in-process. A panic in the handler propagates.
func (f *FE) Do(ctx context.Context, method, path string, query url.Values, body []byte) Resp {
	h, ok := f.Inst.Handlers[f.Prefix+path]
	if !ok {
		return Resp{Status: http.StatusNotFound, Body: []byte("no such endpoint")}
	}
	u := "http://log.example" + f.Prefix + path
	if query != nil {
		u += "?" + query.Encode()
	}
	var rd io.Reader
	if body != nil {
		rd = bytes.NewReader(body)
	}
	req := httptest.NewRequest(method, u, rd).WithContext(ctx)
	w := httptest.NewRecorder()
	h.ServeHTTP(w, req)
	return Resp{Status: w.Code, Body: w.Body.Bytes(), Header: w.Header()}
}

func (f *FE) Get(path string, kv ...string) Resp {
	q := url.Values{}
	for i := 0; i+1 < len(kv); i += 2 {
		q.Set(kv[i], kv[i+1])
	}
	return f.Do(context.Background(), http.MethodGet, path, q, nil)
}

// AddChain posts a chain (DER certs) to add-chain or add-pre-chain.
func (f *FE) AddChain(pre bool, chain [][]byte) (Resp, *ct.AddChainResponse) {
	body, _ := json.Marshal(ct.AddChainRequest{Chain: chain})
	p := ct.AddChainPath
	if pre {
		p = ct.AddPreChainPath
	}
	r := f.Do(context.Background(), http.MethodPost, p, nil, body)
	if r.Status != 200 {
		return r, nil
	}
	var rsp ct.AddChainResponse
	if err := json.Unmarshal(r.Body, &rsp); err != nil {
		return r, nil
	}
	return r, &rsp
}

// RoundTripper serves a client.LogClient from the in-process handlers.
type RoundTripper struct{ F *FE }

func (rt RoundTripper) RoundTrip(req *http.Request) (*http.Response, error) {
	h, ok := rt.F.Inst.Handlers[req.URL.Path]
	w := httptest.NewRecorder()
	if !ok {
		w.WriteHeader(404)
	} else {
		h.ServeHTTP(w, req)
	}
	res := w.Result()
	res.Request = req
	return res, nil
}

func B64(b []byte) string { return base64.StdEncoding.EncodeToString(b) }
