// Package der is a small DER *builder* (no parser): tag, minimal definite
// length, content. Oracles are obtained by building the expected output from
// the same template, never by parsing the input. Deliberate mis-builders are
// provided for malformation alphabets.
package der

import (
	"math/big"
	"time"
)

// Len returns the minimal definite-length octets for n.
func Len(n int) []byte {
	if n < 0x80 {
		return []byte{byte(n)}
	}
	var b []byte
	for x := n; x > 0; x >>= 8 {
		b = append([]byte{byte(x)}, b...)
	}
	return append([]byte{0x80 | byte(len(b))}, b...)
}

// TLV builds tag || minimal length || concat(content).
func TLV(tag byte, content ...[]byte) []byte {
	n := 0
	for _, c := range content {
		n += len(c)
	}
	out := append([]byte{tag}, Len(n)...)
	for _, c := range content {
		out = append(out, c...)
	}
	return out
}

// TLVLongLen is a mis-builder: the length is padded with `pad` extra leading zero octets (non-minimal).
func TLVLongLen(tag byte, pad int, content []byte) []byte {
	n := len(content)
	var b []byte
	for x := n; x > 0; x >>= 8 {
		b = append([]byte{byte(x)}, b...)
	}
	if len(b) == 0 {
		b = []byte{0}
	}
	for i := 0; i < pad; i++ {
		b = append([]byte{0}, b...)
	}
	out := append([]byte{tag, 0x80 | byte(len(b))}, b...)
	return append(out, content...)
}

// Indefinite is a mis-builder: BER indefinite length with end-of-contents.
func Indefinite(tag byte, content []byte) []byte {
	out := append([]byte{tag, 0x80}, content...)
	return append(out, 0, 0)
}

func Seq(items ...[]byte) []byte { return TLV(0x30, items...) }
func Set(items ...[]byte) []byte { return TLV(0x31, items...) }
func Null() []byte               { return []byte{0x05, 0x00} }
func Bool(b bool) []byte {
	if b {
		return []byte{0x01, 0x01, 0xff}
	}
	return []byte{0x01, 0x01, 0x00}
}

// IntMag encodes a non-negative INTEGER from its big-endian magnitude (minimal, leading 00 if high bit set).
func IntMag(mag []byte) []byte {
	for len(mag) > 1 && mag[0] == 0 {
		mag = mag[1:]
	}
	if len(mag) == 0 {
		mag = []byte{0}
	}
	if mag[0]&0x80 != 0 {
		mag = append([]byte{0}, mag...)
	}
	return TLV(0x02, mag)
}

// Int encodes a (possibly negative) INTEGER.
func Int(n int64) []byte {
	if n >= 0 {
		return IntMag(big.NewInt(n).Bytes())
	}
	// two's complement minimal
	var b []byte
	for x := n; ; x >>= 8 {
		b = append([]byte{byte(x)}, b...)
		if (x>>8 == -1 && byte(x)&0x80 != 0) || (x>>8 == 0 && byte(x)&0x80 == 0) {
			break
		}
	}
	return TLV(0x02, b)
}

func base128(out []byte, n int) []byte {
	var tmp []byte
	tmp = append(tmp, byte(n&0x7f))
	for n >>= 7; n > 0; n >>= 7 {
		tmp = append([]byte{byte(n&0x7f) | 0x80}, tmp...)
	}
	return append(out, tmp...)
}

// OIDContent returns the content octets of an OID.
func OIDContent(arcs ...int) []byte {
	var c []byte
	c = base128(c, arcs[0]*40+arcs[1])
	for _, a := range arcs[2:] {
		c = base128(c, a)
	}
	return c
}
func OID(arcs ...int) []byte { return TLV(0x06, OIDContent(arcs...)) }

func OctetString(b []byte) []byte { return TLV(0x04, b) }
func BitString(b []byte, unused byte) []byte {
	return TLV(0x03, []byte{unused}, b)
}

// Str builds a character string with the given universal tag (0x0c UTF8, 0x13 Printable, 0x16 IA5, 0x14 T61, 0x1e BMP, 0x12 Numeric).
func Str(tag byte, s string) []byte { return TLV(tag, []byte(s)) }
func UTF8(s string) []byte          { return Str(0x0c, s) }
func Printable(s string) []byte     { return Str(0x13, s) }
func IA5(s string) []byte           { return Str(0x16, s) }

func UTCTime(t time.Time) []byte { return TLV(0x17, []byte(t.UTC().Format("060102150405Z"))) }
func GeneralizedTime(t time.Time) []byte {
	return TLV(0x18, []byte(t.UTC().Format("20060102150405Z")))
}

// Time encodes per RFC 5280: UTCTime through 2049, GeneralizedTime from 2050.
func Time(t time.Time) []byte {
	if y := t.UTC().Year(); y >= 1950 && y < 2050 {
		return UTCTime(t)
	}
	return GeneralizedTime(t)
}

// Explicit wraps inner in a constructed context-specific tag [n].
func Explicit(n int, inner ...[]byte) []byte { return TLV(0xa0|byte(n), inner...) }

// ImplicitPrim builds a primitive context-specific [n] with raw content.
func ImplicitPrim(n int, content []byte) []byte { return TLV(0x80|byte(n), content) }

// ImplicitCons builds a constructed context-specific [n] with raw content.
func ImplicitCons(n int, content ...[]byte) []byte { return TLV(0xa0|byte(n), content...) }
