// Package tlsref is an independent reference codec for the RFC 5246 section 4
// presentation language, working on an explicit shape AST (no struct tags, no
// reflection in the codec itself). It is written from the RFC text and from the
// documented tag grammar of the library's tls package, never from its code.
//
// Values are represented generically:
//
//	integers, enums         uint64
//	opaque[N], opaque<a..b>  []byte
//	T<a..b> (T not a byte)   []any
//	struct                   []any, one element per field; an unselected
//	                         variant arm is nil
package tlsref

import (
	"errors"
	"fmt"
	"reflect"
	"strings"
)

type Kind int

const (
	U8 Kind = iota
	U16
	U24
	U32
	U64
	Enum   // Size bytes, big endian
	Array  // opaque[Size]
	Bytes  // opaque<Min..Max>
	Vec    // Elem<Min..Max> (lengths in bytes, as in the RFC)
	Struct // Fields
)

type Shape struct {
	Kind   Kind
	Size   int    // Enum: width in bytes; Array: length
	Tag    string // Enum only: how the width is declared in the Go tag ("size:2", "maxval:65535")
	Min    uint64 // Bytes, Vec
	Max    uint64 // Bytes, Vec
	Elem   *Shape
	Fields []Field
}

// Field of a struct. If Selector is non-empty the field is one arm of a
// select(): it is present exactly when the earlier Enum field named Selector
// has value Val.
type Field struct {
	Name     string
	S        *Shape
	Selector string
	Val      uint64
}

var ErrSyntax = errors.New("tlsref: invalid encoding")
var ErrValue = errors.New("tlsref: value not representable")

func width(k Kind, size int) int {
	switch k {
	case U8:
		return 1
	case U16:
		return 2
	case U24:
		return 3
	case U32:
		return 4
	case U64:
		return 8
	case Enum:
		return size
	}
	return 0
}

// PrefixWidth is the number of bytes of a vector's length prefix: the fewest
// bytes that can hold the declared maximum (RFC 5246 4.3).
func PrefixWidth(max uint64) int {
	n := 1
	for max > 0xff {
		max >>= 8
		n++
	}
	return n
}

func putUint(out []byte, v uint64, w int) []byte {
	for i := w - 1; i >= 0; i-- {
		out = append(out, byte(v>>(8*uint(i))))
	}
	return out
}

func fits(v uint64, w int) bool { return w >= 8 || v < (uint64(1)<<(8*uint(w))) }

// Encode appends the encoding of v.
func Encode(s *Shape, v any) ([]byte, error) { return enc(nil, s, v) }

func enc(out []byte, s *Shape, v any) ([]byte, error) {
	switch s.Kind {
	case U8, U16, U24, U32, U64, Enum:
		x, ok := v.(uint64)
		w := width(s.Kind, s.Size)
		if !ok || !fits(x, w) {
			return nil, ErrValue
		}
		return putUint(out, x, w), nil
	case Array:
		b, ok := v.([]byte)
		if !ok || len(b) != s.Size {
			return nil, ErrValue
		}
		return append(out, b...), nil
	case Bytes:
		b, ok := v.([]byte)
		if !ok || uint64(len(b)) < s.Min || uint64(len(b)) > s.Max {
			return nil, ErrValue
		}
		out = putUint(out, uint64(len(b)), PrefixWidth(s.Max))
		return append(out, b...), nil
	case Vec:
		l, ok := v.([]any)
		if !ok {
			return nil, ErrValue
		}
		var body []byte
		for _, e := range l {
			var err error
			if body, err = enc(body, s.Elem, e); err != nil {
				return nil, err
			}
		}
		if uint64(len(body)) < s.Min || uint64(len(body)) > s.Max {
			return nil, ErrValue
		}
		out = putUint(out, uint64(len(body)), PrefixWidth(s.Max))
		return append(out, body...), nil
	case Struct:
		l, ok := v.([]any)
		if !ok || len(l) != len(s.Fields) {
			return nil, ErrValue
		}
		sel := map[string]uint64{}
		chosen := map[string]bool{}
		for i, f := range s.Fields {
			if f.Selector != "" {
				c, ok := sel[f.Selector]
				if !ok {
					return nil, ErrValue
				}
				if _, ok := chosen[f.Selector]; !ok {
					chosen[f.Selector] = false
				}
				if c != f.Val {
					if l[i] != nil {
						return nil, ErrValue
					}
					continue
				}
				if l[i] == nil {
					return nil, ErrValue
				}
				chosen[f.Selector] = true
			}
			var err error
			if out, err = enc(out, f.S, l[i]); err != nil {
				return nil, err
			}
			if f.S.Kind == Enum {
				sel[f.Name] = l[i].(uint64)
			}
		}
		for _, ok := range chosen {
			if !ok {
				return nil, ErrValue
			}
		}
		return out, nil
	}
	return nil, fmt.Errorf("bad shape")
}

// Decode parses one value of shape s from the front of data and returns it
// with the number of bytes consumed.
func Decode(s *Shape, data []byte) (any, int, error) {
	switch s.Kind {
	case U8, U16, U24, U32, U64, Enum:
		w := width(s.Kind, s.Size)
		if len(data) < w {
			return nil, 0, ErrSyntax
		}
		var x uint64
		for i := 0; i < w; i++ {
			x = x<<8 | uint64(data[i])
		}
		return x, w, nil
	case Array:
		if len(data) < s.Size {
			return nil, 0, ErrSyntax
		}
		return append([]byte{}, data[:s.Size]...), s.Size, nil
	case Bytes, Vec:
		w := PrefixWidth(s.Max)
		if len(data) < w {
			return nil, 0, ErrSyntax
		}
		var n uint64
		for i := 0; i < w; i++ {
			n = n<<8 | uint64(data[i])
		}
		if n < s.Min || n > s.Max || n > uint64(len(data)-w) {
			return nil, 0, ErrSyntax
		}
		body := data[w : w+int(n)]
		if s.Kind == Bytes {
			return append([]byte{}, body...), w + int(n), nil
		}
		l := []any{}
		for off := 0; off < len(body); {
			e, k, err := Decode(s.Elem, body[off:])
			if err != nil {
				return nil, 0, err
			}
			if k == 0 {
				return nil, 0, fmt.Errorf("zero-width element")
			}
			l = append(l, e)
			off += k
		}
		return l, w + int(n), nil
	case Struct:
		l := make([]any, len(s.Fields))
		off := 0
		sel := map[string]uint64{}
		chosen := map[string]bool{}
		for i, f := range s.Fields {
			if f.Selector != "" {
				c, ok := sel[f.Selector]
				if !ok {
					return nil, 0, fmt.Errorf("bad shape: selector")
				}
				if _, ok := chosen[f.Selector]; !ok {
					chosen[f.Selector] = false
				}
				if c != f.Val {
					continue
				}
				chosen[f.Selector] = true
			}
			e, k, err := Decode(f.S, data[off:])
			if err != nil {
				return nil, 0, err
			}
			l[i] = e
			off += k
			if f.S.Kind == Enum {
				sel[f.Name] = e.(uint64)
			}
		}
		for _, ok := range chosen {
			if !ok {
				return nil, 0, ErrSyntax
			}
		}
		return l, off, nil
	}
	return nil, 0, fmt.Errorf("bad shape")
}

// ---------------------------------------------------------------------------
// Binding to Go types understood by the library under test.

var (
	tU8   = reflect.TypeOf(uint8(0))
	tU16  = reflect.TypeOf(uint16(0))
	tU32  = reflect.TypeOf(uint32(0))
	tU64  = reflect.TypeOf(uint64(0))
	tByte = reflect.TypeOf([]byte(nil))
)

// Binder supplies the library's two named integer types.
type Binder struct {
	Uint24 reflect.Type
	Enum   reflect.Type
}

// GoType builds the Go type for s and, for kinds that need one, the tag that
// has to be put on a field (or passed as top-level params) holding it.
func (b Binder) GoType(s *Shape) (reflect.Type, string) {
	switch s.Kind {
	case U8:
		return tU8, ""
	case U16:
		return tU16, ""
	case U24:
		return b.Uint24, ""
	case U32:
		return tU32, ""
	case U64:
		return tU64, ""
	case Enum:
		if s.Tag != "" {
			return b.Enum, s.Tag
		}
		return b.Enum, fmt.Sprintf("size:%d", s.Size)
	case Array:
		return reflect.ArrayOf(s.Size, tU8), ""
	case Bytes:
		return tByte, fmt.Sprintf("minlen:%d,maxlen:%d", s.Min, s.Max)
	case Vec:
		et, _ := b.GoType(s.Elem)
		return reflect.SliceOf(et), fmt.Sprintf("minlen:%d,maxlen:%d", s.Min, s.Max)
	case Struct:
		var fs []reflect.StructField
		for _, f := range s.Fields {
			ft, tag := b.GoType(f.S)
			if f.Selector != "" {
				ft = reflect.PointerTo(ft)
				extra := fmt.Sprintf("selector:%s,val:%d", f.Selector, f.Val)
				if tag != "" {
					// size/maxval first: the library's tag parser starts a fresh
					// field description at those clauses (undocumented order dependence)
					tag = tag + "," + extra
				} else {
					tag = extra
				}
			}
			sf := reflect.StructField{Name: f.Name, Type: ft}
			if tag != "" {
				sf.Tag = reflect.StructTag(`tls:"` + tag + `"`)
			}
			fs = append(fs, sf)
		}
		return reflect.StructOf(fs), ""
	}
	panic("bad shape")
}

// ToGo stores v (generic form) into dst, a settable value of GoType(s).
// Values that the Go type itself cannot hold are rejected with ok=false.
func (b Binder) ToGo(s *Shape, v any, dst reflect.Value) (ok bool) {
	switch s.Kind {
	case U8, U16, U24, U32, U64, Enum:
		x := v.(uint64)
		if dst.OverflowUint(x) {
			return false
		}
		dst.SetUint(x)
		return true
	case Array:
		bs := v.([]byte)
		if len(bs) != s.Size {
			return false
		}
		reflect.Copy(dst, reflect.ValueOf(bs))
		return true
	case Bytes:
		if bs := v.([]byte); bs == nil {
			dst.SetBytes(nil) // a nil slice stays nil (encoders must treat it as the empty vector)
			return true
		}
		dst.SetBytes(append([]byte{}, v.([]byte)...))
		return true
	case Vec:
		l := v.([]any)
		if l == nil {
			dst.Set(reflect.Zero(dst.Type()))
			return true
		}
		sl := reflect.MakeSlice(dst.Type(), len(l), len(l))
		for i, e := range l {
			if !b.ToGo(s.Elem, e, sl.Index(i)) {
				return false
			}
		}
		dst.Set(sl)
		return true
	case Struct:
		l := v.([]any)
		for i, f := range s.Fields {
			fd := dst.Field(i)
			if f.Selector != "" {
				if l[i] == nil {
					continue
				}
				p := reflect.New(fd.Type().Elem())
				if !b.ToGo(f.S, l[i], p.Elem()) {
					return false
				}
				fd.Set(p)
				continue
			}
			if !b.ToGo(f.S, l[i], fd) {
				return false
			}
		}
		return true
	}
	panic("bad shape")
}

// FromGo converts a Go value of GoType(s) back to the generic form.
func (b Binder) FromGo(s *Shape, src reflect.Value) any {
	switch s.Kind {
	case U8, U16, U24, U32, U64, Enum:
		return src.Uint()
	case Array:
		out := make([]byte, src.Len())
		reflect.Copy(reflect.ValueOf(out), src)
		return out
	case Bytes:
		return append([]byte{}, src.Bytes()...)
	case Vec:
		l := []any{}
		for i := 0; i < src.Len(); i++ {
			l = append(l, b.FromGo(s.Elem, src.Index(i)))
		}
		return l
	case Struct:
		l := make([]any, len(s.Fields))
		for i, f := range s.Fields {
			fd := src.Field(i)
			if f.Selector != "" {
				if fd.IsNil() {
					continue
				}
				l[i] = b.FromGo(f.S, fd.Elem())
				continue
			}
			l[i] = b.FromGo(f.S, fd)
		}
		return l
	}
	panic("bad shape")
}

// Equal compares two generic values.
func Equal(a, b any) bool {
	switch x := a.(type) {
	case nil:
		return b == nil
	case uint64:
		y, ok := b.(uint64)
		return ok && x == y
	case []byte:
		y, ok := b.([]byte)
		return ok && string(x) == string(y)
	case []any:
		y, ok := b.([]any)
		if !ok || len(x) != len(y) {
			return false
		}
		for i := range x {
			if !Equal(x[i], y[i]) {
				return false
			}
		}
		return true
	}
	return false
}

// String renders a shape compactly (used in replay files and samples).
func (s *Shape) String() string {
	switch s.Kind {
	case U8:
		return "uint8"
	case U16:
		return "uint16"
	case U24:
		return "uint24"
	case U32:
		return "uint32"
	case U64:
		return "uint64"
	case Enum:
		if s.Tag != "" {
			return "enum(" + s.Tag + ")"
		}
		return fmt.Sprintf("enum(size:%d)", s.Size)
	case Array:
		return fmt.Sprintf("opaque[%d]", s.Size)
	case Bytes:
		return fmt.Sprintf("opaque<%d..%d>", s.Min, s.Max)
	case Vec:
		return fmt.Sprintf("%s<%d..%d>", s.Elem, s.Min, s.Max)
	case Struct:
		var p []string
		for _, f := range s.Fields {
			x := f.Name + " " + f.S.String()
			if f.Selector != "" {
				x = fmt.Sprintf("%s case %s=%d: %s", f.Name, f.Selector, f.Val, f.S)
			}
			p = append(p, x)
		}
		return "struct{" + strings.Join(p, "; ") + "}"
	}
	return "?"
}

// Show renders a generic value.
func Show(v any) string {
	switch x := v.(type) {
	case nil:
		return "nil"
	case uint64:
		return fmt.Sprintf("%#x", x)
	case []byte:
		if len(x) > 24 {
			return fmt.Sprintf("bytes[%d]%x…", len(x), x[:8])
		}
		return fmt.Sprintf("h'%x'", x)
	case []any:
		var p []string
		for _, e := range x {
			p = append(p, Show(e))
		}
		return "(" + strings.Join(p, " ") + ")"
	}
	return fmt.Sprint(v)
}
