package ct6962

import (
	"bytes"
	"encoding/base64"
	"encoding/hex"
	"encoding/json"
	"errors"
	"testing"
)

// The reference is the trusted base of several checks; these tests pin it to
// hand-computed bytes (worked out from the RFC text, not from any library).

func h(s string) []byte {
	b, err := hex.DecodeString(s)
	if err != nil {
		panic(err)
	}
	return b
}

func TestHandComputedEncodings(t *testing.T) {
	var kh [32]byte
	for i := range kh {
		kh[i] = 0xaa
	}
	leafX, err := AppendMerkleTreeLeaf(nil, MerkleTreeLeaf{Entry: TimestampedEntry{Timestamp: 0x0102030405060708,
		SignedEntry: SignedEntry{EntryType: X509Entry, Cert: []byte{0xde, 0xad}}, Extensions: []byte{0xee}}})
	if err != nil || !bytes.Equal(leafX, h("00"+"00"+"0102030405060708"+"0000"+"000002dead"+"0001ee")) {
		t.Errorf("x509 leaf: %x %v", leafX, err)
	}
	leafP, err := AppendMerkleTreeLeaf(nil, MerkleTreeLeaf{Entry: TimestampedEntry{Timestamp: 1,
		SignedEntry: SignedEntry{EntryType: PrecertEntry, IssuerKeyHash: kh, TBS: []byte{0xbe}}}})
	if err != nil || !bytes.Equal(leafP, h("00"+"00"+"0000000000000001"+"0001"+hex.EncodeToString(kh[:])+"000001be"+"0000")) {
		t.Errorf("precert leaf: %x %v", leafP, err)
	}
	sct, err := AppendSCT(nil, SCT{LogID: kh, Timestamp: 0x0a0b, Signature: DigitallySigned{Hash: 4, Sig: 3, Signature: []byte{1, 2, 3}}})
	if err != nil || !bytes.Equal(sct, h("00"+hex.EncodeToString(kh[:])+"0000000000000a0b"+"0000"+"0403"+"0003010203")) {
		t.Errorf("sct: %x %v", sct, err)
	}
	in, err := AppendSCTSignatureInput(nil, V1, 0x0a0b, SignedEntry{EntryType: X509Entry, Cert: []byte{0xde, 0xad}}, []byte{0xee})
	if err != nil || !bytes.Equal(in, h("00"+"00"+"0000000000000a0b"+"0000"+"000002dead"+"0001ee")) {
		t.Errorf("sct input: %x %v", in, err)
	}
	th, err := AppendSTHSignatureInput(nil, V1, 0x11, 0x22, kh)
	if err != nil || !bytes.Equal(th, h("00"+"01"+"0000000000000011"+"0000000000000022"+hex.EncodeToString(kh[:]))) {
		t.Errorf("sth input: %x %v", th, err)
	}
	if _, err := AppendSTHSignatureInput(nil, 1, 0, 0, kh); !errors.Is(err, ErrVersion) {
		t.Errorf("v2 tree head: %v", err)
	}
	list, err := AppendSCTList(nil, [][]byte{{1}, {2, 3}})
	if err != nil || !bytes.Equal(list, h("0007"+"000101"+"00020203")) {
		t.Errorf("sct list: %x %v", list, err)
	}
	pce, err := AppendPrecertChainEntry(nil, PrecertChainEntry{PreCertificate: []byte{9}, Chain: [][]byte{{1}, {2, 3}}})
	if err != nil || !bytes.Equal(pce, h("00000109"+"000009"+"00000101"+"0000020203")) {
		t.Errorf("precert chain entry: %x %v", pce, err)
	}
	// SHA-256("\x00") is the leaf hash of the empty leaf
	if lh := LeafHash(nil); hex.EncodeToString(lh[:]) != "6e340b9cffb37a989ca544e6bb780a2c78901d3fb33738768511a30617afa01d" {
		t.Errorf("leaf hash of empty input: %x", lh)
	}
}

func TestStrictReaders(t *testing.T) {
	good := h("0007" + "000101" + "00020203")
	if v, err := ParseSCTList(good); err != nil || len(v) != 2 {
		t.Fatalf("%v %v", v, err)
	}
	for _, c := range []struct {
		in   string
		want error
	}{
		{"0007" + "000101" + "00020203" + "00", ErrTrailing},
		{"0000", ErrLength},
		{"0003" + "000001", ErrLength}, // empty SerializedSCT
		{"0007" + "000101" + "000202", ErrTruncated},
		{"0004" + "000101" + "00", ErrTruncated}, // element header cut by the vector end
		{"00", ErrTruncated},
	} {
		if _, err := ParseSCTList(h(c.in)); !errors.Is(err, c.want) {
			t.Errorf("%s: %v, want %v", c.in, err, c.want)
		}
	}
	if _, err := ParseMerkleTreeLeaf(h("0001")); !errors.Is(err, ErrUnknownLeafType) {
		t.Errorf("leaf type 1: %v", err)
	}
	if _, err := ParseMerkleTreeLeaf(h("0000" + "0000000000000001" + "0002" + "0000")); !errors.Is(err, ErrUnknownEntryType) {
		t.Errorf("entry type 2: %v", err)
	}
	if _, err := ParseMerkleTreeLeaf(h("0000" + "0000000000000001" + "0000" + "000000" + "0000")); !errors.Is(err, ErrLength) {
		t.Errorf("empty certificate: %v", err)
	}
	marks, n, err := Layout(SMerkleTreeLeaf, h("0000"+"0000000000000001"+"0000"+"00000177"+"0000"))
	if err != nil || n != 18 || len(marks) != 8 {
		t.Errorf("layout: %v %d %v", marks, n, err)
	}
}

func TestBase64AndJSON(t *testing.T) {
	for n := 0; n < 70; n++ {
		b := make([]byte, n)
		for i := range b {
			b[i] = byte(251 + i*7)
		}
		if B64(b) != base64.StdEncoding.EncodeToString(b) {
			t.Fatalf("B64 differs at length %d", n)
		}
	}
	for _, s := range []string{JSONGetSTH(1, 2, []byte{3}, []byte{4}), JSONAddChainResponse(0, []byte{1}, 2, nil, []byte{3}),
		JSONGetEntries([]LeafEntry{{[]byte{1}, nil}, {nil, []byte{2}}}), JSONGetProofByHash(-1, [][]byte{{1}, {2}}), JSONGetSTHConsistency(nil),
		JSONGetRoots([][]byte{{1}}), JSONGetEntryAndProof([]byte{1}, []byte{2}, nil), JSONAddChainRequest([][]byte{{1}})} {
		var v any
		if err := json.Unmarshal([]byte(s), &v); err != nil {
			t.Errorf("%s: %v", s, err)
		}
	}
}
