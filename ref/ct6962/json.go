package ct6962

// JSON bodies of the RFC 6962 section 4 messages, written out by hand with the
// RFC's field names: binary fields are base64 (RFC 4648 s4, standard alphabet,
// padded), integers are plain decimal numbers. The writers do no validation:
// they are used to produce both well-formed and deliberately ill-formed bodies.

import (
	"strconv"
	"strings"
)

const b64alphabet = "ABCDEFGHIJKLMNOPQRSTUVWXYZabcdefghijklmnopqrstuvwxyz0123456789+/"

// B64 is RFC 4648 section 4 base64 with padding, written out by hand.
func B64(b []byte) string {
	var sb strings.Builder
	sb.Grow((len(b) + 2) / 3 * 4)
	for i := 0; i+3 <= len(b); i += 3 {
		x := uint32(b[i])<<16 | uint32(b[i+1])<<8 | uint32(b[i+2])
		sb.WriteByte(b64alphabet[x>>18&63])
		sb.WriteByte(b64alphabet[x>>12&63])
		sb.WriteByte(b64alphabet[x>>6&63])
		sb.WriteByte(b64alphabet[x&63])
	}
	switch len(b) % 3 {
	case 1:
		x := uint32(b[len(b)-1]) << 16
		sb.WriteByte(b64alphabet[x>>18&63])
		sb.WriteByte(b64alphabet[x>>12&63])
		sb.WriteString("==")
	case 2:
		x := uint32(b[len(b)-2])<<16 | uint32(b[len(b)-1])<<8
		sb.WriteByte(b64alphabet[x>>18&63])
		sb.WriteByte(b64alphabet[x>>12&63])
		sb.WriteByte(b64alphabet[x>>6&63])
		sb.WriteString("=")
	}
	return sb.String()
}

func q(s string) string { return `"` + s + `"` } // s is base64 or an RFC field name: nothing to escape

func u(x uint64) string { return strconv.FormatUint(x, 10) }

func b64Array(bs [][]byte) string {
	parts := make([]string, len(bs))
	for i, b := range bs {
		parts[i] = q(B64(b))
	}
	return "[" + strings.Join(parts, ",") + "]"
}

// LeafEntry is one element of the get-entries response (s4.6).
type LeafEntry struct {
	LeafInput []byte // TLS-encoded MerkleTreeLeaf
	ExtraData []byte // TLS-encoded CertificateChain or PrecertChainEntry
}

// JSONAddChainRequest is the body of add-chain / add-pre-chain (s4.1, s4.2).
func JSONAddChainRequest(chain [][]byte) string {
	return `{"chain":` + b64Array(chain) + `}`
}

// JSONAddChainResponse is the response of add-chain / add-pre-chain (s4.1):
// sct_version, id, timestamp, extensions, signature. signature is the encoded
// DigitallySigned.
func JSONAddChainResponse(version uint8, id []byte, timestamp uint64, extensions []byte, signature []byte) string {
	return `{"sct_version":` + u(uint64(version)) + `,"id":` + q(B64(id)) + `,"timestamp":` + u(timestamp) +
		`,"extensions":` + q(B64(extensions)) + `,"signature":` + q(B64(signature)) + `}`
}

// JSONGetSTH is the response of get-sth (s4.3). signature is the encoded DigitallySigned.
func JSONGetSTH(treeSize, timestamp uint64, rootHash []byte, signature []byte) string {
	return `{"tree_size":` + u(treeSize) + `,"timestamp":` + u(timestamp) + `,"sha256_root_hash":` + q(B64(rootHash)) +
		`,"tree_head_signature":` + q(B64(signature)) + `}`
}

// JSONGetSTHConsistency is the response of get-sth-consistency (s4.4).
func JSONGetSTHConsistency(nodes [][]byte) string {
	return `{"consistency":` + b64Array(nodes) + `}`
}

// JSONGetProofByHash is the response of get-proof-by-hash (s4.5).
func JSONGetProofByHash(leafIndex int64, auditPath [][]byte) string {
	return `{"leaf_index":` + strconv.FormatInt(leafIndex, 10) + `,"audit_path":` + b64Array(auditPath) + `}`
}

// JSONGetEntries is the response of get-entries (s4.6).
func JSONGetEntries(entries []LeafEntry) string {
	parts := make([]string, len(entries))
	for i, e := range entries {
		parts[i] = `{"leaf_input":` + q(B64(e.LeafInput)) + `,"extra_data":` + q(B64(e.ExtraData)) + `}`
	}
	return `{"entries":[` + strings.Join(parts, ",") + `]}`
}

// JSONGetRoots is the response of get-roots (s4.7).
func JSONGetRoots(certs [][]byte) string {
	return `{"certificates":` + b64Array(certs) + `}`
}

// JSONGetEntryAndProof is the response of get-entry-and-proof (s4.8).
func JSONGetEntryAndProof(leafInput, extraData []byte, auditPath [][]byte) string {
	return `{"leaf_input":` + q(B64(leafInput)) + `,"extra_data":` + q(B64(extraData)) + `,"audit_path":` + b64Array(auditPath) + `}`
}
