// Package ct6962 is an independent reference codec for the wire structures of
// RFC 6962 section 3 (Certificate Transparency v1), written from the RFC text
// and from RFC 5246 section 4 with explicit byte appends: no reflection, no
// struct tags, no call into the library under test.
//
// For every structure X there is
//
//	AppendX(dst, v) ([]byte, error)   the one and only valid encoding of v appended to dst,
//	                                  or ErrValue when v has no encoding (a length out of range);
//	ReadX(b) (v, n, err)              strict parse of a prefix of b, n = bytes consumed;
//	ParseX(b) (v, err)                strict complete parse: ReadX plus ErrTrailing when n != len(b).
//
// Strict means: every length prefix must lie inside the range the RFC declares
// and inside the enclosing vector / input, vectors must be filled exactly by
// whole elements, and LogEntryType / MerkleLeafType must be one of the declared
// codes. The one-byte Version and SignatureType fields are *carried, not
// judged* by the codec (any 0..255 is encoded and decoded); the two signature
// inputs (AppendSCTSignatureInput, AppendSTHSignatureInput) refuse everything
// but v1, as RFC 6962 defines no other layout. Byte slices returned by the
// readers alias the input.
//
// Layout(structure, b) reports where every length prefix, enum and fixed field
// of a valid encoding lies, so that a check can mutate them systematically.
//
// Wire formats implemented (all integers big endian):
//
//	ASN.1Cert            opaque<1..2^24-1>                     3-byte length
//	CtExtensions         opaque<0..2^16-1>                     2-byte length
//	LogEntryType         enum{x509_entry(0),precert_entry(1),(65535)}   2 bytes
//	MerkleLeafType       enum{timestamped_entry(0),(255)}      1 byte
//	Version              enum{v1(0),(255)}                     1 byte
//	SignatureType        enum{certificate_timestamp(0),tree_hash(1),(255)} 1 byte
//	PreCert              opaque issuer_key_hash[32]; opaque tbs_certificate<1..2^24-1>
//	DigitallySigned      hash(1) signature(1) opaque signature<0..2^16-1>     (RFC 5246 s4.7)
//	TimestampedEntry     uint64 timestamp; LogEntryType; select{ASN.1Cert|PreCert}; CtExtensions
//	MerkleTreeLeaf       Version; MerkleLeafType; select{TimestampedEntry}
//	SCT                  Version; opaque key_id[32]; uint64 timestamp; CtExtensions; DigitallySigned
//	CertificateTimestamp Version; SignatureType; uint64 timestamp; LogEntryType; signed_entry; CtExtensions
//	TreeHeadSignature    Version; SignatureType; uint64 timestamp; uint64 tree_size; opaque root[32]
//	SCT list             SerializedSCT sct_list<1..2^16-1>, SerializedSCT = opaque<1..2^16-1>
//	CertificateChain     ASN.1Cert certificate_chain<0..2^24-1>
//	PrecertChainEntry    ASN.1Cert pre_certificate; ASN.1Cert precertificate_chain<0..2^24-1>
//
// and the two non-RFC storage layouts the library documents in types.go for
// logs that store a hash instead of the issuance chain:
//
//	CertificateChainHash   opaque issuance_chain_hash<0..256>   2-byte length
//	PrecertChainEntryHash  ASN.1Cert pre_certificate; opaque issuance_chain_hash<0..256>
package ct6962

import (
	"crypto/sha256"
	"errors"
	"fmt"
)

// Protocol constants (RFC 6962 s3.1, s3.2, s3.4).
const (
	X509Entry    uint16 = 0
	PrecertEntry uint16 = 1

	TimestampedEntryLeaf uint8 = 0

	V1 uint8 = 0

	CertificateTimestampSig uint8 = 0
	TreeHashSig             uint8 = 1

	MaxCert       = 1<<24 - 1 // ASN.1Cert, tbs_certificate, certificate_chain, precertificate_chain
	MaxExtensions = 1<<16 - 1 // CtExtensions
	MaxSignature  = 1<<16 - 1 // DigitallySigned.signature
	MaxSCTList    = 1<<16 - 1 // sct_list and SerializedSCT
	MaxChainHash  = 256       // issuance_chain_hash (library storage layout)
)

// Error classes. Every error returned by this package wraps exactly one.
var (
	ErrTruncated        = errors.New("ct6962: truncated")
	ErrTrailing         = errors.New("ct6962: trailing data")
	ErrLength           = errors.New("ct6962: length out of range")
	ErrUnknownEntryType = errors.New("ct6962: unknown LogEntryType")
	ErrUnknownLeafType  = errors.New("ct6962: unknown MerkleLeafType")
	ErrValue            = errors.New("ct6962: value has no encoding")
	ErrVersion          = errors.New("ct6962: version is not v1")
)

// Class names the error class of err for use in stable signatures.
func Class(err error) string {
	switch {
	case err == nil:
		return "ok"
	case errors.Is(err, ErrTruncated):
		return "truncated"
	case errors.Is(err, ErrTrailing):
		return "trailing-data"
	case errors.Is(err, ErrLength):
		return "length-out-of-range"
	case errors.Is(err, ErrUnknownEntryType):
		return "unknown-entry-type"
	case errors.Is(err, ErrUnknownLeafType):
		return "unknown-leaf-type"
	case errors.Is(err, ErrValue):
		return "no-encoding"
	case errors.Is(err, ErrVersion):
		return "not-v1"
	}
	return "other"
}

// ----------------------------------------------------------------------------
// Values

// DigitallySigned is RFC 5246 s4.7 with the SignatureAndHashAlgorithm of s7.4.1.4.1.
type DigitallySigned struct {
	Hash      uint8
	Sig       uint8
	Signature []byte // <0..2^16-1>
}

// SignedEntry is the select(entry_type) body shared by TimestampedEntry and the
// SCT signature input: Cert for x509_entry; IssuerKeyHash + TBS for precert_entry.
type SignedEntry struct {
	EntryType     uint16
	Cert          []byte   // x509_entry: ASN.1Cert <1..2^24-1>
	IssuerKeyHash [32]byte // precert_entry
	TBS           []byte   // precert_entry: tbs_certificate <1..2^24-1>
}

// TimestampedEntry is RFC 6962 s3.4.
type TimestampedEntry struct {
	Timestamp uint64
	SignedEntry
	Extensions []byte // <0..2^16-1>
}

// MerkleTreeLeaf is RFC 6962 s3.4.
type MerkleTreeLeaf struct {
	Version  uint8
	LeafType uint8
	Entry    TimestampedEntry // leaf_type == timestamped_entry
}

// SCT is the SignedCertificateTimestamp of RFC 6962 s3.2.
type SCT struct {
	Version    uint8
	LogID      [32]byte
	Timestamp  uint64
	Extensions []byte
	Signature  DigitallySigned
}

// CertificateTimestamp is the digitally-signed struct inside an SCT (s3.2).
type CertificateTimestamp struct {
	Version       uint8
	SignatureType uint8
	Timestamp     uint64
	SignedEntry
	Extensions []byte
}

// TreeHeadSignature is the digitally-signed struct of s3.5.
type TreeHeadSignature struct {
	Version       uint8
	SignatureType uint8
	Timestamp     uint64
	TreeSize      uint64
	RootHash      [32]byte
}

// PrecertChainEntry is s3.1 (extra_data of a precert entry, s4.6).
type PrecertChainEntry struct {
	PreCertificate []byte
	Chain          [][]byte
}

// PrecertChainEntryHash is the library's storage variant of PrecertChainEntry.
type PrecertChainEntryHash struct {
	PreCertificate    []byte
	IssuanceChainHash []byte // <0..256>
}

func eqB(a, b []byte) bool { return string(a) == string(b) }

func eqBB(a, b [][]byte) bool {
	if len(a) != len(b) {
		return false
	}
	for i := range a {
		if !eqB(a[i], b[i]) {
			return false
		}
	}
	return true
}

// Equal compares values; nil and empty byte strings are the same value. Fields
// of the arm not selected by EntryType are ignored.
func (a DigitallySigned) Equal(b DigitallySigned) bool {
	return a.Hash == b.Hash && a.Sig == b.Sig && eqB(a.Signature, b.Signature)
}

func (a SignedEntry) Equal(b SignedEntry) bool {
	if a.EntryType != b.EntryType {
		return false
	}
	switch a.EntryType {
	case X509Entry:
		return eqB(a.Cert, b.Cert)
	case PrecertEntry:
		return a.IssuerKeyHash == b.IssuerKeyHash && eqB(a.TBS, b.TBS)
	}
	return true
}

func (a TimestampedEntry) Equal(b TimestampedEntry) bool {
	return a.Timestamp == b.Timestamp && a.SignedEntry.Equal(b.SignedEntry) && eqB(a.Extensions, b.Extensions)
}

func (a MerkleTreeLeaf) Equal(b MerkleTreeLeaf) bool {
	return a.Version == b.Version && a.LeafType == b.LeafType && a.Entry.Equal(b.Entry)
}

func (a SCT) Equal(b SCT) bool {
	return a.Version == b.Version && a.LogID == b.LogID && a.Timestamp == b.Timestamp &&
		eqB(a.Extensions, b.Extensions) && a.Signature.Equal(b.Signature)
}

func (a CertificateTimestamp) Equal(b CertificateTimestamp) bool {
	return a.Version == b.Version && a.SignatureType == b.SignatureType && a.Timestamp == b.Timestamp &&
		a.SignedEntry.Equal(b.SignedEntry) && eqB(a.Extensions, b.Extensions)
}

func (a TreeHeadSignature) Equal(b TreeHeadSignature) bool { return a == b }

func (a PrecertChainEntry) Equal(b PrecertChainEntry) bool {
	return eqB(a.PreCertificate, b.PreCertificate) && eqBB(a.Chain, b.Chain)
}

func (a PrecertChainEntryHash) Equal(b PrecertChainEntryHash) bool {
	return eqB(a.PreCertificate, b.PreCertificate) && eqB(a.IssuanceChainHash, b.IssuanceChainHash)
}

// EqualChains compares two certificate chains element by element.
func EqualChains(a, b [][]byte) bool { return eqBB(a, b) }

// ----------------------------------------------------------------------------
// Encoders

func appendU16(dst []byte, x uint16) []byte { return append(dst, byte(x>>8), byte(x)) }

func appendU24(dst []byte, x uint32) []byte { return append(dst, byte(x>>16), byte(x>>8), byte(x)) }

func appendU64(dst []byte, x uint64) []byte {
	return append(dst, byte(x>>56), byte(x>>48), byte(x>>40), byte(x>>32), byte(x>>24), byte(x>>16), byte(x>>8), byte(x))
}

func valueErr(what string, n, min, max int) error {
	return fmt.Errorf("%w: %s has %d bytes, allowed %d..%d", ErrValue, what, n, min, max)
}

// appendOpaque16 appends opaque<min..max> with a 2-byte length.
func appendOpaque16(dst []byte, what string, b []byte, min, max int) ([]byte, error) {
	if len(b) < min || len(b) > max {
		return dst, valueErr(what, len(b), min, max)
	}
	dst = appendU16(dst, uint16(len(b)))
	return append(dst, b...), nil
}

// appendOpaque24 appends opaque<min..max> with a 3-byte length.
func appendOpaque24(dst []byte, what string, b []byte, min, max int) ([]byte, error) {
	if len(b) < min || len(b) > max {
		return dst, valueErr(what, len(b), min, max)
	}
	dst = appendU24(dst, uint32(len(b)))
	return append(dst, b...), nil
}

// AppendASN1Cert appends opaque ASN.1Cert<1..2^24-1>.
func AppendASN1Cert(dst []byte, cert []byte) ([]byte, error) {
	return appendOpaque24(dst, "ASN.1Cert", cert, 1, MaxCert)
}

// AppendDigitallySigned appends hash, signature algorithm and opaque signature<0..2^16-1>.
func AppendDigitallySigned(dst []byte, d DigitallySigned) ([]byte, error) {
	dst = append(dst, d.Hash, d.Sig)
	return appendOpaque16(dst, "signature", d.Signature, 0, MaxSignature)
}

func appendSignedEntry(dst []byte, e SignedEntry) ([]byte, error) {
	dst = appendU16(dst, e.EntryType)
	switch e.EntryType {
	case X509Entry:
		return appendOpaque24(dst, "ASN.1Cert", e.Cert, 1, MaxCert)
	case PrecertEntry:
		dst = append(dst, e.IssuerKeyHash[:]...)
		return appendOpaque24(dst, "tbs_certificate", e.TBS, 1, MaxCert)
	}
	return dst, fmt.Errorf("%w: LogEntryType %d", ErrValue, e.EntryType)
}

// AppendTimestampedEntry appends timestamp, entry_type, signed_entry, extensions.
func AppendTimestampedEntry(dst []byte, e TimestampedEntry) ([]byte, error) {
	dst = appendU64(dst, e.Timestamp)
	dst, err := appendSignedEntry(dst, e.SignedEntry)
	if err != nil {
		return dst, err
	}
	return appendOpaque16(dst, "extensions", e.Extensions, 0, MaxExtensions)
}

// AppendMerkleTreeLeaf appends version, leaf_type and the TimestampedEntry.
func AppendMerkleTreeLeaf(dst []byte, l MerkleTreeLeaf) ([]byte, error) {
	if l.LeafType != TimestampedEntryLeaf {
		return dst, fmt.Errorf("%w: MerkleLeafType %d", ErrValue, l.LeafType)
	}
	dst = append(dst, l.Version, l.LeafType)
	return AppendTimestampedEntry(dst, l.Entry)
}

// AppendSCT appends sct_version, id, timestamp, extensions, signature.
func AppendSCT(dst []byte, s SCT) ([]byte, error) {
	dst = append(dst, s.Version)
	dst = append(dst, s.LogID[:]...)
	dst = appendU64(dst, s.Timestamp)
	dst, err := appendOpaque16(dst, "extensions", s.Extensions, 0, MaxExtensions)
	if err != nil {
		return dst, err
	}
	return AppendDigitallySigned(dst, s.Signature)
}

// AppendCertificateTimestamp appends the struct as given (any version and
// signature type byte). Use AppendSCTSignatureInput for the signed form.
func AppendCertificateTimestamp(dst []byte, c CertificateTimestamp) ([]byte, error) {
	dst = append(dst, c.Version, c.SignatureType)
	dst = appendU64(dst, c.Timestamp)
	dst, err := appendSignedEntry(dst, c.SignedEntry)
	if err != nil {
		return dst, err
	}
	return appendOpaque16(dst, "extensions", c.Extensions, 0, MaxExtensions)
}

// AppendSCTSignatureInput appends the bytes a v1 SCT signature covers: version,
// timestamp and extensions come from the SCT, the signed entry from the log
// entry, signature_type is certificate_timestamp. ErrVersion if version != v1.
func AppendSCTSignatureInput(dst []byte, version uint8, timestamp uint64, entry SignedEntry, extensions []byte) ([]byte, error) {
	if version != V1 {
		return dst, fmt.Errorf("%w: %d", ErrVersion, version)
	}
	return AppendCertificateTimestamp(dst, CertificateTimestamp{Version: V1, SignatureType: CertificateTimestampSig,
		Timestamp: timestamp, SignedEntry: entry, Extensions: extensions})
}

// AppendTreeHeadSignature appends the struct as given (any version and
// signature type byte). Use AppendSTHSignatureInput for the signed form.
func AppendTreeHeadSignature(dst []byte, t TreeHeadSignature) []byte {
	dst = append(dst, t.Version, t.SignatureType)
	dst = appendU64(dst, t.Timestamp)
	dst = appendU64(dst, t.TreeSize)
	return append(dst, t.RootHash[:]...)
}

// AppendSTHSignatureInput appends the bytes a v1 STH signature covers.
func AppendSTHSignatureInput(dst []byte, version uint8, timestamp, treeSize uint64, root [32]byte) ([]byte, error) {
	if version != V1 {
		return dst, fmt.Errorf("%w: %d", ErrVersion, version)
	}
	return AppendTreeHeadSignature(dst, TreeHeadSignature{Version: V1, SignatureType: TreeHashSig,
		Timestamp: timestamp, TreeSize: treeSize, RootHash: root}), nil
}

// AppendSCTList appends SerializedSCT sct_list<1..2^16-1> (s3.3); each element
// is opaque<1..2^16-1>.
func AppendSCTList(dst []byte, scts [][]byte) ([]byte, error) {
	total := 0
	for _, s := range scts {
		if len(s) < 1 || len(s) > MaxSCTList {
			return dst, valueErr("SerializedSCT", len(s), 1, MaxSCTList)
		}
		total += 2 + len(s)
	}
	if total < 1 || total > MaxSCTList {
		return dst, valueErr("sct_list", total, 1, MaxSCTList)
	}
	dst = appendU16(dst, uint16(total))
	for _, s := range scts {
		dst = appendU16(dst, uint16(len(s)))
		dst = append(dst, s...)
	}
	return dst, nil
}

// AppendCertificateChain appends ASN.1Cert certificate_chain<0..2^24-1>.
func AppendCertificateChain(dst []byte, chain [][]byte) ([]byte, error) {
	total := 0
	for _, c := range chain {
		if len(c) < 1 || len(c) > MaxCert {
			return dst, valueErr("ASN.1Cert", len(c), 1, MaxCert)
		}
		total += 3 + len(c)
	}
	if total > MaxCert {
		return dst, valueErr("certificate_chain", total, 0, MaxCert)
	}
	dst = appendU24(dst, uint32(total))
	for _, c := range chain {
		dst = appendU24(dst, uint32(len(c)))
		dst = append(dst, c...)
	}
	return dst, nil
}

// AppendPrecertChainEntry appends pre_certificate and precertificate_chain.
func AppendPrecertChainEntry(dst []byte, p PrecertChainEntry) ([]byte, error) {
	dst, err := AppendASN1Cert(dst, p.PreCertificate)
	if err != nil {
		return dst, err
	}
	return AppendCertificateChain(dst, p.Chain)
}

// AppendCertificateChainHash appends opaque issuance_chain_hash<0..256>.
func AppendCertificateChainHash(dst []byte, h []byte) ([]byte, error) {
	return appendOpaque16(dst, "issuance_chain_hash", h, 0, MaxChainHash)
}

// AppendPrecertChainEntryHash appends pre_certificate and issuance_chain_hash.
func AppendPrecertChainEntryHash(dst []byte, p PrecertChainEntryHash) ([]byte, error) {
	dst, err := AppendASN1Cert(dst, p.PreCertificate)
	if err != nil {
		return dst, err
	}
	return appendOpaque16(dst, "issuance_chain_hash", p.IssuanceChainHash, 0, MaxChainHash)
}

// LeafHash is the Merkle leaf hash of RFC 6962 s2.1: SHA-256(0x00 || leaf).
func LeafHash(leaf []byte) [32]byte {
	h := sha256.New()
	h.Write([]byte{0x00})
	h.Write(leaf)
	var out [32]byte
	copy(out[:], h.Sum(nil))
	return out
}

// NodeHash is the interior node hash of s2.1: SHA-256(0x01 || left || right).
func NodeHash(left, right []byte) [32]byte {
	h := sha256.New()
	h.Write([]byte{0x01})
	h.Write(left)
	h.Write(right)
	var out [32]byte
	copy(out[:], h.Sum(nil))
	return out
}

// ----------------------------------------------------------------------------
// Strict readers

// MarkKind classifies one field of an encoding.
type MarkKind int

const (
	MarkLength MarkKind = iota // length prefix of a variable-length vector
	MarkEnum                   // enumerated code (version, types, algorithms)
	MarkUint                   // uint64
	MarkFixed                  // opaque[N]
	MarkData                   // contents of a variable-length opaque
)

func (k MarkKind) String() string {
	return [...]string{"length", "enum", "uint", "fixed", "data"}[k]
}

// Mark locates one field inside an encoding.
type Mark struct {
	Name  string // RFC field name, e.g. "extensions", "entry_type", "certificate_chain[1]"
	Kind  MarkKind
	Off   int
	Width int
}

type reader struct {
	b     []byte
	off   int
	end   int
	err   error
	marks *[]Mark
}

func newReader(b []byte, marks *[]Mark) *reader { return &reader{b: b, end: len(b), marks: marks} }

func (r *reader) mark(name string, k MarkKind, off, w int) {
	if r.marks != nil {
		*r.marks = append(*r.marks, Mark{Name: name, Kind: k, Off: off, Width: w})
	}
}

func (r *reader) fail(err error, format string, a ...any) {
	if r.err == nil {
		r.err = fmt.Errorf("%w: "+format, append([]any{err}, a...)...)
	}
}

func (r *reader) uint(name string, k MarkKind, w int) uint64 {
	if r.err != nil {
		return 0
	}
	if r.end-r.off < w {
		r.fail(ErrTruncated, "%s needs %d bytes at offset %d, %d left", name, w, r.off, r.end-r.off)
		return 0
	}
	var x uint64
	for i := 0; i < w; i++ {
		x = x<<8 | uint64(r.b[r.off+i])
	}
	r.mark(name, k, r.off, w)
	r.off += w
	return x
}

func (r *reader) fixed(name string, n int, out []byte) {
	if r.err != nil {
		return
	}
	if r.end-r.off < n {
		r.fail(ErrTruncated, "%s needs %d bytes at offset %d, %d left", name, n, r.off, r.end-r.off)
		return
	}
	copy(out, r.b[r.off:r.off+n])
	r.mark(name, MarkFixed, r.off, n)
	r.off += n
}

// opaque reads opaque<min..max> with a w-byte length prefix.
func (r *reader) opaque(name string, w, min, max int) []byte {
	n := int(r.uint(name+".length", MarkLength, w))
	if r.err != nil {
		return nil
	}
	if n < min || n > max {
		r.fail(ErrLength, "%s length %d outside %d..%d", name, n, min, max)
		return nil
	}
	if r.end-r.off < n {
		r.fail(ErrTruncated, "%s announces %d bytes at offset %d, %d left", name, n, r.off, r.end-r.off)
		return nil
	}
	out := r.b[r.off : r.off+n : r.off+n]
	r.mark(name, MarkData, r.off, n)
	r.off += n
	return out
}

// vector reads the length prefix of T<min..max> and returns a sub-reader over
// exactly the announced bytes.
func (r *reader) vector(name string, w, min, max int) *reader {
	n := int(r.uint(name+".length", MarkLength, w))
	sub := &reader{b: r.b, off: r.off, end: r.off, marks: r.marks}
	if r.err != nil {
		sub.err = r.err
		return sub
	}
	if n < min || n > max {
		r.fail(ErrLength, "%s length %d outside %d..%d", name, n, min, max)
		sub.err = r.err
		return sub
	}
	if r.end-r.off < n {
		r.fail(ErrTruncated, "%s announces %d bytes at offset %d, %d left", name, n, r.off, r.end-r.off)
		sub.err = r.err
		return sub
	}
	sub.end = r.off + n
	r.off += n
	return sub
}

func (r *reader) signedEntry() (e SignedEntry) {
	off := r.off
	e.EntryType = uint16(r.uint("entry_type", MarkEnum, 2))
	if r.err != nil {
		return
	}
	switch e.EntryType {
	case X509Entry:
		e.Cert = r.opaque("signed_entry.x509_entry", 3, 1, MaxCert)
	case PrecertEntry:
		r.fixed("signed_entry.issuer_key_hash", 32, e.IssuerKeyHash[:])
		e.TBS = r.opaque("signed_entry.tbs_certificate", 3, 1, MaxCert)
	default:
		r.fail(ErrUnknownEntryType, "%d at offset %d", e.EntryType, off)
	}
	return
}

func (r *reader) digitallySigned(prefix string) (d DigitallySigned) {
	d.Hash = uint8(r.uint(prefix+"algorithm.hash", MarkEnum, 1))
	d.Sig = uint8(r.uint(prefix+"algorithm.signature", MarkEnum, 1))
	d.Signature = r.opaque(prefix+"signature", 2, 0, MaxSignature)
	return
}

func (r *reader) timestampedEntry() (e TimestampedEntry) {
	e.Timestamp = r.uint("timestamp", MarkUint, 8)
	e.SignedEntry = r.signedEntry()
	e.Extensions = r.opaque("extensions", 2, 0, MaxExtensions)
	return
}

func (r *reader) merkleTreeLeaf() (l MerkleTreeLeaf) {
	l.Version = uint8(r.uint("version", MarkEnum, 1))
	off := r.off
	l.LeafType = uint8(r.uint("leaf_type", MarkEnum, 1))
	if r.err != nil {
		return
	}
	if l.LeafType != TimestampedEntryLeaf {
		r.fail(ErrUnknownLeafType, "%d at offset %d", l.LeafType, off)
		return
	}
	l.Entry = r.timestampedEntry()
	return
}

func (r *reader) sct() (s SCT) {
	s.Version = uint8(r.uint("sct_version", MarkEnum, 1))
	r.fixed("id", 32, s.LogID[:])
	s.Timestamp = r.uint("timestamp", MarkUint, 8)
	s.Extensions = r.opaque("extensions", 2, 0, MaxExtensions)
	s.Signature = r.digitallySigned("signature.")
	return
}

func (r *reader) certificateTimestamp() (c CertificateTimestamp) {
	c.Version = uint8(r.uint("sct_version", MarkEnum, 1))
	c.SignatureType = uint8(r.uint("signature_type", MarkEnum, 1))
	c.Timestamp = r.uint("timestamp", MarkUint, 8)
	c.SignedEntry = r.signedEntry()
	c.Extensions = r.opaque("extensions", 2, 0, MaxExtensions)
	return
}

func (r *reader) treeHeadSignature() (t TreeHeadSignature) {
	t.Version = uint8(r.uint("version", MarkEnum, 1))
	t.SignatureType = uint8(r.uint("signature_type", MarkEnum, 1))
	t.Timestamp = r.uint("timestamp", MarkUint, 8)
	t.TreeSize = r.uint("tree_size", MarkUint, 8)
	r.fixed("sha256_root_hash", 32, t.RootHash[:])
	return
}

func (r *reader) certVector(name string) [][]byte {
	sub := r.vector(name, 3, 0, MaxCert)
	out := [][]byte{}
	for i := 0; sub.err == nil && sub.off < sub.end; i++ {
		c := sub.opaque(fmt.Sprintf("%s[%d]", name, i), 3, 1, MaxCert)
		if sub.err == nil {
			out = append(out, c)
		}
	}
	if sub.err != nil && r.err == nil {
		r.err = sub.err
	}
	return out
}

func (r *reader) sctList() [][]byte {
	sub := r.vector("sct_list", 2, 1, MaxSCTList)
	out := [][]byte{}
	for i := 0; sub.err == nil && sub.off < sub.end; i++ {
		c := sub.opaque(fmt.Sprintf("sct_list[%d]", i), 2, 1, MaxSCTList)
		if sub.err == nil {
			out = append(out, c)
		}
	}
	if sub.err != nil && r.err == nil {
		r.err = sub.err
	}
	return out
}

func (r *reader) precertChainEntry() (p PrecertChainEntry) {
	p.PreCertificate = r.opaque("pre_certificate", 3, 1, MaxCert)
	p.Chain = r.certVector("precertificate_chain")
	return
}

func (r *reader) precertChainEntryHash() (p PrecertChainEntryHash) {
	p.PreCertificate = r.opaque("pre_certificate", 3, 1, MaxCert)
	p.IssuanceChainHash = r.opaque("issuance_chain_hash", 2, 0, MaxChainHash)
	return
}

func complete(b []byte, n int, err error) error {
	if err != nil {
		return err
	}
	if n != len(b) {
		return fmt.Errorf("%w: %d bytes after the structure", ErrTrailing, len(b)-n)
	}
	return nil
}

func ReadDigitallySigned(b []byte) (DigitallySigned, int, error) {
	r := newReader(b, nil)
	v := r.digitallySigned("")
	return v, r.off, r.err
}

func ParseDigitallySigned(b []byte) (DigitallySigned, error) {
	v, n, err := ReadDigitallySigned(b)
	return v, complete(b, n, err)
}

func ReadTimestampedEntry(b []byte) (TimestampedEntry, int, error) {
	r := newReader(b, nil)
	v := r.timestampedEntry()
	return v, r.off, r.err
}

func ParseTimestampedEntry(b []byte) (TimestampedEntry, error) {
	v, n, err := ReadTimestampedEntry(b)
	return v, complete(b, n, err)
}

func ReadMerkleTreeLeaf(b []byte) (MerkleTreeLeaf, int, error) {
	r := newReader(b, nil)
	v := r.merkleTreeLeaf()
	return v, r.off, r.err
}

func ParseMerkleTreeLeaf(b []byte) (MerkleTreeLeaf, error) {
	v, n, err := ReadMerkleTreeLeaf(b)
	return v, complete(b, n, err)
}

func ReadSCT(b []byte) (SCT, int, error) {
	r := newReader(b, nil)
	v := r.sct()
	return v, r.off, r.err
}

func ParseSCT(b []byte) (SCT, error) {
	v, n, err := ReadSCT(b)
	return v, complete(b, n, err)
}

func ReadCertificateTimestamp(b []byte) (CertificateTimestamp, int, error) {
	r := newReader(b, nil)
	v := r.certificateTimestamp()
	return v, r.off, r.err
}

func ParseCertificateTimestamp(b []byte) (CertificateTimestamp, error) {
	v, n, err := ReadCertificateTimestamp(b)
	return v, complete(b, n, err)
}

func ReadTreeHeadSignature(b []byte) (TreeHeadSignature, int, error) {
	r := newReader(b, nil)
	v := r.treeHeadSignature()
	return v, r.off, r.err
}

func ParseTreeHeadSignature(b []byte) (TreeHeadSignature, error) {
	v, n, err := ReadTreeHeadSignature(b)
	return v, complete(b, n, err)
}

// ReadSCTList returns the SerializedSCT elements (each still encoded).
func ReadSCTList(b []byte) ([][]byte, int, error) {
	r := newReader(b, nil)
	v := r.sctList()
	return v, r.off, r.err
}

func ParseSCTList(b []byte) ([][]byte, error) {
	v, n, err := ReadSCTList(b)
	return v, complete(b, n, err)
}

func ReadCertificateChain(b []byte) ([][]byte, int, error) {
	r := newReader(b, nil)
	v := r.certVector("certificate_chain")
	return v, r.off, r.err
}

func ParseCertificateChain(b []byte) ([][]byte, error) {
	v, n, err := ReadCertificateChain(b)
	return v, complete(b, n, err)
}

func ReadPrecertChainEntry(b []byte) (PrecertChainEntry, int, error) {
	r := newReader(b, nil)
	v := r.precertChainEntry()
	return v, r.off, r.err
}

func ParsePrecertChainEntry(b []byte) (PrecertChainEntry, error) {
	v, n, err := ReadPrecertChainEntry(b)
	return v, complete(b, n, err)
}

func ReadCertificateChainHash(b []byte) ([]byte, int, error) {
	r := newReader(b, nil)
	v := r.opaque("issuance_chain_hash", 2, 0, MaxChainHash)
	return v, r.off, r.err
}

func ParseCertificateChainHash(b []byte) ([]byte, error) {
	v, n, err := ReadCertificateChainHash(b)
	return v, complete(b, n, err)
}

func ReadPrecertChainEntryHash(b []byte) (PrecertChainEntryHash, int, error) {
	r := newReader(b, nil)
	v := r.precertChainEntryHash()
	return v, r.off, r.err
}

func ParsePrecertChainEntryHash(b []byte) (PrecertChainEntryHash, error) {
	v, n, err := ReadPrecertChainEntryHash(b)
	return v, complete(b, n, err)
}

// ----------------------------------------------------------------------------
// Layout

// Structure names a wire structure for Layout.
type Structure int

const (
	SDigitallySigned Structure = iota
	STimestampedEntry
	SMerkleTreeLeaf
	SSCT
	SCertificateTimestamp
	STreeHeadSignature
	SSCTList
	SCertificateChain
	SPrecertChainEntry
	SCertificateChainHash
	SPrecertChainEntryHash
)

func (s Structure) String() string {
	return [...]string{"DigitallySigned", "TimestampedEntry", "MerkleTreeLeaf", "SignedCertificateTimestamp",
		"CertificateTimestamp", "TreeHeadSignature", "SignedCertificateTimestampList", "CertificateChain",
		"PrecertChainEntry", "CertificateChainHash", "PrecertChainEntryHash"}[s]
}

// Layout strictly reads structure s from the start of b and returns the fields
// met, in wire order, and the number of bytes consumed. On error the marks of
// the fields read before the error are returned with it.
func Layout(s Structure, b []byte) ([]Mark, int, error) {
	var marks []Mark
	r := newReader(b, &marks)
	switch s {
	case SDigitallySigned:
		r.digitallySigned("")
	case STimestampedEntry:
		r.timestampedEntry()
	case SMerkleTreeLeaf:
		r.merkleTreeLeaf()
	case SSCT:
		r.sct()
	case SCertificateTimestamp:
		r.certificateTimestamp()
	case STreeHeadSignature:
		r.treeHeadSignature()
	case SSCTList:
		r.sctList()
	case SCertificateChain:
		r.certVector("certificate_chain")
	case SPrecertChainEntry:
		r.precertChainEntry()
	case SCertificateChainHash:
		r.opaque("issuance_chain_hash", 2, 0, MaxChainHash)
	case SPrecertChainEntryHash:
		r.precertChainEntryHash()
	default:
		return nil, 0, fmt.Errorf("ct6962: unknown structure %d", int(s))
	}
	return marks, r.off, r.err
}
