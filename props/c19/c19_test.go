//go:build verif && go1.25

// C19 — the witness only ever cosigns a forward-moving, consistent history per log.
//
// Engine C (explicit-state model checking over the real code): a state is the
// content of the witness database (the stored raw STH per log). Every state is
// reached by replaying the shortest known operation path on a fresh real
// witness over a fresh sqlite database; from every state every transition of
// the alphabet (Update with every candidate STH x every proof kind for every
// log id, GetSTH, GetLogs) is executed on the real code and compared with a
// reference witness (a map + ref/merkle).
package c19

import (
	"bytes"
	"context"
	"crypto/ecdsa"
	"crypto/sha256"
	"crypto/x509"
	"database/sql"
	"database/sql/driver"
	"encoding/base64"
	"encoding/json"
	"encoding/pem"
	"errors"
	"fmt"
	sqlite3 "github.com/mattn/go-sqlite3"
	"io"
	"net/http"
	"net/http/httptest"
	"net/url"
	"sort"
	"strings"
	"sync"
	"sync/atomic"
	"testing"

	"verif/engine/enum"
	"verif/engine/rep"
	"verif/ref/ct6962"
	"verif/ref/merkle"
	"verif/ref/pki"

	ct "github.com/google/certificate-transparency-go"
	vw "github.com/google/certificate-transparency-go/verifwitness"
	_ "github.com/mattn/go-sqlite3"
	"google.golang.org/grpc/codes"
	"google.golang.org/grpc/status"
	"k8s.io/klog/v2"
)

// ---- world -----------------------------------------------------------------------

type logDef struct {
	name string
	key  *pki.Key
	id   string // base64(sha256(spki))
	idb  [32]byte
	// aliasOf != nil: id is another spelling of aliasOf's log ID that a lenient base64 decoder maps
	// to the same 32 bytes. The witness may refuse it as unknown, or treat it as that log in every
	// respect (one history); it must not open a second history for the log.
	aliasOf *logDef
}

const b64alpha = "ABCDEFGHIJKLMNOPQRSTUVWXYZabcdefghijklmnopqrstuvwxyz0123456789+/"

func aliases(l *logDef) []*logDef {
	// 32 bytes -> 43 symbols + "=": the last symbol carries two unused bits; setting one keeps the decoded bytes
	i := strings.IndexByte(b64alpha, l.id[42])
	bits := l.id[:42] + string(b64alpha[i|1]) + "="
	if i&1 == 1 {
		bits = l.id[:42] + string(b64alpha[i|2]) + "="
	}
	return []*logDef{
		{name: l.name + "(id with non-zero padding bits)", key: l.key, id: bits, idb: l.idb, aliasOf: l},
		{name: l.name + "(id followed by a newline)", key: l.key, id: l.id + "\n", idb: l.idb, aliasOf: l},
	}
}

func mkLog(name, key string) *logDef {
	k := pki.LoadKey(key)
	h := sha256.Sum256(k.SPKI)
	return &logDef{name: name, key: k, id: base64.StdEncoding.EncodeToString(h[:]), idb: h}
}

var (
	logA       = mkLog("A", "p256-6")
	logB       = mkLog("B", "p256-7")
	logUnknown = mkLog("U", "p256-8") // not configured in the witness
	witnessKey = pki.LoadKey("p256-5")
	witnessPEM = func() string {
		b, err := x509.MarshalPKCS8PrivateKey(witnessKey.Priv)
		if err != nil {
			panic(err)
		}
		return string(pem.EncodeToMemory(&pem.Block{Type: "PRIVATE KEY", Bytes: b}))
	}()
)

var witnessVerifier = func() *vw.WitnessVerifier {
	v, err := vw.NewWitnessVerifier(witnessKey.Priv.Public())
	if err != nil {
		panic(err)
	}
	return v
}()

// Two leaf families: the honest tree and a fork that shares leaves 0 and 1.
func leaves(fork bool, n int) [][]byte {
	var out [][]byte
	for i := 0; i < n; i++ {
		s := fmt.Sprintf("leaf-%d", i)
		if fork && i >= 2 {
			s = fmt.Sprintf("forked-leaf-%d", i)
		}
		out = append(out, merkle.LeafHash([]byte(s)))
	}
	return out
}

// cand is one candidate STH of the alphabet.
type cand struct {
	name   string
	log    *logDef // log it is (claimed to be) from: key used for the signature
	size   int
	fork   bool
	ts     uint64
	raw    []byte                // the bytes submitted
	valid  func(id *logDef) bool // ground truth: acceptable for the log id it is submitted under
	root   []byte
	parsed bool // parses as JSON STH at all
}

func sthJSON(size uint64, ts uint64, root []byte, sig []byte, hashAlg, sigAlg byte, logID []byte) []byte {
	ds := append([]byte{hashAlg, sigAlg, byte(len(sig) >> 8), byte(len(sig))}, sig...)
	m := fmt.Sprintf(`{"sth_version":0,"tree_size":%d,"timestamp":%d,"sha256_root_hash":%q,"tree_head_signature":%q,"log_id":%q}`,
		size, ts, base64.StdEncoding.EncodeToString(root), base64.StdEncoding.EncodeToString(ds), base64.StdEncoding.EncodeToString(logID))
	return []byte(m)
}

func mkCand(name string, signer *logDef, size int, fork bool, ts uint64, embedID []byte, tamper string) *cand {
	root := merkle.Root(leaves(fork, size))
	var r32 [32]byte
	copy(r32[:], root)
	in, err := ct6962.AppendSTHSignatureInput(nil, 0, ts, uint64(size), r32)
	if err != nil {
		panic(err)
	}
	sig := signer.key.SignTBS(in)
	if tamper == "flipsig" {
		sig = append([]byte{}, sig...)
		sig[len(sig)-1] ^= 1
	}
	c := &cand{name: name, log: signer, size: size, fork: fork, ts: ts, root: root, parsed: true}
	c.raw = sthJSON(uint64(size), ts, root, sig, 4, 3, embedID)
	c.valid = func(id *logDef) bool {
		if tamper == "flipsig" {
			return false
		}
		if id != signer {
			return false
		}
		if embedID != nil && !bytes.Equal(embedID, make([]byte, 32)) && !bytes.Equal(embedID, id.idb[:]) {
			return false
		}
		return true
	}
	return c
}

var zero32 = make([]byte, 32)

func candidates(th bool) []*cand {
	var cs []*cand
	maxA := 5
	for n := 0; n <= maxA; n++ {
		cs = append(cs, mkCand(fmt.Sprintf("A-honest-%d", n), logA, n, false, uint64(1000+n), zero32, ""))
	}
	for n := 3; n <= maxA; n++ {
		cs = append(cs, mkCand(fmt.Sprintf("A-fork-%d", n), logA, n, true, uint64(2000+n), zero32, ""))
	}
	cs = append(cs,
		// (a timestamp that a float64 cannot hold: numbers in what the witness hands out are the numbers it was given)
		mkCand("A-honest-3-other-timestamp", logA, 3, false, 1<<53+1, zero32, ""),
		mkCand("A-honest-4-embedded-id", logA, 4, false, 1004, logA.idb[:], ""),
		mkCand("A-honest-4-embedded-id-of-B", logA, 4, false, 1004, logB.idb[:], ""),
		mkCand("A-honest-4-flipped-signature", logA, 4, false, 1004, zero32, "flipsig"),
		mkCand("size-4-signed-by-B", logB, 4, false, 1004, zero32, ""),
		mkCand("size-4-signed-by-unknown-key", logUnknown, 4, false, 1004, zero32, ""),
	)
	for n := 0; n <= 2; n++ {
		ts := uint64(3000 + n)
		if n == 2 {
			ts = 1<<63 + 3
		}
		cs = append(cs, mkCand(fmt.Sprintf("B-honest-%d", n), logB, n, false, ts, zero32, ""))
	}
	cs = append(cs, &cand{name: "not-json", raw: []byte("<html>"), valid: func(*logDef) bool { return false }},
		&cand{name: "json-null", raw: []byte("null"), valid: func(*logDef) bool { return false }},
		&cand{name: "empty", raw: []byte{}, valid: func(*logDef) bool { return false }})
	if th {
		cs = append(cs, mkCand("A-honest-6", logA, 6, false, 1006, zero32, ""), mkCand("A-fork-6", logA, 6, true, 2006, zero32, ""),
			mkCand("B-fork-3", logB, 3, true, 3100, zero32, ""), mkCand("B-honest-3", logB, 3, false, 3003, zero32, ""))
	}
	return cs
}

// proofKinds are computed relative to the held size m and the candidate (size n, family).
var proofKinds = []string{"correct", "empty", "for-m+1", "for-m-1", "other-family", "truncated", "padded", "random", "duplicated-first", "from-size-1", "from-size-2"}

func mkProof(kind string, m int, c *cand) [][]byte {
	n := c.size
	pr := func(m, n int, fork bool) [][]byte {
		if m < 1 || m > n {
			return [][]byte{}
		}
		return merkle.Proof(m, leaves(fork, n))
	}
	switch kind {
	case "correct":
		return pr(m, n, c.fork)
	case "empty":
		return [][]byte{}
	case "for-m+1":
		return pr(m+1, n, c.fork)
	case "for-m-1":
		return pr(m-1, n, c.fork)
	case "other-family":
		return pr(m, n, !c.fork)
	case "truncated":
		p := pr(m, n, c.fork)
		if len(p) > 0 {
			p = p[:len(p)-1]
		}
		return p
	case "padded":
		return append(pr(m, n, c.fork), merkle.LeafHash([]byte("pad")))
	case "random":
		return [][]byte{merkle.LeafHash([]byte("r1")), merkle.LeafHash([]byte("r2"))}
	case "from-size-1":
		// a correct proof, but from a size the witness held earlier (or never), not from the one it holds now
		return pr(1, n, c.fork)
	case "from-size-2":
		return pr(2, n, c.fork)
	case "duplicated-first":
		p := pr(m, n, c.fork)
		if len(p) > 0 {
			p = append([][]byte{p[0]}, p...)
		}
		return p
	}
	panic(kind)
}

// ---- reference witness ------------------------------------------------------------

type held struct {
	c *cand
}

type refState map[string]*cand // log id -> held candidate

func (s refState) key() string {
	var ks []string
	for id, c := range s {
		ks = append(ks, id[:6]+"="+c.name)
	}
	sort.Strings(ks)
	return strings.Join(ks, ";")
}

func (s refState) clone() refState {
	o := refState{}
	for k, v := range s {
		o[k] = v
	}
	return o
}

type op struct {
	Kind  string // "update", "getsth", "getlogs"
	Log   *logDef
	Cand  *cand
	Proof string
	// CommitFails: the database refuses the COMMIT of this update's transaction (SQLITE_BUSY / disk
	// full at the last step): the update must fail and the witness must go on holding what it held
	CommitFails bool
}

func (o op) String() string {
	switch o.Kind {
	case "update":
		if o.CommitFails {
			return fmt.Sprintf("Update(%s, %s, proof=%s, COMMIT fails)", o.Log.name, o.Cand.name, o.Proof)
		}
		return fmt.Sprintf("Update(%s, %s, proof=%s)", o.Log.name, o.Cand.name, o.Proof)
	case "getsth":
		return fmt.Sprintf("GetSTH(%s)", o.Log.name)
	}
	return "GetLogs()"
}

// expectation of one Update according to the statement
type expect struct {
	applied   bool
	errWanted bool   // an error must be returned
	replyHeld bool   // the reply body must be the held raw STH
	cosigned  bool   // the reply must be a cosigned form of the candidate
	class     string // for outcome statistics
}

func refUpdate(s refState, o op) (expect, refState) {
	id := o.Log
	if id == logUnknown {
		return expect{errWanted: true, class: "unknown-log"}, s
	}
	if !o.Cand.parsed || !o.Cand.valid(id) {
		return expect{errWanted: true, class: "invalid-sth"}, s
	}
	h := s[id.id]
	if h == nil {
		n := s.clone()
		n[id.id] = o.Cand
		return expect{applied: true, cosigned: true, class: "tofu"}, n
	}
	switch {
	case o.Cand.size < h.size:
		return expect{errWanted: true, replyHeld: true, class: "stale"}, s
	case o.Cand.size == h.size:
		if bytes.Equal(o.Cand.root, h.root) {
			return expect{replyHeld: true, class: "same-size-same-root"}, s
		}
		return expect{errWanted: true, replyHeld: true, class: "same-size-other-root"}, s
	}
	pf := mkProof(o.Proof, h.size, o.Cand)
	if merkle.VerifyConsistency(uint64(h.size), uint64(o.Cand.size), h.root, o.Cand.root, pf) {
		n := s.clone()
		n[id.id] = o.Cand
		return expect{applied: true, cosigned: true, class: "extended"}, n
	}
	return expect{errWanted: true, replyHeld: true, class: "bad-proof"}, s
}

// genuine extension by construction: the held tree's leaves are a prefix of the candidate's
func genuineExtension(h, c *cand) bool {
	if c.size < h.size {
		return false
	}
	a, b := leaves(h.fork, h.size), leaves(c.fork, c.size)
	for i := range a {
		if !bytes.Equal(a[i], b[i]) {
			return false
		}
	}
	return true
}

// ---- the real witness ---------------------------------------------------------------

var dbSeq atomic.Int64

type inst struct {
	db *sql.DB
	w  *vw.Witness
	h  http.Handler
	// failCommit: the next COMMIT on this instance's database fails (and rolls back)
	failCommit *atomic.Bool
	// responses handed out by the API so far, with a copy taken when they were returned
	handed [][2][]byte
}

// ---- sqlite with an injectable COMMIT failure -------------------------------------------

var (
	fdOnce  sync.Once
	fdFlags sync.Map // id -> *atomic.Bool
)

type fdriver struct{}

func (fdriver) Open(name string) (driver.Conn, error) {
	id, dsn, _ := strings.Cut(name, "|")
	v, ok := fdFlags.Load(id)
	if !ok {
		return nil, fmt.Errorf("no flag %q", id)
	}
	c, err := (&sqlite3.SQLiteDriver{}).Open(dsn)
	if err != nil {
		return nil, err
	}
	return &fconn{c: c.(*sqlite3.SQLiteConn), fail: v.(*atomic.Bool)}, nil
}

type fconn struct {
	c    *sqlite3.SQLiteConn
	fail *atomic.Bool
}

func (f *fconn) Prepare(q string) (driver.Stmt, error) { return f.c.Prepare(q) }
func (f *fconn) Close() error                          { return f.c.Close() }
func (f *fconn) Begin() (driver.Tx, error) {
	return f.BeginTx(context.Background(), driver.TxOptions{})
}
func (f *fconn) BeginTx(ctx context.Context, o driver.TxOptions) (driver.Tx, error) {
	tx, err := f.c.BeginTx(ctx, o)
	if err != nil {
		return nil, err
	}
	return &ftx{tx: tx, f: f}, nil
}
func (f *fconn) ExecContext(ctx context.Context, q string, args []driver.NamedValue) (driver.Result, error) {
	return f.c.ExecContext(ctx, q, args)
}
func (f *fconn) QueryContext(ctx context.Context, q string, args []driver.NamedValue) (driver.Rows, error) {
	return f.c.QueryContext(ctx, q, args)
}

type ftx struct {
	tx driver.Tx
	f  *fconn
}

func (t *ftx) Commit() error {
	if t.f.fail.CompareAndSwap(true, false) {
		t.tx.Rollback()
		return errors.New("database is locked (injected failure at COMMIT)")
	}
	return t.tx.Commit()
}
func (t *ftx) Rollback() error { return t.tx.Rollback() }

func newInst() (*inst, error) {
	// a private in-memory database; one connection, as in production (impl.Main)
	fdOnce.Do(func() { sql.Register("faulty-sqlite3", fdriver{}) })
	n := dbSeq.Add(1)
	flag := &atomic.Bool{}
	fdFlags.Store(fmt.Sprint(n), flag)
	db, err := sql.Open("faulty-sqlite3", fmt.Sprintf("%d|file:c19mem%d?mode=memory&cache=shared", n, n))
	if err != nil {
		return nil, err
	}
	db.SetMaxOpenConns(1)
	mk := func(l *logDef) ct.SignatureVerifier {
		v, err := ct.NewSignatureVerifier(l.key.Priv.Public())
		if err != nil {
			panic(err)
		}
		return *v
	}
	w, err := vw.New(vw.Opts{DB: db, PrivKey: witnessPEM, KnownLogs: map[string]ct.SignatureVerifier{logA.id: mk(logA), logB.id: mk(logB)}})
	if err != nil {
		db.Close()
		return nil, err
	}
	return &inst{db: db, w: w, h: vw.NewHandler(w), failCommit: flag}, nil
}

func (i *inst) close() { i.db.Close() }

func (i *inst) rows() (map[string][]byte, error) {
	rs, err := i.db.Query("SELECT logID, sth FROM sths")
	if err != nil {
		return nil, err
	}
	defer rs.Close()
	out := map[string][]byte{}
	for rs.Next() {
		var id string
		var b []byte
		if err := rs.Scan(&id, &b); err != nil {
			return nil, err
		}
		out[id] = b
	}
	return out, rs.Err()
}

func (i *inst) restore(rows map[string][]byte) error {
	if _, err := i.db.Exec("DELETE FROM sths"); err != nil {
		return err
	}
	for id, b := range rows {
		if _, err := i.db.Exec("INSERT INTO sths (logID, sth) VALUES (?, ?)", id, b); err != nil {
			return err
		}
	}
	return nil
}

// do executes one operation, directly or through the HTTP server.
type result struct {
	body   []byte
	err    error
	status int // HTTP only
	logs   []string
}

func (i *inst) do(o op, viaHTTP bool) result {
	i.failCommit.Store(o.CommitFails)
	defer i.failCommit.Store(false)
	if !viaHTTP {
		switch o.Kind {
		case "update":
			b, err := i.w.Update(context.Background(), o.Log.id, o.Cand.raw, mkProofFor(i, o))
			return result{body: b, err: err}
		case "getsth":
			b, err := i.w.GetSTH(o.Log.id)
			return result{body: b, err: err}
		default:
			l, err := i.w.GetLogs()
			return result{logs: l, err: err}
		}
	}
	var req *http.Request
	switch o.Kind {
	case "update":
		body, _ := json.Marshal(vw.UpdateRequest{STH: o.Cand.raw, Proof: mkProofFor(i, o)})
		req = httptest.NewRequest(http.MethodPut, fmt.Sprintf(vw.HTTPUpdate, url.PathEscape(o.Log.id)), bytes.NewReader(body))
	case "getsth":
		req = httptest.NewRequest(http.MethodGet, fmt.Sprintf(vw.HTTPGetSTH, url.PathEscape(o.Log.id)), nil)
	default:
		req = httptest.NewRequest(http.MethodGet, vw.HTTPGetLogs, nil)
	}
	w := httptest.NewRecorder()
	i.h.ServeHTTP(w, req)
	res := w.Result()
	b, _ := io.ReadAll(res.Body)
	r := result{body: b, status: res.StatusCode}
	if res.StatusCode != 200 {
		r.err = fmt.Errorf("HTTP %d", res.StatusCode)
	}
	if o.Kind == "getlogs" && res.StatusCode == 200 {
		json.Unmarshal(b, &r.logs)
	}
	return r
}

// the proof depends on the size currently held for that log, which the harness
// tracks in curHeld (set by the explorer before each op)
var curHeld sync.Map // *inst -> refState

func mkProofFor(i *inst, o op) [][]byte {
	v, _ := curHeld.Load(i)
	s, _ := v.(refState)
	m := 0
	if h := s[o.Log.id]; h != nil {
		m = h.size
	}
	return mkProof(o.Proof, m, o.Cand)
}

// ---- checking one transition ----------------------------------------------------------

type checker struct {
	r       *rep.R
	classes sync.Map
}

func (c *checker) count(class string) {
	v, _ := c.classes.LoadOrStore(class, new(atomic.Int64))
	v.(*atomic.Int64).Add(1)
}

// verifyCosigned checks that body is a cosigned form of the candidate for log id.
func verifyCosigned(body []byte, want *cand, id *logDef) string {
	var cs struct {
		Version   int      `json:"sth_version"`
		TreeSize  uint64   `json:"tree_size"`
		Timestamp uint64   `json:"timestamp"`
		Root      []byte   `json:"sha256_root_hash"`
		THS       []byte   `json:"tree_head_signature"`
		LogID     []byte   `json:"log_id"`
		Sigs      [][]byte `json:"witness_signatures"`
	}
	if err := json.Unmarshal(body, &cs); err != nil {
		return "reply is not cosigned-STH JSON: " + err.Error()
	}
	if cs.TreeSize != uint64(want.size) || cs.Timestamp != want.ts || !bytes.Equal(cs.Root, want.root) {
		return fmt.Sprintf("cosigned STH (size %d ts %d) is not the STH it should accompany (%s)", cs.TreeSize, cs.Timestamp, want.name)
	}
	if len(cs.Sigs) == 0 {
		return "no witness signature"
	}
	// The signed bytes are the witness API's own format: the TLS encoding of the
	// SignedTreeHead structure, whose version field carries no size tag and
	// therefore contributes no byte: tree_size, timestamp, root,
	// DigitallySigned, log_id. Written out by hand here, and cross-checked below
	// with the repository's own client-side verifier.
	var in []byte
	for _, x := range []uint64{cs.TreeSize, cs.Timestamp} {
		for s := 56; s >= 0; s -= 8 {
			in = append(in, byte(x>>uint(s)))
		}
	}
	in = append(in, cs.Root...)
	in = append(in, cs.THS...) // DigitallySigned is already TLS bytes in its JSON form
	in = append(in, id.idb[:]...)
	h := sha256.Sum256(in)
	ok := false
	for _, s := range cs.Sigs {
		if len(s) < 4 || s[0] != 4 || s[1] != 3 {
			continue
		}
		if ecdsa.VerifyASN1(witnessKey.Priv.Public().(*ecdsa.PublicKey), h[:], s[4:]) {
			ok = true
		}
	}
	if !ok {
		return "no witness signature verifies under the witness key over the STH it accompanies"
	}
	var full vw.CosignedSTH
	if err := json.Unmarshal(body, &full); err != nil {
		return "reply does not decode as api.CosignedSTH: " + err.Error()
	}
	if err := witnessVerifier.VerifySignature(full); err != nil {
		return "the witness client verifier refuses the cosignature: " + err.Error()
	}
	return ""
}

func (c *checker) checkOp(in *inst, s refState, o op, viaHTTP bool, path []op) refState {
	curHeld.Store(in, s)
	before, _ := in.rows()
	var res result
	pan, msg, stack := enum.Catch(func() { res = in.do(o, viaHTTP) })
	c.r.Eval(1)
	via := "api"
	if viaHTTP {
		via = "http"
	}
	viol := func(sig, format string, args ...any) {
		var p []string
		for _, x := range path {
			p = append(p, x.String())
		}
		c.r.Violation(sig+" ["+via+"]", fmt.Sprintf("state {%s} after %v; %s: ", s.key(), p, o)+fmt.Sprintf(format, args...),
			map[string]any{"path": p, "op": o.String(), "via": via})
	}
	if pan {
		viol("panic", "%s\n%s", msg, stack)
		return s
	}
	// what the API handed out earlier belongs to the caller: later calls must not rewrite it
	for k, h := range in.handed {
		if !bytes.Equal(h[0], h[1]) {
			viol("returned-response-overwritten-by-later-call", "response #%d handed out earlier now reads %.60q, it was %.60q", k, h[0], h[1])
			in.handed[k][1] = append([]byte{}, h[0]...)
		}
	}
	if !viaHTTP && len(res.body) > 0 && len(in.handed) < 64 {
		in.handed = append(in.handed, [2][]byte{res.body, append([]byte{}, res.body...)})
	}
	after, err := in.rows()
	if err != nil {
		viol("harness-db", "%v", err)
		return s
	}
	expRows := func(st refState) map[string][]byte {
		m := map[string][]byte{}
		for id, cd := range st {
			m[id] = cd.raw
		}
		return m
	}
	same := func(a, b map[string][]byte) bool {
		if len(a) != len(b) {
			return false
		}
		for k, v := range a {
			if !bytes.Equal(b[k], v) {
				return false
			}
		}
		return true
	}
	if o.Log != nil && o.Log.aliasOf != nil {
		if res.err != nil && same(after, before) {
			c.count("alias-id-refused")
			return s
		}
		o.Log = o.Log.aliasOf // accepted: from here on it must be that log in every respect
	}
	switch o.Kind {
	case "update":
		ex, next := refUpdate(s, o)
		if o.CommitFails && ex.applied {
			// the update was fine but could not be made durable: it fails, nothing changes, nothing is cosigned
			ex, next = expect{errWanted: true, class: "commit-fails"}, s
		}
		c.count(ex.class)
		if !same(after, expRows(next)) {
			switch {
			case !ex.applied && !same(after, before):
				h := s[o.Log.id]
				detail := ""
				if h != nil && o.Cand.parsed {
					detail = fmt.Sprintf(" (held %s; genuine extension by construction: %v)", h.name, genuineExtension(h, o.Cand))
				}
				viol("refused-update-changed-or-wrongly-applied class="+ex.class, "the update must not be applied (%s) but the stored STHs changed%s", ex.class, detail)
			case ex.applied:
				viol("valid-update-not-stored class="+ex.class, "the update must be applied but the stored STH is not the candidate")
			default:
				viol("stored-state-mismatch", "database rows differ from the reference")
			}
			return s
		}
		// over HTTP a conflict (409) tells the caller "stale or inconsistent, here is what I hold": whatever the
		// reason for the refusal, a 409 carries the currently held STH
		if viaHTTP && res.status == http.StatusConflict {
			if h := s[o.Log.id]; h == nil || !bytes.Equal(res.body, h.raw) {
				viol("conflict-answer-without-the-held-sth class="+ex.class, "HTTP 409 with body %.80q; held: %v", res.body, h != nil)
			}
		}
		if ex.errWanted != (res.err != nil) {
			viol(fmt.Sprintf("update-error-mismatch class=%s err_returned=%v", ex.class, res.err != nil), "err=%v", res.err)
		}
		if ex.replyHeld {
			h := s[o.Log.id]
			if !bytes.Equal(res.body, h.raw) {
				viol("refused-update-not-answered-with-held-sth class="+ex.class, "reply %.80q, held %s", res.body, h.name)
			}
			if res.err != nil && !viaHTTP && status.Code(res.err) != codes.FailedPrecondition {
				viol("stale-or-inconsistent-not-failed-precondition class="+ex.class, "err=%v", res.err)
			}
			if viaHTTP && res.err != nil && res.status != http.StatusConflict {
				viol("stale-or-inconsistent-not-409 class="+ex.class, "status=%d", res.status)
			}
		}
		if ex.cosigned {
			if why := verifyCosigned(res.body, o.Cand, o.Log); why != "" {
				viol("bad-cosignature-on-update class="+ex.class, "%s", why)
			}
		}
		if !ex.applied && !ex.replyHeld && res.err == nil {
			viol("invalid-update-accepted class="+ex.class, "no error")
		}
		// invariants on the new state
		if ex.applied {
			if h := s[o.Log.id]; h != nil && !genuineExtension(h, o.Cand) {
				viol("harness-reference-applied-non-extension", "reference applied %s over %s", o.Cand.name, h.name)
			}
		}
		return next
	case "getsth":
		c.count("getsth")
		if !same(after, before) {
			viol("read-changed-state", "GetSTH changed the database")
		}
		h := s[o.Log.id]
		if h == nil {
			if res.err == nil {
				viol("getsth-without-held-sth-succeeds", "body %.80q", res.body)
			}
			return s
		}
		if res.err != nil {
			viol("getsth-fails-for-held-sth", "err=%v", res.err)
			return s
		}
		if why := verifyCosigned(res.body, h, o.Log); why != "" {
			viol("bad-cosignature-on-getsth", "%s", why)
		}
	case "getlogs":
		c.count("getlogs")
		var want []string
		for id := range s {
			want = append(want, id)
		}
		got := append([]string{}, res.logs...)
		sort.Strings(want)
		sort.Strings(got)
		if res.err != nil || strings.Join(got, ",") != strings.Join(want, ",") {
			viol("getlogs-mismatch", "got %v err=%v, want %v", got, res.err, want)
		}
	}
	return s
}

// ---- exploration -----------------------------------------------------------------------

type node struct {
	s    refState
	path []op
}

func TestCheck(t *testing.T) {
	r := rep.New("C19", "model_checking")
	klog.LogToStderr(false)
	klog.SetOutput(io.Discard)
	th := r.Thorough()
	cands := candidates(th)
	ids := []*logDef{logA, logB, logUnknown}
	var alphabet []op
	for _, id := range ids {
		for _, cd := range cands {
			for _, pk := range proofKinds {
				alphabet = append(alphabet, op{Kind: "update", Log: id, Cand: cd, Proof: pk})
			}
		}
		alphabet = append(alphabet, op{Kind: "getsth", Log: id})
	}
	for _, cd := range cands {
		alphabet = append(alphabet, op{Kind: "update", Log: logA, Cand: cd, Proof: "correct", CommitFails: true})
	}
	for _, al := range aliases(logA) {
		for _, cd := range cands {
			for _, pk := range []string{"correct", "empty"} {
				alphabet = append(alphabet, op{Kind: "update", Log: al, Cand: cd, Proof: pk})
			}
		}
		alphabet = append(alphabet, op{Kind: "getsth", Log: al})
	}
	alphabet = append(alphabet, op{Kind: "getlogs"})
	r.Rule("explicit-state BFS: state = stored raw STH per log (read back from the witness database); every state is reached by replaying its shortest operation path on a fresh real witness over a fresh sqlite database; from every state every operation of the alphabet is run on the real code (directly and through the HTTP server) and compared with a reference witness (map + RFC 6962 consistency verification by ref/merkle). Alphabet: Update x {log A, log B, unknown log id, two alias spellings of log A's id (non-zero base64 padding bits, trailing newline; proofs correct/empty)} x candidate STHs (honest sizes 0..5, fork sizes 3..5 diverging at leaf 2, other timestamp, embedded id right/wrong, flipped signature, other log's key, unknown key, log B sizes 0..2, non-JSON) x 11 proof kinds (correct, empty, for m+1, for m-1, other family, truncated, padded, random, duplicated hash, correct from size 1 / from size 2 whatever is held), GetSTH per id, GetLogs; Update of log A with every candidate and a COMMIT that the database refuses; every response the API handed out is re-read after every later call")
	r.Assume("the witness keeps no state outside its database table, so a state may be restored by rewriting the rows between transitions of one expansion (each state itself is first reached by replay)",
		"a candidate is a genuine extension iff the held tree's leaves are a prefix of its leaves (two-family construction); the reference applies an update iff the supplied proof verifies under RFC 6962")
	c := &checker{r: r}
	seen := map[string]*node{}
	var order []*node
	start := &node{s: refState{}}
	seen[start.s.key()] = start
	order = append(order, start)
	var transitions, validated atomic.Int64
	maxDepth := 0
	type edge struct {
		from *node
		op   op
		to   string
	}
	var edges []edge
	for qi := 0; qi < len(order); qi++ {
		if r.Expired() {
			r.Capped(fmt.Sprintf("deadline reached after expanding %d of %d known states", qi, len(order)))
			break
		}
		n := order[qi]
		if len(n.path) > maxDepth {
			maxDepth = len(n.path)
		}
		// expand: partition the alphabet over workers, each with its own instance
		// brought to state n by replaying the path
		type succ struct {
			s  refState
			op op
		}
		var mu sync.Mutex
		var succs []succ
		parts := enum.Workers
		enum.ParFor(parts, nil, func(w int) {
			for _, viaHTTP := range []bool{false, true} {
				in, err := newInst()
				if err != nil {
					r.Violation("harness-new-witness", err.Error(), nil)
					return
				}
				// replay the path (validated against the reference on the way)
				s := refState{}
				for k, o := range n.path {
					s = c.checkOp(in, s, o, viaHTTP, n.path[:k])
					validated.Add(1)
				}
				if s.key() != n.s.key() {
					r.Violation("replay-diverged", fmt.Sprintf("replaying %v gave state {%s}, expected {%s}", n.path, s.key(), n.s.key()), nil)
					in.close()
					return
				}
				base, _ := in.rows()
				for ai := w; ai < len(alphabet); ai += parts {
					o := alphabet[ai]
					ns := c.checkOp(in, n.s, o, viaHTTP, n.path)
					transitions.Add(1)
					if ns.key() != n.s.key() {
						if !viaHTTP {
							mu.Lock()
							succs = append(succs, succ{ns, o})
							mu.Unlock()
						}
					}
					// back to state n for the next transition
					if err := in.restore(base); err != nil {
						r.Violation("harness-restore", err.Error(), nil)
					}
				}
				in.close()
			}
		})
		sort.Slice(succs, func(i, j int) bool { return succs[i].op.String() < succs[j].op.String() })
		for _, sc := range succs {
			k := sc.s.key()
			edges = append(edges, edge{n, sc.op, k})
			if _, ok := seen[k]; ok {
				continue
			}
			nn := &node{s: sc.s, path: append(append([]op{}, n.path...), sc.op)}
			seen[k] = nn
			order = append(order, nn)
		}
	}
	// the same state reached another way: a state is the stored STH per log, but an implementation may remember more
	// (what it held before, what it answered before). Every state is therefore also entered through every other accepted
	// transition that leads to it - not only along its shortest path - and the whole alphabet is run from there
	var alt []edge
	for _, e := range edges {
		to := seen[e.to]
		if to == nil || len(e.from.path)+1 > 3 {
			continue
		}
		same := len(to.path) == len(e.from.path)+1 && to.path[len(to.path)-1].String() == e.op.String()
		for k := 0; same && k < len(e.from.path); k++ {
			same = to.path[k].String() == e.from.path[k].String()
		}
		if !same {
			alt = append(alt, e)
		}
	}
	var altTransitions atomic.Int64
	altDone := enum.ParFor(len(alt), r.Expired, func(i int) {
		e := alt[i]
		in, err := newInst()
		if err != nil {
			r.Violation("harness-new-witness", err.Error(), nil)
			return
		}
		defer in.close()
		path := append(append([]op{}, e.from.path...), e.op)
		st := refState{}
		for k, o := range path {
			st = c.checkOp(in, st, o, false, path[:k])
		}
		if st.key() != e.to {
			r.Violation("replay-diverged", fmt.Sprintf("replaying %v gave state {%s}, expected {%s}", path, st.key(), e.to), nil)
			return
		}
		base, _ := in.rows()
		for _, o := range alphabet {
			c.checkOp(in, st, o, false, path)
			altTransitions.Add(1)
			if err := in.restore(base); err != nil {
				r.Violation("harness-restore", err.Error(), nil)
			}
		}
	})
	if !altDone {
		r.Capped("deadline reached while re-entering states along other paths")
	}
	r.Set("states_re_entered_along_another_path", len(alt))
	r.Set("transitions_from_re_entered_states", altTransitions.Load())
	// differential: every state reached by replay on a fresh instance must serve the
	// same stored bytes as the reference (done in checkOp); additionally replay two
	// different paths to the same state and compare rows
	runWitnessConcurrent(t, r, cands)
	r.Set("states", len(seen))
	r.Set("transitions", transitions.Load())
	r.Set("traces_validated_against_impl", transitions.Load()+validated.Load())
	r.Set("max_depth", maxDepth)
	cls := map[string]int64{}
	c.classes.Range(func(k, v any) bool { cls[k.(string)] = v.(*atomic.Int64).Load(); return true })
	r.Set("transition_classes", cls)
	for k := range seen {
		r.Nontrivial(k)
	}
	for i, n := range order {
		if i%7 == 3 && r.WantSample() {
			var p []string
			for _, o := range n.path {
				p = append(p, o.String())
			}
			r.Sample(map[string]any{"state": n.s.key(), "reached_by": p})
		}
	}
	r.Finish()
}
