//go:build verif && go1.25

// C19, concurrent part (Engine A): 2-3 Update / GetSTH calls run in parallel
// against one witness whose database driver is gated: the director releases the
// pending Begin / Query / Exec / Commit / Rollback calls of the competing
// transactions in every order. With the production pool size (one connection)
// the transactions serialise at connection hand-over; with two connections on a
// shared-cache database their statements interleave and sqlite's locking decides.
package c19

import (
	"bytes"
	"context"
	"database/sql"
	"database/sql/driver"
	"fmt"
	"sort"
	"strings"
	"sync"
	"sync/atomic"
	"testing"
	"testing/synctest"

	"verif/engine/enum"
	"verif/engine/gate"
	"verif/engine/rep"

	ct "github.com/google/certificate-transparency-go"
	vw "github.com/google/certificate-transparency-go/verifwitness"
	sqlite3 "github.com/mattn/go-sqlite3"
)

// ---- gated database/sql driver ------------------------------------------------------

var (
	envs   sync.Map // id -> *gate.Env
	gdOnce sync.Once
	connID atomic.Int64
)

type ctxKey struct{}

type gdriver struct{}

func (gdriver) Open(name string) (driver.Conn, error) {
	id, dsn, _ := strings.Cut(name, "|")
	v, ok := envs.Load(id)
	if !ok {
		return nil, fmt.Errorf("no env %q", id)
	}
	c, err := (&sqlite3.SQLiteDriver{}).Open(dsn)
	if err != nil {
		return nil, err
	}
	return &gconn{c: c.(*sqlite3.SQLiteConn), env: v.(*gate.Env)}, nil
}

type gconn struct {
	c     *sqlite3.SQLiteConn
	env   *gate.Env
	label string // the client thread whose transaction currently owns the connection
}

func (g *gconn) ask(ctx context.Context, what string) error {
	who := g.label
	if l, ok := ctx.Value(ctxKey{}).(string); ok && l != "" {
		who = l
	}
	if who == "" {
		who = "reader"
	}
	v, err := g.env.AskCtx(context.Background(), who+":"+what, "sql", nil)
	if err != nil {
		return err
	}
	if _, ok := v.(gate.Aborted); ok {
		return driver.ErrBadConn
	}
	return nil
}

func (g *gconn) Prepare(q string) (driver.Stmt, error) { return g.c.Prepare(q) }
func (g *gconn) Close() error                          { return g.c.Close() }
func (g *gconn) Begin() (driver.Tx, error)             { return g.BeginTx(context.Background(), driver.TxOptions{}) }
func (g *gconn) BeginTx(ctx context.Context, o driver.TxOptions) (driver.Tx, error) {
	if l, ok := ctx.Value(ctxKey{}).(string); ok {
		g.label = l
	}
	if err := g.ask(ctx, "Begin"); err != nil {
		return nil, err
	}
	tx, err := g.c.BeginTx(ctx, o)
	if err != nil {
		g.label = ""
		return nil, err
	}
	return &gtx{tx: tx, g: g}, nil
}
func (g *gconn) ExecContext(ctx context.Context, q string, args []driver.NamedValue) (driver.Result, error) {
	if strings.HasPrefix(q, "CREATE") || strings.HasPrefix(q, "DELETE") || g.label == "" && !strings.HasPrefix(q, "INSERT OR") {
		return g.c.ExecContext(ctx, q, args) // set-up statements are not gated
	}
	if err := g.ask(ctx, "Exec(store)"); err != nil {
		return nil, err
	}
	return g.c.ExecContext(ctx, q, args)
}
func (g *gconn) QueryContext(ctx context.Context, q string, args []driver.NamedValue) (driver.Rows, error) {
	if !strings.HasPrefix(q, "SELECT sth FROM sths WHERE") {
		return g.c.QueryContext(ctx, q, args) // harness reads
	}
	if err := g.ask(ctx, "Query(held)"); err != nil {
		return nil, err
	}
	return g.c.QueryContext(ctx, q, args)
}

type gtx struct {
	tx driver.Tx
	g  *gconn
}

func (t *gtx) Commit() error {
	defer func() { t.g.label = "" }()
	if err := t.g.ask(context.Background(), "Commit"); err != nil {
		return err
	}
	return t.tx.Commit()
}
func (t *gtx) Rollback() error {
	defer func() { t.g.label = "" }()
	if err := t.g.ask(context.Background(), "Rollback"); err != nil {
		return err
	}
	return t.tx.Rollback()
}

// ---- scenarios -------------------------------------------------------------------------

type wreq struct {
	Kind  string // "update", "getsth"
	Cand  string
	Proof string
}

type wscenario struct {
	Held  string // candidate held beforehand ("" = nothing)
	Reqs  []wreq
	Conns int
}

func (s wscenario) String() string {
	var r []string
	for _, q := range s.Reqs {
		if q.Kind == "update" {
			r = append(r, fmt.Sprintf("Update(%s,%s)", q.Cand, q.Proof))
		} else {
			r = append(r, "GetSTH")
		}
	}
	return fmt.Sprintf("held=%q conns=%d [%s]", s.Held, s.Conns, strings.Join(r, " || "))
}

func candByName(cs []*cand, n string) *cand {
	for _, c := range cs {
		if c.name == n {
			return c
		}
	}
	panic("no candidate " + n)
}

var scenarioSeq atomic.Int64

func runWitness(sc wscenario, cands []*cand) func(t *testing.T, x *gate.Exec) {
	return func(t *testing.T, x *gate.Exec) {
		gdOnce.Do(func() { sql.Register("gated-sqlite3", gdriver{}) })
		env := gate.NewEnv()
		id := fmt.Sprint(scenarioSeq.Add(1))
		envs.Store(id, env)
		defer envs.Delete(id)
		db, err := sql.Open("gated-sqlite3", fmt.Sprintf("%s|file:c19conc%s?mode=memory&cache=shared&_busy_timeout=0", id, id))
		if err != nil {
			x.Violation("harness", "%v", err)
			return
		}
		db.SetMaxOpenConns(sc.Conns)
		// keep one extra raw handle so the shared in-memory database survives pool churn
		keep, _ := sql.Open("sqlite3", fmt.Sprintf("file:c19conc%s?mode=memory&cache=shared&_busy_timeout=0", id))
		keep.SetMaxOpenConns(1)
		keep.Ping()
		defer keep.Close()
		defer db.Close()
		mk := func(l *logDef) ct.SignatureVerifier {
			v, _ := ct.NewSignatureVerifier(l.key.Priv.Public())
			return *v
		}
		w, err := vw.New(vw.Opts{DB: db, PrivKey: witnessPEM, KnownLogs: map[string]ct.SignatureVerifier{logA.id: mk(logA), logB.id: mk(logB)}})
		if err != nil {
			x.Violation("harness", "witness: %v", err)
			return
		}
		var heldC *cand
		if sc.Held != "" {
			heldC = candByName(cands, sc.Held)
			if _, err := keep.Exec("INSERT INTO sths (logID, sth) VALUES (?, ?)", logA.id, heldC.raw); err != nil {
				x.Violation("harness", "seed: %v", err)
				return
			}
		}
		heldSize := 0
		if heldC != nil {
			heldSize = heldC.size
		}
		type res struct {
			body []byte
			err  error
		}
		results := make([]*res, len(sc.Reqs))
		var mu sync.Mutex
		var running atomic.Int32
		started := make([]bool, len(sc.Reqs))
		start := func(i int) {
			q := sc.Reqs[i]
			started[i] = true
			running.Add(1)
			go func() {
				defer func() { running.Add(-1); env.Notify() }()
				label := fmt.Sprintf("T%d", i)
				var b []byte
				var err error
				if q.Kind == "update" {
					c := candByName(cands, q.Cand)
					b, err = w.Update(context.WithValue(context.Background(), ctxKey{}, label), logA.id, c.raw, mkProof(q.Proof, heldSize, c))
				} else {
					b, err = w.GetSTH(logA.id)
				}
				mu.Lock()
				results[i] = &res{b, err}
				mu.Unlock()
			}()
		}
		// committed history of log A's row, observed after every released call
		var history []string
		last := ""
		readRow := func() string {
			var b []byte
			if err := keep.QueryRow("SELECT sth FROM sths WHERE logID = ?", logA.id).Scan(&b); err != nil {
				if err == sql.ErrNoRows {
					return ""
				}
				return last // the table is locked by a writer right now: nothing new is committed
			}
			for _, c := range cands {
				if bytes.Equal(c.raw, b) {
					return c.name
				}
			}
			return "unknown-bytes"
		}
		last = readRow()
		history = append(history, last)
		for steps := 0; ; steps++ {
			synctest.Wait()
			pend := env.Pending()
			unstarted := 0
			for _, st := range started {
				if !st {
					unstarted++
				}
			}
			if running.Load() == 0 && len(pend) == 0 && unstarted == 0 {
				break
			}
			if steps > 120 {
				x.Violation("horizon", "%v", sc)
				break
			}
			var alts []gate.Alt
			var acts []func()
			for pi, p := range pend {
				c := 0
				if pi > 0 {
					c = 1
				}
				alts = append(alts, gate.Alt{Label: "release " + p.Key, Cost: c})
				acts = append(acts, func() { env.Answer(p, "go") })
			}
			// client calls arrive one at a time, in any order and at any point (which call gets
			// a free connection first is thereby the director's choice, not the Go scheduler's)
			for i := range sc.Reqs {
				if !started[i] {
					alts = append(alts, gate.Alt{Label: fmt.Sprintf("call %d arrives", i), Cost: len(alts)})
					acts = append(acts, func() { start(i) })
				}
			}
			if len(alts) == 0 {
				x.Violation("deadlock", "%v: %d calls outstanding, no database call pending (all waiting for a connection that is never released?)", sc, running.Load())
				break
			}
			for i := range alts {
				if alts[i].Cost > 1 {
					alts[i].Cost = 1
				}
			}
			acts[x.Choose(alts)]()
			synctest.Wait()
			if now := readRow(); now != last {
				history = append(history, now)
				last = now
			}
		}
		env.Shutdown()
		synctest.Wait()
		// ---- invariants
		// the committed sequence is monotone and each step a genuine extension
		for i := 1; i < len(history); i++ {
			if history[i-1] == "" {
				continue
			}
			a, b := candByName(cands, history[i-1]), (*cand)(nil)
			if history[i] == "" || history[i] == "unknown-bytes" {
				x.Violation("concurrent: stored-sth-vanished-or-garbled", "%v: history %v", sc, history)
				continue
			}
			b = candByName(cands, history[i])
			if b.size < a.size || !genuineExtension(a, b) || (b.size == a.size && !bytes.Equal(a.root, b.root)) {
				x.Violation("concurrent: stored-history-not-an-extension", "%v: the witness moved from %s to %s (committed history %v)", sc, a.name, b.name, history)
			}
		}
		var outs []string
		for i, q := range sc.Reqs {
			r := results[i]
			if r == nil {
				x.Violation("concurrent: call-did-not-return", "%v: %s", sc, q.Kind)
				continue
			}
			o := "err"
			if r.err == nil {
				o = "ok"
			}
			outs = append(outs, q.Kind+"="+o)
			if q.Kind == "update" && r.err == nil {
				c := candByName(cands, q.Cand)
				if why := verifyCosigned(r.body, c, logA); why == "" {
					// a cosigned answer: that STH must have been committed at some point
					found := false
					for _, h := range history {
						if h == c.name {
							found = true
						}
					}
					if !found {
						x.Violation("concurrent: cosigned-but-never-stored", "%v: Update(%s) returned a cosigned STH, committed history %v", sc, c.name, history)
					}
				} else if heldC == nil || !bytes.Equal(r.body, candByName(cands, lastNonEmpty(history)).raw) && !inHistoryRaw(r.body, history, cands) {
					x.Violation("concurrent: unexplained-success", "%v: Update(%s) returned nil error with a body that is neither its cosigned STH nor a held STH (%s)", sc, c.name, why)
				}
			}
			if q.Kind == "getsth" && r.err == nil {
				ok := false
				for _, h := range history {
					if h != "" && h != "unknown-bytes" && verifyCosigned(r.body, candByName(cands, h), logA) == "" {
						ok = true
					}
				}
				if !ok {
					x.Violation("concurrent: getsth-serves-uncommitted", "%v: GetSTH returned an STH that was never the committed one (history %v)", sc, history)
				}
			}
		}
		sort.Strings(outs)
		x.Outcome = fmt.Sprintf("history=%v %s", history, strings.Join(outs, ","))
	}
}

func lastNonEmpty(h []string) string {
	for i := len(h) - 1; i >= 0; i-- {
		if h[i] != "" {
			return h[i]
		}
	}
	return h[0]
}

func inHistoryRaw(body []byte, h []string, cands []*cand) bool {
	for _, n := range h {
		if n != "" && n != "unknown-bytes" && bytes.Equal(candByName(cands, n).raw, body) {
			return true
		}
	}
	return false
}

func runWitnessConcurrent(t *testing.T, r *rep.R, cands []*cand) {
	gate.ReportHangs(r)
	up := func(c, p string) wreq { return wreq{Kind: "update", Cand: c, Proof: p} }
	get := wreq{Kind: "getsth"}
	var scs []wscenario
	for _, conns := range []int{1, 2} {
		scs = append(scs,
			wscenario{Held: "A-honest-2", Reqs: []wreq{up("A-honest-3", "correct"), up("A-honest-5", "correct")}, Conns: conns},
			wscenario{Held: "A-honest-2", Reqs: []wreq{up("A-honest-4", "correct"), up("A-fork-4", "correct")}, Conns: conns},
			wscenario{Held: "A-honest-3", Reqs: []wreq{up("A-honest-5", "correct"), up("A-fork-5", "correct"), get}, Conns: conns},
			wscenario{Held: "", Reqs: []wreq{up("A-honest-3", "correct"), up("A-fork-3", "correct")}, Conns: conns},
			wscenario{Held: "", Reqs: []wreq{up("A-honest-5", "correct"), up("A-honest-2", "correct"), get}, Conns: conns},
			wscenario{Held: "A-honest-4", Reqs: []wreq{up("A-honest-5", "correct"), up("A-honest-3", "correct"), up("A-honest-5", "empty")}, Conns: conns},
		)
	}
	var exec, pts atomic.Int64
	enum.ParFor(len(scs), r.Expired, func(i int) {
		sc := scs[i]
		ex := &gate.Explorer{Name: sc.String(), Bound: -1, Run: runWitness(sc, cands), Stop: r.Expired, Workers: 2}
		ex.OnViolation = func(v gate.Violation, picks []gate.Pick, trace []string) {
			r.Violation(v.Sig, v.Desc, map[string]any{"scenario": sc.String(), "choices": picks, "trace": trace})
		}
		ex.Explore(t)
		exec.Add(ex.Executions.Load())
		pts.Add(ex.Points.Load())
		r.Eval(int(ex.Executions.Load()))
		for _, o := range ex.OutcomeList(1 << 30) {
			r.Nontrivial("conc|" + sc.String() + o[:strings.LastIndex(o, " x")])
		}
		if ex.Capped.Load() {
			r.Capped("deadline reached in concurrent scenario " + sc.String())
		}
		if n := ex.Divergent.Load(); n > 0 {
			r.Capped(fmt.Sprintf("%d divergent branches in %s: %v", n, sc.String(), ex.Flaky()))
		}
		if i == 7 {
			r.Sample(map[string]any{"concurrent_scenario": sc.String(), "schedules": ex.Executions.Load(), "outcomes": ex.OutcomeList(6), "trace": ex.SampleTrace()})
		}
	})
	r.Set("concurrent_schedules", exec.Load())
	r.Set("concurrent_decision_points", pts.Load())
}
