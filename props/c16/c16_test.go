//go:build go1.25

//go:debug randseednop=0

// C16 — a scan delivers every entry of its range exactly once.
//
// Engine A: the scanner.LogClient is a gate. The director decides, at every
// quiescence, which pending GetRawEntries / GetSTH call is answered next and how
// (full, every short length, 429, 500, network error), when the log grows
// (continuous mode), and when Stop / cancel happen.
package c16

import (
	"context"
	"errors"
	"fmt"
	"io"
	"math/rand"
	"net/http"
	"sort"
	"strings"
	"sync"
	"sync/atomic"
	"testing"
	"testing/synctest"
	"time"

	"verif/engine/enum"
	"verif/engine/gate"
	"verif/engine/rep"
	"verif/ref/pki"

	ct "github.com/google/certificate-transparency-go"
	"github.com/google/certificate-transparency-go/jsonclient"
	"github.com/google/certificate-transparency-go/scanner"
	"github.com/google/certificate-transparency-go/tls"
	"k8s.io/klog/v2"
)

// ---- the stored log ------------------------------------------------------------

var stored []ct.LeafEntry // real leaves: even indices certificates, odd indices precertificates
var storedIsPre []bool
var storedBadCert []ct.LeafEntry // the same leaves with the certificate / TBSCertificate bytes replaced by bytes no X.509 parser accepts; the leaf structure itself is intact

func init() {
	root := pki.NewRoot("C16 Root", pki.LoadKey("p256-0"))
	ca := pki.NewCA("C16 CA", pki.LoadKey("p256-1"), root, pki.CAOpts{})
	for i := 0; i < 12; i++ {
		pre := i%2 == 1
		var leaf *pki.Cert
		lk := pki.LoadKey("p256-2")
		if i == 4 || i == 7 {
			// a certificate and a precertificate that the lenient parser accepts with a non-fatal remark (RSA key
			// published without NULL parameters): entries like any other for every matcher
			lk = pki.LoadKey("rsa2048-1~nonull")
		}
		if pre {
			leaf = pki.NewLeaf(fmt.Sprintf("pre%d", i), lk, ca, pki.LeafOpts{Exts: []pki.Ext{pki.ExtSAN(fmt.Sprintf("p%d.example", i)), pki.ExtPoison()}})
		} else {
			leaf = pki.NewLeaf(fmt.Sprintf("leaf%d", i), lk, ca, pki.LeafOpts{})
		}
		et := ct.X509LogEntryType
		if pre {
			et = ct.PrecertLogEntryType
		}
		chain := []ct.ASN1Cert{{Data: leaf.DER}, {Data: ca.DER}, {Data: root.DER}}
		ml, err := ct.MerkleTreeLeafFromRawChain(chain, et, uint64(1000+i))
		if err != nil {
			panic(err)
		}
		li, err := tls.Marshal(*ml)
		if err != nil {
			panic(err)
		}
		var extra []byte
		if pre {
			extra, err = tls.Marshal(ct.PrecertChainEntry{PreCertificate: chain[0], CertificateChain: chain[1:]})
		} else {
			extra, err = tls.Marshal(ct.CertificateChain{Entries: chain[1:]})
		}
		if err != nil {
			panic(err)
		}
		stored = append(stored, ct.LeafEntry{LeafInput: li, ExtraData: extra})
		bl := *ml
		if pre {
			pc := *bl.TimestampedEntry.PrecertEntry
			pc.TBSCertificate = []byte{0x01, 0x02, 0x03}
			bl.TimestampedEntry.PrecertEntry = &pc
		} else {
			bl.TimestampedEntry.X509Entry = &ct.ASN1Cert{Data: []byte{0x01, 0x02, 0x03}}
		}
		bli, err := tls.Marshal(bl)
		if err != nil {
			panic(err)
		}
		storedBadCert = append(storedBadCert, ct.LeafEntry{LeafInput: bli, ExtraData: extra})
		storedIsPre = append(storedIsPre, pre)
	}
}

// ---- scenario --------------------------------------------------------------------

type scenario struct {
	N          int   // initial tree size
	Start, End int64 // FetcherOptions (End 0 = whole tree)
	Batch      int
	Fetchers   int
	Continuous bool
	Grow       []int  // continuous: sizes of successive publications
	Mode       string // "fetcher", "scan-all", "scan-leafparity", "scan-precertonly"
	Workers    int
	Buffer     int
	Faults     int    // total non-default answers the director may give (keeps unbounded runs finite)
	StopKind   string // "", "stop", "cancel": whether the director may stop / cancel at any point
	Bound      int
	Bad        int  // 1-based index of an entry the log serves with a truncated (unparsable) leaf_input; 0 = none. The fetcher hands it on verbatim; the scanner skips it and goes on
	BadCert    int  // 1-based index of an entry whose leaf is well formed but whose certificate bytes do not parse; 0 = none. The fetcher hands it on verbatim; a scanner whose matcher looks at certificates skips it, a scanner whose matcher looks at leaves and selects it must deliver it
	Slow       bool // slow consumer: every callback invocation is a gate, so Stop / cancel and answers can land while a batch is only partly handed over
}

func (s scenario) String() string {
	return fmt.Sprintf("N=%d [%d,%d) batch=%d fetchers=%d cont=%v grow=%v mode=%s workers=%d buf=%d faults=%d stop=%q bound=%d slow=%v bad=%d",
		s.N, s.Start, s.End, s.Batch, s.Fetchers, s.Continuous, s.Grow, s.Mode, s.Workers, s.Buffer, s.Faults, s.StopKind, s.Bound, s.Slow, s.Bad-1) + fmt.Sprintf(" badcert=%d", s.BadCert-1)
}

type reqInfo struct {
	kind       string
	start, end int64
}

// servedEntry is what the log serves for index i in scenario sc.
func servedEntry(sc scenario, i int64) ct.LeafEntry {
	e := stored[i]
	if sc.Bad > 0 && i == int64(sc.Bad-1) {
		return ct.LeafEntry{LeafInput: e.LeafInput[:11], ExtraData: e.ExtraData}
	}
	if sc.BadCert > 0 && i == int64(sc.BadCert-1) {
		return storedBadCert[i]
	}
	return e
}

type gatedLog struct {
	sc   scenario
	env  *gate.Env
	mu   sync.Mutex
	reqs []reqInfo
}

func (g *gatedLog) BaseURI() string { return "http://gated.example/log" }

type sthAns struct {
	size int
	err  error
}
type entriesAns struct {
	n   int // number of entries to return
	err error
}

func (g *gatedLog) GetSTH(ctx context.Context) (*ct.SignedTreeHead, error) {
	g.mu.Lock()
	g.reqs = append(g.reqs, reqInfo{kind: "sth"})
	g.mu.Unlock()
	v, err := g.env.AskCtx(ctx, "GetSTH", "sth", nil)
	if err != nil {
		return nil, err
	}
	if _, ok := v.(gate.Aborted); ok {
		return nil, errors.New("harness shut down")
	}
	a := v.(sthAns)
	if a.err != nil {
		return nil, a.err
	}
	return &ct.SignedTreeHead{TreeSize: uint64(a.size), Timestamp: 5}, nil
}

func (g *gatedLog) GetRawEntries(ctx context.Context, start, end int64) (*ct.GetEntriesResponse, error) {
	g.mu.Lock()
	g.reqs = append(g.reqs, reqInfo{"entries", start, end})
	g.mu.Unlock()
	v, err := g.env.AskCtx(ctx, fmt.Sprintf("GetRawEntries(%d,%d)", start, end), "entries", reqInfo{"entries", start, end})
	if err != nil {
		return nil, err
	}
	if _, ok := v.(gate.Aborted); ok {
		return nil, errors.New("harness shut down")
	}
	a := v.(entriesAns)
	if a.err != nil {
		return nil, a.err
	}
	rsp := &ct.GetEntriesResponse{}
	for i := 0; i < a.n; i++ {
		rsp.Entries = append(rsp.Entries, servedEntry(g.sc, start+int64(i)))
	}
	return rsp, nil
}

// transportTimeout mimics net/http's per-attempt timeout errors: a net.Error with
// Timeout() == true that also matches context.DeadlineExceeded under errors.Is.
type transportTimeout struct{}

func (transportTimeout) Error() string        { return "net/http: timeout awaiting response headers" }
func (transportTimeout) Timeout() bool        { return true }
func (transportTimeout) Temporary() bool      { return true }
func (transportTimeout) Is(target error) bool { return target == context.DeadlineExceeded }

type delivery struct {
	index int64
	data  string
	via   string // "batch", "cert", "precert"
}

func runScenario(sc scenario) func(t *testing.T, x *gate.Exec) {
	return func(t *testing.T, x *gate.Exec) {
		if sc.Continuous {
			// continuous scenarios run one execution at a time (see TestCheck): seeding here
			// makes the poll back-off jitter a function of the choice vector
			rand.Seed(int64(sc.N*1000 + sc.Batch))
		}
		env := gate.NewEnv()
		lg := &gatedLog{env: env, sc: sc}
		size := sc.N
		var mu sync.Mutex
		var got []delivery
		var kept []scanner.EntryBatch
		ctx, cancel := context.WithCancel(context.Background())
		defer cancel()
		fopts := scanner.FetcherOptions{BatchSize: sc.Batch, ParallelFetch: sc.Fetchers, StartIndex: sc.Start, EndIndex: sc.End, Continuous: sc.Continuous}
		var fetcher *scanner.Fetcher
		var scn *scanner.Scanner
		finished := false
		var runErr error
		go func() {
			if sc.Mode == "fetcher" {
				fetcher = scanner.NewFetcher(lg, &fopts)
				runErr = fetcher.Run(ctx, func(b scanner.EntryBatch) {
					if sc.Slow {
						env.Ask(fmt.Sprintf("callback(batch at %d)", b.Start), "cb", nil)
					}
					mu.Lock()
					for i, e := range b.Entries {
						got = append(got, delivery{b.Start + int64(i), string(e.LeafInput) + "|" + string(e.ExtraData), "batch"})
					}
					// a consumer may keep the batch it was handed (the migration controller queues
					// it on a channel): the bytes must still be the log's when read later
					kept = append(kept, b)
					mu.Unlock()
				})
			} else {
				so := scanner.ScannerOptions{FetcherOptions: fopts, NumWorkers: sc.Workers, BufferSize: sc.Buffer, Matcher: scanner.MatchAll{}}
				switch sc.Mode {
				case "scan-leafparity":
					so.Matcher = parityMatcher{}
				case "scan-leafall":
					so.Matcher = leafAllMatcher{}
				case "scan-precertonly":
					so.PrecertOnly = true
				}
				scn = scanner.NewScanner(lg, so)
				rec := func(via string) func(*ct.RawLogEntry) {
					return func(e *ct.RawLogEntry) {
						if sc.Slow {
							env.Ask(fmt.Sprintf("callback(entry %d)", e.Index), "cb", nil)
						}
						li, _ := tls.Marshal(e.Leaf)
						mu.Lock()
						got = append(got, delivery{e.Index, string(li), via})
						mu.Unlock()
					}
				}
				_, runErr = scn.ScanLog(ctx, rec("cert"), rec("precert"))
			}
			mu.Lock()
			finished = true
			mu.Unlock()
			env.Notify()
		}()
		isFinished := func() bool { mu.Lock(); defer mu.Unlock(); return finished }
		delivered := func() int { mu.Lock(); defer mu.Unlock(); return len(got) }

		faults := sc.Faults
		stopped, cancelled := false, false
		growIdx := 0
		idlePolls, sthAnswers, lastSTHSize := 0, 0, -1
		firstSTHFailed := false
		stuck, stalled := false, false
		pollsSinceGrowth := 0
		// caughtUp: every selected index below the published size (and the configured end) was delivered
		caughtUp := func() bool {
			end := int64(size)
			if sc.End != 0 && sc.End < end {
				end = sc.End
			}
			n := 0
			for i := sc.Start; i < end; i++ {
				if sel, _ := selectedBy(sc, i); sel {
					n++
				}
			}
			return delivered() >= n
		}
		for steps := 0; ; steps++ {
			synctest.Wait()
			pend := env.Pending()
			if isFinished() {
				break
			}
			if steps > 200 {
				x.Violation("horizon", "scenario %v did not finish within 200 decision points", sc)
				break
			}
			type act struct {
				alt gate.Alt
				do  func()
			}
			var acts []act
			add := func(label string, cost int, f func()) {
				acts = append(acts, act{gate.Alt{Label: label, Cost: cost}, f})
			}
			for pi, p := range pend {
				base := 0
				if pi > 0 {
					base = 1
				}
				switch p.Kind {
				case "cb":
					add(p.Key+" proceeds", base, func() { env.Answer(p, nil) })
				case "sth":
					// An answer repeating the size of the previous answer is an idle poll. Idle polls
					// are unlimited while the scan still has published entries to deliver (the
					// fetcher deliberately ignores small growth for 45 s), and limited to 2 once it
					// has caught up: then only growth or the end of the scan can follow.
					idle := sthAnswers > 0 && size == lastSTHSize
					if idle && !caughtUp() && pollsSinceGrowth >= 14 {
						// 14 polls with back-off 1,2,4,...,30 s span several minutes: far beyond the
						// fetcher's 45 s "wait for a full batch" window
						stalled = true
					}
					if !(idle && caughtUp() && idlePolls >= 2) && !stalled {
						add(p.Key+" <- size "+fmt.Sprint(size), base, func() {
							if idle && caughtUp() {
								idlePolls++
							}
							pollsSinceGrowth++
							sthAnswers++
							lastSTHSize = size
							env.Answer(p, sthAns{size: size})
						})
					}
					if sc.Continuous && growIdx < len(sc.Grow) && sthAnswers > 0 && caughtUp() {
						k := sc.Grow[growIdx]
						add(fmt.Sprintf("publish %d then %s <- size %d", k, p.Key, size+k), base, func() {
							size += k
							growIdx++
							idlePolls = 0
							pollsSinceGrowth = 0
							sthAnswers++
							lastSTHSize = size
							env.Answer(p, sthAns{size: size})
						})
					}
					if faults > 0 && sc.Continuous && sthAnswers > 0 {
						// a lagging front end: an STH smaller than one served before
						for _, d := range []int{1, 3} {
							if size-d >= 0 {
								add(fmt.Sprintf("%s <- stale size %d", p.Key, size-d), base+1, func() {
									faults--
									sthAnswers++
									env.Answer(p, sthAns{size: size - d})
								})
							}
						}
					}
					if faults > 0 && sthAnswers > 0 {
						// a poll answered 429 (rate limit) or 404: an HTTP-level failure like any other, the scan carries on
						for _, code := range []int{429, 404} {
							add(fmt.Sprintf("%s <- HTTP %d", p.Key, code), base+1, func() {
								faults--
								sthAnswers++
								env.Answer(p, sthAns{err: jsonclient.RspError{StatusCode: code, Err: fmt.Errorf("got HTTP status %d", code)}})
							})
						}
					}
					if faults > 0 {
						add(p.Key+" <- error", base+1, func() {
							faults--
							if sthAnswers == 0 {
								firstSTHFailed = true
							}
							sthAnswers++
							env.Answer(p, sthAns{err: errors.New("sth unavailable")})
						})
					}
				case "entries":
					ri := p.Info.(reqInfo)
					avail := int64(size) - ri.start
					want := ri.end - ri.start + 1
					full := want
					if avail < full {
						full = avail
					}
					if full >= 1 {
						add(fmt.Sprintf("%s <- %d entries", p.Key, full), base, func() { env.Answer(p, entriesAns{n: int(full)}) })
						if faults > 0 {
							// an empty 200 answer (a front end momentarily behind the STH): nothing delivered, asked again
							add(fmt.Sprintf("%s <- 0 entries", p.Key), base+1, func() { faults--; env.Answer(p, entriesAns{n: 0}) })
							for n := int64(1); n < full; n++ {
								add(fmt.Sprintf("%s <- short %d", p.Key, n), base+1, func() { faults--; env.Answer(p, entriesAns{n: int(n)}) })
							}
						}
					} else {
						// asked beyond the tree: the log answers 400; this is an error reply whatever the budget
						add(p.Key+" <- 400 beyond tree", base, func() {
							env.Answer(p, entriesAns{err: jsonclient.RspError{StatusCode: 400, Err: errors.New("beyond tree")}})
						})
					}
					if faults > 0 {
						add(p.Key+" <- 429", base+1, func() {
							faults--
							env.Answer(p, entriesAns{err: jsonclient.RspError{StatusCode: http.StatusTooManyRequests, Err: errors.New("too many requests")}})
						})
						add(p.Key+" <- 500", base+1, func() {
							faults--
							env.Answer(p, entriesAns{err: jsonclient.RspError{StatusCode: 500, Err: errors.New("internal")}})
						})
						add(p.Key+" <- neterr", base+1, func() { faults--; env.Answer(p, entriesAns{err: errors.New("connection reset")}) })
						// a per-request transport timeout: matches context.DeadlineExceeded although the scan's own context is live
						add(p.Key+" <- request timeout", base+1, func() { faults--; env.Answer(p, entriesAns{err: transportTimeout{}}) })
					}
				}
			}
			if !stopped && !cancelled && (sc.StopKind != "" || sc.Continuous) {
				endCost := 1
				// a continuous scan only ends when told to: once everything published is
				// delivered, nothing more will be published and it has polled twice more,
				// ending it is the default continuation
				if sc.Continuous && growIdx >= len(sc.Grow) && idlePolls >= 2 && caughtUp() {
					endCost = 0
				}
				if sc.Mode == "fetcher" && sc.StopKind != "cancel" {
					if fetcher != nil && sthAnswers > 0 { // Stop before Run has started is documented as a no-op
						add("Stop", endCost, func() { stopped = true; fetcher.Stop() })
					}
				} else {
					add("cancel", endCost, func() { cancelled = true; cancel() })
				}
			}
			if len(pend) == 0 {
				add("tick", 0, func() {
					if !env.WaitActivity(3600*time.Second, 0) {
						stuck = true
					}
				})
			}
			if stalled {
				x.Violation("continuous-stall", "%v: the log has had size %d for %d polls but only %d entries were delivered and no fetch is outstanding", sc, size, pollsSinceGrowth, delivered())
				break
			}
			if len(acts) == 0 {
				x.Violation("harness", "no enabled transition with %d pending calls (%v)", len(pend), sc)
				break
			}
			sort.SliceStable(acts, func(i, j int) bool { return acts[i].alt.Cost < acts[j].alt.Cost })
			alts := make([]gate.Alt, len(acts))
			for i := range acts {
				alts[i] = acts[i].alt
			}
			acts[x.Choose(alts)].do()
			if stuck {
				x.Violation("no-progress", "scan not finished, nothing pending and no timer or call for 1 h of virtual time (%v, delivered %d)", sc, delivered())
				break
			}
		}
		cancel()
		env.Shutdown()
		synctest.Wait()
		if !isFinished() {
			time.Sleep(2 * time.Hour)
			synctest.Wait()
		}
		for _, b := range kept {
			for i, e := range b.Entries {
				idx := b.Start + int64(i)
				if idx < 0 || idx >= int64(len(stored)) || string(e.LeafInput) != string(servedEntry(sc, idx).LeafInput) || string(e.ExtraData) != string(servedEntry(sc, idx).ExtraData) {
					x.Violation("retained-batch-overwritten", "%v: the batch delivered for index %d no longer holds the log's bytes for that index when read after the scan (a buffer handed to the callback was reused)", sc, idx)
				}
			}
		}
		oracle(sc, x, lg, got, size, isFinished(), runErr, stopped, cancelled, firstSTHFailed, idlePolls >= 2 && growIdx >= len(sc.Grow))
	}
}

type parityMatcher struct{}

// Matches selects entries whose leaf timestamp is even (timestamps are 1000+index).
func (parityMatcher) Matches(l *ct.LeafEntry) bool {
	var ml ct.MerkleTreeLeaf
	if _, err := tls.Unmarshal(l.LeafInput, &ml); err != nil {
		return false
	}
	return ml.TimestampedEntry.Timestamp%2 == 0
}

// leafAllMatcher is a LeafMatcher that selects every entry whose leaf structure parses (like scanlog's parse-error matcher, it does not need the certificate to parse).
type leafAllMatcher struct{}

func (leafAllMatcher) Matches(l *ct.LeafEntry) bool {
	var ml ct.MerkleTreeLeaf
	_, err := tls.Unmarshal(l.LeafInput, &ml)
	return err == nil
}

func selectedBy(sc scenario, i int64) (bool, string) {
	if sc.BadCert > 0 && i == int64(sc.BadCert-1) && (sc.Mode == "scan-all" || sc.Mode == "scan-precertonly") {
		return false, "" // matchers that look at certificates never see it: counted as unparsable
	}
	if sc.Bad > 0 && i == int64(sc.Bad-1) && sc.Mode != "fetcher" {
		return false, "" // the scanner cannot parse it: counted as unparsable, never handed to a callback
	}
	switch sc.Mode {
	case "fetcher":
		return true, "batch"
	case "scan-all":
		if storedIsPre[i] {
			return true, "precert"
		}
		return true, "cert"
	case "scan-leafparity":
		if i%2 != 0 {
			return false, ""
		}
		return true, "cert"
	case "scan-precertonly":
		if storedIsPre[i] {
			return true, "precert"
		}
		return false, ""
	case "scan-leafall":
		if storedIsPre[i] {
			return true, "precert"
		}
		return true, "cert"
	}
	return false, ""
}

func oracle(sc scenario, x *gate.Exec, lg *gatedLog, got []delivery, size int, finished bool, runErr error, stopped, cancelled, firstSTHFailed, endedCaughtUp bool) {
	if !finished {
		x.Violation("no-termination", "%v: Run/ScanLog did not return even after cancel + shutdown", sc)
		return
	}
	end := sc.End
	if end == 0 || end > int64(size) {
		end = int64(size)
	}
	if !sc.Continuous {
		// the end is fixed by the first STH
		end = sc.End
		if end == 0 || end > int64(sc.N) {
			end = int64(sc.N)
		}
	}
	selected := func(i int64) (bool, string) { return selectedBy(sc, i) }
	want := func(i int64) string {
		if sc.Mode == "fetcher" {
			return string(servedEntry(sc, i).LeafInput) + "|" + string(servedEntry(sc, i).ExtraData)
		}
		return string(servedEntry(sc, i).LeafInput)
	}
	seen := map[int64]int{}
	for _, d := range got {
		seen[d.index]++
		if d.index < sc.Start || d.index >= end {
			x.Violation("delivered-outside-range", "%v: index %d delivered, range is [%d,%d)", sc, d.index, sc.Start, end)
			continue
		}
		sel, via := selected(d.index)
		if !sel {
			x.Violation("delivered-unselected", "%v: index %d delivered but the matcher does not select it", sc, d.index)
		} else if via != d.via {
			x.Violation("wrong-callback", "%v: index %d delivered through the %s callback, want %s", sc, d.index, d.via, via)
		}
		if d.data != want(d.index) {
			x.Violation("foreign-bytes", "%v: index %d delivered with bytes that are not the log's entry %d", sc, d.index, d.index)
		}
	}
	for i, n := range seen {
		if n > 1 {
			x.Violation("duplicate-delivery", "%v: index %d delivered %d times", sc, i, n)
		}
	}
	complete := !stopped && !cancelled
	if firstSTHFailed {
		// the scan could not even learn the tree size: it must report that, and deliver nothing
		complete = false
		if runErr == nil {
			x.Violation("sth-error-swallowed", "%v: the initial get-sth failed but the scan reported success", sc)
		}
		if len(got) > 0 {
			x.Violation("delivery-without-sth", "%v: entries delivered although the initial get-sth failed", sc)
		}
	}
	if sc.Continuous {
		// a continuous scan carries on until it is stopped or cancelled: it never ends by itself (whatever it
		// returns), except when it could not even learn the tree size at the start
		if !stopped && !cancelled && !firstSTHFailed {
			x.Violation("continuous-scan-ended-by-itself", "%v: Run/ScanLog returned (%v) although nobody stopped or cancelled it; %d entries delivered, log size %d", sc, runErr, len(got), size)
		}
		complete = false // ended by Stop/cancel; completeness is checked for the prefix below
	}
	missing := []int64{}
	for i := sc.Start; i < end; i++ {
		if sel, _ := selected(i); sel && seen[i] == 0 {
			missing = append(missing, i)
		}
	}
	if complete && len(missing) > 0 {
		x.Violation("gap", "%v: run ended normally but indices %v were never delivered", sc, missing)
	}
	if complete && runErr != nil && sc.Start < end {
		x.Violation("error-on-complete-run", "%v: returned %v", sc, runErr)
	}
	if sc.Continuous && endedCaughtUp && !firstSTHFailed {
		// the director ended the scan only after everything published was there to fetch and polled twice more
		if len(missing) > 0 {
			x.Violation("continuous-gap", "%v: after the log grew to %d and was polled again, indices %v were never delivered", sc, size, missing)
		}
	}
	// requests stay inside the range and are well-formed
	lg.mu.Lock()
	for _, r := range lg.reqs {
		if r.kind != "entries" {
			continue
		}
		if r.start > r.end || r.start < sc.Start || r.end >= end && !(sc.Continuous) || r.end-r.start+1 > int64(sc.Batch) {
			x.Violation("bad-request-range", "%v: GetRawEntries(%d,%d) outside [%d,%d) or larger than the batch", sc, r.start, r.end, sc.Start, end)
		}
	}
	nreq := len(lg.reqs)
	lg.mu.Unlock()
	var idx []string
	for _, d := range got {
		idx = append(idx, fmt.Sprint(d.index))
	}
	x.Outcome = fmt.Sprintf("delivered=%s reqs=%d err=%v", strings.Join(idx, ","), nreq, runErr != nil)
}

// ---- driver ------------------------------------------------------------------

func scenarios(th bool) []scenario {
	var out []scenario
	maxN := 5
	if th {
		maxN = 7
	}
	// fetcher, one-shot: every sub-range, batch, fetcher count
	for n := 0; n <= maxN; n++ {
		for start := int64(0); start <= int64(n); start++ {
			for _, end := range []int64{0, int64(n), int64(n) - 1, int64(n) + 2, start + 1} {
				if end < 0 || (end != 0 && end <= start) {
					continue
				}
				for _, batch := range []int{1, 2, 3} {
					for _, f := range []int{1, 2, 3} {
						if !th && (n > 4 || (f == 3 && batch != 1)) {
							continue
						}
						out = append(out, scenario{N: n, Start: start, End: end, Batch: batch, Fetchers: f, Mode: "fetcher", Faults: 2, Bound: 2})
					}
				}
			}
		}
	}
	// stop / cancel at any point
	for _, sk := range []string{"stop", "cancel"} {
		for _, f := range []int{1, 2} {
			out = append(out, scenario{N: 5, Batch: 2, Fetchers: f, Mode: "fetcher", Faults: 1, StopKind: sk, Bound: 2})
		}
	}
	// scanner: matcher kinds, workers, buffers
	for _, mode := range []string{"scan-all", "scan-leafparity", "scan-precertonly"} {
		for _, w := range []int{1, 2} {
			for _, b := range []int{0, 1} {
				out = append(out, scenario{N: 5, Start: 1, Batch: 2, Fetchers: 2, Mode: mode, Workers: w, Buffer: b, Faults: 2, Bound: 2})
			}
		}
	}
	out = append(out, scenario{N: 4, Batch: 3, Fetchers: 1, Mode: "scan-all", Workers: 2, Buffer: 1, Faults: 1, StopKind: "cancel", Bound: 2})
	// an unparsable entry inside a batch: first, in the middle, last of its batch
	for _, bad := range []int{1, 2, 3, 5} {
		out = append(out, scenario{N: 5, Batch: 3, Fetchers: 1, Mode: "scan-all", Workers: 1, Buffer: 0, Faults: 1, Bound: 1, Bad: bad})
		out = append(out, scenario{N: 5, Batch: 5, Fetchers: 2, Mode: "scan-precertonly", Workers: 2, Buffer: 1, Faults: 1, Bound: 1, Bad: bad})
	}
	out = append(out, scenario{N: 5, Batch: 2, Fetchers: 2, Mode: "fetcher", Faults: 1, Bound: 1, Bad: 2})
	// a well-formed leaf around certificate bytes that do not parse (certificate at even, precertificate at odd indices)
	for _, bc := range []int{1, 2, 3, 4} {
		out = append(out, scenario{N: 5, Batch: 3, Fetchers: 1, Mode: "scan-leafall", Workers: 1, Buffer: 0, Faults: 1, Bound: 1, BadCert: bc})
		out = append(out, scenario{N: 5, Batch: 3, Fetchers: 1, Mode: "scan-all", Workers: 2, Buffer: 1, Faults: 1, Bound: 1, BadCert: bc})
	}
	out = append(out, scenario{N: 5, Batch: 2, Fetchers: 2, Mode: "scan-leafparity", Workers: 2, Buffer: 0, Faults: 1, Bound: 1, BadCert: 3})
	out = append(out, scenario{N: 5, Batch: 2, Fetchers: 2, Mode: "scan-precertonly", Workers: 1, Buffer: 0, Faults: 1, Bound: 1, BadCert: 2})
	out = append(out, scenario{N: 5, Batch: 2, Fetchers: 2, Mode: "fetcher", Faults: 1, Bound: 1, BadCert: 2})
	out = append(out, scenario{N: 5, Batch: 2, Fetchers: 1, Mode: "scan-leafall", Workers: 2, Buffer: 1, Faults: 1, Bound: 1})
	// slow consumers: Stop / cancel and further answers while a fetched batch is only partly handed over
	for _, w := range []int{1, 2} {
		for _, b := range []int{0, 1} {
			out = append(out, scenario{N: 5, Batch: 4, Fetchers: 1, Mode: "scan-all", Workers: w, Buffer: b, Faults: 1, StopKind: "cancel", Bound: 1, Slow: true})
		}
	}
	out = append(out, scenario{N: 5, Batch: 2, Fetchers: 2, Mode: "scan-leafparity", Workers: 2, Buffer: 0, Faults: 1, StopKind: "cancel", Bound: 1, Slow: true})
	out = append(out, scenario{N: 4, Batch: 2, Fetchers: 2, Mode: "fetcher", Faults: 1, StopKind: "stop", Bound: 1, Slow: true})
	out = append(out, scenario{N: 4, Batch: 2, Fetchers: 2, Mode: "fetcher", Faults: 1, StopKind: "cancel", Bound: 1, Slow: true})
	// continuous
	for _, f := range []int{1, 2} {
		out = append(out, scenario{N: 2, Batch: 2, Fetchers: f, Mode: "fetcher", Continuous: true, Grow: []int{1, 3}, Faults: 1, Bound: 2})
		out = append(out, scenario{N: 0, Batch: 1, Fetchers: f, Mode: "fetcher", Continuous: true, Grow: []int{2, 1}, Faults: 1, Bound: 1})
		out = append(out, scenario{N: 3, Start: 1, Batch: 2, Fetchers: f, Mode: "fetcher", Continuous: true, Grow: []int{2}, Faults: 1, StopKind: "stop", Bound: 2})
	}
	out = append(out, scenario{N: 2, Batch: 2, Fetchers: 2, Mode: "scan-all", Workers: 2, Buffer: 0, Continuous: true, Grow: []int{3}, Faults: 1, Bound: 2})
	if th {
		for i := range out {
			out[i].Bound++
			if out[i].N <= 4 && !out[i].Continuous {
				out[i].Faults = 3
			}
		}
	}
	return out
}

func TestCheck(t *testing.T) {
	r := rep.New("C16", "exploration")
	gate.ReportHangs(r)
	seed := r.Seed()
	if seed == 0 {
		seed = 1
	}
	rand.Seed(seed)
	scs := scenarios(r.Thorough())
	r.Rule("for each scenario (tree size, [start,end), batch, parallel fetchers, matcher workers/buffer/kind, one-shot or continuous with growth steps), every choice vector with deviation cost <= bound: which pending GetRawEntries/GetSTH is answered next, with {full, every short length, 429, 500, network error, per-request timeout}; slow-consumer scenarios additionally gate every callback invocation, when the log grows, and Stop/cancel at any decision point. distinct_nontrivial = distinct (scenario, delivery order, request count) outcomes")
	r.Assume("zero/negative batch or worker counts are outside the property's domain and not generated; an empty entry list is generated as a fault (the fetcher must ask again)",
		"back-off jitter (math/rand) is not owned; no oracle depends on it",
		"interleavings are explored at the granularity of LogClient calls; accesses between calls are covered by the free-running race pass")
	klog.LogToStderr(false)
	klog.SetOutput(io.Discard)
	var totalExec, totalPts, maxDepth, div atomic.Int64
	r.Set("scenarios", len(scs))
	// one-shot scenarios first, in parallel; continuous ones afterwards one execution at a
	// time, because their poll back-off jitter comes from the process-wide math/rand source
	sort.SliceStable(scs, func(i, j int) bool { return !scs[i].Continuous && scs[j].Continuous })
	nPar := 0
	for _, sc := range scs {
		if !sc.Continuous {
			nPar++
		}
	}
	enum.Workers = 8
	runOne := func(i int) {
		sc := scs[i]
		ex := &gate.Explorer{Name: sc.String(), Bound: sc.Bound, Run: runScenario(sc), Stop: r.Expired, Workers: 3}
		if sc.Continuous {
			ex.Workers = 1
		}
		ex.OnViolation = func(v gate.Violation, picks []gate.Pick, trace []string) {
			r.Violation(v.Sig, v.Desc, map[string]any{"scenario": sc, "choices": picks, "trace": trace})
		}
		ex.Explore(t)
		totalExec.Add(ex.Executions.Load())
		totalPts.Add(ex.Points.Load())
		div.Add(ex.Divergent.Load())
		for {
			d, m := ex.MaxDepth.Load(), maxDepth.Load()
			if d <= m || maxDepth.CompareAndSwap(m, d) {
				break
			}
		}
		r.Eval(int(ex.Executions.Load()))
		for _, o := range ex.OutcomeList(1 << 30) {
			r.Nontrivial(sc.String() + o[:strings.LastIndex(o, " x")])
		}
		if ex.Capped.Load() {
			r.Capped("deadline reached in scenario " + sc.String())
		}
		if r.WantSample() && i%17 == 3 {
			r.Sample(map[string]any{"scenario": sc.String(), "schedules": ex.Executions.Load(), "distinct_outcomes": ex.Outcomes(), "trace": ex.SampleTrace()})
		}
		if fl := ex.Flaky(); len(fl) > 0 {
			r.Set("divergence_example", fl)
		}
	}
	done := enum.ParFor(nPar, r.Expired, runOne)
	for i := nPar; i < len(scs); i++ {
		if r.Expired() {
			done = false
			break
		}
		runOne(i)
	}
	if !done {
		r.Capped("deadline reached before all scenarios were explored")
	}
	if div.Load() > 0 {
		r.Capped(fmt.Sprintf("%d divergent branches (unowned jitter) not explored", div.Load()))
	}
	r.Set("schedules", totalExec.Load())
	r.Set("decision_points", totalPts.Load())
	r.Set("max_depth", maxDepth.Load())
	r.Set("divergent_branches", div.Load())
	r.Finish()
}
