//go:build go1.25

// Engine D for C16: fetcher / scanner bodies run free under the race detector
// (bubbles only make back-off and poll waits cost no wall time).
package race

import (
	"context"
	"errors"
	"fmt"
	"io"
	"sync"
	"testing"
	"testing/synctest"
	"time"

	ct "github.com/google/certificate-transparency-go"
	"github.com/google/certificate-transparency-go/scanner"
	"github.com/google/certificate-transparency-go/tls"
	"k8s.io/klog/v2"
)

type lc struct {
	mu   sync.Mutex
	size int
	n    int
}

func (l *lc) BaseURI() string { return "http://free.example" }
func (l *lc) GetSTH(context.Context) (*ct.SignedTreeHead, error) {
	l.mu.Lock()
	defer l.mu.Unlock()
	l.n++
	if l.n%5 == 0 {
		l.size += 3
	}
	return &ct.SignedTreeHead{TreeSize: uint64(l.size)}, nil
}
func leaf(i int64) ct.LeafEntry {
	ml := ct.MerkleTreeLeaf{Version: ct.V1, LeafType: ct.TimestampedEntryLeafType, TimestampedEntry: &ct.TimestampedEntry{Timestamp: uint64(i), EntryType: ct.X509LogEntryType, X509Entry: &ct.ASN1Cert{Data: []byte{0x30, 0x00}}}}
	b, _ := tls.Marshal(ml)
	x, _ := tls.Marshal(ct.CertificateChain{})
	return ct.LeafEntry{LeafInput: b, ExtraData: x}
}
func (l *lc) GetRawEntries(ctx context.Context, start, end int64) (*ct.GetEntriesResponse, error) {
	l.mu.Lock()
	l.n++
	k, size := l.n, l.size
	l.mu.Unlock()
	if k%7 == 0 {
		return nil, errors.New("reset")
	}
	if end >= int64(size) {
		end = int64(size) - 1
	}
	if k%3 == 0 && end > start {
		end = start
	}
	r := &ct.GetEntriesResponse{}
	for i := start; i <= end; i++ {
		r.Entries = append(r.Entries, leaf(i))
	}
	return r, nil
}

type parity struct{}

func (parity) Matches(*ct.LeafEntry) bool { return true }

func TestRacePass(t *testing.T) {
	klog.LogToStderr(false)
	klog.SetOutput(io.Discard)
	runs := 0
	for it := 0; it < 150; it++ {
		synctest.Test(t, func(t *testing.T) {
			ctx, cancel := context.WithCancel(context.Background())
			defer cancel()
			l := &lc{size: 9}
			cont := it%2 == 0
			opts := scanner.ScannerOptions{FetcherOptions: scanner.FetcherOptions{BatchSize: 2, ParallelFetch: 3, Continuous: cont}, NumWorkers: 3, BufferSize: it % 3, Matcher: parity{}}
			s := scanner.NewScanner(l, opts)
			var mu sync.Mutex
			seen := 0
			done := make(chan struct{})
			go func() {
				s.ScanLog(ctx, func(*ct.RawLogEntry) { mu.Lock(); seen++; mu.Unlock() }, func(*ct.RawLogEntry) {})
				close(done)
			}()
			f := scanner.NewFetcher(&lc{size: 7}, &scanner.FetcherOptions{BatchSize: 3, ParallelFetch: 2, Continuous: cont})
			fdone := make(chan struct{})
			go func() { f.Run(ctx, func(scanner.EntryBatch) {}); close(fdone) }()
			if cont {
				time.Sleep(90 * time.Second)
				f.Stop()
				cancel()
			}
			<-done
			<-fdone
		})
		runs++
	}
	fmt.Printf("RACE-PASS runs=%d\n", runs)
}
