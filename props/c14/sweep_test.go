//go:build verif && go1.25

package c14

import (
	"bytes"
	"encoding/json"
	"fmt"
	"sort"
	"sync"
	"sync/atomic"
	"time"

	"verif/engine/enum"
	"verif/engine/rep"
	"verif/ref/ct6962"
	"verif/ref/der"

	"github.com/google/trillian"
	"google.golang.org/protobuf/proto"
)

func timeOfTick(tk uint64) time.Time { return time.UnixMilli(int64(tk)) }

// payloadMask marks the bytes of a reference row that are certificate bytes
// (as opposed to DER headers of the row structure).
func payloadMask(certs [][]byte) []bool {
	var inner []byte
	var mask []bool
	for _, c := range certs {
		os := der.OctetString(c)
		item := der.Seq(os)
		m := make([]bool, len(item))
		for i := len(item) - len(c); i < len(item); i++ {
			m[i] = true
		}
		inner = append(inner, item...)
		mask = append(mask, m...)
	}
	row := der.Seq(inner)
	out := make([]bool, len(row)-len(inner))
	return append(out, mask...)
}

type corruption struct {
	how string
	val []byte
	at  string // for bit flips: byte offset and bit
}

// sweepRows: for a log holding one entry, every damaged version of the stored
// row of its issuance chain is returned by the store in turn; both read
// endpoints must answer 5xx.
func sweepRows(r *rep.R, th bool) {
	names := []string{"RS", "L0", "L1", "P1"}
	if th {
		names = append(names, "P0", "L2", "PP", "L3", "P2")
	}
	var served, refused, total atomic.Int64
	var hmu sync.Mutex
	var hdr []string // flips in the DER headers of the row that are nevertheless served
	for _, n := range names {
		s := subs[S(n)]
		row := s.storedChain()
		mask := payloadMask(s.issuance())
		if len(mask) != len(row) {
			panic("mask")
		}
		var cs []corruption
		cs = append(cs, corruption{how: "nil"})
		for l := 0; l < len(row); l++ {
			cs = append(cs, corruption{how: "truncated", val: clone(row[:l])})
		}
		for _, b := range []byte{0x00, 0x30, 0x04} {
			cs = append(cs, corruption{how: "trailing", val: append(clone(row), b)})
		}
		for _, tag := range []byte{0x31, 0x10, 0x04, 0xa0, 0x70} {
			c := clone(row)
			c[0] = tag
			cs = append(cs, corruption{how: "wrongtag", val: c})
		}
		for i := 0; i < len(row)*8; i++ {
			c := clone(row)
			c[i/8] ^= 1 << (i % 8)
			how := "bitflip-der-header"
			if mask[i/8] {
				how = "bitflip-certificate-bytes"
			}
			cs = append(cs, corruption{how, c, fmt.Sprintf("byte %d bit %d (reference byte %02x)", i/8, i%8, row[i/8])})
		}
		// another submission's row: valid, but not what was hashed
		for _, o := range []string{"L4", "L0", "RS"} {
			if other := subs[S(o)].storedChain(); !bytes.Equal(other, row) {
				cs = append(cs, corruption{how: "other-row", val: other})
			}
		}
		const chunk = 256
		nch := (len(cs) + chunk - 1) / chunk
		enum.ParFor(nch, r.Expired, func(ci int) {
			sc := scenario{Class: "sweep", Cache: "noop", Clients: [][]op{{}}}
			var cur *corruption
			w := newWorld(&sc, true, false, nil)
			w.viol = func(sig, f string, a ...any) {
				r.Violation(sig, fmt.Sprintf("sweep: one entry (%s), the store returns a row that is %s (%d bytes, reference row %d bytes): ", n, cur.how, len(cur.val), len(row))+fmt.Sprintf(f, a...),
					map[string]any{"submission": n, "corruption": cur.how, "row": rep.Hex(cur.val), "reference_row": rep.Hex(row)})
			}
			seq := 0
			w.runOp(1, &seq, op{K: "sub", U: S(n)}, uint64(baseTime.UnixMilli())+1, "")
			w.be.Sequence(-1, 5)
			if w.be.Size() != 1 {
				panic("sweep set-up")
			}
			for k := ci * chunk; k < (ci+1)*chunk && k < len(cs); k++ {
				cur = &cs[k]
				w.ovr = &override{cs[k].how, cs[k].val}
				for _, o := range []op{{K: "ge", A: 0, B: 0}, {K: "gep", A: 0, B: 1}} {
					mark := len(w.reqs)
					w.runOp(2, &seq, o, 10, "")
					rq := w.reqs[mark]
					w.judgeReq(rq)
					r.Eval(1)
					total.Add(1)
					if rq.Status == 200 {
						if cs[k].how == "bitflip-der-header" && rq.Kind == "ge" {
							hmu.Lock()
							hdr = append(hdr, n+": "+cs[k].at)
							hmu.Unlock()
						}
						served.Add(1)
					} else {
						refused.Add(1)
					}
				}
				r.Nontrivial(fmt.Sprintf("sweep|%s|%s|%x", n, cs[k].how, cs[k].val))
				w.reqs = w.reqs[:0]
			}
		})
	}
	if r.Expired() {
		r.Capped("deadline reached in the stored-row sweep")
	}
	sort.Strings(hdr)
	r.Set("sweep_header_flips_served_200", hdr)
	r.Set("sweep_requests", total.Load())
	r.Set("sweep_damaged_rows_refused", refused.Load())
	r.Set("sweep_damaged_rows_served_200", served.Load())
}

// layouts: the discrimination among the four extra-data layouts. For every
// (certificate, issuance chain) pair of the fixtures and each of the layouts
// CertificateChain, PrecertChainEntry, CertificateChainHash, PrecertChainEntryHash
// the backend serves that byte string as a leaf's extra data; the front end must
// serve the full-chain equivalent through both endpoints.
func layouts(r *rep.R) {
	type chain struct {
		certs [][]byte
		row   []byte
		hash  []byte
	}
	var chains []chain
	seen := map[string]bool{}
	var certs [][]byte
	for _, s := range subs {
		certs = append(certs, s.leafDER())
		if s.Path == nil || seen[string(s.chainHash())] {
			continue
		}
		seen[string(s.chainHash())] = true
		chains = append(chains, chain{s.issuance(), s.storedChain(), s.chainHash()})
	}
	must := func(b []byte, err error) []byte {
		if err != nil {
			panic(err)
		}
		return b
	}
	type lcase struct {
		name        string
		stored, exp []byte
	}
	var cases []lcase
	for ci, c := range chains {
		cc := must(ct6962.AppendCertificateChain(nil, c.certs))
		cases = append(cases, lcase{fmt.Sprintf("CertificateChain(chain %d)", ci), cc, cc})
		cases = append(cases, lcase{fmt.Sprintf("CertificateChainHash(chain %d)", ci), must(ct6962.AppendCertificateChainHash(nil, c.hash)), cc})
		for li, l := range certs {
			pe := must(ct6962.AppendPrecertChainEntry(nil, ct6962.PrecertChainEntry{PreCertificate: l, Chain: c.certs}))
			cases = append(cases, lcase{fmt.Sprintf("PrecertChainEntry(cert %d, chain %d)", li, ci), pe, pe})
			cases = append(cases, lcase{fmt.Sprintf("PrecertChainEntryHash(cert %d, chain %d)", li, ci),
				must(ct6962.AppendPrecertChainEntryHash(nil, ct6962.PrecertChainEntryHash{PreCertificate: l, IssuanceChainHash: c.hash})), pe})
		}
	}
	// ambiguity among the reference parsers themselves
	amb := 0
	for _, c := range cases {
		n := 0
		if _, err := ct6962.ParseCertificateChain(c.stored); err == nil {
			n++
		}
		if _, err := ct6962.ParsePrecertChainEntry(c.stored); err == nil {
			n++
		}
		if _, err := ct6962.ParseCertificateChainHash(c.stored); err == nil {
			n++
		}
		if _, err := ct6962.ParsePrecertChainEntryHash(c.stored); err == nil {
			n++
		}
		if n != 1 {
			amb++
			r.Violation("layout-ambiguous-encoding", fmt.Sprintf("%s: %d of the four layouts accept the byte string %s", c.name, n, rep.Hex(c.stored)), c.name)
		}
	}
	r.Set("layout_cases", len(cases))
	r.Set("layout_ambiguous_encodings", amb)
	const chunk = 64
	enum.ParFor((len(cases)+chunk-1)/chunk, r.Expired, func(k int) {
		sc := scenario{Class: "layout", Cache: "noop", Clients: [][]op{{}}}
		w := newWorld(&sc, true, false, func(string, string, ...any) {})
		for _, c := range chains {
			w.store[string(c.hash)] = c.row
		}
		seq := 0
		w.runOp(1, &seq, op{K: "sub", U: S("L4")}, uint64(baseTime.UnixMilli())+1, "")
		w.be.Sequence(-1, 5)
		var cur []byte
		w.be.SetHook(func(method string, req proto.Message, next func() (proto.Message, error)) (proto.Message, error) {
			rsp, err := next()
			switch m := rsp.(type) {
			case *trillian.GetLeavesByRangeResponse:
				for _, l := range m.Leaves {
					l.ExtraData = clone(cur)
				}
			case *trillian.GetEntryAndProofResponse:
				if m.Leaf != nil {
					m.Leaf.ExtraData = clone(cur)
				}
			}
			return rsp, err
		})
		leaf := w.be.Leaf(0).LeafValue
		for i := k * chunk; i < (k+1)*chunk && i < len(cases); i++ {
			c := cases[i]
			cur = c.stored
			for _, o := range []op{{K: "ge", A: 0, B: 0}, {K: "gep", A: 0, B: 1}} {
				mark := len(w.reqs)
				w.runOp(2, &seq, o, 10, "")
				rq := w.reqs[mark]
				r.Eval(1)
				desc := fmt.Sprintf("layout: the backend holds extra data %s = %s; %s answers ", c.name, rep.Hex(c.stored), endpoint(rq))
				cd := map[string]any{"layout": c.name, "stored_extra_data": rep.Hex(c.stored), "endpoint": endpoint(rq)}
				if rq.Panic != "" {
					r.Violation("panic "+endpoint(rq), desc+rq.Panic, cd)
					continue
				}
				if rq.Status != 200 {
					r.Violation("layout-refused "+layoutKind(c.name), desc+fmt.Sprintf("%d %s", rq.Status, oneline(rq.Body)), cd)
					continue
				}
				var e jsonEntry
				if rq.Kind == "ge" {
					var j jsonEntries
					if err := json.Unmarshal(rq.Body, &j); err != nil || len(j.Entries) != 1 {
						r.Violation("layout-body", desc+oneline(rq.Body), cd)
						continue
					}
					e = j.Entries[0]
				} else if err := json.Unmarshal(rq.Body, &e); err != nil {
					r.Violation("layout-body", desc+oneline(rq.Body), cd)
					continue
				}
				if !bytes.Equal(e.LeafInput, leaf) {
					r.Violation("leaf-input-differs", desc+"another leaf_input", cd)
				}
				if !bytes.Equal(e.ExtraData, c.exp) {
					r.Violation("layout-misread "+layoutKind(c.name), desc+fmt.Sprintf("extra_data %s, want the full-chain layout %s", rep.Hex(e.ExtraData), rep.Hex(c.exp)), cd)
				}
			}
			r.Nontrivial("layout|" + c.name)
			w.reqs = w.reqs[:0]
		}
	})
}

func layoutKind(name string) string {
	for i := range name {
		if name[i] == '(' {
			return name[:i]
		}
	}
	return name
}
