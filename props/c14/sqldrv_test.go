package c14

// The two shipped SQL drivers, against a scripted database/sql connection (go-sqlmock): what the
// exploration assumes of a store must hold for them. Add returns nil only when the row is in the table
// afterwards (the INSERT went through, or the key was already there); every other server answer -
// deadlock, lock wait timeout, too many connections, a dropped connection, a generic error - is an
// error, so that the submission fails instead of leaving a hash without a row behind. FindByKey returns
// the stored bytes and never invents any; whether an unknown key is an error or (nil, nil) is recorded only (the front end refuses a nil row either way, see the fault menu).

import (
	"bytes"
	"context"
	"database/sql"
	"database/sql/driver"
	"errors"
	"fmt"

	"verif/engine/enum"
	"verif/engine/rep"

	sqlmock "github.com/DATA-DOG/go-sqlmock"
	"github.com/go-sql-driver/mysql"
	mysqlstore "github.com/google/certificate-transparency-go/trillian/ctfe/storage/mysql"
	pgstore "github.com/google/certificate-transparency-go/trillian/ctfe/storage/postgresql"
	"github.com/jackc/pgx/v5/pgconn"
)

type sqlStore interface {
	Add(ctx context.Context, key, chain []byte) error
	FindByKey(ctx context.Context, key []byte) ([]byte, error)
}

func sqlDrivers(r *rep.R) {
	key, chain := bytes.Repeat([]byte{0x5a}, 32), []byte("0\x06stored chain bytes")
	type execCase struct {
		name   string
		err    error
		stored bool // the row is in the table after this answer
	}
	mysqlExec := []execCase{
		{"insert succeeds", nil, true},
		{"1062 duplicate entry (the key is already there)", &mysql.MySQLError{Number: 1062, Message: "Duplicate entry"}, true},
		{"1213 deadlock found, transaction rolled back", &mysql.MySQLError{Number: 1213, Message: "Deadlock found when trying to get lock; try restarting transaction"}, false},
		{"1205 lock wait timeout exceeded", &mysql.MySQLError{Number: 1205, Message: "Lock wait timeout exceeded; try restarting transaction"}, false},
		{"1040 too many connections", &mysql.MySQLError{Number: 1040, Message: "Too many connections"}, false},
		{"1146 table does not exist", &mysql.MySQLError{Number: 1146, Message: "Table 'IssuanceChain' doesn't exist"}, false},
		{"1406 data too long", &mysql.MySQLError{Number: 1406, Message: "Data too long for column"}, false},
		{"connection dropped", driver.ErrBadConn, false},
		{"generic error", errors.New("server has gone away"), false},
		{"context deadline", context.DeadlineExceeded, false},
	}
	pgExec := []execCase{
		{"insert succeeds", nil, true},
		{"40P01 deadlock detected", &pgconn.PgError{Code: "40P01", Message: "deadlock detected"}, false},
		{"55P03 lock not available", &pgconn.PgError{Code: "55P03", Message: "lock not available"}, false},
		{"53300 too many connections", &pgconn.PgError{Code: "53300", Message: "too many connections"}, false},
		{"42P01 undefined table", &pgconn.PgError{Code: "42P01", Message: "relation does not exist"}, false},
		{"connection dropped", driver.ErrBadConn, false},
		{"generic error", errors.New("server closed the connection unexpectedly"), false},
		{"context deadline", context.DeadlineExceeded, false},
	}
	for _, drv := range []struct {
		name string
		mk   func(db *sql.DB) sqlStore
		exec []execCase
	}{
		{"mysql", func(db *sql.DB) sqlStore { return mysqlstore.VerifNewWithDB(db) }, mysqlExec},
		{"postgresql", func(db *sql.DB) sqlStore { return pgstore.VerifNewWithDB(db) }, pgExec},
	} {
		for _, ec := range drv.exec {
			r.Eval(1)
			r.Nontrivial("sql-driver|" + drv.name + "|Add|" + ec.name)
			pan, msg, stack := enum.Catch(func() {
				db, mock, err := sqlmock.New()
				if err != nil {
					panic(err)
				}
				defer db.Close()
				e := mock.ExpectExec("INSERT INTO IssuanceChain").WithArgs(key, chain)
				if ec.err != nil {
					e.WillReturnError(ec.err)
				} else {
					e.WillReturnResult(sqlmock.NewResult(1, 1))
				}
				got := drv.mk(db).Add(context.Background(), key, chain)
				if (got == nil) != ec.stored {
					what := "reports success although the row was not stored"
					if got != nil {
						what = "fails although the row is stored"
					}
					r.Violation("sql driver: Add "+what+" ["+drv.name+"]", fmt.Sprintf("%s driver, server answer %q: Add returned %v", drv.name, ec.name, got),
						map[string]any{"driver": drv.name, "server_answer": ec.name, "add_returned": fmt.Sprint(got)})
				}
			})
			if pan {
				r.Violation("sql driver: panic in Add ["+drv.name+"]", msg+"\n"+stack, map[string]any{"driver": drv.name, "server_answer": ec.name})
			}
		}
		// FindByKey
		for _, fc := range []struct {
			name string
			rows func(m sqlmock.Sqlmock) *sqlmock.ExpectedQuery
			want []byte
		}{
			{"one row", func(m sqlmock.Sqlmock) *sqlmock.ExpectedQuery {
				return m.ExpectQuery("SELECT").WithArgs(key).WillReturnRows(sqlmock.NewRows([]string{"ChainValue"}).AddRow(chain))
			}, chain},
			{"no rows (unknown key)", func(m sqlmock.Sqlmock) *sqlmock.ExpectedQuery {
				return m.ExpectQuery("SELECT").WithArgs(key).WillReturnRows(sqlmock.NewRows([]string{"ChainValue"}))
			}, nil},
			{"query error", func(m sqlmock.Sqlmock) *sqlmock.ExpectedQuery {
				return m.ExpectQuery("SELECT").WithArgs(key).WillReturnError(errors.New("server has gone away"))
			}, nil},
			{"row error while reading", func(m sqlmock.Sqlmock) *sqlmock.ExpectedQuery {
				return m.ExpectQuery("SELECT").WithArgs(key).WillReturnRows(sqlmock.NewRows([]string{"ChainValue"}).AddRow(chain).RowError(0, errors.New("connection reset")))
			}, nil},
		} {
			r.Eval(1)
			r.Nontrivial("sql-driver|" + drv.name + "|FindByKey|" + fc.name)
			pan, msg, stack := enum.Catch(func() {
				db, mock, err := sqlmock.New()
				if err != nil {
					panic(err)
				}
				defer db.Close()
				fc.rows(mock)
				got, gerr := drv.mk(db).FindByKey(context.Background(), key)
				switch {
				case fc.want != nil && (gerr != nil || !bytes.Equal(got, fc.want)):
					r.Violation("sql driver: FindByKey does not return the stored row ["+drv.name+"]", fmt.Sprintf("%s: %q, %v", fc.name, got, gerr), map[string]any{"driver": drv.name, "case": fc.name})
				case fc.want == nil && gerr == nil && len(got) != 0:
					r.Violation("sql driver: FindByKey invents bytes for an unknown key or a failed read ["+drv.name+"]", fmt.Sprintf("%s: returned %q and a nil error", fc.name, got), map[string]any{"driver": drv.name, "case": fc.name})
				case fc.want == nil && gerr == nil:
					// (nil, nil): not what the exploration's store model answers by default, but the front end refuses a nil
					// row (fault "nil" of the menu), so the statement still holds end to end: recorded, not an alarm
					r.Add("sql_driver_answers_nil_without_error:"+drv.name+":"+fc.name, 1)
				}
			})
			if pan {
				r.Violation("sql driver: panic in FindByKey ["+drv.name+"]", msg+"\n"+stack, map[string]any{"driver": drv.name, "case": fc.name})
			}
		}
	}
}
