//go:build verif && go1.25

// C14 — storing issuance chains outside the backend is invisible to readers.
//
// Two real front ends are fed the same submissions: one in the default mode (full
// chain in the backend's extra data) and one with external storage, whose store
// and cache are harness objects. Every call the front end makes to the store
// (Add / FindByKey) and to the cache (Get / Set) is a gate (Engine A): at each
// quiescence the director decides which pending call is answered and how. A
// history of one client explores answers and faults on the sequential schedule
// (detached cache writes land after their request, or later); two or three
// clients explore the interleavings. A reference model written from RFC 6962
// (ref/ct6962, ref/der, ref/pki ground truth) says what every served entry must
// be; fault-free single-client runs are additionally compared byte for byte with
// the default-mode front end.
package c14

import (
	"fmt"
	"io"
	"os"
	"sort"
	"strings"
	"sync"
	"sync/atomic"
	"syscall"
	"testing"
	"time"

	"verif/engine/enum"
	"verif/engine/gate"
	"verif/engine/rep"

	"k8s.io/klog/v2"
)

type group struct {
	name string
	subs []string
	pre  []string // entries the default mode stored before external storage was switched on
}

var groups = []group{
	{"dedup", []string{"L1", "L1b", "P1"}, []string{"L1", "P1"}}, // one issuance chain, both entry types
	{"evict", []string{"L1", "L4", "L2"}, []string{"L4"}},        // three issuance chains: LRU of size 1 / 2 evicts
	{"short", []string{"L0", "RS", "P0"}, []string{"RS", "P0"}},  // issued by a root; the leaf is a root (empty chain)
	{"sameleaf", []string{"L1", "L1r", "PP"}, []string{"L1r"}},   // one leaf posted twice; precert via pre-issuer
	{"long", []string{"L3", "P4", "PS"}, []string{"P2"}},         // three intermediates; second root; refused precert
	{"cross", []string{"L1", "L1x", "P1x"}, []string{"L1x"}},     // one issuing CA, two paths above it (root A / root A cross-certified by root B)
}

func idx(names []string) []int {
	var out []int
	for _, n := range names {
		out = append(out, S(n))
	}
	return out
}

// histories returns every sequence of exactly depth operations over the alphabet.
func histories(alpha []op, depth int) [][]op {
	out := [][]op{{}}
	for d := 0; d < depth; d++ {
		var next [][]op
		for _, h := range out {
			for _, o := range alpha {
				next = append(next, append(append([]op{}, h...), o))
			}
		}
		out = next
	}
	return out
}

func scenarios(th bool) []scenario {
	var out []scenario
	dHist, dFault := 4, 3
	if th {
		dHist, dFault = 5, 4
	}
	for _, g := range groups {
		var alphaFull, alphaLight []op
		for _, u := range idx(g.subs) {
			alphaFull = append(alphaFull, op{K: "sub", U: u})
			alphaLight = append(alphaLight, op{K: "sub", U: u})
		}
		alphaFull = append(alphaFull, op{K: "seq"}, op{K: "read"})
		alphaLight = append(alphaLight, op{K: "seq"}, op{K: "rd"})
		for _, pre := range [][]int{nil, idx(g.pre)} {
			// (1a) fault-free histories, every real cache kind, default schedule (on this schedule the
			// adversarial cache behaves like lruN when it hits by default and like noop when it misses)
			d := dHist
			if pre != nil && !th {
				d--
			}
			for _, h := range histories(alphaFull, d) {
				for _, c := range []string{"noop", "lru1", "lru2", "lruN"} {
					if c == "lru2" && g.name != "evict" && g.name != "long" {
						continue // two entries only matter where three different chains are in play
					}
					out = append(out, scenario{Class: "hist", PreDirect: pre, Clients: [][]op{h}, Cache: c, Bound: 0})
				}
			}
			// (1b) the same, one level shallower, with deviations: a cache that hits / misses / drops
			// at any call, a cache write that lands after the next operation has begun
			for _, h := range histories(alphaLight, dHist-1) {
				for _, c := range []string{"lru1", "advH", "advM"} {
					out = append(out, scenario{Class: "hist-dev", PreDirect: pre, Clients: [][]op{h}, Cache: c, Bound: 1})
				}
			}
			if th {
				for _, h := range histories(alphaLight, 3) {
					for _, c := range []string{"lru1", "lru2", "advH", "advM"} {
						out = append(out, scenario{Class: "hist-dev2", PreDirect: pre, Clients: [][]op{h}, Cache: c, Bound: 2})
					}
				}
			}
			// (1c) every storage / cache fault at every call
			for _, h := range histories(alphaLight, dFault) {
				for _, c := range []string{"noop", "advH"} {
					if pre != nil && c == "advH" && !th {
						continue
					}
					out = append(out, scenario{Class: "fault", PreDirect: pre, Clients: [][]op{h}, Cache: c, Faults: "basic", MaxFaults: 1, Bound: 1})
				}
			}
			if th {
				for _, h := range histories(alphaLight, 3) {
					out = append(out, scenario{Class: "fault2", PreDirect: pre, Clients: [][]op{h}, Cache: "advH", Faults: "basic", MaxFaults: 2, Bound: 2})
					out = append(out, scenario{Class: "fault2", PreDirect: pre, Clients: [][]op{h}, Cache: "lru1", Faults: "basic", MaxFaults: 2, Bound: 2})
				}
			}
		}
	}
	sub := func(n string) op { return op{K: "sub", U: S(n)} }
	seq, rd, read := op{K: "seq"}, op{K: "rd"}, op{K: "read"}
	// the request's context ends while its backend read is in flight (the backend still answers):
	// whatever the front end then does, a 200 carries the exact bytes
	for _, h := range [][]op{{sub("L1"), sub("P1"), sub("L2"), seq, read}, {sub("L0"), sub("L3"), sub("PP"), seq, rd, rd}} {
		for _, c := range []string{"noop", "lru1", "lruN", "advH"} {
			for k := 1; k <= 8; k++ {
				out = append(out, scenario{Class: "ctxend", Clients: [][]op{h}, Cache: c, Bound: 0, CtxEnd: k})
			}
		}
	}
	// a stored row that is still valid DER but is not the row that was hashed
	for _, h := range [][]op{{sub("L1"), seq, rd}, {sub("P1"), seq, rd}, {sub("L0"), sub("L3"), seq, read}} {
		for _, c := range []string{"noop", "advH", "lru1"} {
			out = append(out, scenario{Class: "flip", Clients: [][]op{h}, Cache: c, Faults: "flip", MaxFaults: 1, Bound: 1})
		}
	}
	// the log's storage mode was switched back and forth: entries stored via external storage (hash form) sit BELOW entries
	// stored with their full chain, and further hash-form entries follow; every range read crosses the seams
	for _, m := range []struct{ hash, direct []string }{
		{[]string{"L1"}, []string{"L4"}}, {[]string{"L1", "P1"}, []string{"L2"}}, {[]string{"P1"}, []string{"L1b", "L3"}}, {[]string{"L0", "RS"}, []string{"P0"}}, {[]string{"PP"}, []string{"L1"}},
	} {
		for _, h := range [][]op{{read}, {rd}, {sub("L1r"), seq, read}, {sub("P4"), sub("L3"), seq, rd, read}} {
			for _, c := range []string{"noop", "lruN", "advM"} {
				out = append(out, scenario{Class: "mixed", PreHash: idx(m.hash), PreDirect: idx(m.direct), HashFirst: true, Clients: [][]op{h}, Cache: c, Bound: 0})
			}
			out = append(out, scenario{Class: "mixed-fault", PreHash: idx(m.hash), PreDirect: idx(m.direct), HashFirst: true, Clients: [][]op{h}, Cache: "advH", Faults: "basic", MaxFaults: 1, Bound: 1})
		}
	}
	// a storage or cache fault on one read, then further reads and submissions of the same chain: what a fault left behind
	// (in the cache, in the service) must not outlive it
	for _, h := range [][]op{{sub("L1"), seq, rd, rd}, {sub("L1"), seq, rd, sub("P1"), seq, rd, read}, {sub("P1"), sub("L4"), seq, rd, rd, sub("L1"), seq, read}} {
		for _, c := range []string{"advH", "advM", "lru1", "lruN"} {
			out = append(out, scenario{Class: "fault-then-more", Clients: [][]op{h}, Cache: c, Faults: "basic", MaxFaults: 1, Bound: 1})
		}
	}
	// a row the store really loses under a reader that missed the cache, then a submission of the same chain that may
	// or may not find something cached (two departures: the lost row and one cache answer)
	out = append(out, scenario{Class: "fault-then-more", Clients: [][]op{{sub("L1"), seq, rd, sub("P1"), seq, rd, read}}, Cache: "advM", Faults: "basic", MaxFaults: 1, Bound: 2})
	// chains through a CA and through its re-issued twin (same name, key and key identifier), one after the other
	for _, h := range [][]op{{sub("L1"), sub("L1ri"), seq, read}, {sub("L1ri"), sub("L1"), sub("P1ri"), seq, rd, read}, {sub("P1"), seq, sub("P1ri"), sub("L1"), seq, read}} {
		for _, c := range []string{"noop", "lru1", "lruN", "advM"} {
			out = append(out, scenario{Class: "reissued", Clients: [][]op{h}, Cache: c, Bound: 0})
		}
		out = append(out, scenario{Class: "reissued-fault", Clients: [][]op{h}, Cache: "advH", Faults: "basic", MaxFaults: 1, Bound: 1})
	}
	// entries longer than 64 KiB, both entry types, alone and next to ordinary ones
	for _, h := range [][]op{{sub("PBig"), seq, read}, {sub("LBig"), sub("PBig"), sub("L1"), seq, rd, read}, {sub("P1"), sub("PBig"), seq, read}} {
		for _, c := range []string{"noop", "lruN", "advM"} {
			out = append(out, scenario{Class: "big", Clients: [][]op{h}, Cache: c, Bound: 0})
		}
		out = append(out, scenario{Class: "big-fault", Clients: [][]op{h}, Cache: "advH", Faults: "basic", MaxFaults: 1, Bound: 1})
	}
	// boundary reads
	for _, h := range [][]op{
		{{K: "gep", A: 0, B: 1}}, {{K: "ge", A: 0, B: 0}},
		{sub("L1"), {K: "gep", A: 0, B: 1}}, {sub("L1"), {K: "ge", A: 0, B: 0}},
		{sub("L1"), seq, {K: "gep", A: 1, B: 2}}, {sub("L1"), seq, {K: "gep", A: 0, B: 2}}, {sub("P1"), seq, {K: "ge", A: 1, B: 1}},
		{sub("L1"), sub("P1"), seq, {K: "ge", A: 0, B: 5}, {K: "ge", A: 1, B: 0}, {K: "gep", A: 1, B: 1}, {K: "gep", A: 1, B: 2}},
	} {
		for _, c := range []string{"noop", "lruN"} {
			out = append(out, scenario{Class: "edge", Clients: [][]op{h}, Cache: c, Bound: 0})
		}
	}
	// (2) concurrent writers and readers colliding on one issuance chain
	type cs struct {
		pre []string
		cl  [][]op
	}
	concs := []cs{
		{[]string{"L1b"}, [][]op{{sub("L1")}, {sub("P1")}, {rd}}},
		{[]string{"L1b"}, [][]op{{sub("L1"), seq, rd}, {sub("L4")}}},
		{nil, [][]op{{sub("L1")}, {sub("L1b")}, {seq, rd}}},
		{[]string{"L1", "L4"}, [][]op{{rd}, {rd}, {sub("L2")}}},
		{[]string{"L1"}, [][]op{{sub("L1r")}, {sub("P1")}, {{K: "gep", A: 0, B: 1}}}},
	}
	cb := 1
	if th {
		cb = 2
	}
	for _, c := range concs {
		for _, k := range []string{"advH", "advM", "lru1", "lruN"} {
			out = append(out, scenario{Class: "conc", PreHash: idx(c.pre), Clients: c.cl, Cache: k, Concurrent: true, Bound: cb})
			fb := cb
			if th && (k == "advM" || k == "lruN") {
				fb = 1
			}
			out = append(out, scenario{Class: "conc-fault", PreHash: idx(c.pre), Clients: c.cl, Cache: k, Concurrent: true, Faults: "basic", MaxFaults: 1, Bound: fb})
			if !th && c.pre == nil && (k == "advM" || k == "lru1") {
				// two first-time submissions of one chain and a reader: one preemption AND one fault (the second writer
				// overtakes the first before the first one's storage write fails)
				out = append(out, scenario{Class: "conc-fault2", PreHash: nil, Clients: [][]op{c.cl[0], c.cl[1]}, Cache: k, Concurrent: true, Faults: "basic", MaxFaults: 1, Bound: 2})
			}
		}
	}
	return out
}

func cpuSeconds() float64 {
	var ru syscall.Rusage
	syscall.Getrusage(syscall.RUSAGE_SELF, &ru)
	return float64(ru.Utime.Sec) + float64(ru.Utime.Usec)/1e6 + float64(ru.Stime.Sec) + float64(ru.Stime.Usec)/1e6
}

// directRun feeds the history to a front end in the default mode.
func directRun(sc scenario) []*request {
	w := newWorld(&sc, false, false, func(string, string, ...any) {})
	tick := uint64(baseTime.UnixMilli()) + 100
	seq := 0
	for _, o := range sc.Clients[0] {
		tick++
		w.clock.Set(timeOfTick(tick))
		w.runOp(1, &seq, o, tick, "")
	}
	return w.reqs
}

func TestCheck(t *testing.T) {
	r := rep.New("C14", "exploration")
	gate.ReportHangs(r)
	t0 := time.Now()
	klog.LogToStderr(false)
	klog.SetOutput(io.Discard)
	th := r.Thorough()
	scs := scenarios(th)
	if f := os.Getenv("C14_CLASS"); f != "" { // debugging aid: restrict to some scenario classes
		var keep []scenario
		for _, sc := range scs {
			if strings.Contains(","+f+",", ","+sc.Class+",") {
				keep = append(keep, sc)
			}
		}
		scs = keep
	}
	r.Rule("scenario = (entries pre-stored in the default layout, client histories over submit / sequence / read-everything-through-both-endpoints, cache kind in {noop, LRU 1/2/1000, adversarial hit-by-default, adversarial miss-by-default}, fault menu); per scenario every choice vector within the deviation bound over: which pending store / cache call is answered next, with which answer (ok; Add error; FindByKey error / no rows / nil / empty / truncated / trailing byte / wrong outer tag / bit flip; cache Get hit / miss / error; cache Set stored / dropped / error), and when the next operation starts. Plus exhaustive sweeps: every truncation length and every single-bit flip of a stored row; every encoding of the four extra-data layouts for every (leaf, issuance chain) pair. distinct_nontrivial = distinct (scenario, per-request status vector) outcomes of executions in which the front end called the store or the cache at least once, + distinct damaged rows of the sweep + distinct layout cases")
	r.Assume("the backend is the reference backend ref/reflog and never fails (backend faults belong to C08)",
		"store and cache calls are atomic at the granularity of the IssuanceChainStorage / IssuanceChainCache interfaces; accesses between calls are covered by the free-running race pass",
		"real LRU caches are built with TTL 0 (no janitor goroutine); expiry and every eviction policy are over-approximated by the adversarial cache, which may miss on any read and drop any write",
		"an unknown hash is answered with an error (sql.ErrNoRows), as both shipped storage drivers do; a nil row without error is part of the fault menu",
		"single-client histories: by default a detached cache write lands after its request and before the next operation; a later landing, a cache deviation (miss / hit / drop) and a fault cost 1 each, explored up to the scenario's bound (quick 1; thorough 2 at depth 3, with up to 2 faults). Concurrent scenarios are preemption-bounded: continuing the client that moved last, or any client once that one finished its operation, is free; a preemption, a cache deviation and a fault cost 1 each (quick bound 1, thorough 2)",
		"certificates are re-signed with deterministic (RFC 6979) ECDSA so that row lengths, hence the number of truncations and bit flips, are the same in every run")
	// default-mode runs of every single-client history
	direct := map[string][]*request{}
	var keys []string
	rep1 := map[string]scenario{}
	for _, sc := range scs {
		if len(sc.Clients) == 1 {
			k := sc.histKey()
			if _, ok := rep1[k]; !ok {
				rep1[k] = sc
				keys = append(keys, k)
			}
		}
	}
	var dmu sync.Mutex
	enum.ParFor(len(keys), nil, func(i int) {
		d := directRun(rep1[keys[i]])
		dmu.Lock()
		direct[keys[i]] = d
		dmu.Unlock()
	})
	fmt.Printf("phase direct done at %.1fs\n", time.Since(t0).Seconds())
	r.Set("default_mode_histories", len(keys))
	r.Set("scenarios", len(scs))
	var exec, pts, div, maxDepth, trivial atomic.Int64
	perClass := map[string]*atomic.Int64{}
	for _, sc := range scs {
		if perClass[sc.Class] == nil {
			perClass[sc.Class] = &atomic.Int64{}
		}
	}
	// scenarios of one bound are explored in batches by one explorer each: the first
	// choice point of an execution picks the scenario (every alternative costs nothing)
	type batch struct {
		bound int
		scs   []scenario
	}
	var batches []batch
	byBound := map[int][]scenario{}
	var bounds []int
	for _, sc := range scs {
		if _, ok := byBound[sc.Bound]; !ok {
			bounds = append(bounds, sc.Bound)
		}
		byBound[sc.Bound] = append(byBound[sc.Bound], sc)
	}
	sort.Ints(bounds)
	for bi := len(bounds) - 1; bi >= 0; bi-- { // the deepest searches first
		l := byBound[bounds[bi]]
		size := 48
		if bounds[bi] >= 2 {
			size = 1
		} else if bounds[bi] == 1 {
			size = 8
		}
		for len(l) > 0 {
			n := min(size, len(l))
			batches = append(batches, batch{bounds[bi], l[:n]})
			l = l[n:]
		}
	}
	done := enum.ParFor(len(batches), r.Expired, func(i int) {
		b := batches[i]
		alts := make([]gate.Alt, len(b.scs))
		runs := make([]func(*testing.T, *gate.Exec), len(b.scs))
		for k, sc := range b.scs {
			alts[k] = gate.Alt{Label: sc.String()}
			runs[k] = runScenario(sc, direct)
		}
		ex := &gate.Explorer{Name: fmt.Sprintf("batch %d", i), Bound: b.bound, Stop: r.Expired, Workers: 1}
		if b.bound >= 2 && b.scs[0].Concurrent {
			ex.Workers = 6 // few, large searches: let each use several cores
		}
		ex.Run = func(t *testing.T, x *gate.Exec) {
			k := x.Choose(alts)
			perClass[b.scs[k].Class].Add(1)
			runs[k](t, x)
			x.Outcome = alts[k].Label + " => " + x.Outcome
		}
		ex.OnViolation = func(v gate.Violation, picks []gate.Pick, trace []string) {
			r.Violation(v.Sig, v.Desc, map[string]any{"scenario": picks[0].Label, "choices": picks[1:], "trace": trace})
		}
		ex.Explore(t)
		n := ex.Executions.Load()
		exec.Add(n)
		pts.Add(ex.Points.Load() - n)
		div.Add(ex.Divergent.Load())
		for {
			d, m := ex.MaxDepth.Load(), maxDepth.Load()
			if d <= m || maxDepth.CompareAndSwap(m, d) {
				break
			}
		}
		r.Eval(int(n))
		for _, o := range ex.OutcomeList(1 << 30) {
			if strings.Contains(o, " => trivial (no store or cache call)") {
				trivial.Add(1)
				continue
			}
			r.Nontrivial(o[:strings.LastIndex(o, " x")])
		}
		if ex.Capped.Load() {
			r.Capped("deadline reached during the exploration")
		}
		if fl := ex.Flaky(); len(fl) > 0 {
			r.Set("divergence_example", fl)
		}
		if c := b.scs[0].Class; (c == "conc" || c == "fault" || c == "hist-dev") && i%97 == 0 && r.WantSample() {
			r.Sample(map[string]any{"first_scenario_of_batch": b.scs[0].String(), "scenarios_in_batch": len(b.scs), "executions": n, "outcomes": ex.OutcomeList(3), "trace": ex.SampleTrace()})
		}
	})
	if !done {
		r.Capped("deadline reached before all scenarios were explored")
	}
	if div.Load() > 0 {
		r.Capped(fmt.Sprintf("%d divergent branches not explored", div.Load()))
	}
	for c, n := range perClass {
		r.Set("executions_"+c, n.Load())
	}
	twoLogs(t, r)
	sqlDrivers(r)
	r.Set("trivial_outcomes_not_counted", trivial.Load())
	r.Set("executions", exec.Load())
	r.Set("decision_points", pts.Load())
	r.Set("max_depth", maxDepth.Load())
	r.Set("divergent_branches", div.Load())
	fmt.Printf("phase explore done at %.1fs cpu=%.1fs\n", time.Since(t0).Seconds(), cpuSeconds())
	sweepRows(r, th)
	fmt.Printf("phase sweep done at %.1fs\n", time.Since(t0).Seconds())
	layouts(r)
	fmt.Printf("phase layouts done at %.1fs\n", time.Since(t0).Seconds())
	r.Finish()
}
