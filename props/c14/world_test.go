//go:build verif && go1.25

package c14

import (
	"bytes"
	"context"
	"crypto/sha256"
	"database/sql"
	"encoding/base64"
	"encoding/json"
	"errors"
	"fmt"
	"net/http"
	"net/url"
	"sort"
	"strconv"
	"strings"
	"sync"
	"sync/atomic"
	"testing"
	"testing/synctest"
	"time"

	"verif/engine/enum"
	"verif/engine/gate"
	"verif/ref/ct6962"
	"verif/ref/fe"
	"verif/ref/reflog"

	"github.com/google/certificate-transparency-go/trillian/ctfe/cache"
	"github.com/google/certificate-transparency-go/trillian/ctfe/cache/lru"
	"github.com/google/certificate-transparency-go/trillian/ctfe/cache/noop"
	"github.com/google/trillian"
	"google.golang.org/protobuf/proto"
)

// ---- scenario --------------------------------------------------------------------

type op struct {
	K    string // "sub", "seq", "read" (every entry through both endpoints), "ge", "gep"
	U    int    // submission index ("sub")
	A, B int64  // get-entries start,end / get-entry-and-proof leaf_index,tree_size
}

func (o op) String() string {
	switch o.K {
	case "sub":
		return "sub:" + subs[o.U].Name
	case "ge", "gep":
		return fmt.Sprintf("%s(%d,%d)", o.K, o.A, o.B)
	}
	return o.K
}

type scenario struct {
	Class      string // "hist", "fault", "conc", "edge"
	PreDirect  []int  // submissions already in the backend in the default (full chain) layout, sequenced
	PreHash    []int  // submissions made through the external-storage front end before the scenario starts, sequenced
	HashFirst  bool   // the PreHash entries come first, the PreDirect entries after them: the log's storage mode was switched to external, back to the default, and to external again
	Clients    [][]op
	Cache      string // "noop", "lru1", "lru2", "lruN", "advH" (adversarial, hits by default), "advM" (misses by default)
	Faults     string // "", "basic", "flip"
	MaxFaults  int
	Concurrent bool // start every client before answering anything (default schedule)
	Bound      int
	CtxEnd     int // k > 0: the context of the request making the k-th backend read of the scenario ends while that backend call is in flight (the backend still answers successfully): a client that goes away, a deadline used up by the RPC
}

func opsString(ops []op) string {
	var s []string
	for _, o := range ops {
		s = append(s, o.String())
	}
	return strings.Join(s, ",")
}

func (s scenario) histKey() string {
	var p []string
	for _, u := range s.PreDirect {
		p = append(p, subs[u].Name)
	}
	p = append(p, "|")
	for _, u := range s.PreHash {
		p = append(p, subs[u].Name)
	}
	if s.HashFirst {
		p = append(p, "(hash-form entries first)")
	}
	return "pre[" + strings.Join(p, ",") + "] " + opsString(s.Clients[0])
}

func (s scenario) String() string {
	var cl []string
	for _, c := range s.Clients {
		cl = append(cl, "{"+opsString(c)+"}")
	}
	var p []string
	for _, u := range s.PreDirect {
		p = append(p, subs[u].Name)
	}
	if len(s.PreHash) > 0 {
		p = append(p, "| via external storage:")
		for _, u := range s.PreHash {
			p = append(p, subs[u].Name)
		}
	}
	if s.HashFirst {
		p = append(p, "(the entries stored via external storage come first)")
	}
	ce := ""
	if s.CtxEnd > 0 {
		ce = fmt.Sprintf(" request-context-ends-during-backend-read#%d", s.CtxEnd)
	}
	return fmt.Sprintf("%s pre[%s] %s cache=%s faults=%s/%d conc=%v bound=%d%s", s.Class, strings.Join(p, ","), strings.Join(cl, " || "), s.Cache, s.Faults, s.MaxFaults, s.Concurrent, s.Bound, ce)
}

// ---- one request and what the environment did to it -------------------------------

type request struct {
	ID      int
	Desc    string
	Kind    string // "sub", "ge", "gep"
	U       int
	A, B    int64
	SizeAt  int // integrated tree size when the request was issued
	Clock   uint64
	Status  int
	Body    []byte
	Panic   string
	Faults  []string // storage faults injected into calls of this request (the request must fail)
	MayFail []string // cache read errors / poisoned cache contents met by this request (the request may fail)
	Final   string   // "", "final", "final-nocache"
	Note    []string // the calls and answers behind Faults / MayFail
	genuine bool     // a cache read of this request returned the true chain for its key
	cancel  context.CancelFunc
}

// faultClass groups the fault menu into the classes named in violation signatures.
func faultClass(how string) string {
	switch how {
	case "error", "norows", "lost":
		return "store-error"
	case "nil", "empty", "truncated", "trailing", "wrongtag":
		return "unparseable-row"
	}
	return how // bitflip-certificate-bytes, bitflip-der-header, other-row
}

type ctxKey struct{}

func reqOf(ctx context.Context) *request {
	r, _ := ctx.Value(ctxKey{}).(*request)
	return r
}

type callInfo struct {
	req  *request
	kind string // "store.Add", "store.Find", "cache.Get", "cache.Set"
	key  []byte
	val  []byte
}

type result struct {
	val []byte
	err error
}

var (
	errShutdown = errors.New("harness shut down")
	errInjected = errors.New("injected storage failure")
	errNoRows   = sql.ErrNoRows // the sentinel both shipped storage drivers return for an unknown key
	errCache    = errors.New("injected cache failure")
)

// ---- the world: gated store and cache, backend, front end --------------------------

type world struct {
	sc    *scenario
	x     *gate.Exec
	env   *gate.Env
	free  atomic.Bool // calls are answered with the default at once (prelude, final reads, direct runs)
	nocch atomic.Bool // final pass: every cache read misses

	mu         sync.Mutex
	store      map[string][]byte
	real       cache.IssuanceChainCache
	adv        map[string][]byte
	lost       map[string]bool // rows the store has really lost (fault "lost") and nobody has written again
	obliged    map[string]bool // lost rows that an accepted submission since had to write again: it met no true cached copy
	faultsLeft int
	faultsUsed int
	viol       func(sig, format string, args ...any)

	be    *reflog.Log
	clock *fe.Clock
	front *fe.FE
	reqs  []*request
	first map[string][]byte // leaf identity hash -> leaf value the backend stored first
	ovr   *override         // sweep: every store read returns this row

	// In free mode inside a bubble the detached cache writes of a request are collected and
	// applied after the request, in a canonical order, so that nothing depends on how the Go
	// scheduler interleaves them with the request's own cache reads.
	bubble   bool
	deferred []callInfo
	ncalls   atomic.Int64 // store and cache calls made by the front end
	cur      *request     // single-client scenarios: the request in progress
	beReads  int          // backend read calls seen while the scenario proper runs
}

type override struct {
	how string
	val []byte
}

type gStore struct{ w *world }
type gCache struct{ w *world }

func clone(b []byte) []byte {
	if b == nil {
		return nil
	}
	return append([]byte{}, b...)
}

func (s gStore) Add(ctx context.Context, key, chain []byte) error {
	return s.w.ask(callInfo{reqOf(ctx), "store.Add", clone(key), clone(chain)}).err
}
func (s gStore) FindByKey(ctx context.Context, key []byte) ([]byte, error) {
	r := s.w.ask(callInfo{reqOf(ctx), "store.Find", clone(key), nil})
	return r.val, r.err
}
func (c gCache) Get(ctx context.Context, key []byte) ([]byte, error) {
	r := c.w.ask(callInfo{reqOf(ctx), "cache.Get", clone(key), nil})
	return r.val, r.err
}
func (c gCache) Set(ctx context.Context, key, chain []byte) error {
	return c.w.ask(callInfo{reqOf(ctx), "cache.Set", clone(key), clone(chain)}).err
}

func (w *world) ask(ci callInfo) result {
	w.ncalls.Add(1)
	if w.free.Load() {
		if w.bubble && ci.kind == "cache.Set" {
			w.mu.Lock()
			w.deferred = append(w.deferred, ci)
			w.mu.Unlock()
			return result{}
		}
		return w.apply(ci, w.menu(ci)[0])
	}
	id := -1
	if ci.req != nil {
		id = ci.req.ID
	}
	k := ci.key
	if len(k) > 4 {
		k = k[:4]
	}
	v := w.env.Ask(fmt.Sprintf("r%d:%s(%x)", id, ci.kind, k), ci.kind, ci)
	if _, ok := v.(gate.Aborted); ok {
		return result{err: errShutdown}
	}
	return v.(result)
}

// settle lets the detached cache writes of the request just served arrive and applies them.
func (w *world) settle() {
	if !w.bubble {
		return
	}
	synctest.Wait()
	w.mu.Lock()
	d := w.deferred
	w.deferred = nil
	w.mu.Unlock()
	sort.SliceStable(d, func(i, j int) bool {
		if c := bytes.Compare(d[i].key, d[j].key); c != 0 {
			return c < 0
		}
		return bytes.Compare(d[i].val, d[j].val) < 0
	})
	for _, ci := range d {
		w.apply(ci, "ok")
	}
}

func (w *world) adversarial() bool { return strings.HasPrefix(w.sc.Cache, "adv") }

// menu lists the answers the environment may give to a call, default first.
func (w *world) menu(ci callInfo) []string {
	w.mu.Lock()
	defer w.mu.Unlock()
	faults := !w.free.Load() && w.sc.Faults != "" && w.faultsLeft > 0
	switch ci.kind {
	case "store.Add":
		if faults {
			return []string{"ok", "error"}
		}
		return []string{"ok"}
	case "store.Find":
		m := []string{"ok"}
		if faults {
			m = append(m, "error", "norows")
			if v, ok := w.store[string(ci.key)]; ok {
				m = append(m, "nil", "empty", "truncated", "trailing", "wrongtag")
				if w.sc.Class == "fault-then-more" {
					m = append(m, "lost")
				}
				if w.sc.Faults == "flip" {
					if len(v) > 2 {
						m = append(m, "bitflip-certificate-bytes")
					} else {
						m = append(m, "bitflip-der-header")
					}
				}
			}
		}
		return m
	case "cache.Get":
		var m []string
		if w.adversarial() {
			_, set := w.adv[string(ci.key)]
			switch {
			case w.nocch.Load() || !set:
				m = []string{"miss"}
			case w.sc.Cache == "advM" && !w.free.Load():
				m = []string{"miss", "hit"}
			case w.free.Load():
				m = []string{"hit"}
			default:
				m = []string{"hit", "miss"}
			}
		} else {
			m = []string{"ok"}
		}
		if faults {
			m = append(m, "error")
		}
		return m
	case "cache.Set":
		m := []string{"ok"}
		if w.adversarial() && !w.free.Load() {
			m = append(m, "drop")
		}
		if faults {
			m = append(m, "error")
		}
		return m
	}
	panic("kind " + ci.kind)
}

// corrupt derives a damaged row from the stored one.
func corrupt(v []byte, how string) []byte {
	switch how {
	case "nil":
		return nil
	case "empty":
		return []byte{}
	case "truncated":
		return clone(v[:len(v)-1])
	case "trailing":
		return append(clone(v), 0x00)
	case "wrongtag":
		c := clone(v)
		c[0] = 0x31 // SET instead of SEQUENCE
		return c
	case "bitflip-certificate-bytes", "bitflip-der-header":
		c := clone(v)
		c[len(c)-1] ^= 0x01 // last byte of the last certificate (of the header when the chain is empty)
		return c
	}
	panic(how)
}

// apply performs the chosen answer: all state of the environment changes here,
// in the director's goroutine (or in the caller's in free mode).
func (w *world) apply(ci callInfo, how string) result {
	w.mu.Lock()
	defer w.mu.Unlock()
	fault := func(req *request, must bool) {
		if !w.free.Load() {
			w.faultsLeft--
			w.faultsUsed++
		}
		if req == nil {
			return
		}
		if must {
			req.Faults = append(req.Faults, faultClass(how))
			req.Note = append(req.Note, ci.kind+"="+how)
		} else {
			req.MayFail = append(req.MayFail, "cache-error")
			req.Note = append(req.Note, ci.kind+"="+how)
		}
	}
	switch ci.kind {
	case "store.Add":
		if how == "error" {
			fault(ci.req, true)
			return result{err: errInjected}
		}
		// the statement calls the store hash-addressed: key = SHA-256 of the row, row = DER chain
		h := sha256.Sum256(ci.val)
		if !bytes.Equal(h[:], ci.key) {
			w.viol("store-key-is-not-hash-of-row", "Add(key %x) with a row whose SHA-256 is %x", ci.key, h)
		}
		if want, ok := chainByHash[string(ci.key)]; !ok || !bytes.Equal(want, ci.val) {
			w.viol("store-row-is-not-the-issuance-chain", "Add stores %x, which is not the DER SEQUENCE OF {OCTET STRING} of any issuance chain submitted", head(ci.val))
		}
		if old, ok := w.store[string(ci.key)]; ok && !bytes.Equal(old, ci.val) {
			w.viol("store-row-overwritten", "Add(key %x) replaces a different row", ci.key)
		} else if !ok {
			w.store[string(ci.key)] = ci.val
			delete(w.lost, string(ci.key))
		}
		return result{}
	case "store.Find":
		v, ok := w.store[string(ci.key)]
		if w.ovr != nil {
			how = w.ovr.how
			fault(ci.req, true)
			return result{val: clone(w.ovr.val)}
		}
		switch how {
		case "ok":
			if !ok {
				if ci.req != nil {
					ci.req.Desc += " [unknown hash asked of the store]"
					// a row the store lost stays unreadable until a submission writes it again; a submission
					// accepted since without any true cached copy in hand had to do that
					if w.lost[string(ci.key)] && !w.obliged[string(ci.key)] {
						ci.req.MayFail = append(ci.req.MayFail, "row-lost")
						ci.req.Note = append(ci.req.Note, "store.Find=the row was lost earlier")
					}
				}
				return result{err: errNoRows}
			}
			return result{val: clone(v)}
		case "error":
			fault(ci.req, true)
			return result{err: errInjected}
		case "norows":
			fault(ci.req, true)
			return result{err: errNoRows}
		case "lost":
			// the row is really gone (rolled back, restored backup): this and later reads find nothing
			fault(ci.req, true)
			delete(w.store, string(ci.key))
			w.lost[string(ci.key)] = true
			return result{err: errNoRows}
		default:
			fault(ci.req, true)
			return result{val: corrupt(v, how)}
		}
	case "cache.Get":
		var v []byte
		switch how {
		case "error":
			fault(ci.req, false)
			return result{err: errCache}
		case "ok":
			if !w.nocch.Load() {
				v, _ = w.real.Get(context.Background(), ci.key)
			}
		case "hit":
			v = clone(w.adv[string(ci.key)])
		case "miss":
		}
		if v != nil && ci.req != nil {
			if want, ok := chainByHash[string(ci.key)]; ok && bytes.Equal(want, v) {
				ci.req.genuine = true
			}
			if want, ok := chainByHash[string(ci.key)]; !ok || !bytes.Equal(want, v) {
				ci.req.MayFail = append(ci.req.MayFail, "poisoned-cache")
				ci.req.Note = append(ci.req.Note, "cache.Get returns a damaged row written earlier")
			}
		}
		return result{val: v}
	case "cache.Set":
		switch how {
		case "error":
			// a failing cache write alone never excuses a failed request
			if !w.free.Load() {
				w.faultsLeft--
				w.faultsUsed++
			}
			return result{err: errCache}
		case "drop":
			return result{}
		}
		if w.adversarial() {
			w.adv[string(ci.key)] = ci.val
		} else {
			w.real.Set(context.Background(), ci.key, ci.val)
		}
		return result{}
	}
	panic("kind")
}

func head(b []byte) []byte {
	if len(b) > 24 {
		return b[:24]
	}
	return b
}

var chainByHash = map[string][]byte{} // SHA-256 -> reference row, for every issuance chain of the fixtures

func init() {
	for _, s := range subs {
		if s.Path != nil {
			chainByHash[string(s.chainHash())] = s.storedChain()
		}
	}
}

func newCache(kind string) cache.IssuanceChainCache {
	switch kind {
	case "noop":
		return &noop.IssuanceChainCache{}
	case "lru1":
		return lru.NewIssuanceChainCache(lru.CacheOption{Size: 1})
	case "lru2":
		return lru.NewIssuanceChainCache(lru.CacheOption{Size: 2})
	case "lruN":
		return lru.NewIssuanceChainCache(lru.CacheOption{Size: 1000})
	case "factory-lru1", "factory-lru2", "factory-lruN":
		// through the constructor the server binary uses (two logs of one process configured alike ask it twice)
		n := map[string]int{"factory-lru1": 1, "factory-lru2": 2, "factory-lruN": 1000}[kind]
		c, err := cache.NewIssuanceChainCache(context.Background(), cache.LRU, cache.Option{Size: n})
		if err != nil {
			panic(err)
		}
		return c
	}
	return nil
}

func newWorld(sc *scenario, indirect, bubble bool, viol func(sig, format string, args ...any)) *world {
	w := &world{sc: sc, env: gate.NewEnv(), store: map[string][]byte{}, adv: map[string][]byte{}, viol: viol,
		be: reflog.New(7), clock: &fe.Clock{T: baseTime}, first: map[string][]byte{}, lost: map[string]bool{}, obliged: map[string]bool{}, faultsLeft: sc.MaxFaults, bubble: bubble}
	w.real = newCache(sc.Cache)
	w.be.SetHook(func(method string, req proto.Message, next func() (proto.Message, error)) (proto.Message, error) {
		rsp, err := next()
		if (method == "GetLeavesByRange" || method == "GetEntryAndProof") && sc.CtxEnd > 0 && !w.free.Load() {
			w.mu.Lock()
			w.beReads++
			if r := w.cur; w.beReads == sc.CtxEnd && r != nil && r.cancel != nil {
				r.cancel()
				r.MayFail = append(r.MayFail, "request-context-ended")
				r.Note = append(r.Note, "the request's context ended while "+method+" was in flight; the backend answered successfully")
				w.faultsUsed++
			}
			w.mu.Unlock()
		}
		if method == "QueueLeaf" && err == nil {
			if q := rsp.(*trillian.QueueLeafResponse).QueuedLeaf; q != nil && q.Leaf != nil {
				w.mu.Lock()
				if _, ok := w.first[string(q.Leaf.LeafIdentityHash)]; !ok {
					w.first[string(q.Leaf.LeafIdentityHash)] = clone(q.Leaf.LeafValue)
				}
				w.mu.Unlock()
			}
		}
		return rsp, err
	})
	w.free.Store(true)
	dOff, hOff := 0, 60 // millisecond offsets of the two preludes: the default-mode entries first ...
	if sc.HashFirst {
		dOff, hOff = 50, 0 // ... or after the entries stored via external storage
	}
	preDirect := func() {
		if len(sc.PreDirect) == 0 {
			return
		}
		// the log ran in the default mode: these entries sit in the backend with their full chain
		d, err := fe.New(fe.Config{LogID: 7, Roots: roots, Signer: logKey.Priv, Client: w.be, Clock: w.clock})
		if err != nil {
			panic(err)
		}
		for i, u := range sc.PreDirect {
			w.clock.Set(baseTime.Add(time.Duration(dOff+i+1) * time.Millisecond))
			if r, _ := d.AddChain(subs[u].Pre, subs[u].Posted); r.Status != 200 {
				panic(fmt.Sprintf("prelude %s: %d %s", subs[u].Name, r.Status, r.Body))
			}
		}
		w.be.Sequence(-1, uint64(baseTime.Add(time.Duration(dOff+45+5*(1-dOff/50))*time.Millisecond).UnixNano()))
	}
	if !sc.HashFirst {
		preDirect()
	}
	cfg := fe.Config{LogID: 7, Roots: roots, Signer: logKey.Priv, Client: w.be, Clock: w.clock}
	if indirect {
		cfg.Store, cfg.Cache = gStore{w}, gCache{w}
	}
	f, err := fe.New(cfg)
	if err != nil {
		panic(err)
	}
	w.front = f
	if len(sc.PreHash) > 0 {
		seq := 0
		for i, u := range sc.PreHash {
			tk := uint64(baseTime.UnixMilli()) + uint64(hOff) + uint64(i)
			if hOff == 0 {
				tk++
			}
			w.clock.Set(time.UnixMilli(int64(tk)))
			w.runOp(0, &seq, op{K: "sub", U: u}, tk, "prelude")
		}
		w.be.Sequence(-1, uint64(baseTime.Add(time.Duration(hOff/60*45+45)*time.Millisecond).UnixNano()))
	}
	if sc.HashFirst {
		preDirect()
	}
	return w
}

// issue performs one HTTP request against the front end (in the calling goroutine).
func (w *world) issue(r *request) {
	ctx, cancel := context.WithCancel(context.WithValue(context.Background(), ctxKey{}, r))
	defer cancel()
	w.mu.Lock()
	w.reqs = append(w.reqs, r)
	r.cancel = cancel
	w.cur = r
	w.mu.Unlock()
	r.SizeAt = w.be.Size()
	pan, msg, stack := enum.Catch(func() {
		var rsp fe.Resp
		switch r.Kind {
		case "sub":
			body, _ := json.Marshal(map[string]any{"chain": subs[r.U].Posted})
			p := "/ct/v1/add-chain"
			if subs[r.U].Pre {
				p = "/ct/v1/add-pre-chain"
			}
			rsp = w.front.Do(ctx, http.MethodPost, p, nil, body)
		case "ge":
			rsp = w.front.Do(ctx, http.MethodGet, "/ct/v1/get-entries", url.Values{"start": {strconv.FormatInt(r.A, 10)}, "end": {strconv.FormatInt(r.B, 10)}}, nil)
		case "gep":
			rsp = w.front.Do(ctx, http.MethodGet, "/ct/v1/get-entry-and-proof", url.Values{"leaf_index": {strconv.FormatInt(r.A, 10)}, "tree_size": {strconv.FormatInt(r.B, 10)}}, nil)
		}
		r.Status, r.Body = rsp.Status, rsp.Body
	})
	if r.Kind == "sub" && r.Status == 200 && !pan {
		w.mu.Lock()
		if h := string(subs[r.U].chainHash()); w.lost[h] && !r.genuine {
			w.obliged[h] = true
		}
		w.mu.Unlock()
	}
	if pan {
		r.Panic = msg + "\n" + stack
	}
	if r.Final != "" {
		w.settle() // prelude and final reads run in the director's goroutine
	}
}

// runOp performs one client operation; a "read" fans out into one request per
// entry and endpoint.
func (w *world) runOp(cl int, seq *int, o op, tick uint64, final string) {
	next := func(kind, desc string) *request {
		*seq++
		return &request{ID: cl*1000 + *seq, Kind: kind, Desc: desc, Clock: tick, Final: final}
	}
	switch o.K {
	case "sub":
		r := next("sub", o.String())
		r.U = o.U
		w.issue(r)
	case "seq":
		w.be.Sequence(-1, tick*1e6)
	case "ge", "gep":
		r := next(o.K, o.String())
		r.A, r.B = o.A, o.B
		w.issue(r)
	case "rd":
		// light read: the whole log in one get-entries, the last entry with its proof
		n := int64(w.be.Size())
		r := next("ge", fmt.Sprintf("ge(0,%d)", n+1))
		r.A, r.B = 0, n+1
		w.issue(r)
		if n > 0 {
			r = next("gep", fmt.Sprintf("gep(%d,%d)", n-1, n))
			r.A, r.B = n-1, n
			w.issue(r)
		}
	case "read":
		n := int64(w.be.Size())
		r := next("ge", fmt.Sprintf("ge(0,%d)", n+1))
		r.A, r.B = 0, n+1 // beyond the end: the log returns what it has
		w.issue(r)
		for i := int64(0); i < n; i++ {
			r = next("gep", fmt.Sprintf("gep(%d,%d)", i, n))
			r.A, r.B = i, n
			w.issue(r)
			if n > 1 {
				r = next("ge", fmt.Sprintf("ge(%d,%d)", i, i))
				r.A, r.B = i, i
				w.issue(r)
			}
		}
	}
}

// ---- the director -----------------------------------------------------------------

type clientState struct {
	ops     []op
	next    int
	running bool
	seq     int
}

func runScenario(sc scenario, direct map[string][]*request) func(t *testing.T, x *gate.Exec) {
	return func(t *testing.T, x *gate.Exec) {
		w := newWorld(&sc, true, true, func(sig, f string, a ...any) { x.Violation(sig, "%v: "+f, append([]any{sc}, a...)...) })
		w.x = x
		w.free.Store(false)
		cls := make([]*clientState, len(sc.Clients))
		for i, ops := range sc.Clients {
			cls[i] = &clientState{ops: ops}
		}
		var mu sync.Mutex
		tick := uint64(baseTime.UnixMilli()) + 100
		start := func(ci int) {
			c := cls[ci]
			o := c.ops[c.next]
			c.next++
			c.running = true
			tick++
			tk := tick
			w.clock.Set(time.UnixMilli(int64(tk)))
			go func() {
				w.runOp(ci+1, &c.seq, o, tk, "")
				mu.Lock()
				c.running = false
				mu.Unlock()
			}()
		}
		type act struct {
			alt gate.Alt
			do  func()
		}
		cur := -1 // concurrent schedules: the client that moved last
		for steps := 0; ; steps++ {
			synctest.Wait()
			pend := w.env.Pending()
			var acts []act
			add := func(l string, c int, f func()) { acts = append(acts, act{gate.Alt{Label: l, Cost: c}, f}) }
			var cp, sp []*gate.Pending
			for _, p := range pend {
				if p.Kind == "cache.Set" {
					sp = append(sp, p)
				} else {
					cp = append(cp, p)
				}
			}
			var idle []int
			busy := false
			mu.Lock()
			for i, c := range cls {
				if c.running {
					busy = true
				} else if c.next < len(c.ops) {
					idle = append(idle, i)
				}
			}
			mu.Unlock()
			if len(pend) == 0 && len(idle) == 0 {
				if busy {
					x.Violation("stuck", "%v: a request is neither finished nor waiting for the store or the cache", sc)
				}
				break
			}
			if steps > 400 {
				x.Violation("horizon", "%v: no end after 400 decision points", sc)
				break
			}
			if sc.Concurrent {
				// preemption-bounded schedule: continuing the client that moved last is free, and so
				// is any client when that one has finished its operation; taking the turn away from a
				// client that could go on costs 1, as does every non-default answer. Detached cache
				// writes are threads of their own: they land for free only when no client can move.
				clientOf := func(p *gate.Pending) int { return p.Info.(callInfo).req.ID/1000 - 1 }
				curCanMove := false
				for _, p := range cp {
					if clientOf(p) == cur {
						curCanMove = true
					}
				}
				for _, p := range cp {
					base := 1
					if clientOf(p) == cur || !curCanMove {
						base = 0
					}
					ci, who := p.Info.(callInfo), clientOf(p)
					for j, how := range w.menu(ci) {
						c := base
						if j > 0 {
							c++
						}
						add(p.Key+" <- "+how, c, func() { cur = who; w.env.Answer(p, w.apply(ci, how)) })
					}
				}
				for _, k := range idle {
					c := 1
					if !curCanMove {
						c = 0
					}
					add(fmt.Sprintf("start c%d %s", k+1, cls[k].ops[cls[k].next]), c, func() { cur = k; start(k) })
				}
				for i, p := range sp {
					base := 1
					if len(cp) == 0 && len(idle) == 0 && i == 0 {
						base = 0
					}
					ci := p.Info.(callInfo)
					for j, how := range w.menu(ci) {
						c := base
						if j > 0 {
							c++
						}
						add(p.Key+" <- "+how, c, func() { cur = -1; w.env.Answer(p, w.apply(ci, how)) })
					}
				}
			} else {
				// sequential schedule: finish the request in flight, then let the detached cache writes
				// land, then start the next operation; everything else is a deviation
				zero := "start"
				switch {
				case len(cp) > 0:
					zero = "cp"
				case len(sp) > 0:
					zero = "sp"
				}
				answers := func(ps []*gate.Pending, class string) {
					for i, p := range ps {
						base := 1
						if zero == class && i == 0 {
							base = 0
						}
						ci := p.Info.(callInfo)
						for j, how := range w.menu(ci) {
							c := base
							if j > 0 {
								c++
							}
							add(p.Key+" <- "+how, c, func() { w.env.Answer(p, w.apply(ci, how)) })
						}
					}
				}
				answers(cp, "cp")
				answers(sp, "sp")
				for k, ci := range idle {
					c := 1
					if zero == "start" && k == 0 {
						c = 0
					}
					add(fmt.Sprintf("start c%d %s", ci+1, cls[ci].ops[cls[ci].next]), c, func() { start(ci) })
				}
			}
			sort.SliceStable(acts, func(i, j int) bool { return acts[i].alt.Cost < acts[j].alt.Cost })
			alts := make([]gate.Alt, len(acts))
			for i := range acts {
				alts[i] = acts[i].alt
			}
			acts[x.Choose(alts)].do()
		}
		// every entry accepted must now be readable: with the cache as it is, and with a cache that has lost everything
		nreq := len(w.reqs)
		w.free.Store(true)
		seq := 0
		tick++
		w.runOp(9, &seq, op{K: "seq"}, tick, "final")
		w.runOp(9, &seq, op{K: "read"}, tick, "final")
		w.nocch.Store(true)
		w.runOp(9, &seq, op{K: "read"}, tick, "final-nocache")
		w.env.Shutdown()
		synctest.Wait()
		x.Outcome = w.judge(direct, nreq)
		if w.ncalls.Load() == 0 {
			x.Outcome = "trivial (no store or cache call) " + x.Outcome
		}
	}
}

// ---- the oracle ---------------------------------------------------------------------

type jsonSCT struct {
	Version    uint8  `json:"sct_version"`
	ID         []byte `json:"id"`
	Timestamp  uint64 `json:"timestamp"`
	Extensions string `json:"extensions"`
	Signature  []byte `json:"signature"`
}
type jsonEntry struct {
	LeafInput []byte   `json:"leaf_input"`
	ExtraData []byte   `json:"extra_data"`
	AuditPath [][]byte `json:"audit_path"`
}
type jsonEntries struct {
	Entries []jsonEntry `json:"entries"`
}

var logID = logKey.KeyHash()

// checkSCT verifies an add-chain answer against the submission's ground truth and
// returns the timestamp.
func checkSCT(body []byte, s *sub) (uint64, string) {
	var j jsonSCT
	if err := json.Unmarshal(body, &j); err != nil {
		return 0, "not JSON: " + err.Error()
	}
	if j.Version != 0 || !bytes.Equal(j.ID, logID[:]) || j.Extensions != "" {
		return 0, fmt.Sprintf("version %d id %x extensions %q", j.Version, j.ID, j.Extensions)
	}
	ds, err := ct6962.ParseDigitallySigned(j.Signature)
	if err != nil {
		return 0, "signature field: " + err.Error()
	}
	in, err := ct6962.AppendSCTSignatureInput(nil, ct6962.V1, j.Timestamp, s.entry(), nil)
	if err != nil {
		return 0, err.Error()
	}
	if ds.Hash != 4 || ds.Sig != 3 || !logKey.Verify(in, ds.Signature) {
		return 0, "signature does not verify over the reference certificate_timestamp input"
	}
	return j.Timestamp, ""
}

// judgeReq applies the per-request oracle.
func (w *world) judgeReq(r *request) {
	v := func(sig string, r *request, f string, a ...any) {
		w.viol(sig, "request r%d %s (clock %d, tree size %d)%s: %s", r.ID, r.Desc, r.Clock, r.SizeAt, faultNote(r), fmt.Sprintf(f, a...))
	}
	size := w.be.Size()
	for range 1 {
		if r.Panic != "" {
			v("panic "+endpoint(r), r, "%s", r.Panic)
			continue
		}
		must, may := len(r.Faults) > 0, len(r.MayFail) > 0
		fk := faultKinds(r)
		switch {
		case r.Status >= 500:
			if !must && !may {
				v("spurious-error "+endpoint(r), r, "status %d although neither the store nor the cache failed in this request: %s", r.Status, oneline(r.Body))
			}
			continue
		case r.Status != 200:
			// 4xx: only where the default mode answers 4xx as well
			if want := w.expect4xx(r); !want {
				v("unexpected-4xx "+endpoint(r), r, "status %d: %s", r.Status, oneline(r.Body))
			}
			if must {
				v("storage-fault-not-reported "+fk, r, "status %d", r.Status)
			}
			continue
		}
		// 200
		if w.expect4xx(r) {
			v("200-where-default-mode-refuses "+endpoint(r), r, "body %s", oneline(r.Body))
			continue
		}
		switch r.Kind {
		case "sub":
			s := subs[r.U]
			ts, bad := checkSCT(r.Body, s)
			if bad != "" {
				v("sct-invalid", r, "%s", bad)
				break
			}
			id := sha256.Sum256(s.leafDER())
			st, ok := w.first[string(id[:])]
			if !ok {
				v("sct-without-queued-leaf", r, "an SCT was issued but the backend holds no leaf for the certificate")
				break
			}
			ml, err := ct6962.ParseMerkleTreeLeaf(st)
			if err != nil || ml.Entry.Timestamp != ts {
				v("sct-timestamp-differs-from-leaf", r, "SCT timestamp %d, stored leaf %v %v", ts, ml.Entry.Timestamp, err)
			}
			if must {
				v("storage-fault-not-reported "+fk, r, "the store refused the chain but an SCT (timestamp %d) was issued", ts)
			}
		case "ge", "gep":
			var got []jsonEntry
			if r.Kind == "ge" {
				var j jsonEntries
				if err := json.Unmarshal(r.Body, &j); err != nil {
					v("unparseable-body", r, "%v", err)
					continue
				}
				got = j.Entries
				want := int(r.B) - int(r.A) + 1
				if avail := r.SizeAt - int(r.A); avail < want {
					want = avail
				}
				if len(got) != want {
					v("entry-count", r, "%d entries, want %d", len(got), want)
				}
			} else {
				var j jsonEntry
				if err := json.Unmarshal(r.Body, &j); err != nil {
					v("unparseable-body", r, "%v", err)
					continue
				}
				got = []jsonEntry{j}
			}
			altered := false
			for i, e := range got {
				idx := int(r.A) + i
				if idx >= size {
					v("entry-beyond-tree", r, "entry %d served, tree has %d", idx, size)
					continue
				}
				lf := w.be.Leaf(idx)
				if !bytes.Equal(e.LeafInput, lf.LeafValue) {
					v("leaf-input-differs", r, "entry %d leaf_input %s, the log's leaf is %s", idx, hx(e.LeafInput), hx(lf.LeafValue))
					continue
				}
				s, why := subOfLeaf(lf.LeafValue)
				if s == nil {
					v("leaf-is-not-a-reference-leaf", r, "entry %d: %s", idx, why)
					continue
				}
				if want := s.refExtra(); !bytes.Equal(e.ExtraData, want) {
					altered = true
					what := describeExtra(e.ExtraData, s)
					if must || may {
						v("altered-chain-served "+fk, r, "entry %d (%s) served with status 200 and extra_data that is %s\n got  %s\n want %s", idx, s.Name, what, hx(e.ExtraData), hx(want))
					} else {
						v("extra-data-differs "+endpoint(r), r, "entry %d (%s) extra_data is %s\n got  %s\n want %s (what the default mode serves)", idx, s.Name, what, hx(e.ExtraData), hx(want))
					}
				}
			}
			if must && !altered {
				v("storage-fault-not-reported "+fk, r, "status 200 with the right bytes although the store failed or returned a damaged row")
			}
		}
	}
}

// judge applies the oracle to everything the execution observed and returns the outcome summary.
func (w *world) judge(direct map[string][]*request, nreq int) string {
	sc := w.sc
	v := func(sig string, r *request, f string, a ...any) {
		w.viol(sig, "request r%d %s (clock %d, tree size %d)%s: %s", r.ID, r.Desc, r.Clock, r.SizeAt, faultNote(r), fmt.Sprintf(f, a...))
	}
	size := w.be.Size()
	var out []string
	for _, r := range w.reqs {
		out = append(out, fmt.Sprintf("%s=%d", r.Desc, r.Status))
		w.judgeReq(r)
	}
	// fault-free single-client runs: the two front ends answer byte for byte alike
	if direct != nil && len(sc.Clients) == 1 && w.faultsUsed == 0 {
		d, ok := direct[sc.histKey()]
		if !ok {
			w.viol("harness", "no default-mode run recorded for %q", sc.histKey())
		} else if len(d) != nreq {
			w.viol("harness", "%d requests, default mode run has %d", nreq, len(d))
		} else {
			for i, r := range w.reqs[:nreq] {
				if r.Panic != "" {
					continue
				}
				if r.Status != d[i].Status {
					v("status-differs-from-default-mode "+endpoint(r), r, "status %d, default mode %d (%s)", r.Status, d[i].Status, oneline(d[i].Body))
				} else if r.Kind != "sub" && r.Status == 200 && !bytes.Equal(r.Body, d[i].Body) {
					v("body-differs-from-default-mode "+endpoint(r), r, "\n got  %s\n want %s", oneline(r.Body), oneline(d[i].Body))
				} else if r.Kind == "sub" && r.Status == 200 {
					a, _ := checkSCT(r.Body, subs[r.U])
					b, bad := checkSCT(d[i].Body, subs[r.U])
					if bad != "" {
						w.viol("default-mode-sct-invalid", "%s: %s", r.Desc, bad)
					} else if a != b {
						v("sct-timestamp-differs-from-default-mode", r, "%d vs %d", a, b)
					}
				}
			}
		}
	}
	h := sha256.Sum256([]byte(strings.Join(out, ";")))
	return fmt.Sprintf("%x size=%d faults=%d", h[:8], size, w.faultsUsed)
}

func endpoint(r *request) string {
	switch r.Kind {
	case "sub":
		return "add-chain"
	case "ge":
		return "get-entries"
	}
	return "get-entry-and-proof"
}

func faultKinds(r *request) string {
	var ks []string
	for _, f := range append(append([]string{}, r.Faults...), r.MayFail...) {
		if !strings.Contains(strings.Join(ks, ","), f) {
			ks = append(ks, f)
		}
	}
	sort.Strings(ks)
	if len(ks) > 2 {
		ks = ks[:2]
	}
	return "[" + strings.Join(ks, "+") + "]"
}

func faultNote(r *request) string {
	s := ""
	if len(r.Note) > 0 {
		s += " environment: " + strings.Join(r.Note, ", ")
	}
	if r.Final != "" {
		s += " " + r.Final
	}
	return s
}

// expect4xx says whether the default mode refuses the request.
func (w *world) expect4xx(r *request) bool {
	switch r.Kind {
	case "sub":
		return subs[r.U].Path == nil
	case "ge":
		return r.A >= int64(r.SizeAt) || r.A > r.B || r.A < 0
	case "gep":
		return r.B > int64(r.SizeAt) || r.A >= r.B || r.A < 0
	}
	return false
}

// subOfLeaf identifies the submission a stored leaf belongs to and checks the
// leaf against the reference encoding.
func subOfLeaf(leaf []byte) (*sub, string) {
	ml, err := ct6962.ParseMerkleTreeLeaf(leaf)
	if err != nil {
		return nil, err.Error()
	}
	k := string(ml.Entry.Cert)
	if ml.Entry.EntryType == ct6962.PrecertEntry {
		k = string(ml.Entry.TBS)
	}
	i, ok := subByEntry[k]
	if !ok {
		return nil, "the leaf's certificate / TBS is not one the reference derives from a submission"
	}
	s := subs[i]
	if !bytes.Equal(s.refLeaf(ml.Entry.Timestamp), leaf) {
		return nil, "leaf differs from the reference MerkleTreeLeaf of " + s.Name
	}
	return s, ""
}

// describeExtra names how served extra_data relates to the expected chain.
func describeExtra(got []byte, s *sub) string {
	if len(got) == 0 {
		return "empty"
	}
	if bytes.Equal(got, s.refExtraHash()) {
		return "the hash layout (chain not re-inflated)"
	}
	var chain [][]byte
	if pe, err := ct6962.ParsePrecertChainEntry(got); err == nil {
		chain = pe.Chain
		if !s.Pre {
			return fmt.Sprintf("a PrecertChainEntry (%d certificates) for a certificate entry", len(chain))
		}
	} else if cc, err := ct6962.ParseCertificateChain(got); err == nil {
		chain = cc
		if s.Pre {
			return fmt.Sprintf("a CertificateChain (%d certificates) for a precertificate entry", len(chain))
		}
	} else {
		return "neither layout of RFC 6962 s4.6"
	}
	want := s.issuance()
	switch {
	case len(chain) == 0:
		return "an empty chain"
	case len(chain) < len(want):
		return fmt.Sprintf("a shorter chain (%d of %d certificates)", len(chain), len(want))
	case len(chain) > len(want):
		return fmt.Sprintf("a longer chain (%d, want %d certificates)", len(chain), len(want))
	}
	return "a chain of the right length with different certificate bytes"
}

func hx(b []byte) string {
	if len(b) > 40 {
		h := sha256.Sum256(b)
		return fmt.Sprintf("%x…(%d bytes, sha256 %x)", b[:24], len(b), h[:8])
	}
	return fmt.Sprintf("%x", b)
}

func oneline(b []byte) string {
	s := strings.ReplaceAll(string(b), "\n", " | ")
	if len(s) > 200 {
		s = s[:200] + "…"
	}
	return s
}

var _ = base64.StdEncoding
