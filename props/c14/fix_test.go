//go:build verif && go1.25

package c14

import (
	"crypto"
	"crypto/sha256"
	"fmt"
	"time"

	"verif/ref/ct6962"
	"verif/ref/der"
	"verif/ref/pki"
)

// ---- certificates and submissions (ground truth from the templates) --------------

// sub is one submission: what is posted, to which endpoint, and – from the way the
// certificates were built, never from parsing – the path the log must record.
type sub struct {
	Name   string
	Pre    bool
	Posted [][]byte    // chain as posted
	Path   []*pki.Cert // validated path: leaf .. root (nil: the log must refuse with 400)
	// precertificate ground truth
	TBS       []byte   // tbs_certificate the log must sign (poison removed, issuer rewritten)
	IssuerKey *pki.Key // key whose hash is issuer_key_hash
}

func (s *sub) leafDER() []byte { return s.Posted[0] }

// issuance returns the DER of the certificates after the leaf.
func (s *sub) issuance() [][]byte {
	out := [][]byte{}
	for _, c := range s.Path[1:] {
		out = append(out, c.DER)
	}
	return out
}

// entry is the signed_entry of RFC 6962 s3.2 for the submission.
func (s *sub) entry() ct6962.SignedEntry {
	if s.Pre {
		return ct6962.SignedEntry{EntryType: ct6962.PrecertEntry, IssuerKeyHash: s.IssuerKey.KeyHash(), TBS: s.TBS}
	}
	return ct6962.SignedEntry{EntryType: ct6962.X509Entry, Cert: s.leafDER()}
}

// refLeaf is the MerkleTreeLeaf (leaf_input) for the submission at a timestamp.
func (s *sub) refLeaf(ts uint64) []byte {
	b, err := ct6962.AppendMerkleTreeLeaf(nil, ct6962.MerkleTreeLeaf{Version: ct6962.V1, LeafType: ct6962.TimestampedEntryLeaf,
		Entry: ct6962.TimestampedEntry{Timestamp: ts, SignedEntry: s.entry()}})
	if err != nil {
		panic(err)
	}
	return b
}

// refExtra is the extra_data of RFC 6962 s4.6 for the submission: what the
// default mode stores and every mode must serve.
func (s *sub) refExtra() []byte {
	var b []byte
	var err error
	if s.Pre {
		b, err = ct6962.AppendPrecertChainEntry(nil, ct6962.PrecertChainEntry{PreCertificate: s.leafDER(), Chain: s.issuance()})
	} else {
		b, err = ct6962.AppendCertificateChain(nil, s.issuance())
	}
	if err != nil {
		panic(err)
	}
	return b
}

// refStoredChain is the row the external store must hold for the submission's
// issuance chain: SEQUENCE OF SEQUENCE { OCTET STRING certificate } in DER.
func refStoredChain(certs [][]byte) []byte {
	var items [][]byte
	for _, c := range certs {
		items = append(items, der.Seq(der.OctetString(c)))
	}
	return der.Seq(items...)
}

func (s *sub) storedChain() []byte { return refStoredChain(s.issuance()) }
func (s *sub) chainHash() []byte   { h := sha256.Sum256(s.storedChain()); return h[:] }

// refExtraHash is the hash layout documented in types.go for the submission.
func (s *sub) refExtraHash() []byte {
	var b []byte
	var err error
	if s.Pre {
		b, err = ct6962.AppendPrecertChainEntryHash(nil, ct6962.PrecertChainEntryHash{PreCertificate: s.leafDER(), IssuanceChainHash: s.chainHash()})
	} else {
		b, err = ct6962.AppendCertificateChainHash(nil, s.chainHash())
	}
	if err != nil {
		panic(err)
	}
	return b
}

var (
	rootA, rootB, rootP *pki.Cert
	logKey              = pki.LoadKey("p256-9")
	subs                []*sub
	subByName           = map[string]int{}
	subByEntry          = map[string]int{} // string(cert or tbs) -> index
	roots               [][]byte
	baseTime            = time.Date(2024, 3, 1, 0, 0, 0, 0, time.UTC)
)

func without(exts []pki.Ext, label string) []pki.Ext {
	var out []pki.Ext
	for _, e := range exts {
		if e.Label != label {
			out = append(out, e)
		}
	}
	return out
}

// det re-signs a certificate built by ref/pki with a deterministic (RFC 6979)
// ECDSA signature, so that certificate lengths – and with them the number of
// truncations and bit flips enumerated – are the same in every run.
func det(c *pki.Cert) *pki.Cert {
	alg := c.Signer.SigAlgDER()
	tbs := c.T.TBS(alg)
	h := sha256.Sum256(tbs)
	sig, err := c.Signer.Priv.Sign(nil, h[:], crypto.SHA256)
	if err != nil {
		panic(err)
	}
	d := *c
	d.TBS, d.DER = tbs, pki.Assemble(tbs, alg, sig)
	return &d
}

func init() {
	rootA = det(pki.NewRoot("C14 Root A", pki.LoadKey("p256-0")))
	rootB = det(pki.NewRoot("C14 Root B", pki.LoadKey("p256-1")))
	i1 := det(pki.NewCA("C14 I1", pki.LoadKey("p256-2"), rootA, pki.CAOpts{}))
	i2 := det(pki.NewCA("C14 I2", pki.LoadKey("p256-3"), i1, pki.CAOpts{}))
	i3 := det(pki.NewCA("C14 I3", pki.LoadKey("p256-4"), i2, pki.CAOpts{}))
	i4 := det(pki.NewCA("C14 I4", pki.LoadKey("p256-5"), rootB, pki.CAOpts{}))
	pi := det(pki.NewCA("C14 PreIssuer", pki.LoadKey("p256-6"), i1, pki.CAOpts{EKUs: [][]int{pki.OIDEKUCT}}))
	lk := pki.LoadKey("p256-7")
	// a self-signed precertificate (poison) that is itself a trusted root
	skh := pki.LoadKey("p256-8").KeyHash()
	rootP = det(pki.Build(pki.Tmpl{Serial: []byte{0x77}, Issuer: pki.CN("C14 Root P"), Subject: pki.CN("C14 Root P"), NotBefore: pki.T0, NotAfter: pki.T1,
		Key: pki.LoadKey("p256-8"), Exts: []pki.Ext{pki.ExtBasicConstraints(true, true), pki.ExtKeyUsage(0x06, 1), pki.ExtSKI(skh[:20]), pki.ExtPoison()}}, pki.LoadKey("p256-8")))
	roots = [][]byte{rootA.DER, rootB.DER, rootP.DER}

	leaf := func(cn string, parent *pki.Cert) *pki.Cert { return det(pki.NewLeaf(cn, lk, parent, pki.LeafOpts{})) }
	pre := func(cn string, parent *pki.Cert) *pki.Cert {
		aki := parent.T.Key.KeyHash()
		return det(pki.NewLeaf(cn, lk, parent, pki.LeafOpts{Exts: []pki.Ext{pki.ExtSAN(cn + ".example"), pki.ExtAKI(aki[:20]), pki.ExtPoison()}}))
	}
	path := func(c *pki.Cert) []*pki.Cert {
		var p []*pki.Cert
		for ; c != nil; c = c.Parent {
			p = append(p, c)
		}
		return p
	}
	post := func(p []*pki.Cert, n int) [][]byte { return pki.DERs(p[:n]...) }
	add := func(s *sub) {
		if s.Pre && s.Path != nil {
			c := s.Path[0]
			t := c.T
			t.Exts = without(t.Exts, "poison")
			issuer := s.Path[1]
			if len(issuer.T.Exts) > 0 && issuer.Label == "C14 PreIssuer" {
				// RFC 6962 s3.2: issued by a Precertificate Signing Certificate: the TBS names the
				// final issuer and carries its key identifier
				final := s.Path[2]
				t.Issuer = final.T.Subject
				aki := final.T.Key.KeyHash()
				for i := range t.Exts {
					if t.Exts[i].Label == "aki" {
						t.Exts[i] = pki.ExtAKI(aki[:20])
					}
				}
				issuer = final
			}
			s.TBS = t.TBS(c.Signer.SigAlgDER())
			s.IssuerKey = issuer.T.Key
		}
		subByName[s.Name] = len(subs)
		subs = append(subs, s)
	}
	l1 := leaf("l1", i1)
	p := path(l1)
	add(&sub{Name: "L1", Posted: post(p, 2), Path: p})
	p = path(leaf("l1b", i1))
	add(&sub{Name: "L1b", Posted: post(p, 2), Path: p})
	p = path(pre("p1", i1))
	add(&sub{Name: "P1", Pre: true, Posted: post(p, 2), Path: p})
	p = path(leaf("l4", i4))
	add(&sub{Name: "L4", Posted: post(p, 2), Path: p})
	p = path(leaf("l2", i2))
	add(&sub{Name: "L2", Posted: post(p, 3), Path: p})
	p = path(leaf("l3", i3))
	add(&sub{Name: "L3", Posted: post(p, 5), Path: p}) // root included
	p = path(leaf("l0", rootA))
	add(&sub{Name: "L0", Posted: post(p, 1), Path: p})
	p = path(pre("p0", rootA))
	add(&sub{Name: "P0", Pre: true, Posted: post(p, 1), Path: p})
	add(&sub{Name: "RS", Posted: [][]byte{rootB.DER}, Path: []*pki.Cert{rootB}}) // the leaf is itself a trusted root: empty issuance chain
	add(&sub{Name: "PS", Pre: true, Posted: [][]byte{rootP.DER}, Path: nil})     // a precertificate without issuer: 400
	p = path(pre("pp", pi))
	add(&sub{Name: "PP", Pre: true, Posted: post(p, 3), Path: p}) // via pre-issuer
	p = path(l1)
	add(&sub{Name: "L1r", Posted: post(p, 3), Path: p}) // the same leaf as L1, posted with the root
	p = path(pre("p4", i4))
	add(&sub{Name: "P4", Pre: true, Posted: post(p, 2), Path: p})
	p = path(pre("p2", i2))
	add(&sub{Name: "P2", Pre: true, Posted: post(p, 3), Path: p})
	// root A cross-certified by root B: one issuing CA (I1), two paths above it
	ax := det(pki.NewCA("C14 Root A", pki.LoadKey("p256-0"), rootB, pki.CAOpts{}))
	lx := leaf("l1x", i1)
	add(&sub{Name: "L1x", Posted: pki.DERs(lx, i1, ax), Path: []*pki.Cert{lx, i1, ax, rootB}})
	px := pre("p1x", i1)
	add(&sub{Name: "P1x", Pre: true, Posted: pki.DERs(px, i1, ax), Path: []*pki.Cert{px, i1, ax, rootB}})
	// the issuing CA re-issued: same name, same key, same key identifier, other bytes (here: no authority key identifier).
	// Chains through it have the length and the key identifiers of chains through I1, and are other chains
	i1r := det(pki.NewCA("C14 I1", pki.LoadKey("p256-2"), rootA, pki.CAOpts{NoAKI: true}))
	p = path(leaf("l1ri", i1r))
	add(&sub{Name: "L1ri", Posted: post(p, 2), Path: p})
	p = path(pre("p1ri", i1r))
	add(&sub{Name: "P1ri", Pre: true, Posted: post(p, 2), Path: p})
	// a certificate and a precertificate longer than 64 KiB (an extension of 70000 bytes): sizes are not layouts
	bigExt := make([]byte, 70000)
	for i := range bigExt {
		bigExt[i] = byte(i*11 + 3)
	}
	akiI1 := i1.T.Key.KeyHash()
	lbig := det(pki.NewLeaf("lbig", lk, i1, pki.LeafOpts{Exts: []pki.Ext{pki.ExtSAN("lbig.example"), pki.ExtUnknown(21, false, bigExt)}}))
	pbig := det(pki.NewLeaf("pbig", lk, i1, pki.LeafOpts{Exts: []pki.Ext{pki.ExtSAN("pbig.example"), pki.ExtAKI(akiI1[:20]), pki.ExtPoison(), pki.ExtUnknown(21, false, bigExt)}}))
	p = path(lbig)
	add(&sub{Name: "LBig", Posted: post(p, 2), Path: p})
	p = path(pbig)
	add(&sub{Name: "PBig", Pre: true, Posted: post(p, 2), Path: p})
	for i, s := range subs {
		if s.Path == nil {
			continue
		}
		k := string(s.leafDER())
		if s.Pre {
			k = string(s.TBS)
		}
		if j, ok := subByEntry[k]; ok && subs[j].Name != "L1" {
			panic(fmt.Sprintf("duplicate entry %s %s", s.Name, subs[j].Name))
		} else if !ok {
			subByEntry[k] = i
		}
	}
}

func S(name string) int {
	i, ok := subByName[name]
	if !ok {
		panic("no submission " + name)
	}
	return i
}
