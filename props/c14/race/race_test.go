//go:build verif && go1.25

// Engine D for C14: writers and readers run free against a front end with
// external issuance-chain storage (in-memory store, real LRU caches of size 1, 2
// and 1000, noop) under the race detector. The store and the cache hand out the
// very slices they hold, so a write by the library into a stored or cached row
// would be reported as well.
package race

import (
	"context"
	"fmt"
	"io"
	"strconv"
	"sync"
	"sync/atomic"
	"testing"
	"time"

	"verif/ref/fe"
	"verif/ref/pki"
	"verif/ref/reflog"

	"github.com/google/certificate-transparency-go/trillian/ctfe/cache"
	"github.com/google/certificate-transparency-go/trillian/ctfe/cache/lru"
	"github.com/google/certificate-transparency-go/trillian/ctfe/cache/noop"
	"k8s.io/klog/v2"
)

type memStore struct {
	mu sync.RWMutex
	m  map[string][]byte
}

func (s *memStore) FindByKey(_ context.Context, key []byte) ([]byte, error) {
	s.mu.RLock()
	defer s.mu.RUnlock()
	v, ok := s.m[string(key)]
	if !ok {
		return nil, fmt.Errorf("sql: no rows in result set")
	}
	return v, nil
}

func (s *memStore) Add(_ context.Context, key, chain []byte) error {
	s.mu.Lock()
	defer s.mu.Unlock()
	if _, ok := s.m[string(key)]; !ok {
		s.m[string(key)] = chain
	}
	return nil
}

// countingCache forwards to the real cache and counts the writes in flight, so
// that the pass can wait for the detached cache writes of the library.
type countingCache struct {
	c        cache.IssuanceChainCache
	sets     atomic.Int64
	inflight atomic.Int64
}

func (c *countingCache) Get(ctx context.Context, k []byte) ([]byte, error) { return c.c.Get(ctx, k) }
func (c *countingCache) Set(ctx context.Context, k, v []byte) error {
	c.inflight.Add(1)
	defer c.inflight.Add(-1)
	c.sets.Add(1)
	return c.c.Set(ctx, k, v)
}

type sub struct {
	pre   bool
	chain [][]byte
}

func TestRacePass(t *testing.T) {
	klog.LogToStderr(false)
	klog.SetOutput(io.Discard)
	rootA := pki.NewRoot("C14 race Root A", pki.LoadKey("p256-0"))
	rootB := pki.NewRoot("C14 race Root B", pki.LoadKey("p256-1"))
	i1 := pki.NewCA("C14 race I1", pki.LoadKey("p256-2"), rootA, pki.CAOpts{})
	i2 := pki.NewCA("C14 race I2", pki.LoadKey("p256-3"), i1, pki.CAOpts{})
	i4 := pki.NewCA("C14 race I4", pki.LoadKey("p256-5"), rootB, pki.CAOpts{})
	lk := pki.LoadKey("p256-7")
	var subs []sub
	for n := 0; n < 4; n++ {
		for _, ca := range []*pki.Cert{i1, i2, i4, rootA} {
			var chain [][]byte
			for c := ca; c != nil && c.Parent != nil; c = c.Parent {
				chain = append(chain, c.DER)
			}
			l := pki.NewLeaf(fmt.Sprintf("r%d-%s", n, ca.Label), lk, ca, pki.LeafOpts{})
			subs = append(subs, sub{false, append([][]byte{l.DER}, chain...)})
			aki := ca.T.Key.KeyHash()
			p := pki.NewLeaf(fmt.Sprintf("rp%d-%s", n, ca.Label), lk, ca, pki.LeafOpts{Exts: []pki.Ext{pki.ExtSAN("p.example"), pki.ExtAKI(aki[:20]), pki.ExtPoison()}})
			subs = append(subs, sub{true, append([][]byte{p.DER}, chain...)})
		}
	}
	runs := 0
	var bad atomic.Int64
	for it := 0; it < 12; it++ {
		var inner cache.IssuanceChainCache
		switch it % 4 {
		case 0:
			inner = lru.NewIssuanceChainCache(lru.CacheOption{Size: 1})
		case 1:
			inner = lru.NewIssuanceChainCache(lru.CacheOption{Size: 2})
		case 2:
			inner = lru.NewIssuanceChainCache(lru.CacheOption{Size: 1000})
		default:
			inner = &noop.IssuanceChainCache{}
		}
		cc := &countingCache{c: inner}
		be := reflog.New(9)
		clock := &fe.Clock{T: time.Date(2024, 3, 1, 0, 0, 0, 0, time.UTC)}
		f, err := fe.New(fe.Config{LogID: 9, Roots: [][]byte{rootA.DER, rootB.DER}, Signer: pki.LoadKey("p256-9").Priv, Client: be, Clock: clock,
			Store: &memStore{m: map[string][]byte{}}, Cache: cc})
		if err != nil {
			t.Fatal(err)
		}
		var wg sync.WaitGroup
		stop := make(chan struct{})
		for w := 0; w < 4; w++ {
			wg.Add(1)
			go func() {
				defer wg.Done()
				for k := 0; k < len(subs); k++ {
					s := subs[(k*5+w*7+it)%len(subs)]
					if r, _ := f.AddChain(s.pre, s.chain); r.Status != 200 {
						bad.Add(1)
					}
				}
			}()
		}
		for rd := 0; rd < 3; rd++ {
			wg.Add(1)
			go func() {
				defer wg.Done()
				for k := 0; k < 60; k++ {
					n := be.Size()
					if n == 0 {
						time.Sleep(200 * time.Microsecond)
						continue
					}
					if r := f.Get("/ct/v1/get-entries", "start", "0", "end", strconv.Itoa(n-1)); r.Status != 200 {
						bad.Add(1)
					}
					i := (k*3 + rd) % n
					if r := f.Get("/ct/v1/get-entry-and-proof", "leaf_index", strconv.Itoa(i), "tree_size", strconv.Itoa(n)); r.Status != 200 {
						bad.Add(1)
					}
				}
			}()
		}
		go func() {
			for k := uint64(1); ; k++ {
				select {
				case <-stop:
					return
				default:
				}
				be.Sequence(3, k)
				time.Sleep(300 * time.Microsecond)
			}
		}()
		wg.Wait()
		close(stop)
		// let the detached cache writes finish
		for k := 0; k < 200; k++ {
			before := cc.sets.Load()
			time.Sleep(2 * time.Millisecond)
			if cc.inflight.Load() == 0 && cc.sets.Load() == before && k > 3 {
				break
			}
		}
		runs++
	}
	if bad.Load() > 0 {
		t.Errorf("%d requests of the free-running pass were not answered with 200", bad.Load())
	}
	fmt.Printf("RACE-PASS runs=%d\n", runs)
}
