package c14

// Two logs in one process. A server binary hosts several logs; each gets its own issuance
// chain storage (its own database) and asks cache.NewIssuanceChainCache for its cache, with
// the same flags. Every history over {submit u to log A, submit u to log B, sequence and
// read everything on both} is run on two real front ends built that way inside one bubble,
// followed by full reads of both logs with the cache as it stands and with a cache that
// has lost everything. Nothing fails in these runs, so every request must be answered as
// the default mode answers it: no 5xx, exact extra_data (judgeReq).

import (
	"fmt"
	"strings"
	"testing"
	"testing/synctest"

	"verif/engine/enum"
	"verif/engine/rep"
)

type tlOp struct {
	log int // 0 = A, 1 = B, -1 = sequence + read on both
	u   int
}

func (o tlOp) String() string {
	if o.log < 0 {
		return "seq+read(A,B)"
	}
	return fmt.Sprintf("sub%c:%s", 'A'+o.log, subs[o.u].Name)
}

func twoLogs(t *testing.T, r *rep.R) {
	depth := 4
	if r.Thorough() {
		depth = 5
	}
	var alpha []tlOp
	for _, n := range []string{"L1", "L4", "L2"} {
		alpha = append(alpha, tlOp{0, S(n)})
	}
	for _, n := range []string{"L1b", "L1", "P1", "L4"} {
		alpha = append(alpha, tlOp{1, S(n)})
	}
	alpha = append(alpha, tlOp{-1, 0})
	var hists [][]tlOp
	var rec func(h []tlOp)
	rec = func(h []tlOp) {
		if len(h) > 0 {
			hists = append(hists, append([]tlOp{}, h...))
		}
		if len(h) == depth {
			return
		}
		for _, o := range alpha {
			rec(append(h, o))
		}
	}
	rec(nil)
	kinds := []string{"factory-lru1", "factory-lru2", "factory-lruN"}
	r.Set("two_log_histories", len(hists)*len(kinds))
	done := enum.ParFor(len(hists)*len(kinds), r.Expired, func(i int) {
		h, kind := hists[i/len(kinds)], kinds[i%len(kinds)]
		var hs []string
		for _, o := range h {
			hs = append(hs, o.String())
		}
		label := fmt.Sprintf("two logs of one process, cache=%s, history [%s]", kind, strings.Join(hs, ", "))
		pan, msg, stack := enum.Catch(func() {
			synctest.Test(t, func(t *testing.T) {
				var ws [2]*world
				for k := range ws {
					sc := &scenario{Class: "twologs", Cache: kind, Clients: [][]op{{}}}
					name := string(rune('A' + k))
					ws[k] = newWorld(sc, true, true, func(sig, f string, a ...any) {
						r.Violation(sig+" (two logs of one process)", label+": log "+name+": "+fmt.Sprintf(f, a...), map[string]any{"history": hs, "cache": kind, "log": name})
					})
				}
				tick := uint64(baseTime.UnixMilli()) + 100
				seq := [2]int{}
				readAll := func(final string) {
					for k, w := range ws {
						tick++
						w.runOp(k+1, &seq[k], op{K: "seq"}, tick, final)
						w.runOp(k+1, &seq[k], op{K: "read"}, tick, final)
					}
				}
				for _, o := range h {
					tick++
					if o.log < 0 {
						readAll("two-logs")
						continue
					}
					w := ws[o.log]
					w.clock.Set(timeOfTick(tick))
					w.runOp(o.log+1, &seq[o.log], op{K: "sub", U: o.u}, tick, "two-logs")
				}
				readAll("final")
				for _, w := range ws {
					w.nocch.Store(true)
				}
				readAll("final-nocache")
				status := ""
				for _, w := range ws {
					for _, q := range w.reqs {
						w.judgeReq(q)
						status += fmt.Sprint(q.Status, ",")
					}
					w.env.Shutdown()
				}
				synctest.Wait()
				r.Eval(1)
				r.Nontrivial("twologs|" + kind + "|" + strings.Join(hs, ",") + "|" + status)
			})
		})
		if pan {
			r.Violation("harness-panic two-logs", msg+"\n"+stack, map[string]any{"history": hs, "cache": kind})
		}
	})
	if !done {
		r.Capped("deadline reached in the two-logs pass")
	}
}
