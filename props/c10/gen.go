package c10

// Generation of target types, boundary values and input families.

import (
	"fmt"
	"math/big"
	"strings"
	"time"
)

type typ struct {
	s      *Shape
	params string // top-level parameters given to UnmarshalWithParams
	vals   []any
	group  string // coverage bucket
	core   bool   // member of the quick-tier short-string set
}

func (t *typ) String() string {
	if t.params != "" {
		return t.s.String() + " params=" + t.params
	}
	return t.s.String()
}

func leaf(k Kind) *Shape { return &Shape{K: k} }

func bi(s string) *big.Int { b, _ := new(big.Int).SetString(s, 10); return b }

func utc(y int, mo time.Month, d, h, mi, s int) time.Time {
	return time.Date(y, mo, d, h, mi, s, 0, time.UTC)
}

func rep7(n int) []byte {
	b := make([]byte, n)
	for i := range b {
		b[i] = byte(i*7 + 1)
	}
	return b
}

// leafVals: the boundary alphabet of each leaf kind (library neutral).
func leafVals(k Kind, thorough bool) []any {
	i64 := func(xs ...int64) (r []any) {
		for _, x := range xs {
			r = append(r, x)
		}
		return
	}
	switch k {
	case KInt, KInt64:
		return i64(0, 1, 5, -1, 127, 128, -128, -129, 255, 256, -256, -257, 32767, 32768, -32768, -32769, -8388608, 1<<31-1, 1<<31, -1<<31, -1<<31-1, 1<<63-1, -1<<63)
	case KInt32:
		return i64(0, 1, 5, -1, 127, 128, -128, -129, 256, 1<<31-1, -1<<31)
	case KEnum:
		return i64(0, 1, -1, 128, 1<<31-1)
	case KBig:
		// every byte-length boundary on both sides of zero: +-2^(8k-1) and their neighbours
		return []any{bi("0"), bi("1"), bi("-1"), bi("127"), bi("128"), bi("-127"), bi("-128"), bi("-129"), bi("255"), bi("256"), bi("-256"), bi("-257"),
			bi("32767"), bi("32768"), bi("-32768"), bi("-32769"), bi("-8388608"), bi("-8388609"), bi("-2147483648"),
			bi("9223372036854775807"), bi("9223372036854775808"), bi("-9223372036854775808"), bi("-9223372036854775809"),
			bi("18446744073709551616"), bi("-18446744073709551616"), bi("-170141183460469231731687303715884105728")}
	case KBool:
		return []any{false, true}
	case KFlag:
		return []any{true}
	case KBits:
		return []any{bitsV{[]byte{}, 0}, bitsV{[]byte{0x80}, 1}, bitsV{[]byte{0xa0}, 3}, bitsV{[]byte{0xff}, 8}, bitsV{[]byte{0x01, 0x80}, 9}}
	case KOID:
		return []any{[]int{1, 2}, []int{2, 5, 4, 3}, []int{1, 2, 840, 113549}, []int{2, 999, 1}, []int{0, 39}, []int{1, 2, 2147483647}}
	case KStr:
		// "Ł", "аб", "中": every rune's low byte is a PrintableString character, none of them is ASCII
		// "'()+,-./:=?" and the letters / digits at the ends of their ranges: the whole PrintableString alphabet is touched
		return []any{"", "a", "Test User 1", "a*b", "x@y.z", "é", "12 3", "a&b", "Ł", "аб", "中-1", "'()+,-./:=?", "AZaz09 ", "a=b", "a_b", "a\"b"}
	case KBytes:
		v := []any{[]byte{}, []byte{0}, []byte{1, 2, 3}, rep7(127), rep7(128), rep7(255), rep7(256)}
		if thorough {
			v = append(v, rep7(65536))
		}
		return v
	case KTime:
		return []any{utc(2020, 1, 2, 3, 4, 5), utc(1950, 1, 1, 0, 0, 0), utc(2049, 12, 31, 23, 59, 59), utc(2050, 1, 1, 0, 0, 0),
			utc(1949, 12, 31, 23, 59, 59), time.Date(2020, 6, 1, 12, 0, 0, 0, time.FixedZone("", 3600)),
			time.Date(2020, 6, 1, 12, 0, 0, 0, time.FixedZone("", -(5*3600+1800))), utc(9999, 12, 31, 23, 59, 59)}
	case KRaw:
		return []any{rawV{Class: 0, Tag: 5}, rawV{Class: 0, Tag: 2, Bytes: []byte{1}}, rawV{Class: 2, Tag: 0, Compound: true, Bytes: []byte{2, 1, 7}},
			rawV{Class: 0, Tag: 31, Bytes: []byte{9}}, rawV{Class: 1, Tag: 200, Bytes: []byte{}}, rawV{Class: 3, Tag: 3, Bytes: []byte{0xff}},
			rawV{Class: 0, Tag: 16, Compound: true, Bytes: []byte{2, 1, 1, 6, 1, 0x2a}}, rawV{Class: 0, Tag: 6, Bytes: []byte{0x55, 4, 3}}}
	case KAny:
		return []any{anyV{leaf(KInt64), int64(5)}, anyV{leaf(KInt64), int64(-129)}, anyV{leaf(KStr), "abc"}, anyV{leaf(KStr), "é"}, anyV{leaf(KBytes), []byte{1}},
			anyV{leaf(KBits), bitsV{[]byte{0xa0}, 3}}, anyV{leaf(KOID), []int{2, 5, 4, 3}}, anyV{leaf(KTime), utc(2020, 1, 2, 3, 4, 5)}}
	}
	return nil
}

type leafVar struct {
	s     *Shape
	extra string // string/time type parameter
	core  bool
}

func leafVars() []leafVar {
	return []leafVar{
		{leaf(KInt), "", true}, {leaf(KInt32), "", false}, {leaf(KInt64), "", false}, {leaf(KBig), "", true}, {leaf(KBool), "", true},
		{leaf(KBits), "", true}, {leaf(KOID), "", true}, {leaf(KEnum), "", true},
		{leaf(KStr), "", true}, {leaf(KStr), "printable", true}, {leaf(KStr), "ia5", false}, {leaf(KStr), "utf8", false}, {leaf(KStr), "numeric", false},
		{leaf(KBytes), "", true}, {leaf(KTime), "", true}, {leaf(KTime), "utc", false}, {leaf(KTime), "generalized", true},
		{leaf(KRaw), "", true}, {leaf(KFlag), "", false}, {leaf(KAny), "", true},
	}
}

var mods = []string{"", "optional", "explicit,tag:0", "tag:1", "optional,default:5", "application,tag:2", "private,tag:3",
	"optional,explicit,tag:0", "optional,tag:1", "tag:31", "explicit,tag:40", "set", "omitempty", "explicit,application,tag:4",
	"explicit,private,tag:5", "optional,explicit,default:5,tag:0"}

var coreMods = []string{"", "optional", "explicit,tag:0", "tag:1", "optional,explicit,tag:0"}

func join(a, b string) string {
	if a == "" {
		return b
	}
	if b == "" {
		return a
	}
	return a + "," + b
}

func st(fs ...Field) *Shape { return &Shape{K: KStruct, Fields: fs} }
func sl(e *Shape) *Shape    { return &Shape{K: KSlice, Elem: e} }

// valsOf computes the value alphabet of a shape: leaves take their boundary
// values, structs the product of their fields' values capped per field,
// slices a few lists.
func valsOf(s *Shape, thorough bool, depth int) []any {
	switch s.K {
	case KStruct:
		per := make([][]any, len(s.Fields))
		total := 1
		for i, f := range s.Fields {
			v := valsOf(f.S, thorough, depth+1)
			limit := len(v)
			if i > 0 || depth > 0 {
				if limit > 3 {
					limit = 3
				}
			}
			per[i] = v[:limit]
			total *= limit
		}
		var out []any
		if total > 48 {
			// too many: vary one field at a time around the first values, plus the diagonals
			base := func(k int) []any {
				l := make([]any, len(per))
				for i := range per {
					l[i] = per[i][k%len(per[i])]
				}
				return l
			}
			out = append(out, base(0), base(1), base(2))
			for i := range per {
				for _, v := range per[i][1:] {
					l := base(0)
					l[i] = v
					out = append(out, l)
				}
			}
			return out
		}
		idx := make([]int, len(per))
		for c := 0; c < total; c++ {
			l := make([]any, len(per))
			for i := range per {
				l[i] = per[i][idx[i]]
			}
			out = append(out, l)
			for k := len(idx) - 1; k >= 0; k-- {
				idx[k]++
				if idx[k] < len(per[k]) {
					break
				}
				idx[k] = 0
			}
		}
		return out
	case KSlice:
		ev := valsOf(s.Elem, thorough, depth+1)
		out := []any{[]any{}, []any{ev[0]}}
		if len(ev) >= 3 {
			out = append(out, []any{ev[0], ev[1], ev[2]})
			// other first elements (a destination decoded into twice keeps or loses what element 0 held)
			out = append(out, []any{ev[2], ev[1], ev[0]}, []any{ev[len(ev)-1]})
		}
		if depth == 0 && len(ev) > 3 {
			out = append(out, append([]any{}, ev...))
		}
		return out
	}
	return leafVals(s.K, thorough)
}

func genTypes(thorough bool) []*typ {
	var ts []*typ
	add := func(group string, s *Shape, params string, core bool) {
		ts = append(ts, &typ{s: s, params: params, group: group, core: core})
	}
	lv := leafVars()
	// 1. top-level leaves with every modifier as UnmarshalWithParams parameters
	for _, l := range lv {
		for _, m := range mods {
			add("top-level leaf", l.s, join(l.extra, m), l.core && (m == "" || m == "explicit,tag:0" || m == "tag:31"))
		}
	}
	// 2. single-field structs, 3. field followed / preceded by another
	second := []*Shape{leaf(KInt), leaf(KStr), leaf(KRaw)}
	for _, l := range lv {
		for _, m := range mods {
			tag := join(l.extra, m)
			add("struct, 1 field", st(Field{"A", tag, l.s}), "", l.core && m == "optional")
			for i, b := range second {
				if !thorough && i > 0 && !l.core {
					continue
				}
				add("struct, 2 fields", st(Field{"A", tag, l.s}, Field{"B", "", b}), "", false)
			}
			add("struct, 2 fields", st(Field{"A", "", leaf(KInt)}, Field{"B", tag, l.s}), "", false)
		}
	}
	// 3b. strings under an implicit context tag whose number is that of a universal string or time type:
	// the tag says nothing about the string type
	for _, n := range []int{4, 12, 18, 19, 20, 22, 23, 24, 27, 30} {
		tag := fmt.Sprintf("tag:%d", n)
		add("string under a tag numbered like a universal type", leaf(KStr), tag, n == 12 || n == 22)
		add("string under a tag numbered like a universal type", st(Field{"A", tag, leaf(KStr)}, Field{"B", "optional", leaf(KInt)}), "", false)
	}
	// 3c. the parts of a parameter string in another order: a parameter string is a set of parts
	for _, l := range lv {
		if !l.core && !thorough {
			continue
		}
		for _, m := range []string{"tag:2,application", "tag:3,private", "tag:4,application,explicit", "tag:5,explicit,private", "tag:1,optional", "tag:0,explicit", "default:5,optional",
			"tag:0,default:5,explicit,optional", "tag:6,private,optional", "omitempty,tag:1"} {
			tag := join(m, l.extra)
			add("parameter parts in another order", l.s, tag, l.core && m == "tag:3,private")
			add("parameter parts in another order", st(Field{"A", tag, l.s}, Field{"B", "optional", leaf(KInt)}), "", false)
		}
	}
	// 4. SEQUENCE OF / SET OF of every leaf
	for _, l := range lv {
		if l.extra != "" {
			continue
		}
		add("slice top-level", sl(l.s), "", l.core)
		add("slice top-level", sl(l.s), "set", false)
		for _, m := range []string{"", "set", "optional", "explicit,tag:0", "tag:1", "omitempty", "optional,omitempty,tag:2"} {
			add("slice field", st(Field{"A", m, sl(l.s)}, Field{"B", "optional", leaf(KInt)}), "", false)
		}
		add("slice of slice", sl(sl(l.s)), "", false)
		add("slice of struct", sl(st(Field{"X", "", l.s}, Field{"Y", "optional", leaf(KInt)})), "", false)
	}
	add("named SET slice", &Shape{K: KSlice, Elem: leaf(KInt), SetNamed: true}, "", true)
	add("named SET slice", &Shape{K: KSlice, Elem: leaf(KStr), SetNamed: true}, "", false)
	add("named SET slice", st(Field{"A", "", &Shape{K: KSlice, Elem: leaf(KInt), SetNamed: true}}, Field{"B", "", leaf(KInt)}), "", false)
	add("named SET slice", sl(&Shape{K: KSlice, Elem: leaf(KStr), SetNamed: true}), "", false)
	// 5. depth 2: inner leaf with modifier inside containers
	for _, l := range lv {
		if !l.core {
			continue
		}
		for _, m := range coreMods {
			tag := join(l.extra, m)
			in := st(Field{"X", tag, l.s})
			for _, om := range []string{"", "explicit,tag:0", "optional", "set", "tag:2"} {
				add("nested struct", st(Field{"A", om, in}, Field{"B", "optional", leaf(KInt)}), "", false)
			}
			add("nested slice of struct", st(Field{"A", "", sl(in)}), "", false)
			add("nested slice of struct", st(Field{"A", "set", sl(st(Field{"X", tag, l.s}, Field{"Y", "", leaf(KInt)}))}), "", false)
			add("RawContent struct", &Shape{K: KStruct, RawHead: true, Fields: []Field{{"X", tag, l.s}, {"Y", "optional", leaf(KInt)}}}, "", false)
			add("RawContent struct", st(Field{"A", "explicit,tag:0", &Shape{K: KStruct, RawHead: true, Fields: []Field{{"X", tag, l.s}}}}, Field{"B", "", leaf(KInt)}), "", false)
			add("RawContent struct", sl(&Shape{K: KStruct, RawHead: true, Fields: []Field{{"X", tag, l.s}}}), "", false)
			if thorough {
				add("depth 3", st(Field{"A", "", st(Field{"M", "explicit,tag:1", sl(in)})}), "", false)
			}
		}
	}
	// 6. lax given on a field: scope is that field and everything inside, not its siblings
	for _, l := range lv {
		if !l.core {
			continue
		}
		tag := l.extra
		add("field-scoped lax", st(Field{"A", join(tag, "lax"), l.s}, Field{"B", tag, l.s}), "", false)
		add("field-scoped lax", st(Field{"A", tag, l.s}, Field{"B", join(tag, "lax"), l.s}), "", false)
		add("field-scoped lax", st(Field{"A", "lax", st(Field{"X", tag, l.s})}, Field{"B", tag, l.s}), "", false)
		add("field-scoped lax", st(Field{"A", "lax", sl(l.s)}, Field{"B", "", sl(l.s)}), "", false)
		add("field-scoped lax", st(Field{"A", "", st(Field{"X", join(tag, "lax,explicit,tag:0"), l.s}, Field{"Y", tag, l.s})}), "", false)
		add("field-scoped lax", sl(st(Field{"X", join(tag, "optional,lax"), l.s}, Field{"Y", "optional", leaf(KBool)})), "", false)
	}
	// 7. X.509-like shapes
	algID := st(Field{"Algorithm", "", leaf(KOID)}, Field{"Parameters", "optional", leaf(KRaw)})
	atv := st(Field{"Type", "", leaf(KOID)}, Field{"Value", "", leaf(KAny)})
	ext := st(Field{"Id", "", leaf(KOID)}, Field{"Critical", "optional", leaf(KBool)}, Field{"Value", "", leaf(KBytes)})
	validity := st(Field{"NotBefore", "", leaf(KTime)}, Field{"NotAfter", "", leaf(KTime)})
	add("x509-like", algID, "", true)
	add("x509-like", atv, "", true)
	add("x509-like", ext, "", true)
	add("x509-like", validity, "", true)
	add("x509-like", sl(sl(atv)), "", false)
	add("x509-like", &Shape{K: KStruct, RawHead: true, Fields: []Field{
		{"Version", "optional,explicit,default:0,tag:0", leaf(KInt)}, {"Serial", "", leaf(KBig)}, {"Alg", "", algID},
		{"Validity", "", validity}, {"UID", "optional,tag:1", leaf(KBits)}, {"Ext", "optional,explicit,tag:3", sl(ext)}}}, "", true)
	add("x509-like", st(Field{"Version", "optional,explicit,default:0,tag:0", leaf(KInt)}, Field{"Serial", "", leaf(KBig)}, Field{"Alg", "", algID}), "", false)
	add("x509-like", st(Field{"A", "optional", leaf(KInt)}, Field{"B", "optional,tag:0", leaf(KInt)}, Field{"C", "optional", leaf(KStr)}, Field{"D", "optional,ia5,tag:1", leaf(KStr)}), "", false)

	seen := map[string]bool{}
	var out []*typ
	for _, t := range ts {
		k := t.String()
		if seen[k] {
			continue
		}
		seen[k] = true
		t.s.prepare()
		t.vals = valsOf(t.s, thorough, 0)
		out = append(out, t)
	}
	return out
}

// ---------------------------------------------------------------------------
// untyped TLV tree of a valid DER encoding, used only to place mutations

type node struct {
	id       []byte // identifier octets
	h        hdr
	content  []byte  // primitive (or unparseable constructed) content
	children []*node // constructed
}

func parseTree(b []byte) ([]*node, bool) {
	var out []*node
	off := 0
	for off < len(b) {
		h, ok := parseHdr(b, off)
		if !ok || off+h.hlen+h.length > len(b) {
			return nil, false
		}
		n := &node{id: b[off : off+h.idlen], h: h}
		c := b[off+h.hlen : off+h.hlen+h.length]
		if h.compound {
			if ch, ok := parseTree(c); ok {
				n.children = ch
			} else {
				n.content = c
			}
		} else {
			n.content = c
		}
		if n.children == nil && n.content == nil {
			n.content = []byte{}
		}
		out = append(out, n)
		off += h.hlen + h.length
	}
	return out, true
}

func flatten(ns []*node, out []*node) []*node {
	for _, n := range ns {
		out = append(out, n)
		out = flatten(n.children, out)
	}
	return out
}

// ser serialises a forest; subst replaces the whole element of a node, and
// ancestors' lengths are recomputed (DER minimal).
func ser(ns []*node, subst map[*node][]byte, dst []byte) []byte {
	for _, n := range ns {
		if r, ok := subst[n]; ok {
			dst = append(dst, r...)
			continue
		}
		var body []byte
		if n.h.compound && n.content == nil {
			body = ser(n.children, subst, nil)
		} else {
			body = n.content
		}
		dst = append(dst, n.id...)
		dst = encLen(dst, len(body))
		dst = append(dst, body...)
	}
	return dst
}

func (n *node) body() []byte {
	if n.h.compound && n.content == nil {
		return ser(n.children, nil, nil)
	}
	return n.content
}

func elem(id []byte, body []byte) []byte {
	out := append([]byte{}, id...)
	out = encLen(out, len(body))
	return append(out, body...)
}

func cat(bs ...[]byte) []byte {
	var out []byte
	for _, b := range bs {
		out = append(out, b...)
	}
	return out
}

var contentCatalogue = [][]byte{
	[]byte("\xe9"), []byte("M\xfcller"), []byte("a\x1b"), []byte("a\x00b"), []byte("@"), []byte("\x1b\xff"), []byte("\x7f"), []byte("\xa0"), []byte("#"), []byte("a\x1b$"),
	// times
	[]byte("2001010000Z"), []byte("200101000000Z"), []byte("200101000000+0100"), []byte("20200101000000Z"), []byte("20200101000000.5Z"),
	[]byte("20200101000000.500Z"), []byte("20200101000000.123456789Z"), []byte("20200101000000+0100"), []byte("202001010000Z"), []byte("500101000000Z"),
	[]byte("491231235959Z"), []byte("200230000000Z"), []byte("2001010000"), []byte("200101000000-0000"), []byte("20200101000000,5Z"), []byte("20200101000000.Z"),
	[]byte("200101000060Z"), []byte("2001010000+0100"),
	// BMP / odd
	[]byte("\x00a\x00b"), []byte("\x00a\x00\x00"), []byte("\xd8\x00"),
	// a surrogate pair (one character beyond the basic plane), a reversed pair, a pair between two letters
	[]byte("\xd8\x3d\xde\x00"), []byte("\xde\x00\xd8\x3d"), []byte("\x00a\xd8\x3d\xde\x00\x00b"),
}

var (
	wrap70 = []byte{0x82, 0x80, 0x80, 0x80, 0x80, 0x80, 0x80, 0x80, 0x80, 0x80} // followed by one more octet: 2*2^70 + v
	wrap63 = []byte{0x81, 0x80, 0x80, 0x80, 0x80, 0x80, 0x80, 0x80, 0x80}       // followed by one more octet: 2^63 + v
)

type mut struct {
	b    []byte
	what string
}

func pad(c []byte) []byte {
	if len(c) == 0 {
		return nil
	}
	if c[0] < 0x80 {
		return cat([]byte{0}, c)
	}
	return cat([]byte{0xff}, c)
}

func padTag(id []byte, h hdr) []byte {
	first := id[0] | 0x1f
	if h.tag < 31 {
		return []byte{first, byte(h.tag)}
	}
	return cat([]byte{first, 0x80}, id[1:])
}

// documented mutations of one node (kept separate: they are also used pairwise)
func docMuts(n *node) (out []mut) {
	if n.h.compound && n.content == nil {
		return
	}
	if p := pad(n.content); p != nil {
		out = append(out, mut{elem(n.id, p), "int-pad"})
	}
	out = append(out, mut{elem(n.id, nil), "empty"})
	out = append(out, mut{elem(n.id, []byte("\xe9t\xe9")), "latin1"})
	out = append(out, mut{elem(n.id, []byte("a\x1bb")), "t61"})
	return
}

// singleMutations: every catalogue entry at every TLV position, plus byte
// level families on the whole encoding.
func singleMutations(b []byte, thorough bool, emit func(m []byte, what string)) {
	roots, ok := parseTree(b)
	if ok {
		all := flatten(roots, nil)
		for _, n := range all {
			one := func(r []byte, what string) { emit(ser(roots, map[*node][]byte{n: r}, nil), what) }
			body := n.body()
			prim := !(n.h.compound && n.content == nil)
			for _, m := range docMuts(n) {
				one(m.b, m.what)
			}
			if prim {
				if p := pad(n.content); p != nil {
					one(elem(n.id, pad(p)), "int-pad2")
					// wrong-sign padding: changes the value, must never be "repaired"
					if n.content[0] < 0x80 {
						one(elem(n.id, cat([]byte{0xff}, n.content)), "int-wrongpad")
					} else {
						one(elem(n.id, cat([]byte{0}, n.content)), "int-pospad")
					}
				}
				for _, c := range contentCatalogue {
					one(elem(n.id, c), "content-catalogue")
				}
				lim := len(n.content)
				if lim > 6 {
					lim = 6
				}
				for p := 0; p <= lim; p++ {
					one(elem(n.id, cat(n.content[:p], []byte{0x80}, n.content[p:])), "insert-80")
				}
				// base-128 numbers of 10 and 11 octets: 2*2^70 + v and 2^63 + v wrap a 64-bit accumulator back
				// into range; minimal encodings (the leading octet is not 0x80), far too large to accept
				for p := 0; p < lim; p++ {
					one(elem(n.id, cat(n.content[:p], wrap70, n.content[p:])), "base128-wrap-2^71")
					one(elem(n.id, cat(n.content[:p], wrap63, n.content[p:])), "base128-wrap-2^63")
				}
			}
			// length forms
			L := len(body)
			one(cat(n.id, []byte{0x81, byte(L)}, body), "len-81")
			one(cat(n.id, []byte{0x82, byte(L >> 8), byte(L)}, body), "len-82")
			one(cat(n.id, []byte{0x84, 0, 0, byte(L >> 8), byte(L)}, body), "len-84")
			one(cat(n.id, []byte{0x80}, body, []byte{0, 0}), "len-indefinite")
			one(cat(padTag(n.id, n.h), encLen(nil, L), body), "tag-padded")
			if n.h.tag < 128 {
				one(cat([]byte{n.id[0] | 0x1f}, wrap70, []byte{byte(n.h.tag)}, encLen(nil, L), body), "tag-base128-wrap-2^71")
				one(cat([]byte{n.id[0] | 0x1f}, wrap63, []byte{byte(n.h.tag)}, encLen(nil, L), body), "tag-base128-wrap-2^63")
			}
			// structure
			one(nil, "delete-node")
			e := elem(n.id, body)
			one(cat(e, e), "duplicate-node")
			if !prim {
				one(elem(n.id, cat(body, []byte{5, 0})), "append-null-inside")
				one(elem(n.id, cat(body, []byte{0})), "append-00-inside")
				one(elem(n.id, cat([]byte{5, 0}, body)), "prepend-null-inside")
				one(elem([]byte{n.id[0] &^ 0x20}, body), "clear-constructed-bit")
				one(elem([]byte{0x31}, body), "retag-set")
			} else {
				one(elem([]byte{n.id[0] | 0x20}, body), "set-constructed-bit")
				for _, tg := range []byte{2, 6, 12, 19, 20, 22, 18, 30, 27, 24, 23, 10, 4, 3, 1, 5} {
					if len(n.id) == 1 && n.id[0] == tg {
						continue
					}
					one(elem([]byte{tg}, body), "retag-universal")
				}
				// the string types nothing marshals to (BMPString, T61String) with contents of their own: ASCII and a letter
				// beyond Latin-1 as 16-bit units, a surrogate pair (one character), a reversed pair, a pair among letters
				for _, c := range [][]byte{[]byte("\x00a\x00b"), []byte("\x01\x41\x00z"), []byte("\xd8\x3d\xde\x00"), []byte("\xde\x00\xd8\x3d"), []byte("\x00a\xd8\x3d\xde\x00\x00b"), []byte("\xd8\x3d")} {
					one(elem([]byte{30}, c), "retag-bmpstring-with-contents")
				}
				one(elem([]byte{20}, []byte("M\xfcller")), "retag-t61string-with-contents")
			}
			one(elem([]byte{0xa0}, e), "wrap-explicit-0")
		}
		if thorough {
			// two mutations: documented x documented at two distinct primitive nodes
			var prims []*node
			for _, n := range all {
				if !(n.h.compound && n.content == nil) {
					prims = append(prims, n)
				}
			}
			for i := 0; i < len(prims); i++ {
				for j := i + 1; j < len(prims); j++ {
					for _, mi := range docMuts(prims[i]) {
						for _, mj := range docMuts(prims[j]) {
							emit(ser(roots, map[*node][]byte{prims[i]: mi.b, prims[j]: mj.b}, nil), "pair:"+mi.what+"+"+mj.what)
						}
					}
				}
			}
			// documented x undocumented byte change elsewhere
			for _, n := range prims {
				for _, m := range docMuts(n) {
					d := ser(roots, map[*node][]byte{n: m.b}, nil)
					lim := len(d)
					if lim > 24 {
						lim = 24
					}
					for p := 0; p < lim; p++ {
						x := append([]byte{}, d...)
						x[p]++
						emit(x, "pair:"+m.what+"+byte")
					}
				}
			}
		}
	}
	n := len(b)
	plim := n
	if plim > 40 {
		plim = 40
	}
	for i := 0; i < plim; i++ {
		emit(b[:i], "prefix")
	}
	if n > 40 {
		emit(b[:n-1], "prefix")
	}
	emit(cat(b, []byte{0}), "trailing")
	emit(cat(b, []byte{0xff}), "trailing")
	emit(cat(b, []byte{5, 0}), "trailing")
	for i := 0; i < plim; i++ {
		for _, f := range []func(byte) byte{func(x byte) byte { return x + 1 }, func(x byte) byte { return x - 1 },
			func(x byte) byte { return x ^ 0x80 }, func(x byte) byte { return x ^ 0x20 }, func(x byte) byte { return x ^ 0x40 }} {
			x := append([]byte{}, b...)
			x[i] = f(x[i])
			emit(x, "byte")
		}
	}
}

// shortStrings enumerates every string of length 0..n over the alphabet.
var shortAlphabet = []byte{0x00, 0x01, 0x02, 0x03, 0x06, 0x13, 0x1f, 0x30, 0x80, 0x81, 0xa0, 0xff}

func forShort(n int, f func(b []byte)) {
	f(nil)
	al := shortAlphabet
	for l := 1; l <= n; l++ {
		idx := make([]int, l)
		buf := make([]byte, l)
		for {
			for i := range buf {
				buf[i] = al[idx[i]]
			}
			f(buf)
			k := l - 1
			for k >= 0 {
				idx[k]++
				if idx[k] < len(al) {
					break
				}
				idx[k] = 0
				k--
			}
			if k < 0 {
				break
			}
		}
	}
}

func sanitizeErr(e error) string {
	if e == nil {
		return "<nil>"
	}
	s := e.Error()
	var sb strings.Builder
	inq := false
	for i := 0; i < len(s); i++ {
		c := s[i]
		switch {
		case c == '"':
			inq = !inq
			sb.WriteByte('"')
		case inq:
		case c >= '0' && c <= '9':
			if sb.Len() == 0 || sb.String()[sb.Len()-1] != '#' {
				sb.WriteByte('#')
			}
		default:
			sb.WriteByte(c)
		}
	}
	out := sb.String()
	// drop the fork's "<Field>: " diagnostic prefix and the verbose tag dump
	for _, pre := range []string{"asn#: structure error: ", "asn#: syntax error: "} {
		if strings.HasPrefix(out, pre) {
			rest := out[len(pre):]
			if i := strings.Index(rest, ": "); i > 0 && i <= 12 && !strings.Contains(rest[:i], " ") {
				rest = rest[i+2:]
			}
			out = pre + rest
		}
	}
	if i := strings.Index(out, "tags don't match"); i >= 0 {
		out = out[:i] + "tags don't match"
	}
	if i := strings.Index(out, "sequence tag mismatch"); i >= 0 {
		out = out[:i] + "sequence tag mismatch"
	}
	if len(out) > 90 {
		out = out[:90]
	}
	return out
}
