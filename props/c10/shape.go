package c10

// Shapes: a library-neutral description of a target Go type. Every shape is
// materialised twice with reflect (once with the fork's named types, once with
// encoding/asn1's) and decoded values are compared through render().

import (
	"fmt"
	"math/big"
	"reflect"
	"strconv"
	"strings"
	"time"

	stdasn1 "encoding/asn1"

	forkasn1 "github.com/google/certificate-transparency-go/asn1"
)

type Kind int

const (
	KInt Kind = iota
	KInt32
	KInt64
	KBig
	KBool
	KBits
	KOID
	KEnum
	KStr
	KBytes
	KTime
	KRaw
	KFlag
	KAny
	KStruct
	KSlice
)

var kindNames = [...]string{"int", "int32", "int64", "*big.Int", "bool", "BitString", "ObjectIdentifier", "Enumerated",
	"string", "[]byte", "time.Time", "RawValue", "Flag", "interface{}", "struct", "slice"}

type Field struct {
	Name string
	Tag  string
	S    *Shape
}

type Shape struct {
	K        Kind
	Fields   []Field // struct (not counting the RawContent head)
	RawHead  bool    // struct whose first field is RawContent
	Elem     *Shape  // slice
	SetNamed bool    // slice whose Go type has a name ending in SET (only []int and []string)
	gt       [2]reflect.Type
}

// statically named slice types (reflect cannot create named types); their
// element types are library independent so both libraries share them.
type IntSET []int
type StrSET []string

func (s *Shape) String() string {
	switch s.K {
	case KStruct:
		var sb strings.Builder
		sb.WriteString("struct{")
		if s.RawHead {
			sb.WriteString("Raw RawContent; ")
		}
		for i, f := range s.Fields {
			if i > 0 {
				sb.WriteString("; ")
			}
			sb.WriteString(f.Name + " " + f.S.String())
			if f.Tag != "" {
				sb.WriteString(" `" + f.Tag + "`")
			}
		}
		sb.WriteString("}")
		return sb.String()
	case KSlice:
		if s.SetNamed {
			if s.Elem.K == KInt {
				return "IntSET"
			}
			return "StrSET"
		}
		return "[]" + s.Elem.String()
	}
	return kindNames[s.K]
}

// leaves lists the distinct leaf kinds of a shape (for coarse signatures).
func (s *Shape) leaves(m map[string]bool) {
	switch s.K {
	case KStruct:
		for _, f := range s.Fields {
			f.S.leaves(m)
		}
	case KSlice:
		s.Elem.leaves(m)
	default:
		m[kindNames[s.K]] = true
	}
}

type lib struct {
	idx                              int
	name                             string
	bits, oid, enum, raw, flag, rawc reflect.Type
	unm                              func([]byte, any, string) ([]byte, error)
	mar                              func(any, string) ([]byte, error)
}

var fork = &lib{0, "fork",
	reflect.TypeOf(forkasn1.BitString{}), reflect.TypeOf(forkasn1.ObjectIdentifier{}), reflect.TypeOf(forkasn1.Enumerated(0)),
	reflect.TypeOf(forkasn1.RawValue{}), reflect.TypeOf(forkasn1.Flag(false)), reflect.TypeOf(forkasn1.RawContent(nil)),
	forkasn1.UnmarshalWithParams, forkasn1.MarshalWithParams}

var std = &lib{1, "std",
	reflect.TypeOf(stdasn1.BitString{}), reflect.TypeOf(stdasn1.ObjectIdentifier{}), reflect.TypeOf(stdasn1.Enumerated(0)),
	reflect.TypeOf(stdasn1.RawValue{}), reflect.TypeOf(stdasn1.Flag(false)), reflect.TypeOf(stdasn1.RawContent(nil)),
	stdasn1.UnmarshalWithParams, stdasn1.MarshalWithParams}

var (
	tBig  = reflect.TypeOf((*big.Int)(nil))
	tTime = reflect.TypeOf(time.Time{})
	tAny  = reflect.TypeOf((*any)(nil)).Elem()
)

// prepare materialises the Go types of a shape for both libraries. Must be
// called single-threaded before the shape is used.
func (s *Shape) prepare() {
	if s.gt[0] != nil {
		return
	}
	for _, l := range []*lib{fork, std} {
		s.gt[l.idx] = s.mk(l)
	}
}

func (s *Shape) mk(l *lib) reflect.Type {
	switch s.K {
	case KInt:
		return reflect.TypeOf(int(0))
	case KInt32:
		return reflect.TypeOf(int32(0))
	case KInt64:
		return reflect.TypeOf(int64(0))
	case KBig:
		return tBig
	case KBool:
		return reflect.TypeOf(false)
	case KBits:
		return l.bits
	case KOID:
		return l.oid
	case KEnum:
		return l.enum
	case KStr:
		return reflect.TypeOf("")
	case KBytes:
		return reflect.TypeOf([]byte(nil))
	case KTime:
		return tTime
	case KRaw:
		return l.raw
	case KFlag:
		return l.flag
	case KAny:
		return tAny
	case KSlice:
		s.Elem.prepare()
		if s.SetNamed {
			if s.Elem.K == KInt {
				return reflect.TypeOf(IntSET(nil))
			}
			return reflect.TypeOf(StrSET(nil))
		}
		return reflect.SliceOf(s.Elem.gt[l.idx])
	case KStruct:
		var fs []reflect.StructField
		if s.RawHead {
			fs = append(fs, reflect.StructField{Name: "Raw", Type: l.rawc})
		}
		for _, f := range s.Fields {
			f.S.prepare()
			sf := reflect.StructField{Name: f.Name, Type: f.S.gt[l.idx]}
			if f.Tag != "" {
				sf.Tag = reflect.StructTag(`asn1:"` + f.Tag + `"`)
			}
			fs = append(fs, sf)
		}
		return reflect.StructOf(fs)
	}
	panic("bad kind")
}

// library-neutral values
type bitsV struct {
	B []byte
	N int
}
type rawV struct {
	Class, Tag int
	Compound   bool
	Bytes      []byte
	Full       []byte
}
type anyV struct {
	S *Shape
	V any
}

// build materialises a neutral value as a Go value of library l.
func build(s *Shape, val any, l *lib) reflect.Value {
	v := reflect.New(s.gt[l.idx]).Elem()
	switch s.K {
	case KInt, KInt32, KInt64, KEnum:
		v.SetInt(val.(int64))
	case KBig:
		if val != nil {
			v.Set(reflect.ValueOf(new(big.Int).Set(val.(*big.Int))))
		}
	case KBool, KFlag:
		v.SetBool(val.(bool))
	case KBits:
		b := val.(bitsV)
		v.Field(0).SetBytes(append([]byte{}, b.B...))
		v.Field(1).SetInt(int64(b.N))
	case KOID:
		o := val.([]int)
		sl := reflect.MakeSlice(s.gt[l.idx], len(o), len(o))
		for i, x := range o {
			sl.Index(i).SetInt(int64(x))
		}
		v.Set(sl)
	case KStr:
		v.SetString(val.(string))
	case KBytes:
		v.SetBytes(append([]byte{}, val.([]byte)...))
	case KTime:
		v.Set(reflect.ValueOf(val.(time.Time)))
	case KRaw:
		r := val.(rawV)
		v.Field(0).SetInt(int64(r.Class))
		v.Field(1).SetInt(int64(r.Tag))
		v.Field(2).SetBool(r.Compound)
		if r.Bytes != nil {
			v.Field(3).SetBytes(append([]byte{}, r.Bytes...))
		}
		if r.Full != nil {
			v.Field(4).SetBytes(append([]byte{}, r.Full...))
		}
	case KAny:
		if val != nil {
			a := val.(anyV)
			a.S.prepare()
			v.Set(build(a.S, a.V, l))
		}
	case KStruct:
		vs := val.([]any)
		off := 0
		if s.RawHead {
			off = 1
		}
		for i, f := range s.Fields {
			v.Field(i + off).Set(build(f.S, vs[i], l))
		}
	case KSlice:
		if val == nil {
			return v
		}
		vs := val.([]any)
		sl := reflect.MakeSlice(s.gt[l.idx], len(vs), len(vs))
		for i, x := range vs {
			sl.Index(i).Set(build(s.Elem, x, l))
		}
		v.Set(sl)
	}
	return v
}

func renderTime(t time.Time) string {
	return "time(" + t.Format("2006-01-02T15:04:05.999999999Z07:00") + "|" + t.Location().String() + ")"
}

// render writes the canonical, library-independent form of a decoded value.
// With omitRawc the RawContent heads are left out (they hold input bytes).
func render(sb *strings.Builder, s *Shape, v reflect.Value, l *lib, omitRawc bool) {
	switch s.K {
	case KInt, KInt32, KInt64:
		sb.WriteString(strconv.FormatInt(v.Int(), 10))
	case KEnum:
		sb.WriteString("enum(" + strconv.FormatInt(v.Int(), 10) + ")")
	case KBig:
		if v.IsNil() {
			sb.WriteString("big<nil>")
		} else {
			sb.WriteString("big(" + v.Interface().(*big.Int).String() + ")")
		}
	case KBool:
		sb.WriteString(strconv.FormatBool(v.Bool()))
	case KFlag:
		sb.WriteString("flag(" + strconv.FormatBool(v.Bool()) + ")")
	case KBits:
		fmt.Fprintf(sb, "bits(%x/%d)", v.Field(0).Bytes(), v.Field(1).Int())
	case KOID:
		renderOID(sb, v)
	case KStr:
		sb.WriteString("str(" + strconv.Quote(v.String()) + ")")
	case KBytes:
		if v.IsNil() {
			sb.WriteString("bytes<nil>")
		} else {
			fmt.Fprintf(sb, "bytes(%x)", v.Bytes())
		}
	case KTime:
		sb.WriteString(renderTime(v.Interface().(time.Time)))
	case KRaw:
		fmt.Fprintf(sb, "raw(c%d t%d %v %x|%x)", v.Field(0).Int(), v.Field(1).Int(), v.Field(2).Bool(), v.Field(3).Bytes(), v.Field(4).Bytes())
	case KAny:
		if v.IsNil() {
			sb.WriteString("any<nil>")
			return
		}
		e := v.Elem()
		sb.WriteString("any:")
		switch {
		case e.Type() == l.bits:
			fmt.Fprintf(sb, "bits(%x/%d)", e.Field(0).Bytes(), e.Field(1).Int())
		case e.Type() == l.oid:
			renderOID(sb, e)
		case e.Type() == tTime:
			sb.WriteString(renderTime(e.Interface().(time.Time)))
		case e.Kind() == reflect.String:
			sb.WriteString("str(" + strconv.Quote(e.String()) + ")")
		case e.Kind() == reflect.Int64:
			sb.WriteString("int64(" + strconv.FormatInt(e.Int(), 10) + ")")
		case e.Kind() == reflect.Slice && e.Type().Elem().Kind() == reflect.Uint8:
			fmt.Fprintf(sb, "bytes(%x)", e.Bytes())
		default:
			sb.WriteString("?" + e.Kind().String())
		}
	case KStruct:
		sb.WriteString("{")
		off := 0
		if s.RawHead {
			off = 1
			if !omitRawc {
				fmt.Fprintf(sb, "rawc(%x) ", v.Field(0).Bytes())
			}
		}
		for i, f := range s.Fields {
			if i > 0 {
				sb.WriteString(" ")
			}
			sb.WriteString(f.Name + ":")
			render(sb, f.S, v.Field(i+off), l, omitRawc)
		}
		sb.WriteString("}")
	case KSlice:
		if v.IsNil() {
			sb.WriteString("slice<nil>")
			return
		}
		sb.WriteString("[")
		for i := 0; i < v.Len(); i++ {
			if i > 0 {
				sb.WriteString(" ")
			}
			render(sb, s.Elem, v.Index(i), l, omitRawc)
		}
		sb.WriteString("]")
	}
}

func renderOID(sb *strings.Builder, v reflect.Value) {
	if v.IsNil() {
		sb.WriteString("oid<nil>")
		return
	}
	sb.WriteString("oid[")
	for i := 0; i < v.Len(); i++ {
		if i > 0 {
			sb.WriteString(" ")
		}
		sb.WriteString(strconv.FormatInt(v.Index(i).Int(), 10))
	}
	sb.WriteString("]")
}

func show(s *Shape, v reflect.Value, l *lib, omitRawc bool) string {
	var sb strings.Builder
	render(&sb, s, v, l, omitRawc)
	return sb.String()
}
