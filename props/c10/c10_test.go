// C10 — the forked ASN.1 decoder is as strict as encoding/asn1; lax mode only
// adds the three documented acceptances.
//
// Engine B (bounded-exhaustive enumeration) over generated programs: every
// target type of a generated family is materialised twice with reflect (fork
// types / encoding/asn1 types) and every input of four families is decoded by
// encoding/asn1 (the oracle of strict mode, as the property states), by the fork
// in strict mode and by the fork in lax mode; the lax reference is
// encoding/asn1 applied to the input after an independent type-directed repair
// of the documented malformations (norm.go).
package c10

import (
	"bytes"
	"fmt"
	"os"
	"reflect"
	"runtime"
	"sort"
	"strings"
	"sync"
	"sync/atomic"
	"testing"
	"time"

	"verif/engine/enum"
	"verif/engine/rep"
)

type result struct {
	ok       bool
	panicked bool
	err      error
	msg      string
	val      string // full rendering
	valNR    string // rendering without RawContent heads
	rest     []byte
	ptr      reflect.Value
}

func hasRawHead(s *Shape) bool {
	switch s.K {
	case KStruct:
		if s.RawHead {
			return true
		}
		for _, f := range s.Fields {
			if hasRawHead(f.S) {
				return true
			}
		}
	case KSlice:
		return hasRawHead(s.Elem)
	}
	return false
}

func hasFieldLax(s *Shape) bool {
	switch s.K {
	case KStruct:
		for _, f := range s.Fields {
			if parseParams(f.Tag).lax || hasFieldLax(f.S) {
				return true
			}
		}
	case KSlice:
		return hasFieldLax(s.Elem)
	}
	return false
}

func run(l *lib, t *typ, b []byte, params string, rawHead bool) (res result) {
	ptr := reflect.New(t.s.gt[l.idx])
	var rest []byte
	var err error
	pan, msg, stack := enum.Catch(func() { rest, err = l.unm(b, ptr.Interface(), params) })
	if pan {
		return result{panicked: true, msg: msg + "\n" + stack}
	}
	if err != nil {
		return result{err: err}
	}
	res.ok = true
	res.rest = rest
	res.ptr = ptr
	res.val = show(t.s, ptr.Elem(), l, false)
	if rawHead {
		res.valNR = show(t.s, ptr.Elem(), l, true)
	} else {
		res.valNR = res.val
	}
	return
}

type caseDesc struct {
	Type   string `json:"type"`
	Params string `json:"params,omitempty"`
	Input  string `json:"input_hex"`
	Origin string `json:"origin"`
	Fork   string `json:"fork"`
	Ref    string `json:"reference"`
	Repair string `json:"repaired_input_hex,omitempty"`
}

type checker struct {
	r                                                        *rep.R
	nStrictAcc, nLaxOnly, nRepaired, nRoundtrip, nMarshalErr atomic.Int64
	nLaxOverlong, nDup, nNotCanon                            atomic.Int64
	classHits                                                [3]atomic.Int64
	nestedLaxOnly                                            atomic.Int64
	smu                                                      sync.Mutex
	sampled                                                  map[string]bool
}

func (c *checker) firstSample(key string) bool {
	c.smu.Lock()
	defer c.smu.Unlock()
	if c.sampled == nil {
		c.sampled = map[string]bool{}
	}
	if c.sampled[key] {
		return false
	}
	c.sampled[key] = true
	return true
}

func kindSuffix(s *Shape) string {
	m := map[string]bool{}
	s.leaves(m)
	if len(m) == 1 {
		for k := range m {
			return " kind=" + k
		}
	}
	return ""
}

func descr(x result) string {
	switch {
	case x.panicked:
		return "PANIC " + x.msg
	case !x.ok:
		return "reject: " + x.err.Error()
	}
	return "accept " + x.val + " rest=" + rep.Hex(x.rest)
}

// compare checks got (fork) against want (reference); prefix names the oracle.
func (c *checker) compare(prefix, extra string, t *typ, params string, b, repaired []byte, origin string, got, want result, wantVal, gotVal string) bool {
	cd := caseDesc{Type: t.s.String(), Params: params, Input: rep.Hex(b), Origin: origin, Fork: descr(got), Ref: descr(want)}
	if repaired != nil {
		cd.Repair = rep.Hex(repaired)
	}
	if got.ok != want.ok {
		rej := want.err
		if got.err != nil {
			rej = got.err
		}
		// the rejecting side's error text names the feature; the malformation classes stay out of the signature
		sig := fmt.Sprintf("%s-accept-mismatch fork_accepts=%v reference_accepts=%v err=%q", prefix, got.ok, want.ok, sanitizeErr(rej))
		c.r.Violation(sig, fmt.Sprintf("type %s params %q input %s (%s): fork: %s; reference: %s", t.s, params, rep.Hex(b), origin, descr(got), descr(want)), cd)
		return false
	}
	if !got.ok {
		return true
	}
	if gotVal != wantVal {
		c.r.Violation(prefix+"-value-mismatch"+extra+kindSuffix(t.s),
			fmt.Sprintf("type %s params %q input %s (%s): fork decoded %s, reference %s", t.s, params, rep.Hex(b), origin, gotVal, wantVal), cd)
		return false
	}
	if !bytes.Equal(got.rest, want.rest) {
		c.r.Violation(prefix+"-rest-mismatch"+extra+kindSuffix(t.s),
			fmt.Sprintf("type %s params %q input %s (%s): fork rest %x, reference rest %x", t.s, params, rep.Hex(b), origin, got.rest, want.rest), cd)
		return false
	}
	return true
}

func (c *checker) checkInput(t *typ, rawHead, fieldLax bool, b []byte, origin string, validDER bool) {
	c.r.Eval(1)
	laxParams := join(t.params, "lax")
	S := run(fork, t, b, t.params, rawHead)
	D := run(std, t, b, t.params, rawHead)
	L := run(fork, t, b, laxParams, rawHead)
	for _, x := range []struct {
		r    result
		mode string
	}{{S, "strict"}, {L, "lax"}} {
		if x.r.panicked {
			c.r.Violation("unmarshal-panic mode="+x.mode+kindSuffix(t.s), fmt.Sprintf("type %s params %q input %s: %s", t.s, t.params, rep.Hex(b), x.r.msg),
				caseDesc{Type: t.s.String(), Params: t.params, Input: rep.Hex(b), Origin: origin, Fork: "panic"})
		}
	}
	if D.panicked {
		panic("encoding/asn1 panicked: " + D.msg)
	}
	if S.panicked || L.panicked {
		return
	}
	if S.ok || D.ok || L.ok {
		c.r.Nontrivial(t.String() + "|" + string(b))
	}
	// Oracle A: strict mode == encoding/asn1 (after repairing inside field-scoped lax subtrees, if the type has any)
	if fieldLax {
		var n normalizer
		rb := n.repair(t.s, t.params, b)
		if !bytes.Equal(rb, b) {
			E := run(std, t, rb, t.params, rawHead)
			c.nRepaired.Add(1)
			if c.compare("fieldlax", " class="+n.classString(), t, t.params, b, rb, origin, S, E, n.substitute(E.valNR), S.valNR) && S.ok {
				c.nestedLaxOnly.Add(1)
			}
		} else {
			c.compare("strict", "", t, t.params, b, nil, origin, S, D, D.val, S.val)
		}
	} else {
		c.compare("strict", "", t, t.params, b, nil, origin, S, D, D.val, S.val)
	}
	if S.ok {
		c.nStrictAcc.Add(1)
		// Oracle B: lax accepts everything strict accepts, identically
		c.compare("lax-vs-strict", "", t, laxParams, b, nil, origin, L, S, S.val, L.val)
	}
	// Oracle C: lax == encoding/asn1 on the repaired input
	var n normalizer
	rb := n.repair(t.s, laxParams, b)
	if bytes.Equal(rb, b) {
		if !S.ok && L.ok {
			sig := "lax-only-acceptance-without-documented-malformation" + kindSuffix(t.s)
			if D.ok {
				sig = "lax-accepts-what-strict-wrongly-rejects" + kindSuffix(t.s)
			}
			c.r.Violation(sig, fmt.Sprintf("type %s params %q input %s (%s): strict fork: %s; lax fork: %s; encoding/asn1: %s; the input contains no non-minimal INTEGER, empty OID or 8-bit PrintableString where the type expects one",
				t.s, laxParams, rep.Hex(b), origin, descr(S), descr(L), descr(D)),
				caseDesc{Type: t.s.String(), Params: laxParams, Input: rep.Hex(b), Origin: origin, Fork: descr(L), Ref: descr(D)})
		}
	} else {
		c.nRepaired.Add(1)
		E := run(std, t, rb, t.params, rawHead)
		okc := c.compare("lax", " class="+n.classString(), t, laxParams, b, rb, origin, L, E, n.substitute(E.valNR), L.valNR)
		if okc && L.ok && !S.ok {
			c.nLaxOnly.Add(1)
			for i, h := range n.classes {
				if h {
					c.classHits[i].Add(1)
				}
			}
			if t.s.K == KStruct || t.s.K == KSlice || strings.Contains(t.params, "explicit") {
				c.nestedLaxOnly.Add(1)
			}
			if len(b) < 24 && c.r.WantSample() && c.firstSample(n.classString()+"|"+t.group) {
				c.r.Sample(map[string]any{"type": t.s.String(), "params": laxParams, "input": rep.Hex(b), "origin": origin, "class": n.classString(),
					"strict": descr(S), "lax": descr(L), "repaired_input": rep.Hex(rb), "encoding/asn1_on_repaired": descr(E)})
			}
		}
	}
	// Oracle D: strict DER round trip
	if validDER && S.ok {
		c.nRoundtrip.Add(1)
		var re []byte
		var merr error
		pan, msg, stack := enum.Catch(func() { re, merr = fork.mar(S.ptr.Elem().Interface(), t.params) })
		used := b[:len(b)-len(S.rest)]
		cd := caseDesc{Type: t.s.String(), Params: t.params, Input: rep.Hex(b), Origin: origin, Fork: fmt.Sprintf("%x err=%v", re, merr), Ref: rep.Hex(used)}
		switch {
		case pan:
			c.r.Violation("marshal-panic"+kindSuffix(t.s), "fork Marshal panicked on a decoded value: "+msg+"\n"+stack, cd)
		case merr != nil || !bytes.Equal(re, used):
			// "strict DER value" = an encoding that encoding/asn1 itself reproduces; encodings that upstream
			// does not reproduce either (RawValue ignoring explicit, trailing SEQUENCE elements, ...) are only counted
			var sre []byte
			var serr error = fmt.Errorf("encoding/asn1 rejects")
			if D.ok {
				sre, serr = std.mar(D.ptr.Elem().Interface(), t.params)
			}
			if serr != nil || !bytes.Equal(sre, used) {
				c.nNotCanon.Add(1)
				c.nRoundtrip.Add(-1)
				break
			}
			c.r.Violation("roundtrip-mismatch"+kindSuffix(t.s), fmt.Sprintf("type %s params %q: strict DER %s decodes to %s but re-marshals to %x (err=%v); encoding/asn1 reproduces the input", t.s, t.params, rep.Hex(used), S.val, re, merr), cd)
		}
	}
}

func (c *checker) runType(t *typ, shortLen int) {
	rawHead := hasRawHead(t.s)
	fieldLax := hasFieldLax(t.s)
	th := c.r.Thorough()
	seen := map[string]struct{}{}
	once := func(b []byte) bool {
		if _, ok := seen[string(b)]; ok {
			c.nDup.Add(1)
			return false
		}
		seen[string(b)] = struct{}{}
		return true
	}
	var valid [][]byte
	for _, v := range t.vals {
		var b []byte
		var err error
		pan, _, _ := enum.Catch(func() { b, err = std.mar(build(t.s, v, std).Interface(), t.params) })
		if pan || err != nil {
			c.nMarshalErr.Add(1)
			continue
		}
		if once(b) {
			c.checkInput(t, rawHead, fieldLax, b, "valid encoding by encoding/asn1", true)
			valid = append(valid, b)
		}
		singleMutations(b, th, func(m []byte, what string) {
			if once(m) {
				c.checkInput(t, rawHead, fieldLax, m, what+" of "+rep.Hex(b), false)
			}
		})
	}
	c.dirty(t, valid)
	forShort(shortLen, func(b []byte) {
		if _, ok := seen[string(b)]; ok {
			return
		}
		c.checkInput(t, rawHead, fieldLax, append([]byte{}, b...), "short string", false)
	})
}

// dirty: decoding into a destination that already holds the result of an earlier decode
// (callers reuse variables). encoding/asn1 defines what that means (slices are rebuilt,
// absent OPTIONAL members keep what the destination held); the fork must end with the same
// value in strict and in lax mode. Every ordered pair of up to 12 valid encodings of the type.
func (c *checker) dirty(t *typ, valid [][]byte) {
	if t.s.K != KStruct && t.s.K != KSlice {
		return
	}
	const maxDirty = 12
	if len(valid) > maxDirty {
		// keep the shortest, the longest and a spread in between
		sort.SliceStable(valid, func(i, j int) bool { return len(valid[i]) < len(valid[j]) })
		pick := make([][]byte, 0, maxDirty)
		for i := 0; i < maxDirty; i++ {
			pick = append(pick, valid[i*(len(valid)-1)/(maxDirty-1)])
		}
		valid = pick
	}
	two := func(l *lib, params string, b1, b2 []byte) (val string, ok bool, pmsg string) {
		ptr := reflect.New(t.s.gt[l.idx])
		var e1, e2 error
		pan, msg, stack := enum.Catch(func() {
			_, e1 = l.unm(b1, ptr.Interface(), params)
			_, e2 = l.unm(b2, ptr.Interface(), params)
		})
		if pan {
			return "", false, msg + "\n" + stack
		}
		if e1 != nil || e2 != nil {
			return fmt.Sprintf("err1=%v err2=%v", e1, e2), false, ""
		}
		return show(t.s, ptr.Elem(), l, false), true, ""
	}
	for _, b1 := range valid {
		for _, b2 := range valid {
			c.r.Eval(1)
			want, wok, _ := two(std, t.params, b1, b2)
			if !wok {
				continue
			}
			for _, mode := range []string{"strict", "lax"} {
				params := t.params
				if mode == "lax" {
					params = join(t.params, "lax")
				}
				got, gok, pmsg := two(fork, params, b1, b2)
				cd := caseDesc{Type: t.s.String(), Params: params, Input: rep.Hex(b1) + " then " + rep.Hex(b2), Origin: "two valid encodings decoded into the same destination", Fork: got, Ref: want}
				switch {
				case pmsg != "":
					c.r.Violation("unmarshal-panic reused-destination mode="+mode+kindSuffix(t.s), pmsg, cd)
				case !gok || got != want:
					c.r.Violation("reused-destination-value-mismatch mode="+mode+kindSuffix(t.s),
						fmt.Sprintf("type %s params %q: decoding %s and then %s into the same destination leaves %s; encoding/asn1 leaves %s", t.s, params, rep.Hex(b1), rep.Hex(b2), got, want), cd)
				}
			}
		}
	}
}

// bombs: sequential allocation checks (runtime.MemStats is process wide).
func (c *checker) bombs() {
	mk := func(s *Shape) *typ { s.prepare(); return &typ{s: s} }
	targets := []*typ{mk(leaf(KBytes)), mk(leaf(KStr)), mk(leaf(KOID)), mk(leaf(KBig)), mk(leaf(KBits)), mk(leaf(KRaw)), mk(leaf(KAny)),
		mk(sl(leaf(KInt))), mk(sl(leaf(KRaw))), mk(st(Field{"A", "", leaf(KBytes)})), mk(st(Field{"A", "explicit,tag:0", sl(leaf(KOID))}))}
	ids := []byte{0x04, 0x0c, 0x13, 0x06, 0x02, 0x03, 0x30, 0x31, 0xa0, 0x1e}
	lens := [][]byte{{0x84, 0x7f, 0xff, 0xff, 0xff}, {0x83, 0x7f, 0xff, 0xff}, {0x83, 0x10, 0x00, 0x00}, {0x82, 0xff, 0xff}, {0x88, 0x7f, 0xff, 0xff, 0xff, 0xff, 0xff, 0xff, 0xff}, {0x84, 0xff, 0xff, 0xff, 0xff}}
	measure := func(l *lib, t *typ, b []byte, params string) (delta uint64, err error, pan bool, msg string) {
		ptr := reflect.New(t.s.gt[l.idx])
		var m0, m1 runtime.MemStats
		runtime.ReadMemStats(&m0)
		pan, msg, _ = enum.Catch(func() { _, err = l.unm(b, ptr.Interface(), params) })
		runtime.ReadMemStats(&m1)
		return m1.TotalAlloc - m0.TotalAlloc, err, pan, msg
	}
	for _, t := range targets {
		for _, params := range []string{"", "lax"} {
			for _, id := range ids {
				for _, ln := range lens {
					for _, wrapped := range []bool{false, true} {
						b := cat([]byte{id}, ln, bytes.Repeat([]byte{0x30}, 12))
						if wrapped {
							b = cat([]byte{0x30, byte(len(b))}, b)
						}
						c.r.Eval(1)
						c.r.Add("length_bombs", 1)
						d, err, pan, msg := measure(fork, t, b, params)
						cd := caseDesc{Type: t.s.String(), Params: params, Input: rep.Hex(b), Origin: "length bomb"}
						switch {
						case pan:
							c.r.Violation("unmarshal-panic length-bomb", "length bomb panics: "+msg, cd)
						case err == nil && !wrapped:
							c.r.Violation("length-bomb-accepted", fmt.Sprintf("type %s: %x accepted", t.s, b), cd)
						case d > 256<<10:
							c.r.Violation("length-bomb-allocation", fmt.Sprintf("type %s: %d-byte input %x allocated %d bytes", t.s, len(b), b, d), cd)
						}
					}
				}
			}
		}
	}
	// amplification: large well-formed inputs must allocate O(len), and not much more than encoding/asn1 does
	many := func(e []byte, n int) []byte { return elem([]byte{0x30}, bytes.Repeat(e, n)) }
	oidBody := append([]byte{0x2a}, bytes.Repeat([]byte{0x01}, 60000)...)
	amps := []struct {
		t *typ
		b []byte
	}{
		{mk(sl(leaf(KRaw))), many([]byte{5, 0}, 30000)},
		{mk(sl(leaf(KInt))), many([]byte{2, 1, 1}, 30000)},
		{mk(sl(leaf(KInt))), many([]byte{2, 2, 0, 1}, 30000)},
		{mk(sl(leaf(KOID))), many([]byte{6, 0}, 30000)},
		{mk(sl(leaf(KStr))), many([]byte{0x13, 1, 0xe9}, 30000)},
		{mk(leaf(KOID)), elem([]byte{6}, oidBody)},
		{mk(leaf(KAny)), elem([]byte{6}, oidBody)},
		{mk(leaf(KBytes)), elem([]byte{4}, make([]byte, 200000))},
		{mk(sl(sl(leaf(KBool)))), many([]byte{0x30, 0}, 30000)},
	}
	for _, a := range amps {
		for _, params := range []string{"", "lax"} {
			c.r.Eval(1)
			c.r.Add("amplification_inputs", 1)
			d, _, pan, msg := measure(fork, a.t, a.b, params)
			ds, _, _, _ := measure(std, a.t, a.b, "")
			cd := caseDesc{Type: a.t.s.String(), Params: params, Input: rep.Hex(a.b), Origin: "large input", Fork: fmt.Sprint(d), Ref: fmt.Sprint(ds)}
			switch {
			case pan:
				c.r.Violation("unmarshal-panic large-input", msg, cd)
			case d > 256*uint64(len(a.b))+(1<<20), d > 4*ds+uint64(64*len(a.b))+(1<<20):
				c.r.Violation("allocation-amplification", fmt.Sprintf("type %s params %q: %d-byte input allocated %d bytes (encoding/asn1: %d)", a.t.s, params, len(a.b), d, ds), cd)
			}
		}
	}
}

var (
	prof     = os.Getenv("VERIF_C10_PROF") != ""
	profMu   sync.Mutex
	profT    = map[string]time.Duration{}
	profMax  time.Duration
	profMaxT string
)

func TestCheck(t *testing.T) {
	r := rep.New("C10", "exploration")
	th := r.Thorough()
	c := &checker{r: r}
	ts := genTypes(th)
	groups := map[string]int{}
	for _, x := range ts {
		groups[x.group]++
	}
	r.Set("types", len(ts))
	r.Set("types_by_group", groups)
	r.Set("toolchain", runtime.Version())
	r.Rule("target types = {20 leaf variants (int, int32, int64, *big.Int, bool, BitString, ObjectIdentifier, Enumerated, string x {-,printable,ia5,utf8,numeric}, []byte, time.Time x {-,utc,generalized}, RawValue, Flag, interface{})} x {16 modifier sets: optional / explicit / tag:n (incl. high tag 31,40) / default / application / private / set / omitempty} as top-level value, single struct field, first or second of two fields; SEQUENCE OF / SET OF / named ...SET / slice of slice / slice of struct of every leaf; depth-2 nestings (struct in struct under 5 outer modifiers, slice of struct, RawContent-headed structs, explicit wrappers; thorough: depth 3); field-scoped `lax` tags; X.509-like shapes. inputs per type = (i) encoding/asn1.Marshal of every boundary value (struct: product of field values), (ii) every entry of the malformation catalogue (documented: non-minimal INTEGER padding, empty contents, Latin-1 / T.61 contents; undocumented: 4 non-minimal/indefinite length forms, padded tag, 0x80 inserted at every content offset, 31 replacement contents incl. time strings, node deletion / duplication / wrapping / retagging to 16 universal tags, bytes appended inside) at every TLV position + every proper prefix + trailing bytes + 5 byte perturbations at every offset (thorough: also all pairs of documented malformations at two positions, and documented x byte+1), (iii) every byte string of length <= N over the 12-symbol alphabet {00 01 02 03 06 13 1f 30 80 81 a0 ff}. distinct_nontrivial = distinct (type, input) pairs accepted by at least one of encoding/asn1, fork strict, fork lax")
	r.Assume("encoding/asn1 of the installed default toolchain ("+runtime.Version()+") is the strict-mode oracle, as the property states; the documented list of deliberate strict-mode differences in the fork's package comment is empty apart from error text / Field diagnostics",
		"lax reference = encoding/asn1 applied to the input after a type-directed repair of non-minimal INTEGER/ENUMERATED contents, empty OBJECT IDENTIFIER contents and PrintableString contents outside the PrintableString set that are ISO 8859-1 graphic text or T.61 text; the table of unassigned T.61 code points (and NUL) is taken from the fork's documentation",
		"an INTEGER of more than 8 content octets aimed at a fixed-width Go integer is not counted as a documented relaxation (lax mode refuses it as too large; the statement only bounds lax acceptances from above)",
		"RawContent heads are compared between strict and lax runs, but left out when comparing a lax-only acceptance with the repaired input (they hold input bytes)",
		"targets are always non-nil pointers (the fork's missing nil / non-pointer check is a program error, outside the input quantifier)")
	shortAll, shortCore := 3, 4
	if th {
		shortAll, shortCore = 4, 5
	}
	r.Set("short_string_len_all_types", shortAll)
	r.Set("short_string_len_core_types", shortCore)
	// largest first so that the parallel tail is short
	order := make([]int, len(ts))
	for i := range order {
		order[i] = i
	}
	sort.SliceStable(order, func(a, b int) bool {
		ca, cb := ts[order[a]].core, ts[order[b]].core
		if ca != cb {
			return ca
		}
		return len(ts[order[a]].vals) > len(ts[order[b]].vals)
	})
	tStart := time.Now()
	done := enum.ParFor(len(ts), r.Expired, func(i int) {
		x := ts[order[i]]
		n := shortAll
		if x.core {
			n = shortCore
		}
		t0 := time.Now()
		pan, msg, stack := enum.Catch(func() { c.runType(x, n) })
		if prof {
			profMu.Lock()
			profT[x.group] += time.Since(t0)
			if d := time.Since(t0); d > profMax {
				profMax, profMaxT = d, x.String()
			}
			profMu.Unlock()
		}
		if pan {
			r.Violation("harness-panic", msg+"\n"+stack, x.String())
		}
	})
	if !done {
		r.Capped("deadline reached before all types were run")
	}
	if prof {
		fmt.Println("PROFILE parallel phase", time.Since(tStart), "slowest type", profMax, profMaxT)
		for g, d := range profT {
			fmt.Println("PROFILE", g, d)
		}
	}
	c.bombs()
	r.Set("strict_accepted_inputs", c.nStrictAcc.Load())
	r.Set("lax_only_acceptances_justified", c.nLaxOnly.Load())
	r.Set("lax_only_acceptances_in_nested_position", c.nestedLaxOnly.Load())
	r.Set("lax_only_by_class", map[string]int64{classNames[0]: c.classHits[0].Load(), classNames[1]: c.classHits[1].Load(), classNames[2]: c.classHits[2].Load()})
	r.Set("inputs_with_documented_malformation_in_lax_scope", c.nRepaired.Load())
	r.Set("roundtrips_checked", c.nRoundtrip.Load())
	r.Set("valid_encodings_not_reproduced_by_encoding/asn1_either", c.nNotCanon.Load())
	r.Set("values_encoding/asn1_cannot_marshal", c.nMarshalErr.Load())
	r.Set("duplicate_inputs_skipped", c.nDup.Load())
	r.Finish()
}
