package c10

// The lax-mode reference: a type-directed walk over the input that REPAIRS the
// three documented malformations wherever the lax flag is in scope, so that
//
//	fork(b, lax scope)  must behave exactly like  encoding/asn1(repair(b))
//
// (values compared after substituting the placeholders the repair introduced).
// The walk follows the element layout rules both libraries document (field
// order, OPTIONAL skipping on tag mismatch, EXPLICIT wrappers, SEQUENCE OF
// elements); it never looks at the fork's lax code. Where no lax flag is in
// scope, or nothing malformed is found, repair(b) == b and the oracle is plain
// equality with encoding/asn1.

import (
	"strconv"
	"strings"
)

type fparams struct {
	optional, explicit, application, private, set, lax bool
	tag                                                *int
	stringType                                         int
}

func parseParams(s string) (p fparams) {
	for _, part := range strings.Split(s, ",") {
		switch {
		case part == "optional":
			p.optional = true
		case part == "explicit":
			p.explicit = true
			if p.tag == nil {
				p.tag = new(int)
			}
		case part == "application":
			p.application = true
			if p.tag == nil {
				p.tag = new(int)
			}
		case part == "private":
			p.private = true
			if p.tag == nil {
				p.tag = new(int)
			}
		case part == "set":
			p.set = true
		case part == "lax":
			p.lax = true
		case part == "ia5":
			p.stringType = 22
		case part == "printable":
			p.stringType = 19
		case part == "numeric":
			p.stringType = 18
		case part == "utf8":
			p.stringType = 12
		case strings.HasPrefix(part, "tag:"):
			if i, err := strconv.Atoi(part[4:]); err == nil {
				p.tag = &i
			}
		}
	}
	return
}

type hdr struct {
	class, tag int
	compound   bool
	length     int
	hlen       int // bytes of identifier + length octets
	idlen      int // bytes of identifier octets
}

// parseHdr reads one DER identifier+length (X.690 8.1.2, 8.1.3, 10.1): minimal
// tag form, definite minimal length of at most 3 length octets.
func parseHdr(b []byte, off int) (h hdr, ok bool) { return parseHdrT(b, off, false) }

// parseHdrT with tolerant=true also walks over a tag number with a leading 0x80
// octet (not DER; encoding/asn1 refuses it), so that the repaired input keeps it
// and the reference verdict stays with encoding/asn1.
func parseHdrT(b []byte, off int, tolerant bool) (h hdr, ok bool) {
	if off >= len(b) {
		return
	}
	o := off
	c := b[o]
	o++
	h.class = int(c >> 6)
	h.compound = c&0x20 != 0
	h.tag = int(c & 0x1f)
	if h.tag == 0x1f {
		t := 0
		n := 0
		for {
			if o >= len(b) || n == 5 {
				return h, false
			}
			x := b[o]
			o++
			if n == 0 && x == 0x80 && !tolerant {
				return h, false
			}
			t = t<<7 | int(x&0x7f)
			n++
			if x&0x80 == 0 {
				break
			}
		}
		if t < 0x1f {
			return h, false
		}
		h.tag = t
	}
	h.idlen = o - off
	if o >= len(b) {
		return h, false
	}
	c = b[o]
	o++
	if c&0x80 == 0 {
		h.length = int(c)
	} else {
		n := int(c & 0x7f)
		if n == 0 || n > 3 {
			return h, false
		}
		for i := 0; i < n; i++ {
			if o >= len(b) {
				return h, false
			}
			h.length = h.length<<8 | int(b[o])
			if h.length == 0 {
				return h, false
			}
			o++
		}
		if h.length < 0x80 {
			return h, false
		}
	}
	h.hlen = o - off
	return h, true
}

func encLen(dst []byte, n int) []byte {
	switch {
	case n < 0x80:
		return append(dst, byte(n))
	case n < 0x100:
		return append(dst, 0x81, byte(n))
	case n < 0x10000:
		return append(dst, 0x82, byte(n>>8), byte(n))
	default:
		return append(dst, 0x83, byte(n>>16), byte(n>>8), byte(n))
	}
}

func isStdPrintable(b byte) bool {
	return 'a' <= b && b <= 'z' || 'A' <= b && b <= 'Z' || '0' <= b && b <= '9' ||
		strings.IndexByte(" '()+,-./:=?*&", b) >= 0
}

// t61Unassigned: code points the fork's documentation lists as not being T.61.
var t61Unassigned = func() (m [256]bool) {
	for _, c := range []byte{0x00, 0x23, 0x24, 0x5C, 0x5E, 0x60, 0x7B, 0x7D, 0x7E, 0xA5, 0xA6, 0xAC, 0xAD, 0xAE, 0xAF,
		0xB9, 0xBA, 0xC0, 0xC9, 0xD0, 0xD1, 0xD2, 0xD3, 0xD4, 0xD5, 0xD6, 0xD7, 0xD8, 0xD9,
		0xDA, 0xDB, 0xDC, 0xDE, 0xDF, 0xE5, 0xFF} {
		m[c] = true
	}
	return
}()

type sub struct{ from, to string }

type normalizer struct {
	subs    []sub
	classes [3]bool // nonminimal-integer, empty-oid, printable-latin1-or-t61
	nph     int
}

var classNames = [3]string{"nonminimal-integer", "empty-oid", "printablestring-8bit"}

func (n *normalizer) classString() string {
	var s []string
	for i, c := range n.classes {
		if c {
			s = append(s, classNames[i])
		}
	}
	return strings.Join(s, "+")
}

func minimalInt(c []byte) []byte {
	for len(c) >= 2 && ((c[0] == 0 && c[1]&0x80 == 0) || (c[0] == 0xff && c[1]&0x80 != 0)) {
		c = c[1:]
	}
	return c
}

func (n *normalizer) repairInt(c []byte, fixed bool) []byte {
	m := minimalInt(c)
	if len(m) == len(c) || (fixed && len(c) > 8) {
		return c
	}
	n.classes[0] = true
	return m
}

func (n *normalizer) repairOID(c []byte) []byte {
	if len(c) != 0 {
		return c
	}
	n.classes[1] = true
	k := n.nph
	n.nph++
	n.subs = append(n.subs, sub{"oid[1 3 6 1 4 1 9999 " + strconv.Itoa(k) + "]", "oid[]"})
	return []byte{0x2b, 0x06, 0x01, 0x04, 0x01, 0xce, 0x0f, byte(k)}
}

func (n *normalizer) repairPrintable(c []byte) []byte {
	bad, latin1, t61 := false, true, true
	for _, b := range c {
		if !isStdPrintable(b) {
			bad = true
		}
		if b < 0x20 || (b >= 0x7f && b < 0xa0) {
			latin1 = false
		}
		if t61Unassigned[b] {
			t61 = false
		}
	}
	if !bad {
		return c
	}
	var want string
	switch {
	case latin1:
		r := make([]rune, len(c))
		for i, b := range c {
			r[i] = rune(b)
		}
		want = string(r)
	case t61:
		want = string(c)
	default:
		return c // neither: stays an error
	}
	n.classes[2] = true
	ph := "ZQ" + strconv.Itoa(n.nph)
	n.nph++
	n.subs = append(n.subs, sub{"str(" + strconv.Quote(ph) + ")", "str(" + strconv.Quote(want) + ")"})
	return []byte(ph)
}

func universalOf(s *Shape) (matchAny bool, tag int, compound bool) {
	switch s.K {
	case KRaw:
		return true, -1, false
	case KInt, KInt32, KInt64, KBig:
		return false, 2, false
	case KBool, KFlag:
		return false, 1, false
	case KBits:
		return false, 3, false
	case KOID:
		return false, 6, false
	case KEnum:
		return false, 10, false
	case KStr:
		return false, 19, false
	case KBytes:
		return false, 4, false
	case KTime:
		return false, 23, false
	case KStruct:
		return false, 16, true
	case KSlice:
		if s.SetNamed {
			return false, 17, true
		}
		return false, 16, true
	}
	return false, 0, false
}

// field walks one element expected at data[off:] for shape s. It returns the
// (possibly repaired) bytes standing for data[off:next]. ok=false means the
// walk cannot continue (the decoders will fail here too); the caller then
// copies the remainder unchanged.
func (n *normalizer) field(s *Shape, p fparams, lax bool, data []byte, off int) (out []byte, next int, ok bool) {
	lax = lax || p.lax
	if off == len(data) {
		return nil, off, true
	}
	if s.K == KAny {
		h, good := parseHdrT(data, off, true)
		if !good || off+h.hlen+h.length > len(data) {
			return nil, off, false
		}
		end := off + h.hlen + h.length
		c := data[off+h.hlen : end]
		nc := c
		if lax && !h.compound && h.class == 0 {
			switch h.tag {
			case 2:
				nc = n.repairInt(c, true)
			case 6:
				nc = n.repairOID(c)
			case 19:
				nc = n.repairPrintable(c)
			}
		}
		out = append(out, data[off:off+h.idlen]...)
		out = encLen(out, len(nc))
		out = append(out, nc...)
		return out, end, true
	}
	h, good := parseHdrT(data, off, true)
	if !good {
		return nil, off, false
	}
	o := off + h.hlen
	var outer *hdr
	outerOff := off
	if p.explicit {
		expClass := 2
		if p.application {
			expClass = 1
		}
		if o == len(data) {
			return nil, off, false
		}
		if h.class == expClass && h.tag == *p.tag && (h.length == 0 || h.compound) {
			if s.K == KRaw {
				// not unwrapped
			} else if h.length > 0 {
				oh := h
				outer = &oh
				h, good = parseHdrT(data, o, true)
				if !good {
					return nil, off, false
				}
				off = o
				o = off + h.hlen
			} else {
				if s.K != KFlag {
					return nil, off, false
				}
				return append([]byte{}, data[off:o]...), o, true
			}
		} else {
			if p.optional {
				return nil, off, true
			}
			return nil, off, false
		}
	}
	matchAny, utag, compound := universalOf(s)
	if utag == 19 {
		if h.class == 0 {
			switch h.tag {
			case 22, 27, 20, 12, 18, 30:
				utag = h.tag
			}
		} else if p.stringType != 0 {
			utag = p.stringType
		}
	}
	if utag == 23 && h.tag == 24 && h.class == 0 {
		utag = 24
	}
	if p.set {
		utag = 17
	}
	matchAnyCT := matchAny
	expClass, expTag := 0, utag
	if !p.explicit && p.tag != nil {
		expClass, expTag, matchAnyCT = 2, *p.tag, false
		if p.application {
			expClass = 1
		}
		if p.private {
			expClass = 3
		}
	}
	if (!matchAnyCT && (h.class != expClass || h.tag != expTag)) || (!matchAny && h.compound != compound) {
		if p.optional {
			return nil, outerOff, true
		}
		return nil, outerOff, false
	}
	if o+h.length > len(data) {
		return nil, outerOff, false
	}
	end := o + h.length
	c := data[o:end]
	nc := c
	switch s.K {
	case KInt, KInt32, KInt64, KEnum:
		if lax {
			nc = n.repairInt(c, true)
		}
	case KBig:
		if lax {
			nc = n.repairInt(c, false)
		}
	case KOID:
		if lax {
			nc = n.repairOID(c)
		}
	case KStr:
		if lax && utag == 19 {
			nc = n.repairPrintable(c)
		}
	case KStruct:
		var buf []byte
		io := 0
		for _, f := range s.Fields {
			fo, nx, good := n.field(f.S, parseParams(f.Tag), lax, c, io)
			if !good {
				break
			}
			buf = append(buf, fo...)
			io = nx
		}
		buf = append(buf, c[io:]...)
		nc = buf
	case KSlice:
		var buf []byte
		io := 0
		for io < len(c) {
			fo, nx, good := n.field(s.Elem, fparams{}, lax, c, io)
			if !good || nx == io {
				break
			}
			buf = append(buf, fo...)
			io = nx
		}
		buf = append(buf, c[io:]...)
		nc = buf
	}
	inner := append([]byte{}, data[off:off+h.idlen]...)
	inner = encLen(inner, len(nc))
	inner = append(inner, nc...)
	if outer != nil {
		ol := outer.length
		if ol == end-off {
			ol = len(inner)
		}
		out = append(out, data[outerOff:outerOff+outer.idlen]...)
		out = encLen(out, ol)
		out = append(out, inner...)
		return out, end, true
	}
	return inner, end, true
}

// repair returns the repaired input for (shape, top-level params).
func (n *normalizer) repair(s *Shape, params string, b []byte) []byte {
	out, next, _ := n.field(s, parseParams(params), false, b, 0)
	res := append([]byte{}, out...)
	return append(res, b[next:]...)
}

func (n *normalizer) substitute(rendered string) string {
	for _, s := range n.subs {
		rendered = strings.Replace(rendered, s.from, s.to, 1)
	}
	return rendered
}
