// C03 — the precertificate route and the embedded-SCT route yield the identical log entry.
//
// Engine B (bounded-exhaustive enumeration). Every TBSCertificate template of
// a stated finite space is built twice with the independent DER builder
// (ref/der, ref/pki): once as a precertificate (CT poison at position p, signed
// by the final issuer or by a dedicated precertificate-signing certificate)
// and once as the corresponding final certificate (SCT list at position p).
// The expected log entry is built a third time from the same template: the TBS
// without the target extension, with the final issuer's name / AKI, and the
// final issuer's key hash, wrapped by the hand-written RFC 6962 encoder
// ref/ct6962. The library's outputs (BuildPrecertTBS, RemoveSCTList,
// RemoveCTPoison, MerkleTreeLeafFromChain / FromRawChain / ForEmbeddedSCT,
// ctutil.VerifySCT / LeafHash, Certificate.SCTList, x509util / submission SCT
// list helpers) are compared with those bytes. Expected bytes never come from
// a serializer of the repository.
package c03

import (
	"bytes"
	"encoding/hex"
	"fmt"
	"os"
	"runtime"
	"runtime/pprof"
	"strings"
	"sync"
	"testing"

	"verif/engine/enum"
	"verif/engine/rep"
	ref "verif/ref/ct6962"
	"verif/ref/der"
	"verif/ref/pki"

	ct "github.com/google/certificate-transparency-go"
	"github.com/google/certificate-transparency-go/ctutil"
	"github.com/google/certificate-transparency-go/submission"
	"github.com/google/certificate-transparency-go/tls"
	"github.com/google/certificate-transparency-go/x509"
	"github.com/google/certificate-transparency-go/x509util"
)

type parsedIssuer struct {
	root, ca *x509.Certificate
	pre      [nPre]*x509.Certificate
}

type checker struct {
	r       *rep.R
	th      bool
	al      []nb
	issuers []*issuer
	px      map[*issuer]*parsedIssuer
	logEC   *pki.Key
	logRSA  *pki.Key
	logBad  *pki.Key
	statMu  sync.Mutex
	stat    [3]int64
}

const baseTS = uint64(1700000000000)

// ----------------------------------------------------------------------------
// SCTs

type sctSpec struct {
	kind string // "ok" or the way in which the signed entry is wrong
	ext  int    // 0 empty, 1 one byte, 2 long (300 bytes), 3 very long (4000 bytes)
	rsa  bool
}

func (s sctSpec) String() string {
	a := "ecdsa"
	if s.rsa {
		a = "rsa"
	}
	return fmt.Sprintf("%s/ext%d/%s", s.kind, s.ext, a)
}

var extLens = []int{0, 1, 300, 4000}

type builtSCT struct {
	spec   sctSpec
	ts     uint64
	ext    []byte
	key    *pki.Key
	ser    []byte // reference serialization (SerializedSCT content)
	lib    *ct.SignedCertificateTimestamp
	wantOK bool
	ver    byte // version octet of the serialization (0 = v1)
}

// signedEntries are the candidate entries an SCT may have been signed over.
type signedEntries map[string]ref.SignedEntry

func (c *checker) buildSCT(sp sctSpec, ts uint64, entries signedEntries) *builtSCT {
	b := &builtSCT{spec: sp, ts: ts, ext: bytesPat(extLens[sp.ext], 0xe0), key: c.logEC, wantOK: sp.kind == "ok" || sp.kind == "not-embedded"}
	sigAlg := uint8(3) // ecdsa (RFC 5246 s7.4.1.4.1)
	if sp.rsa {
		b.key, sigAlg = c.logRSA, 1
	}
	signKey, signTS, signExt := b.key, ts, b.ext
	entry, ok := entries[sp.kind]
	switch sp.kind {
	case "ok", "not-embedded", "version-1", "version-255":
		entry = entries["ok"]
	case "timestamp+1":
		entry, signTS = entries["ok"], ts+1
	case "other-log-key":
		entry, signKey = entries["ok"], c.logBad
	case "ext-differs":
		entry, signExt = entries["ok"], append(append([]byte{}, b.ext...), 0)
	default:
		if !ok {
			panic("harness: no entry for SCT kind " + sp.kind)
		}
	}
	input, err := ref.AppendSCTSignatureInput(nil, ref.V1, signTS, entry, signExt)
	if err != nil {
		panic(err)
	}
	sig := signKey.SignTBS(input) // SHA-256 + ECDSA (ASN.1) resp. PKCS#1 v1.5, std crypto
	r := ref.SCT{Version: ref.V1, LogID: b.key.KeyHash(), Timestamp: ts, Extensions: b.ext,
		Signature: ref.DigitallySigned{Hash: 4, Sig: sigAlg, Signature: sig}}
	if b.ser, err = ref.AppendSCT(nil, r); err != nil {
		panic(err)
	}
	b.lib = &ct.SignedCertificateTimestamp{SCTVersion: ct.V1, LogID: ct.LogID{KeyID: b.key.KeyHash()}, Timestamp: ts,
		Extensions: ct.CTExtensions(b.ext),
		Signature:  ct.DigitallySigned{Algorithm: tls.SignatureAndHashAlgorithm{Hash: tls.SHA256, Signature: tls.SignatureAlgorithm(sigAlg)}, Signature: sig}}
	// an element whose version octet is not v1 (a later protocol version, laid out like v1 here): it is an element of the
	// list like any other - the list read back has it, in its place - and it verifies as nothing
	switch sp.kind {
	case "version-1":
		b.ver = 1
	case "version-255":
		b.ver = 255
	}
	if b.ver != 0 {
		b.ser[0] = b.ver
		b.lib.SCTVersion = ct.Version(b.ver)
	}
	return b
}

func refLeaf(ts uint64, e ref.SignedEntry, ext []byte) []byte {
	b, err := ref.AppendMerkleTreeLeaf(nil, ref.MerkleTreeLeaf{Version: ref.V1, LeafType: ref.TimestampedEntryLeaf,
		Entry: ref.TimestampedEntry{Timestamp: ts, SignedEntry: e, Extensions: ext}})
	if err != nil {
		panic(err)
	}
	return b
}

// ----------------------------------------------------------------------------
// one case of the commutation law

type spec struct {
	fam     string
	is      *issuer
	mode    int // 0: final issuer signs the precertificate; 1+v: pre-issuer variant v signs it
	lay     layout
	serial  serialV
	val     validityV
	uid     uidV
	subjN   int
	subjKey string
	scts    []sctSpec
	flip    bool // the target extension carries the opposite criticality flag (poison non-critical, SCT list critical)
	realSig bool // RSA-signed certificates carry a real signature (always true for the other key types); also the deeper SCT checks
}

func (c *checker) modeLabel(s *spec) string {
	if s.mode == 0 {
		return "issuance=direct"
	}
	leaf, pre := s.lay.hasAKI(), s.is.preAKI[s.mode-1] != nil
	a := "neither"
	switch {
	case leaf && pre:
		a = "both"
	case leaf:
		a = "leaf-only"
	case pre:
		a = "preissuer-only"
	}
	if s.mode-1 == preFullAKI {
		a += "(full-form)"
	}
	return "issuance=preissuer aki=" + a
}

func (c *checker) describe(s *spec) map[string]any {
	var ss []string
	for _, x := range s.scts {
		ss = append(ss, x.String())
	}
	return map[string]any{"family": s.fam, "issuer_key": s.is.kind, "issuer_name": s.is.nameLbl, "issuance": c.modeLabel(s),
		"extensions": s.lay.String(c.al), "serial": s.serial.label, "validity": s.val.label, "unique_ids": s.uid.label,
		"subject_name": s.subjN, "subject_key": s.subjKey, "scts": strings.Join(ss, " "), "target_criticality_flipped": s.flip}
}

type caseCtx struct {
	c        *checker
	s        *spec
	mode     string // full issuance label (direct | preissuer aki=...)
	noExts   bool   // the expected entry TBS carries no extension at all
	upstream bool   // a TBS or leaf comparison already failed in this case
	stage    string
	extra    map[string][]byte
}

const noExtsLeft = "remaining-extensions=0"

// Signature strata. A signature names the oracle, the API and the field that
// differs; the issuance arrangement is added only where it can matter: not for
// the APIs that never look at the issuer (RemoveSCTList, RemoveCTPoison,
// MerkleTreeLeafForEmbeddedSCT), coarsely (direct / preissuer) for the issuer
// name and the issuer key hash, in full (AKI sub-case) for the extension list.
// Oracles downstream of an entry mismatch say so instead of repeating it.
func (k *caseCtx) coarse() string {
	if k.s.mode == 0 {
		return "issuance=direct"
	}
	return "issuance=preissuer"
}

func (k *caseCtx) fieldCtx(field string, modeSensitive, wantHasExts bool) string {
	switch {
	case !wantHasExts:
		return noExtsLeft
	case !modeSensitive:
		return ""
	case field == "issuer" || field == "issuer_key_hash" || field == "error":
		return k.coarse()
	case strings.Contains(field, "extensions"):
		return k.mode
	}
	return ""
}

func (k *caseCtx) down() string {
	switch {
	case k.noExts:
		return noExtsLeft
	case k.upstream:
		return "after-entry-mismatch"
	}
	return k.coarse()
}

func (k *caseCtx) viol(sig, detail string) { k.violCtx(k.down(), sig, detail) }

func (k *caseCtx) violCtx(ctx, sig, detail string) {
	d := k.c.describe(k.s)
	for a, b := range k.extra {
		d[a] = hx(b)
	}
	d["detail"] = detail
	if ctx != "" {
		sig += " " + ctx
	}
	k.c.r.Violation(sig, sig+" ["+k.mode+"; "+k.s.lay.String(k.c.al)+"]: "+detail, d)
}

// hasExtensions: does the (reference-built) TBS carry an extensions field?
func hasExtensions(tbs []byte) bool {
	fs, _ := tlvs(content(tbs))
	return len(fs) > 0 && fs[len(fs)-1][0] == 0xa3
}

func hx(b []byte) string { return hex.EncodeToString(b) }

func (k *caseCtx) tbsCheck(api string, modeSensitive bool, got []byte, err error, want []byte) bool {
	if err != nil {
		k.upstream = true
		k.violCtx(k.fieldCtx("error", modeSensitive, hasExtensions(want)), "tbs-error "+api, fmt.Sprintf("%s failed on a canonical template: %v", api, err))
		return false
	}
	if !bytes.Equal(got, want) {
		k.upstream = true
		f := diffField(got, want)
		k.violCtx(k.fieldCtx(f, modeSensitive, hasExtensions(want)), "tbs-bytes "+api+" field="+f,
			fmt.Sprintf("%s returned %s, the template without the target extension is %s", api, hx(got), hx(want)))
		return false
	}
	return true
}

func leafBytes(l *ct.MerkleTreeLeaf) ([]byte, error) {
	if l == nil {
		return nil, fmt.Errorf("nil leaf")
	}
	return tls.Marshal(*l)
}

func (k *caseCtx) leafCheck(api string, modeSensitive bool, l *ct.MerkleTreeLeaf, err error, want []byte, wantEntry ref.SignedEntry) []byte {
	if err != nil {
		k.upstream = true
		k.violCtx(k.fieldCtx("error", modeSensitive, !k.noExts), "leaf-error "+api, fmt.Sprintf("%s failed on a canonical chain: %v", api, err))
		return nil
	}
	got, err := leafBytes(l)
	if err != nil {
		k.upstream = true
		k.violCtx(k.fieldCtx("error", modeSensitive, !k.noExts), "leaf-error "+api, fmt.Sprintf("%s returned a leaf that does not serialize: %v", api, err))
		return nil
	}
	if !bytes.Equal(got, want) {
		k.upstream = true
		part, field := "framing", ""
		if g, perr := ref.ParseMerkleTreeLeaf(got); perr == nil {
			switch {
			case g.Entry.EntryType != wantEntry.EntryType:
				part = "entry_type"
			case g.Entry.IssuerKeyHash != wantEntry.IssuerKeyHash:
				part, field = "issuer_key_hash", "issuer_key_hash"
			case !bytes.Equal(g.Entry.TBS, wantEntry.TBS):
				field = diffField(g.Entry.TBS, wantEntry.TBS)
				part = "tbs_certificate/" + field
			default:
				part = "timestamp-or-extensions"
			}
		}
		k.violCtx(k.fieldCtx(field, modeSensitive, !k.noExts), "leaf-bytes "+api+" part="+part, fmt.Sprintf("%s gives %s, reference leaf is %s", api, hx(got), hx(want)))
	}
	return got
}

func (c *checker) run(s *spec) {
	k := &caseCtx{c: c, s: s, mode: c.modeLabel(s), extra: map[string][]byte{}}
	pan, msg, stack := enum.Catch(func() { c.runCase(k) })
	if pan {
		k.violCtx("", "panic at "+k.stage, msg+"\n"+stack)
	}
}

func (c *checker) runCase(k *caseCtx) {
	s, al, is := k.s, c.al, k.s.is
	px := c.px[is]
	direct := s.mode == 0
	v := s.mode - 1
	c.r.Eval(1)

	// ---- the three templates -------------------------------------------------
	signer, signerName, signerKeyID := is.caKey, is.caName, is.caKeyID
	if !direct {
		signer, signerName, signerKeyID = is.preKey, is.preName, is.preKeyID
	}
	_, subj := nameVariant(s.subjN, "leaf.example")
	base := tmpl{serial: s.serial.mag, sigAlg: is.caKey.SigAlgDER(), issuer: is.caName, notBefore: s.val.nb, notAfter: s.val.na,
		subject: subj, spki: pki.LoadKey(s.subjKey).SPKI, issuerUID: s.uid.iss, subjectUID: s.uid.sub}
	leafAKI := s.lay.hasAKI()
	// the (pre)certificate's own AKI extension is marked critical in half of the layouts that have one (rotating
	// with the layout): the transformation replaces the AKI's value, the flag is the certificate's own
	akiX := akiExt
	if leafAKI && (len(s.lay.nbs)+s.lay.pos)%2 == 1 {
		akiX = func(value []byte) []byte { return pki.Ext{OID: pki.OIDAKI, Critical: true, Value: value}.DER() }
	}
	var akiFinal []byte // AKI extension of the final certificate and of the log entry
	appendAKI := false
	switch {
	case direct:
		if leafAKI {
			akiFinal = akiX(pki.ExtAKI(is.caKeyID).Value)
		}
	case is.preAKI[v] != nil:
		akiFinal = akiX(is.preAKI[v])
		appendAKI = !leafAKI
	}
	akiP := akiX(pki.ExtAKI(signerKeyID).Value)
	extsR := resolve(al, s.lay.nbs, akiFinal)
	if appendAKI {
		extsR = append(extsR, akiFinal)
	}
	k.noExts = len(extsR) == 0
	R := base.with(extsR).tbs()
	preT := base
	preT.issuer = signerName
	poison := pki.ExtPoison().DER()
	if s.flip {
		poison = ext(pki.OIDPoison, false, der.Null())
	}
	Ptbs := preT.with(insertAt(al, s.lay.nbs, akiP, s.lay.pos, poison)).tbs()
	RP := preT.with(resolve(al, s.lay.nbs, akiP)).tbs()
	Pder := cert(Ptbs, signer, s.realSig)

	caHash := is.caKey.KeyHash()
	entries := signedEntries{
		"ok":            {EntryType: ref.PrecertEntry, IssuerKeyHash: caHash, TBS: R},
		"poisoned-tbs":  {EntryType: ref.PrecertEntry, IssuerKeyHash: caHash, TBS: Ptbs},
		"ikh-root":      {EntryType: ref.PrecertEntry, IssuerKeyHash: is.root.T.Key.KeyHash(), TBS: R},
		"ikh-preissuer": {EntryType: ref.PrecertEntry, IssuerKeyHash: is.preKey.KeyHash(), TBS: R},
		"unswapped":     {EntryType: ref.PrecertEntry, IssuerKeyHash: caHash, TBS: RP},
		"x509-entry":    {EntryType: ref.X509Entry, Cert: Pder},
	}
	var scts []*builtSCT
	var embedded [][]byte
	var embB []*builtSCT // the embedded SCTs, element for element (an SCT may be embedded more than once)
	for i, sp := range s.scts {
		if sp.kind == "unswapped" && (direct || bytes.Equal(RP, R)) {
			continue // identical to "ok" when nothing is swapped (also: a signing certificate named like its issuer, no AKI anywhere)
		}
		if strings.HasPrefix(sp.kind, "repeat-") {
			// the list is a list, not a set: the same serialized SCT embedded again
			if len(embB) == 0 {
				continue
			}
			src := embB[len(embB)-1]
			if sp.kind == "repeat-first" {
				src = embB[0]
			}
			embedded, embB = append(embedded, src.ser), append(embB, src)
			continue
		}
		b := c.buildSCT(sp, baseTS+uint64(i)*1000, entries)
		scts = append(scts, b)
		if sp.kind != "not-embedded" {
			embedded, embB = append(embedded, b.ser), append(embB, b)
		}
	}
	sctListTLS, err := ref.AppendSCTList(nil, embedded)
	if err != nil {
		panic(err)
	}
	sctExt := pki.ExtSCTList(sctListTLS).DER()
	if s.flip {
		sctExt = ext(pki.OIDSCTList, true, der.OctetString(sctListTLS))
	}
	extsF := insertAt(al, s.lay.nbs, akiFinal, s.lay.pos, sctExt)
	if appendAKI {
		extsF = append(extsF, akiFinal)
	}
	Ftbs := base.with(extsF).tbs()
	Fder := cert(Ftbs, is.caKey, s.realSig)
	k.extra["precert_tbs"], k.extra["final_tbs"], k.extra["expected_entry_tbs"] = Ptbs, Ftbs, R
	c.r.Nontrivial(k.mode + "|" + fmt.Sprint(s.flip) + string(Ptbs) + "|" + string(R) + "|" + fmt.Sprint(s.scts))
	c.count(lenWidthChanges(Ptbs, R), lenWidthChanges(Ftbs, R), len(extsR) == 0)

	// ---- (b) the TBS transformation, byte for byte -----------------------------
	var preX *x509.Certificate
	if !direct {
		preX = px.pre[v]
	}
	inP, inF := append([]byte{}, Ptbs...), append([]byte{}, Ftbs...)
	k.stage = "x509.BuildPrecertTBS"
	got, err := x509.BuildPrecertTBS(inP, preX)
	k.tbsCheck("BuildPrecertTBS", true, got, err, R)
	k.stage = "x509.RemoveCTPoison"
	got, err = x509.RemoveCTPoison(inP)
	k.tbsCheck("RemoveCTPoison", false, got, err, RP)
	k.stage = "x509.RemoveSCTList"
	got, err = x509.RemoveSCTList(inF)
	k.tbsCheck("RemoveSCTList", false, got, err, R)
	if !bytes.Equal(inP, Ptbs) || !bytes.Equal(inF, Ftbs) {
		k.violCtx("", "input-modified tbs-transformation", "the caller's TBS buffer was modified")
	}
	// the wrong remover must refuse: the other route's target is absent
	k.stage = "x509.RemoveSCTList(precert)"
	if got, err = x509.RemoveSCTList(inP); err == nil {
		k.violCtx("", "must-fail RemoveSCTList target=absent(precert)", "RemoveSCTList succeeded on a TBS without SCT list: "+hx(got))
	}
	k.stage = "x509.RemoveCTPoison(final)"
	if got, err = x509.RemoveCTPoison(inF); err == nil {
		k.violCtx("", "must-fail RemoveCTPoison target=absent(final)", "RemoveCTPoison succeeded on a TBS without poison: "+hx(got))
	}

	// ---- (a) both routes give the reference log entry --------------------------
	k.stage = "x509.ParseCertificate(precert)"
	Px, err := x509.ParseCertificate(Pder)
	if err != nil {
		k.violCtx("", "parse-error precertificate", fmt.Sprintf("ParseCertificate: %v", err))
		return
	}
	k.stage = "x509.ParseCertificate(final)"
	Fx, err := x509.ParseCertificate(Fder)
	if err != nil {
		k.violCtx("", "parse-error final-certificate", fmt.Sprintf("ParseCertificate: %v", err))
		return
	}
	chainF := []*x509.Certificate{Fx, px.ca, px.root}
	chainP := []*x509.Certificate{Px, px.ca, px.root}
	rawP := []ct.ASN1Cert{{Data: Pder}, {Data: is.caDER}, {Data: is.root.DER}}
	if !direct {
		chainP = []*x509.Certificate{Px, preX, px.ca, px.root}
		rawP = []ct.ASN1Cert{{Data: Pder}, {Data: is.preDER[v]}, {Data: is.caDER}, {Data: is.root.DER}}
	}
	ts0 := baseTS
	want := refLeaf(ts0, entries["ok"], nil)
	k.stage = "ct.MerkleTreeLeafFromChain"
	l1, err := ct.MerkleTreeLeafFromChain(chainP, ct.PrecertLogEntryType, ts0)
	b1 := k.leafCheck("MerkleTreeLeafFromChain", true, l1, err, want, entries["ok"])
	k.stage = "ct.MerkleTreeLeafFromRawChain"
	l2, err := ct.MerkleTreeLeafFromRawChain(rawP, ct.PrecertLogEntryType, ts0)
	k.leafCheck("MerkleTreeLeafFromRawChain", true, l2, err, want, entries["ok"])
	k.stage = "ct.MerkleTreeLeafForEmbeddedSCT"
	l3, err := ct.MerkleTreeLeafForEmbeddedSCT(chainF, ts0)
	b3 := k.leafCheck("MerkleTreeLeafForEmbeddedSCT", false, l3, err, want, entries["ok"])
	if b1 != nil && b3 != nil && !bytes.Equal(b1, b3) {
		k.viol("route-mismatch precert-chain-vs-embedded-sct", fmt.Sprintf("precert route %s, embedded route %s", hx(b1), hx(b3)))
	}
	if !bytes.Equal(Px.RawTBSCertificate, Ptbs) || !bytes.Equal(Fx.RawTBSCertificate, Ftbs) {
		k.violCtx("", "input-modified parsed-certificate", "RawTBSCertificate changed under the leaf builders")
	}

	// ---- (c) the SCT list reads back element for element -----------------------
	k.stage = "Certificate.SCTList"
	if !bytes.Equal(Fx.RawSCT, sctListTLS) {
		k.violCtx("", "sctlist-readback Certificate.RawSCT", fmt.Sprintf("RawSCT %s, embedded %s", hx(Fx.RawSCT), hx(sctListTLS)))
	}
	if len(Fx.SCTList.SCTList) != len(embedded) {
		k.violCtx("", "sctlist-readback Certificate.SCTList count", fmt.Sprintf("%d elements read back, %d embedded", len(Fx.SCTList.SCTList), len(embedded)))
	} else {
		for i := range embedded {
			if !bytes.Equal(Fx.SCTList.SCTList[i].Val, embedded[i]) {
				k.violCtx("", "sctlist-readback Certificate.SCTList element", fmt.Sprintf("element %d is %s, embedded %s", i, hx(Fx.SCTList.SCTList[i].Val), hx(embedded[i])))
				break
			}
		}
	}
	if len(Px.SCTList.SCTList) != 0 || len(Px.RawSCT) != 0 {
		k.violCtx("", "sctlist-readback precertificate-has-scts", "a precertificate without SCT list extension parsed with a non-empty SCTList")
	}
	embSCTs := embB
	k.stage = "x509util.ParseSCTsFromSCTList"
	for name, f := range map[string]func() ([]*ct.SignedCertificateTimestamp, error){
		"ParseSCTsFromSCTList":     func() ([]*ct.SignedCertificateTimestamp, error) { return x509util.ParseSCTsFromSCTList(&Fx.SCTList) },
		"ParseSCTsFromCertificate": func() ([]*ct.SignedCertificateTimestamp, error) { return x509util.ParseSCTsFromCertificate(Fder) },
	} {
		ps, err := f()
		if err != nil || len(ps) != len(embSCTs) {
			k.violCtx("", "sctlist-readback "+name, fmt.Sprintf("err=%v, %d SCTs, embedded %d", err, len(ps), len(embSCTs)))
			continue
		}
		for i, b := range embSCTs {
			p := ps[i]
			if p == nil || p.SCTVersion != ct.Version(b.ver) || p.LogID.KeyID != b.key.KeyHash() || p.Timestamp != b.ts || !bytes.Equal(p.Extensions, b.ext) ||
				p.Signature.Algorithm != b.lib.Signature.Algorithm || !bytes.Equal(p.Signature.Signature, b.lib.Signature.Signature) {
				k.violCtx("", "sctlist-readback "+name+" element", fmt.Sprintf("SCT %d (%s) read back as %+v", i, b.spec, p))
				break
			}
		}
	}
	k.stage = "x509util.MarshalSCTsIntoSCTList"
	var libSCTs []*ct.SignedCertificateTimestamp
	var assigned []*submission.AssignedSCT
	for _, b := range embSCTs {
		libSCTs = append(libSCTs, b.lib)
		assigned = append(assigned, &submission.AssignedSCT{LogURL: "https://log.example/", SCT: b.lib})
	}
	ml, err := x509util.MarshalSCTsIntoSCTList(libSCTs)
	if err != nil || ml == nil || len(ml.SCTList) != len(embedded) {
		k.violCtx("", "sctlist-marshal MarshalSCTsIntoSCTList", fmt.Sprintf("err=%v", err))
	} else {
		for i := range embedded {
			if !bytes.Equal(ml.SCTList[i].Val, embedded[i]) {
				k.violCtx("", "sctlist-marshal MarshalSCTsIntoSCTList element", fmt.Sprintf("element %d: %s, reference %s", i, hx(ml.SCTList[i].Val), hx(embedded[i])))
				break
			}
		}
		if enc, err := tls.Marshal(*ml); err != nil || !bytes.Equal(enc, sctListTLS) {
			k.violCtx("", "sctlist-marshal tls.Marshal(SignedCertificateTimestampList)", fmt.Sprintf("err=%v got %s, reference %s", err, hx(enc), hx(sctListTLS)))
		}
	}
	k.stage = "submission.ASN1MarshalSCTs"
	if enc, err := submission.ASN1MarshalSCTs(assigned); err != nil || !bytes.Equal(enc, der.OctetString(sctListTLS)) {
		k.violCtx("", "sctlist-marshal ASN1MarshalSCTs", fmt.Sprintf("err=%v got %s, reference %s", err, hx(enc), hx(der.OctetString(sctListTLS))))
	}

	// ---- (a') an SCT verifies exactly when it was signed over that entry --------
	for _, b := range scts {
		pub := b.key.Priv.Public()
		k.stage = "ctutil.VerifySCT(embedded)"
		err := ctutil.VerifySCT(pub, chainF, b.lib, true)
		wantOK := b.wantOK && b.spec.kind != "not-embedded"
		if (err == nil) != wantOK {
			if wantOK {
				k.viol("verify-embedded rejects right-sct", fmt.Sprintf("SCT %s signed over the reference precert entry: %v", b.spec, err))
			} else {
				k.viol("verify-embedded accepts wrong-sct kind="+b.spec.kind, fmt.Sprintf("SCT %s accepted", b.spec))
			}
		}
		k.stage = "ctutil.VerifySCT(precert)"
		err = ctutil.VerifySCT(pub, chainP, b.lib, false)
		if (err == nil) != b.wantOK {
			if b.wantOK {
				k.viol("verify-precert rejects right-sct", fmt.Sprintf("SCT %s signed over the reference precert entry: %v", b.spec, err))
			} else {
				k.viol("verify-precert accepts wrong-sct kind="+b.spec.kind, fmt.Sprintf("SCT %s accepted", b.spec))
			}
		}
		if b.spec.kind == "ok" {
			c.r.Add("scts_verified_right", 1)
		} else if !b.wantOK {
			c.r.Add("scts_verified_wrong", 1)
		}
		if b.spec.kind != "ok" {
			continue
		}
		// the other log's key must not verify it
		other := c.logRSA
		if b.spec.rsa {
			other = c.logEC
		}
		if s.realSig && ctutil.VerifySCT(other.Priv.Public(), chainF, b.lib, true) == nil {
			k.viol("verify-embedded accepts wrong-sct kind=other-public-key", fmt.Sprintf("SCT %s verified under another log's key", b.spec))
		}
		// leaf hashes of both routes
		k.stage = "ctutil.LeafHash"
		h1, e1 := ctutil.LeafHash(chainF, b.lib, true)
		h2, e2 := ctutil.LeafHash(chainP, b.lib, false)
		libConv := ref.LeafHash(refLeaf(b.ts, entries["ok"], nil))
		if e1 != nil || e2 != nil {
			k.viol("leafhash-error", fmt.Sprintf("embedded err=%v precert err=%v", e1, e2))
		} else if h1 != h2 {
			k.viol("route-mismatch LeafHash", fmt.Sprintf("embedded %x, precert %x", h1, h2))
		} else if len(b.ext) == 0 {
			if h1 != libConv {
				k.viol("leafhash-bytes", fmt.Sprintf("LeafHash %x, reference %x", h1, libConv))
			}
			// the same final certificate presented under another issuer certificate is another entry
			// (other issuer_key_hash): its hash differs, the SCT does not verify for it, and asking
			// about it changes nothing for the real issuer (sequence real, other, real)
			k.stage = "ctutil.LeafHash(same certificate, other issuer)"
			oe := entries["ok"]
			oe.IssuerKeyHash = pki.LoadKey("p256-0").KeyHash() // the root's key
			chainO := []*x509.Certificate{chainF[0], px.root}
			ho, eo := ctutil.LeafHash(chainO, b.lib, true)
			if eo != nil || ho != ref.LeafHash(refLeaf(b.ts, oe, nil)) {
				k.viol("leafhash-bytes same-certificate-other-issuer", fmt.Sprintf("LeafHash([final, other issuer]) = %x err=%v, reference %x (the real issuer's entry hashes to %x)", ho, eo, ref.LeafHash(refLeaf(b.ts, oe, nil)), libConv))
			}
			if s.realSig && ctutil.VerifySCT(pub, chainO, b.lib, true) == nil {
				k.viol("verify-embedded accepts wrong-sct kind=other-issuer-certificate", fmt.Sprintf("SCT %s verified for the same certificate under another issuer", b.spec))
			}
			if h3, e3 := ctutil.LeafHash(chainF, b.lib, true); e3 != nil || h3 != h1 {
				k.viol("leafhash-bytes after-other-issuer", fmt.Sprintf("LeafHash for the real issuer changed after a call with another issuer: %x then %x (err=%v)", h1, h3, e3))
			}
		} else {
			// RFC 6962 s3.4 puts the SCT's extensions into the leaf. Not part of the
			// statement checked here: counted, never an alarm.
			rfc := ref.LeafHash(refLeaf(b.ts, entries["ok"], b.ext))
			switch h1 {
			case rfc:
				c.r.Add("obs_leafhash_with_sct_extensions=rfc6962_leaf", 1)
			case libConv:
				c.r.Add("obs_leafhash_with_sct_extensions=leaf_without_extensions", 1)
			default:
				k.viol("leafhash-bytes", fmt.Sprintf("LeafHash %x matches neither leaf form", h1))
			}
		}
	}
	if c.r.WantSample() {
		d := c.describe(s)
		d["precert_tbs"], d["final_tbs"], d["expected_entry_tbs"] = hx(Ptbs), rep.Hex(Ftbs), hx(R)
		c.r.Sample(d)
	}
}

func (c *checker) count(pw, fw, none bool) {
	c.statMu.Lock()
	if pw {
		c.stat[0]++
	}
	if fw {
		c.stat[1]++
	}
	if none {
		c.stat[2]++
	}
	c.statMu.Unlock()
}

// lenWidthChanges: does any of the two outer length fields (TBS SEQUENCE,
// [3] wrapper) change its width between a and b?
func lenWidthChanges(a, b []byte) bool {
	w := func(x []byte) (int, int) {
		fs, _ := tlvs(content(x))
		ew := 0
		if len(fs) > 0 && fs[len(fs)-1][0] == 0xa3 {
			ew = len(fs[len(fs)-1]) - len(content(fs[len(fs)-1]))
		}
		return len(x) - len(content(x)), ew
	}
	a1, a2 := w(a)
	b1, b2 := w(b)
	return a1 != b1 || (a2 != b2 && a2 != 0 && b2 != 0)
}

// ----------------------------------------------------------------------------
// families

type family struct {
	name    string
	lays    []layout
	modes   []int
	issuers []*issuer
	serials []serialV
	vals    []validityV
	uids    []uidV
	subjNs  []int
	keys    []string
	sctSets [][]sctSpec // one case per element; nil element: the default set for the mode
	realSig bool
	flip    bool
}

func defaultSCTs(mode int) []sctSpec {
	s := []sctSpec{{kind: "ok"}, {kind: "poisoned-tbs"}}
	if mode == 0 {
		return append(s, sctSpec{kind: "ikh-root"})
	}
	return append(s, sctSpec{kind: "unswapped"})
}

func (c *checker) runFamily(f family) {
	dims := []int{len(f.lays), len(f.modes), len(f.issuers), len(f.serials), len(f.vals), len(f.uids), len(f.subjNs), len(f.keys), len(f.sctSets)}
	n := enum.Size(dims)
	c.r.Set("family "+f.name, fmt.Sprintf("%d cases = layouts %d x issuance modes %d x issuers %d x serials %d x validities %d x unique-ids %d x subject names %d x subject keys %d x SCT sets %d",
		n, dims[0], dims[1], dims[2], dims[3], dims[4], dims[5], dims[6], dims[7], dims[8]))
	done := enum.Product(dims, c.r.Expired, func(ix []int) {
		s := &spec{fam: f.name, lay: f.lays[ix[0]], mode: f.modes[ix[1]], is: f.issuers[ix[2]], serial: f.serials[ix[3]], val: f.vals[ix[4]],
			uid: f.uids[ix[5]], subjN: f.subjNs[ix[6]], subjKey: f.keys[ix[7]], scts: f.sctSets[ix[8]], realSig: f.realSig, flip: f.flip}
		if s.scts == nil {
			s.scts = defaultSCTs(s.mode)
		}
		c.run(s)
	})
	if !done {
		c.r.Capped("deadline reached inside family " + f.name)
	}
}

func (c *checker) pick(kinds []string, names []int) []*issuer {
	var out []*issuer
	for _, is := range c.issuers {
		for _, k := range kinds {
			for _, n := range names {
				if is.kind == k && is.nameLbl == []string{"printable", "utf8", "multi-rdn"}[n] {
					out = append(out, is)
				}
			}
		}
	}
	return out
}

// sctShapes: every list of 1..n SCTs over {extensions empty / 1 byte / long} x {ECDSA, RSA}.
func sctShapes(n int, exts []int) [][]sctSpec {
	var one []sctSpec
	for _, e := range exts {
		for _, rsa := range []bool{false, true} {
			one = append(one, sctSpec{kind: "ok", ext: e, rsa: rsa})
		}
	}
	out := [][]sctSpec{}
	var rec func(cur []sctSpec)
	rec = func(cur []sctSpec) {
		if len(cur) > 0 {
			out = append(out, append([]sctSpec{}, cur...))
		}
		if len(cur) == n {
			return
		}
		for _, o := range one {
			rec(append(cur, o))
		}
	}
	rec(nil)
	return out
}

func TestCheck(t *testing.T) {
	r := rep.New("C03", "exploration")
	th := r.Thorough()
	if pf := os.Getenv("VERIF_C03_PROF"); pf != "" { // developer aid: CPU + mutex profile of the run
		f, _ := os.Create(pf)
		pprof.StartCPUProfile(f)
		runtime.SetMutexProfileFraction(5)
		stopProf = func() {
			pprof.StopCPUProfile()
			f.Close()
			g, _ := os.Create(pf + ".mutex")
			pprof.Lookup("mutex").WriteTo(g, 0)
			g.Close()
		}
	}
	c := &checker{r: r, th: th, al: neighbours(), px: map[*issuer]*parsedIssuer{},
		logEC: pki.LoadKey("p256-9"), logRSA: pki.LoadKey("rsa2048-2"), logBad: pki.LoadKey("p256-8")}
	root := pki.NewRoot("C03 Root", pki.LoadKey("p256-0"))
	rootX, err := x509.ParseCertificate(root.DER)
	if err != nil {
		t.Fatalf("root: %v", err)
	}
	kinds := []string{"p256", "rsa2048", "p384", "ed25519", "rsa2048-spki-without-null", "p256-signing-cert-named-like-its-issuer"}
	for _, kd := range kinds {
		for n := 0; n < 3; n++ {
			is := newIssuer(kd, n, root)
			p := &parsedIssuer{root: rootX}
			if p.ca, err = x509.ParseCertificate(is.caDER); x509.IsFatal(err) {
				t.Fatalf("issuer %s/%d: %v", kd, n, err)
			}
			for v := 0; v < nPre; v++ {
				if p.pre[v], err = x509.ParseCertificate(is.preDER[v]); x509.IsFatal(err) {
					t.Fatalf("pre-issuer %s/%d/%d: %v", kd, n, v, err)
				}
				r.Eval(1)
				if !ct.IsPreIssuer(p.pre[v]) {
					r.Violation("pre-issuer-detection IsPreIssuer misses a certificate with the CT EKU", fmt.Sprintf("pre-issuer variant %d of issuer %s/%d carries the CertificateTransparency EKU (alone, last or first of its key purposes) but IsPreIssuer is false", v, kd, n), hx(is.preDER[v]))
				}
				if ct.IsPreIssuer(p.ca) {
					r.Violation("pre-issuer-detection IsPreIssuer accepts a certificate without the CT EKU", fmt.Sprintf("issuer %s/%d", kd, n), hx(is.caDER))
				}
			}
			c.issuers = append(c.issuers, is)
			c.px[is] = p
		}
	}
	r.Rule("every (precertificate, final certificate, expected entry) triple built from one TBSCertificate template: target extension (CT poison resp. SCT list) at every position among every ordered selection of 0..3 neighbours from {SAN, basicConstraints critical, AKI, SKI, unknown critical, unknown non-critical} (thorough: + keyUsage, a 300-byte extension, four OIDs adjacent to the CT OIDs; quick runs those four with <= 2 neighbours) x issuance {final issuer, pre-issuer with AKI, pre-issuer without AKI (thorough: + full-form AKI)} x serial x validity encodings x unique ids x subject name encodings x subject key types x issuer key type and name encoding x SCT lists; plus the must-fail family (target absent / twice / both targets / wrong issuer) and the non-canonical observation family. distinct_nontrivial = distinct (issuance, precertificate TBS, expected entry TBS, SCT list shape) tuples on which all oracles were evaluated")
	r.Assume("certificate signatures are real but never consulted by the functions under test; SCT signatures are made with std crypto over ref/ct6962's signature input",
		"the pre-issuer and the final issuer sign with the same algorithm (RFC 6962 does not let a log rewrite TBSCertificate.signature)",
		"where RFC 6962 s3.2 is silent the documented behaviour of BuildPrecertTBS defines the corresponding final certificate: a pre-issuer without AKI removes the leaf's AKI; a pre-issuer with AKI under a leaf without one appends the AKI as last extension",
		"only canonical DER templates are compared; non-canonical ones (GeneralizedTime before 2050, explicit critical FALSE, non-minimal length, negative serial) are run and counted as observations",
		"TimestampedEntry.extensions of the built leaf is empty (the leaf builders take no extensions); ctutil.LeafHash for SCTs with extensions is counted as an observation only")

	core := layouts(nCoreNeighbours, 0, 3)
	small := layouts(nCoreNeighbours, 0, 1)
	mid := layouts(nCoreNeighbours, 0, 2)
	// layouts around the two neighbours that interact with the transformation (AKI) or with criticality
	var tiny []layout
	for _, l := range mid {
		ok := true
		for _, x := range l.nbs {
			ok = ok && (x == akiIdx || x == 4)
		}
		if ok && len(l.nbs) <= 1 {
			tiny = append(tiny, l)
		}
	}
	r.Set("layouts_core_0..3_neighbours", len(core))
	sers, vals, us := serials(th), validities(), uids(th)
	allN := []int{0, 1, 2}
	modesQ := []int{0, 1 + preWithAKI, 1 + preNoAKI, 1 + preFullAKI}
	one := [][]sctSpec{nil}
	ecRSA := []string{"p256", "rsa2048"}

	if !th {
		// every layout x issuance x serial x issuer key type
		c.runFamily(family{"layouts", core, modesQ, c.pick(ecRSA, []int{0}), sers, vals[:1], us[:1], []int{1}, subjectKeys[:1], one, false, false})
		// names and keys: every issuer (key type x name encoding) x subject name x subject key, <= 1 neighbour
		c.runFamily(family{"names-and-keys", small, modesQ, c.pick(ecRSA, allN), sers[:1], vals[:1], us[:1], allN, subjectKeys, one, false, false})
		// issuers whose certificate publishes the key with a non-canonical SubjectPublicKeyInfo
		c.runFamily(family{"issuer-spki-non-canonical", small, modesQ, c.pick([]string{"rsa2048-spki-without-null"}, []int{0}), sers[:1], vals[:1], us[:1], []int{0}, subjectKeys[:2], one, false, false})
		c.runFamily(family{"signing-cert-named-like-its-issuer", small, modesQ, c.pick([]string{"p256-signing-cert-named-like-its-issuer"}, []int{0, 1}), sers[:1], vals[:1], us[:1], []int{0}, subjectKeys[:2], one, false, false})
		// scalar fields: serial x validity x unique ids x issuer key type, <= 1 neighbour
		c.runFamily(family{"serial-validity-uid", small, modesQ, c.pick(ecRSA, []int{1}), sers, vals, us, []int{0}, subjectKeys[:1], one, false, false})
		// validity x layout interplay on <= 2 neighbours
		c.runFamily(family{"validity-x-layouts", mid, modesQ, c.pick([]string{"p256"}, []int{2}), sers[1:2], vals, us[1:2], []int{2}, subjectKeys[2:3], one, false, false})
		// every SCT list shape
		c.runFamily(family{"sct-lists", tiny, modesQ, c.pick([]string{"p256"}, []int{1}), sers[:1], vals[:1], us[:1], []int{0}, subjectKeys[:1], sctShapes(3, []int{0, 1, 2}), true, false})
		// every way of being the wrong SCT
		c.runFamily(family{"wrong-scts", mid, modesQ, c.pick(ecRSA, []int{0}), sers[:1], vals[:1], us[:1], []int{0}, subjectKeys[:1], wrongSets(), true, false})
		// extensions whose OIDs are adjacent to the two CT OIDs (one more arc, the common prefix, a sibling)
		c.runFamily(family{"adjacent-oids", layoutsOver([]int{8, 9, 10, 11, 12, 13, 0}, 1, 2), modesQ, c.pick([]string{"p256"}, []int{0}), sers[:1], vals[:1], us[:1], []int{0}, subjectKeys[:1], one, false, false})
		// the target extension with the opposite criticality flag
		c.runFamily(family{"target-criticality-flipped", small, modesQ, c.pick([]string{"p256"}, []int{0}), sers[:1], vals[:1], us[:1], []int{0}, subjectKeys[:1], one, false, true})
		c.failures(mid, modesQ)
	} else {
		modesT := []int{0, 1 + preWithAKI, 1 + preNoAKI, 1 + preFullAKI}
		c.runFamily(family{"layouts", core, modesT, c.pick(ecRSA, []int{0}), sers, vals[:1], []uidV{us[0], us[2], us[4]}, []int{1}, subjectKeys[:1], one, false, false})
		c.runFamily(family{"layouts-other-issuer-keys", core, modesT, c.pick([]string{"p384", "ed25519"}, []int{1}), sers[1:2], vals[:1], us[:1], []int{1}, subjectKeys[:1], one, false, false})
		c.runFamily(family{"validity-x-layouts", core, modesT, c.pick([]string{"p256"}, []int{2}), sers[1:2], vals, us[1:2], []int{2}, subjectKeys[2:3], one, false, false})
		c.runFamily(family{"contents", small, modesT, append(c.pick(kinds, []int{0}), c.pick(ecRSA, []int{1, 2})...), sers[:3], vals, us[:2], []int{0, 1, 2, 3}, subjectKeys, one, false, false})
		c.runFamily(family{"serial-validity-uid", small, modesT, c.pick(ecRSA, []int{1}), sers, vals, us, []int{0}, subjectKeys[:1], one, false, false})
		ext := layouts(len(c.al), 1, 3)
		r.Set("layouts_extended_alphabet_1..3_neighbours", len(ext))
		c.runFamily(family{"layouts-extended-alphabet", ext, modesT, c.pick(ecRSA, []int{2}), sers[:2], vals[:1], us[:1], []int{0}, subjectKeys[:1], one, false, false})
		four := layouts(nCoreNeighbours, 4, 4)
		r.Set("layouts_core_4_neighbours", len(four))
		c.runFamily(family{"layouts-4-neighbours", four, modesT, c.pick([]string{"p256"}, []int{0}), sers[1:2], vals[:1], us[:2], []int{1}, subjectKeys[:1], one, false, false})
		c.runFamily(family{"sct-lists", small, modesQ, c.pick(ecRSA, []int{1}), sers[:1], vals[:1], us[:1], []int{0}, subjectKeys[:1], append(sctShapes(3, []int{0, 1, 2}), sctShapes(2, []int{3})...), true, false})
		c.runFamily(family{"wrong-scts", mid, modesT, c.pick(kinds, []int{0}), sers[:1], vals[:1], us[:1], []int{0}, subjectKeys[:1], wrongSets(), true, false})
		c.runFamily(family{"adjacent-oids", layoutsOver([]int{8, 9, 10, 11, 12, 13, 0}, 1, 3), modesT, c.pick(ecRSA, []int{0}), sers[:1], vals[:1], us[:1], []int{0}, subjectKeys[:1], one, false, false})
		c.runFamily(family{"target-criticality-flipped", mid, modesT, c.pick(ecRSA, []int{0}), sers[:1], vals[:1], us[:1], []int{0}, subjectKeys[:1], one, false, true})
		c.failures(core, modesT)
	}
	r.Set("cases_where_removal_changes_the_width_of_a_length_field(precert route)", c.stat[0])
	r.Set("cases_where_removal_changes_the_width_of_a_length_field(embedded route)", c.stat[1])
	r.Set("cases_where_no_extension_remains", c.stat[2])
	c.observations()
	// the shared parsed issuer certificates must still be what was parsed
	for is, p := range c.px {
		if !bytes.Equal(p.ca.Raw, is.caDER) || !bytes.Equal(p.root.Raw, is.root.DER) {
			r.Violation("input-modified shared-chain-certificate", "a chain certificate changed during the run", is.kind)
		}
		for v := 0; v < nPre; v++ {
			if !bytes.Equal(p.pre[v].Raw, is.preDER[v]) || !bytes.Equal(p.pre[v].RawIssuer, is.caName) {
				r.Violation("input-modified shared-chain-certificate", "a pre-issuer certificate changed during the run", is.kind)
			}
		}
	}
	stopProf()
	r.Finish()
}

var stopProf = func() {}

func wrongSets() [][]sctSpec {
	return [][]sctSpec{
		{{kind: "ok"}, {kind: "poisoned-tbs"}, {kind: "unswapped"}, {kind: "ikh-root"}, {kind: "ikh-preissuer"}, {kind: "x509-entry"}},
		{{kind: "timestamp+1"}, {kind: "other-log-key"}, {kind: "ext-differs", ext: 1}, {kind: "ok", ext: 1}, {kind: "not-embedded"}},
		{{kind: "ok", rsa: true}, {kind: "poisoned-tbs", rsa: true}, {kind: "ikh-root", rsa: true}, {kind: "timestamp+1", rsa: true}},
		{{kind: "ok"}, {kind: "repeat-previous"}},
		{{kind: "ok"}, {kind: "version-1"}, {kind: "ok", ext: 1}},
		{{kind: "version-255"}},
		{{kind: "ok"}, {kind: "ok", ext: 1}, {kind: "repeat-first"}},
		{{kind: "ok"}, {kind: "ok", ext: 1}, {kind: "repeat-previous"}, {kind: "ok", ext: 2}, {kind: "repeat-first"}},
	}
}
