package c03

// Template side of the check: everything here is built with ref/der and
// ref/pki from explicit field values. Nothing in this file calls into the
// library under test; the byte strings it produces are the oracle.

import (
	"bytes"
	"fmt"
	"sort"
	"strings"
	"time"

	"verif/ref/der"
	"verif/ref/pki"
)

// ----------------------------------------------------------------------------
// TBSCertificate template (RFC 5280 s4.1), field by field.

type tmpl struct {
	serial     []byte   // magnitude (der.IntMag adds the leading zero) or, if serialRaw, the full INTEGER TLV
	serialRaw  []byte   // non-nil: used verbatim (observations only)
	sigAlg     []byte   // AlgorithmIdentifier
	issuer     []byte   // Name
	notBefore  []byte   // Time
	notAfter   []byte   // Time
	subject    []byte   // Name
	spki       []byte   // SubjectPublicKeyInfo
	issuerUID  []byte   // nil or the complete [1] TLV
	subjectUID []byte   // nil or the complete [2] TLV
	exts       [][]byte // Extension TLVs in order; empty: the [3] field is absent (Extensions is SIZE(1..MAX))
}

func (t *tmpl) tbs() []byte {
	ser := t.serialRaw
	if ser == nil {
		ser = der.IntMag(t.serial)
	}
	parts := [][]byte{der.Explicit(0, der.Int(2)), ser, t.sigAlg, t.issuer, der.Seq(t.notBefore, t.notAfter), t.subject, t.spki}
	if t.issuerUID != nil {
		parts = append(parts, t.issuerUID)
	}
	if t.subjectUID != nil {
		parts = append(parts, t.subjectUID)
	}
	if len(t.exts) > 0 {
		parts = append(parts, der.Explicit(3, der.Seq(t.exts...)))
	}
	return der.Seq(parts...)
}

func (t tmpl) with(exts [][]byte) *tmpl { t.exts = exts; return &t }

// cert assembles a certificate around a TBS. ECDSA / Ed25519 issuers always
// sign for real; an RSA issuer signs for real only when asked to (1.5 ms each),
// otherwise the signature value is a fixed 256-byte pattern: no function under
// test consults a certificate signature.
func cert(tbs []byte, signer *pki.Key, real bool) []byte {
	if signer.Kind == "rsa2048" && !real {
		return pki.Assemble(tbs, signer.SigAlgDER(), bytesPat(256, 0x42))
	}
	return pki.Assemble(tbs, signer.SigAlgDER(), signer.SignTBS(tbs))
}

// uniqueID builds [n] IMPLICIT BIT STRING with the given number of unused bits
// (the unused bits of the last octet are cleared, as DER demands).
func uniqueID(n int, content []byte, unused byte) []byte {
	c := append([]byte{}, content...)
	if len(c) > 0 && unused > 0 {
		c[len(c)-1] &^= byte(1<<unused) - 1
	}
	return der.ImplicitPrim(n, append([]byte{unused}, c...))
}

// ----------------------------------------------------------------------------
// Names

func checkSetOrder(n pki.Name) {
	for _, rdn := range n {
		var encs [][]byte
		for _, a := range rdn {
			encs = append(encs, der.Seq(der.OID(a.OID...), der.Str(a.Tag, a.Val)))
		}
		if !sort.SliceIsSorted(encs, func(i, j int) bool { return bytes.Compare(encs[i], encs[j]) < 0 }) {
			panic("harness: multi-valued RDN not in DER SET OF order")
		}
	}
}

var oidEmail = []int{1, 2, 840, 113549, 1, 9, 1}

func nameVariant(i int, who string) (string, []byte) {
	var n pki.Name
	var label string
	switch i {
	case 0:
		label = "printable"
		n = pki.Name{{{pki.OIDC, 0x13, "GB"}}, {{pki.OIDO, 0x13, "Verif Ltd"}}, {{pki.OIDCN, 0x13, who}}}
	case 1:
		label = "utf8"
		n = pki.Name{{{pki.OIDC, 0x13, "DE"}}, {{pki.OIDO, 0x0c, "Vérif Über"}}, {{pki.OIDCN, 0x0c, who + " åß中"}}}
	case 2:
		label = "multi-rdn"
		// several RDNs, one of them multi-valued (SET OF two ATVs in DER order), mixed string types incl. IA5String
		n = pki.Name{{{pki.OIDC, 0x13, "US"}}, {{pki.OIDO, 0x0c, "Org"}, {pki.OIDOU, 0x13, "Unit 7"}},
			{{pki.OIDSer, 0x13, "0042"}}, {{oidEmail, 0x16, "ca@example.com"}}, {{pki.OIDCN, 0x0c, who}}}
	case 3:
		return "empty", der.Seq()
	default:
		panic("name variant")
	}
	checkSetOrder(n)
	return label, n.DER()
}

// ----------------------------------------------------------------------------
// Issuers: a root, an issuing CA per (key kind, name encoding) and dedicated
// precertificate-signing certificates (CT EKU) below each issuing CA.

const (
	preWithAKI = iota // pre-issuer carries AKI {keyIdentifier}
	preNoAKI          // pre-issuer has no AKI
	preFullAKI        // pre-issuer carries AKI {keyIdentifier, authorityCertIssuer, authorityCertSerialNumber}
	nPre
)

type issuer struct {
	kind     string
	nameLbl  string
	root     *pki.Cert
	caKey    *pki.Key
	caName   []byte
	caDER    []byte
	caKeyID  []byte
	preKey   *pki.Key
	preName  []byte
	preKeyID []byte
	preDER   [nPre][]byte
	preAKI   [nPre][]byte // extnValue content of the pre-issuer's AKI (nil: none)
}

var issuerKeys = map[string][2]string{
	"p256": {"p256-1", "p256-2"}, "rsa2048": {"rsa2048-0", "rsa2048-1"},
	"p384": {"p384-0", "p384-1"}, "ed25519": {"ed25519-0", "ed25519-1"},
	// RSA issuers whose certificates carry a valid but non-canonical SubjectPublicKeyInfo (no NULL parameters)
	"rsa2048-spki-without-null": {"rsa2048-0~nonull", "rsa2048-1~nonull"},
	// the precert signing certificate carries the very name of the CA that issued it (another key): the issuer name of a
	// precertificate it signs needs no change, its authority key identifier does
	"p256-signing-cert-named-like-its-issuer": {"p256-5", "p256-6"},
}

var (
	tCA0 = time.Date(2020, 1, 1, 0, 0, 0, 0, time.UTC)
	tCA1 = time.Date(2060, 1, 1, 0, 0, 0, 0, time.UTC)
)

func caTBS(serial byte, sigAlg, issuerName, subjectName []byte, key *pki.Key, exts ...pki.Ext) []byte {
	t := tmpl{serial: []byte{0x10, serial}, sigAlg: sigAlg, issuer: issuerName, notBefore: der.Time(tCA0), notAfter: der.Time(tCA1),
		subject: subjectName, spki: key.SPKI}
	for _, e := range exts {
		t.exts = append(t.exts, e.DER())
	}
	return t.tbs()
}

func newIssuer(kind string, nameIdx int, root *pki.Cert) *issuer {
	ks := issuerKeys[kind]
	is := &issuer{kind: kind, root: root, caKey: pki.LoadKey(ks[0]), preKey: pki.LoadKey(ks[1])}
	is.nameLbl, is.caName = nameVariant(nameIdx, "Issuing CA "+kind)
	_, is.preName = nameVariant((nameIdx+1)%3, "Precert Signing "+kind)
	if strings.HasSuffix(kind, "named-like-its-issuer") {
		is.preName = is.caName
	}
	h := is.caKey.KeyHash()
	is.caKeyID = h[:20]
	h = is.preKey.KeyHash()
	is.preKeyID = h[:20]
	rootID := root.T.Key.KeyHash()
	rk := root.T.Key
	is.caDER = cert(caTBS(1, rk.SigAlgDER(), root.T.Subject.DER(), is.caName, is.caKey,
		pki.ExtBasicConstraints(true, true), pki.ExtKeyUsage(0x06, 1), pki.ExtSKI(is.caKeyID), pki.ExtAKI(rootID[:20])), rk, true)
	is.preAKI[preWithAKI] = pki.ExtAKI(is.caKeyID).Value
	is.preAKI[preFullAKI] = der.Seq(der.ImplicitPrim(0, is.caKeyID),
		der.ImplicitCons(1, der.Explicit(4, root.T.Subject.DER())), der.ImplicitPrim(2, []byte{0x10, 0x01}))
	for v := 0; v < nPre; v++ {
		exts := []pki.Ext{pki.ExtBasicConstraints(true, true), pki.ExtKeyUsage(0x06, 1), pki.ExtSKI(is.preKeyID)}
		if is.preAKI[v] != nil {
			exts = append(exts, pki.Ext{OID: pki.OIDAKI, Value: is.preAKI[v]})
		}
		// the CT EKU stands alone, last, or first among the key purposes
		exts = append(exts, [nPre]pki.Ext{pki.ExtEKU(pki.OIDEKUCT), pki.ExtEKU(pki.OIDEKUServerAuth, pki.OIDEKUCT),
			pki.ExtEKU(pki.OIDEKUCT, pki.OIDEKUClientAuth)}[v])
		is.preDER[v] = cert(caTBS(byte(0x20+v), is.caKey.SigAlgDER(), is.caName, is.preName, is.preKey, exts...), is.caKey, true)
	}
	return is
}

// ----------------------------------------------------------------------------
// Extension alphabet

type nb struct {
	label string
	der   []byte // nil for the authority key identifier (value depends on who signs)
}

func bytesPat(n int, seed byte) []byte {
	b := make([]byte, n)
	for i := range b {
		b[i] = seed + byte(i*7)
	}
	return b
}

func ext(oid []int, critical bool, val []byte) []byte {
	return pki.Ext{OID: oid, Critical: critical, Value: val}.DER()
}

const akiIdx = 2

// neighbours returns the neighbour alphabet; the first six are the ones the
// property text names, the rest is the thorough-tier extension.
func neighbours() []nb {
	return []nb{
		{"san", pki.ExtSAN("www.example.com", "example.com").DER()},
		{"bc-crit", pki.ExtBasicConstraints(false, true).DER()},
		{"aki", nil},
		{"ski", pki.ExtSKI(bytesPat(20, 0x51)).DER()},
		{"unk-crit", pki.ExtUnknown(1, true, der.Seq(der.Int(7))).DER()},
		{"unk-noncrit", pki.ExtUnknown(2, false, der.UTF8("opaque")).DER()},
		// thorough tier
		{"ku-crit", pki.ExtKeyUsage(0x80, 7).DER()},
		{"big-300", pki.ExtUnknown(3, false, der.OctetString(bytesPat(300, 3))).DER()},
		{"oid-poison.1", ext(append(append([]int{}, pki.OIDPoison...), 1), false, der.Null())}, // target OID + one arc
		{"oid-sctlist.1", ext(append(append([]int{}, pki.OIDSCTList...), 1), false, der.OctetString([]byte{0, 0}))},
		{"oid-2.4", ext(pki.OIDPoison[:len(pki.OIDPoison)-1], false, der.Null())},                         // proper prefix of both target OIDs
		{"oid-2.4.5", ext([]int{1, 3, 6, 1, 4, 1, 11129, 2, 4, 5}, false, der.OctetString([]byte{0, 0}))}, // sibling arc (OCSP SCT list)
		// the two CT OIDs with another first arc (2.3.6.1.4.1.11129.2.4.3, 0.3.6.1.4.1.11129.2.4.2): OIDs are compared in every arc
		{"oid-poison-first-arc-2", ext(append([]int{2}, pki.OIDPoison[1:]...), false, der.Null())},
		{"oid-sctlist-first-arc-0", ext(append([]int{0}, pki.OIDSCTList[1:]...), false, der.OctetString([]byte{0, 0}))},

	}
}

const nCoreNeighbours = 6

// layout is an ordered selection of distinct neighbours plus the index at
// which the target extension is inserted.
type layout struct {
	nbs []int
	pos int
}

func (l layout) String(al []nb) string {
	var s []string
	for i := 0; i <= len(l.nbs); i++ {
		if i == l.pos {
			s = append(s, "<T>")
		}
		if i < len(l.nbs) {
			s = append(s, al[l.nbs[i]].label)
		}
	}
	return strings.Join(s, ",")
}

func (l layout) hasAKI() bool {
	for _, x := range l.nbs {
		if x == akiIdx {
			return true
		}
	}
	return false
}

// selections: every ordered selection of k distinct elements of alphabet[0:n].
func selections(n, k int) [][]int {
	if k == 0 {
		return [][]int{{}}
	}
	var out [][]int
	for _, s := range selections(n, k-1) {
		for x := 0; x < n; x++ {
			dup := false
			for _, y := range s {
				dup = dup || y == x
			}
			if !dup {
				out = append(out, append(append([]int{}, s...), x))
			}
		}
	}
	return out
}

// layouts: every selection of kmin..kmax neighbours x every target position.
func layouts(n, kmin, kmax int) []layout {
	idx := make([]int, n)
	for i := range idx {
		idx[i] = i
	}
	return layoutsOver(idx, kmin, kmax)
}

// layoutsOver: the same over the sub-alphabet given by its indices.
func layoutsOver(idx []int, kmin, kmax int) []layout {
	var out []layout
	for k := kmin; k <= kmax; k++ {
		for _, s := range selections(len(idx), k) {
			m := make([]int, len(s))
			for i, x := range s {
				m[i] = idx[x]
			}
			for p := 0; p <= k; p++ {
				out = append(out, layout{m, p})
			}
		}
	}
	return out
}

// resolve turns neighbour indices into Extension TLVs; aki is the TLV to use
// for the authority key identifier, or nil to leave it out.
func resolve(al []nb, idx []int, aki []byte) [][]byte {
	var out [][]byte
	for _, x := range idx {
		if x == akiIdx {
			if aki != nil {
				out = append(out, aki)
			}
			continue
		}
		out = append(out, al[x].der)
	}
	return out
}

// insertAt inserts e before the pos-th *neighbour* (counting neighbours of idx,
// whether or not resolve dropped the AKI).
func insertAt(al []nb, idx []int, aki []byte, pos int, e ...[]byte) [][]byte {
	var out [][]byte
	for i := 0; i <= len(idx); i++ {
		if i == pos {
			out = append(out, e...)
		}
		if i < len(idx) {
			out = append(out, resolve(al, idx[i:i+1], aki)...)
		}
	}
	return out
}

func akiExt(value []byte) []byte { return pki.Ext{OID: pki.OIDAKI, Value: value}.DER() }

// ----------------------------------------------------------------------------
// Content alphabets

type serialV struct {
	label string
	mag   []byte
}

func serials(th bool) []serialV {
	s := []serialV{{"1-byte", []byte{0x01}}, {"0x80", []byte{0x80}}, {"20-byte", append([]byte{0x7f}, bytesPat(19, 0x90)...)}}
	if th {
		s = append(s, serialV{"20-byte-high-bit", append([]byte{0xff}, bytesPat(19, 0x11)...)}, serialV{"0x00ff", []byte{0xff}})
	}
	return s
}

type validityV struct {
	label  string
	nb, na []byte
}

var (
	tU0 = time.Date(2024, 1, 1, 0, 0, 0, 0, time.UTC)
	tU1 = time.Date(2049, 12, 31, 23, 59, 59, 0, time.UTC)
	tG0 = time.Date(2050, 1, 1, 0, 0, 0, 0, time.UTC)
	tG1 = time.Date(2051, 6, 1, 12, 30, 0, 0, time.UTC)
)

func validities() []validityV {
	return []validityV{
		{"utc/utc", der.Time(tU0), der.Time(tU1)},
		{"utc/gen", der.Time(tU0), der.Time(tG0)},
		{"gen/gen", der.Time(tG0), der.Time(tG1)},
		{"gen/utc", der.Time(tG0), der.Time(tU1)}, // notAfter before notBefore: odd, but canonical DER
	}
}

type uidV struct {
	label    string
	iss, sub []byte
}

func uids(th bool) []uidV {
	u := []uidV{{"none", nil, nil}, {"issuerUID", uniqueID(1, bytesPat(5, 0xa1), 0), nil},
		{"issuerUID-3unused+subjectUID", uniqueID(1, bytesPat(3, 0xff), 3), uniqueID(2, bytesPat(4, 0x0f), 0)}}
	if th {
		u = append(u, uidV{"subjectUID-only", nil, uniqueID(2, bytesPat(16, 0x33), 7)}, uidV{"issuerUID-empty", uniqueID(1, nil, 0), nil})
	}
	return u
}

var subjectKeys = []string{"p256-3", "p384-1", "rsa2048-2", "ed25519-1"}

// ----------------------------------------------------------------------------
// a tiny TLV walker, used only to name the field in which two byte strings
// first differ (for coarse violation signatures)

func tlvs(b []byte) (out [][]byte, ok bool) {
	for len(b) > 0 {
		if len(b) < 2 {
			return out, false
		}
		hl, n := 2, int(b[1])
		if b[1]&0x80 != 0 {
			k := int(b[1] & 0x7f)
			if k == 0 || k > 3 || len(b) < 2+k {
				return out, false
			}
			n = 0
			for i := 0; i < k; i++ {
				n = n<<8 | int(b[2+i])
			}
			hl = 2 + k
		}
		if len(b) < hl+n {
			return out, false
		}
		out = append(out, b[:hl+n])
		b = b[hl+n:]
	}
	return out, true
}

func content(tlv []byte) []byte {
	if len(tlv) < 2 {
		return nil
	}
	hl := 2
	if tlv[1]&0x80 != 0 {
		hl = 2 + int(tlv[1]&0x7f)
	}
	if hl > len(tlv) {
		return nil
	}
	return tlv[hl:]
}

// diffField names the TBSCertificate field in which got first differs from want.
func diffField(got, want []byte) string {
	if got == nil {
		return "no-output"
	}
	g, ok1 := tlvs(got)
	if !ok1 || len(g) != 1 {
		return "malformed-output"
	}
	gf, ok1 := tlvs(content(got))
	wf, _ := tlvs(content(want))
	if !ok1 {
		return "malformed-output"
	}
	name := func(i int, f []byte) string {
		switch f[0] {
		case 0xa0:
			return "version"
		case 0x81:
			return "issuerUniqueID"
		case 0x82:
			return "subjectUniqueID"
		case 0xa3:
			return "extensions"
		}
		names := []string{"version", "serialNumber", "signature", "issuer", "validity", "subject", "subjectPublicKeyInfo"}
		if i < len(names) {
			return names[i]
		}
		return fmt.Sprintf("field%d", i)
	}
	for i := range wf {
		if i >= len(gf) {
			return name(i, wf[i]) + "-missing"
		}
		if !bytes.Equal(gf[i], wf[i]) {
			if gf[i][0] != wf[i][0] {
				return name(i, wf[i]) + "-missing-or-displaced"
			}
			return name(i, wf[i])
		}
	}
	if len(gf) > len(wf) {
		return "extra-" + name(len(wf), gf[len(wf)])
	}
	return "outer-length"
}
