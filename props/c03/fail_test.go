package c03

// The must-fail family (target extension absent / present twice, both targets
// present, wrong issuer arrangements) and the non-canonical observation family.

import (
	"bytes"
	"fmt"

	"verif/engine/enum"
	ref "verif/ref/ct6962"
	"verif/ref/der"
	"verif/ref/pki"

	ct "github.com/google/certificate-transparency-go"
	"github.com/google/certificate-transparency-go/ctutil"
	"github.com/google/certificate-transparency-go/x509"
)

type failCase struct {
	lay    layout
	pos2   int // second insertion point (>= lay.pos)
	mode   int
	is     *issuer
	what   string // absent | twice | both(poison-first) | both(sctlist-first)
	target string // poison | sctlist
}

func (c *checker) failDesc(f *failCase, tbs []byte) map[string]any {
	return map[string]any{"family": "must-fail", "what": f.what, "target": f.target, "extensions": f.lay.String(c.al), "second_position": f.pos2,
		"issuer_key": f.is.kind, "mode": f.mode, "tbs": hx(tbs)}
}

func (c *checker) failures(lays []layout, modes []int) {
	iss := c.pick([]string{"p256", "rsa2048"}, []int{0})
	var cases []failCase
	for _, l := range lays {
		for _, is := range iss {
			for _, m := range modes {
				for _, tg := range []string{"poison", "sctlist"} {
					if tg == "sctlist" && m != 0 {
						continue // the embedded route does not involve the pre-issuer
					}
					if l.pos == 0 {
						cases = append(cases, failCase{lay: l, mode: m, is: is, what: "absent", target: tg})
					}
					for p2 := l.pos; p2 <= len(l.nbs); p2++ {
						cases = append(cases, failCase{lay: l, pos2: p2, mode: m, is: is, what: "twice", target: tg})
					}
				}
				if m == 0 {
					for p2 := l.pos; p2 <= len(l.nbs); p2++ {
						cases = append(cases, failCase{lay: l, pos2: p2, mode: m, is: is, what: "both(poison-first)"},
							failCase{lay: l, pos2: p2, mode: m, is: is, what: "both(sctlist-first)"})
					}
				}
			}
		}
	}
	c.r.Set("family must-fail", fmt.Sprintf("%d cases = layouts %d x {absent, twice at every pair of positions} x {poison, SCT list} x issuance modes + both targets once at every pair of positions, 2 issuer key types", len(cases), len(lays)))
	done := enum.ParFor(len(cases), c.r.Expired, func(i int) {
		f := &cases[i]
		stage := ""
		pan, msg, stack := enum.Catch(func() { c.runFail(f, &stage) })
		if pan {
			c.r.Violation("panic at "+stage+" must-fail "+f.what, msg+"\n"+stack, c.failDesc(f, nil))
		}
	})
	if !done {
		c.r.Capped("deadline reached inside family must-fail")
	}
	c.wrongIssuer()
}

// twoAt inserts a before neighbour position p1 and b before position p2 (p1 <= p2; a first when equal).
func twoAt(al []nb, idx []int, aki []byte, p1, p2 int, a, b []byte) [][]byte {
	var out [][]byte
	for i := 0; i <= len(idx); i++ {
		if i == p1 && a != nil {
			out = append(out, a)
		}
		if i == p2 && b != nil {
			out = append(out, b)
		}
		if i < len(idx) {
			out = append(out, resolve(al, idx[i:i+1], aki)...)
		}
	}
	return out
}

func (c *checker) runFail(f *failCase, stage *string) {
	c.r.Eval(1)
	is, px := f.is, c.px[f.is]
	direct := f.mode == 0
	signer, signerName, signerKeyID := is.caKey, is.caName, is.caKeyID
	var preX *x509.Certificate
	if !direct {
		signer, signerName, signerKeyID = is.preKey, is.preName, is.preKeyID
		preX = px.pre[f.mode-1]
	}
	_, subj := nameVariant(0, "fail.example")
	base := tmpl{serial: []byte{0x05, 0x39}, sigAlg: is.caKey.SigAlgDER(), issuer: signerName, notBefore: der.Time(tU0), notAfter: der.Time(tU1),
		subject: subj, spki: pki.LoadKey("p256-4").SPKI}
	aki := akiExt(pki.ExtAKI(signerKeyID).Value)
	poison := pki.ExtPoison().DER()
	// two different SCT lists (any well-formed SCTs will do: the removal must fail before signatures matter)
	e := signedEntries{"ok": {EntryType: ref.PrecertEntry, IssuerKeyHash: is.caKey.KeyHash(), TBS: base.with(resolve(c.al, f.lay.nbs, aki)).tbs()}}
	s1, s2 := c.buildSCT(sctSpec{kind: "ok"}, baseTS, e), c.buildSCT(sctSpec{kind: "ok"}, baseTS+1, e)
	l1, _ := ref.AppendSCTList(nil, [][]byte{s1.ser})
	l2, _ := ref.AppendSCTList(nil, [][]byte{s2.ser})
	sct1, sct2 := pki.ExtSCTList(l1).DER(), pki.ExtSCTList(l2).DER()
	c.r.Nontrivial(fmt.Sprintf("fail|%s|%s|%v|%d|%d|%d|%s", f.what, f.target, f.lay.nbs, f.lay.pos, f.pos2, f.mode, is.kind))

	mustFail := func(api string, err error, out []byte, tbs []byte) {
		if err == nil {
			c.r.Violation(fmt.Sprintf("must-fail %s target=%s", api, f.what), fmt.Sprintf("%s succeeded on a TBS whose %s extension is %s [%s]: output %s", api, f.target, f.what, f.lay.String(c.al), hx(out)),
				c.failDesc(f, tbs))
		}
	}
	lb := func(l *ct.MerkleTreeLeaf) []byte { b, _ := leafBytes(l); return b }

	switch f.what {
	case "absent", "twice":
		var a, b []byte
		if f.what == "twice" {
			if f.target == "poison" {
				a, b = poison, poison
			} else {
				a, b = sct1, sct2
			}
		}
		tbs := base.with(twoAt(c.al, f.lay.nbs, aki, f.lay.pos, f.pos2, a, b)).tbs()
		crt := cert(tbs, signer, false)
		*stage = "x509.ParseCertificate"
		X, err := x509.ParseCertificate(crt)
		if err != nil {
			c.r.Violation("parse-error must-fail-template", err.Error(), c.failDesc(f, tbs))
			return
		}
		chain := []*x509.Certificate{X, px.ca, px.root}
		raw := []ct.ASN1Cert{{Data: crt}, {Data: is.caDER}, {Data: is.root.DER}}
		if !direct {
			chain = []*x509.Certificate{X, preX, px.ca, px.root}
			raw = []ct.ASN1Cert{{Data: crt}, {Data: is.preDER[f.mode-1]}, {Data: is.caDER}, {Data: is.root.DER}}
		}
		if f.target == "poison" {
			*stage = "x509.RemoveCTPoison"
			out, err := x509.RemoveCTPoison(tbs)
			mustFail("RemoveCTPoison", err, out, tbs)
			*stage = "x509.BuildPrecertTBS"
			out, err = x509.BuildPrecertTBS(tbs, preX)
			mustFail("BuildPrecertTBS", err, out, tbs)
			*stage = "ct.MerkleTreeLeafFromChain"
			l, err := ct.MerkleTreeLeafFromChain(chain, ct.PrecertLogEntryType, baseTS)
			mustFail("MerkleTreeLeafFromChain", err, lb(l), tbs)
			*stage = "ct.MerkleTreeLeafFromRawChain"
			l, err = ct.MerkleTreeLeafFromRawChain(raw, ct.PrecertLogEntryType, baseTS)
			mustFail("MerkleTreeLeafFromRawChain", err, lb(l), tbs)
			if f.what == "twice" { // without poison VerifySCT(embedded=false) legitimately treats the certificate as an X.509 entry
				*stage = "ctutil.VerifySCT"
				mustFail("VerifySCT(precert)", ctutil.VerifySCT(c.logEC.Priv.Public(), chain, s1.lib, false), nil, tbs)
				_, err = ctutil.LeafHash(chain, s1.lib, false)
				mustFail("LeafHash(precert)", err, nil, tbs)
			}
		} else {
			*stage = "x509.RemoveSCTList"
			out, err := x509.RemoveSCTList(tbs)
			mustFail("RemoveSCTList", err, out, tbs)
			*stage = "ct.MerkleTreeLeafForEmbeddedSCT"
			l, err := ct.MerkleTreeLeafForEmbeddedSCT(chain, baseTS)
			mustFail("MerkleTreeLeafForEmbeddedSCT", err, lb(l), tbs)
			*stage = "ctutil.VerifySCT"
			for _, s := range []*builtSCT{s1, s2} {
				mustFail("VerifySCT(embedded)", ctutil.VerifySCT(c.logEC.Priv.Public(), chain, s.lib, true), nil, tbs)
				_, err = ctutil.LeafHash(chain, s.lib, true)
				mustFail("LeafHash(embedded)", err, nil, tbs)
			}
		}
	default: // both targets once: each remover takes exactly its own target
		a, b := poison, sct1
		if f.what == "both(sctlist-first)" {
			a, b = sct1, poison
		}
		tbs := base.with(twoAt(c.al, f.lay.nbs, aki, f.lay.pos, f.pos2, a, b)).tbs()
		var wantNoPoison, wantNoSCT []byte
		if f.what == "both(sctlist-first)" {
			wantNoPoison = base.with(twoAt(c.al, f.lay.nbs, aki, f.lay.pos, f.pos2, a, nil)).tbs()
			wantNoSCT = base.with(twoAt(c.al, f.lay.nbs, aki, f.lay.pos, f.pos2, nil, b)).tbs()
		} else {
			wantNoPoison = base.with(twoAt(c.al, f.lay.nbs, aki, f.lay.pos, f.pos2, nil, b)).tbs()
			wantNoSCT = base.with(twoAt(c.al, f.lay.nbs, aki, f.lay.pos, f.pos2, a, nil)).tbs()
		}
		check := func(api string, got []byte, err error, want []byte) {
			if err != nil || !bytes.Equal(got, want) {
				c.r.Violation("tbs-bytes "+api+" both-targets-present field="+diffField(got, want), fmt.Sprintf("%s on a TBS carrying poison and SCT list [%s]: err=%v got %s want %s", api, f.lay.String(c.al), err, hx(got), hx(want)),
					c.failDesc(f, tbs))
			}
		}
		*stage = "x509.RemoveCTPoison"
		got, err := x509.RemoveCTPoison(tbs)
		check("RemoveCTPoison", got, err, wantNoPoison)
		*stage = "x509.RemoveSCTList"
		got, err = x509.RemoveSCTList(tbs)
		check("RemoveSCTList", got, err, wantNoSCT)
	}
}

// wrongIssuer: the issuer / AKI replacement happens only in the pre-issuer case.
func (c *checker) wrongIssuer() {
	for _, is := range c.pick([]string{"p256", "rsa2048"}, []int{0, 1}) {
		px := c.px[is]
		for _, withAKI := range []bool{false, true} {
			c.r.Eval(1)
			_, subj := nameVariant(1, "wi.example")
			base := tmpl{serial: []byte{0x77}, sigAlg: is.caKey.SigAlgDER(), issuer: is.caName, notBefore: der.Time(tU0), notAfter: der.Time(tU1),
				subject: subj, spki: pki.LoadKey("p256-4").SPKI}
			exts := [][]byte{c.al[0].der}
			if withAKI {
				exts = append(exts, akiExt(pki.ExtAKI(is.caKeyID).Value))
			}
			want := base.with(exts).tbs()
			tbs := base.with(append([][]byte{pki.ExtPoison().DER()}, exts...)).tbs()
			desc := map[string]any{"family": "wrong-issuer", "issuer_key": is.kind, "aki": withAKI, "tbs": hx(tbs)}
			c.r.Nontrivial(fmt.Sprintf("wrong-issuer|%s|%s|%v", is.kind, is.nameLbl, withAKI))
			// an ordinary CA handed in as "pre-issuer": must be refused or leave issuer and AKI alone
			pan, msg, stack := enum.Catch(func() {
				got, err := x509.BuildPrecertTBS(tbs, px.ca)
				if err == nil && !bytes.Equal(got, want) {
					c.r.Violation("issuer-replaced-outside-pre-issuer-case BuildPrecertTBS", fmt.Sprintf("a CA without CT EKU was used as pre-issuer: got %s want %s or an error", hx(got), hx(want)), desc)
				}
				// a chain whose second element is an ordinary CA is the direct case even if a pre-issuer follows
				crt := cert(tbs, is.caKey, false)
				X, err := x509.ParseCertificate(crt)
				if err != nil {
					c.r.Violation("parse-error must-fail-template", err.Error(), desc)
					return
				}
				l, err := ct.MerkleTreeLeafFromChain([]*x509.Certificate{X, px.ca, px.pre[preWithAKI], px.root}, ct.PrecertLogEntryType, baseTS)
				wl := refLeaf(baseTS, ref.SignedEntry{EntryType: ref.PrecertEntry, IssuerKeyHash: is.caKey.KeyHash(), TBS: want}, nil)
				if b, _ := leafBytes(l); err != nil || !bytes.Equal(b, wl) {
					c.r.Violation("leaf-bytes MerkleTreeLeafFromChain direct-issuer-followed-by-pre-issuer", fmt.Sprintf("err=%v got %s want %s", err, hx(b), hx(wl)), desc)
				}
				// a pre-issuer without its own issuer in the chain: no final issuer key, must fail
				ptbs := base
				ptbs.issuer = is.preName
				pt := ptbs.with(append([][]byte{pki.ExtPoison().DER()}, exts...)).tbs()
				pc := cert(pt, is.preKey, false)
				PX, err := x509.ParseCertificate(pc)
				if err != nil {
					c.r.Violation("parse-error must-fail-template", err.Error(), desc)
					return
				}
				if l, err = ct.MerkleTreeLeafFromChain([]*x509.Certificate{PX, px.pre[preWithAKI]}, ct.PrecertLogEntryType, baseTS); err == nil {
					b, _ := leafBytes(l)
					c.r.Violation("must-fail MerkleTreeLeafFromChain pre-issuer-without-final-issuer", "leaf built without the final issuer: "+hx(b), desc)
				}
				if l, err = ct.MerkleTreeLeafFromChain([]*x509.Certificate{PX}, ct.PrecertLogEntryType, baseTS); err == nil {
					b, _ := leafBytes(l)
					c.r.Violation("must-fail MerkleTreeLeafFromChain no-issuer", "leaf built without any issuer: "+hx(b), desc)
				}
			})
			if pan {
				c.r.Violation("panic at wrong-issuer", msg+"\n"+stack, desc)
			}
		}
	}
}

// observations: non-canonical (but parseable) TBSCertificates. The statement is
// about canonical ones only, so the outcome is counted, never an alarm; a
// panic still is.
func (c *checker) observations() {
	is := c.pick([]string{"p256"}, []int{0})[0]
	_, subj := nameVariant(0, "obs.example")
	genOld := der.TLV(0x18, []byte("20240101000000Z")) // GeneralizedTime before 2050
	critFalse := der.Seq(der.OID(1, 3, 6, 1, 4, 1, 55555, 9), der.Bool(false), der.OctetString([]byte{1, 2, 3}))
	longLen := der.Seq(der.OID(1, 3, 6, 1, 4, 1, 55555, 10), der.TLVLongLen(0x04, 1, []byte{1, 2, 3}))
	type variant struct {
		name string
		mut  func(t *tmpl)
	}
	vs := []variant{
		{"generalizedtime-before-2050-notBefore", func(t *tmpl) { t.notBefore = genOld }},
		{"generalizedtime-before-2050-notAfter", func(t *tmpl) { t.notAfter = genOld }},
		{"explicit-critical-false", func(t *tmpl) { t.exts = append([][]byte{critFalse}, t.exts...) }},
		{"non-minimal-length-in-extension", func(t *tmpl) { t.exts = append(t.exts, longLen) }},
		{"negative-serial", func(t *tmpl) { t.serialRaw = []byte{0x02, 0x01, 0x80} }},
		{"padded-serial", func(t *tmpl) { t.serialRaw = []byte{0x02, 0x02, 0x00, 0x01} }},
		{"sigalg-null-params-on-ecdsa", func(t *tmpl) { t.sigAlg = der.Seq(der.OID(1, 2, 840, 10045, 4, 3, 2), der.Null()) }},
	}
	for _, v := range vs {
		for _, l := range layouts(nCoreNeighbours, 0, 1) {
			for _, target := range []string{"poison", "sctlist"} {
				c.r.Eval(1)
				base := tmpl{serial: []byte{0x21}, sigAlg: is.caKey.SigAlgDER(), issuer: is.caName, notBefore: der.Time(tU0), notAfter: der.Time(tU1),
					subject: subj, spki: pki.LoadKey("p256-4").SPKI}
				aki := akiExt(pki.ExtAKI(is.caKeyID).Value)
				tg := pki.ExtPoison().DER()
				if target == "sctlist" {
					tg = pki.ExtSCTList([]byte{0, 4, 0, 2, 0xaa, 0xbb}).DER()
				}
				in, want := base, base
				in.exts, want.exts = insertAt(c.al, l.nbs, aki, l.pos, tg), resolve(c.al, l.nbs, aki)
				v.mut(&in)
				v.mut(&want)
				var got []byte
				var err error
				pan, msg, stack := enum.Catch(func() {
					if target == "poison" {
						got, err = x509.RemoveCTPoison(in.tbs())
					} else {
						got, err = x509.RemoveSCTList(in.tbs())
					}
				})
				outcome := "rewritten(" + diffField(got, want.tbs()) + ")"
				switch {
				case pan:
					c.r.Violation("panic at observation "+v.name, msg+"\n"+stack, map[string]any{"variant": v.name, "tbs": hx(in.tbs())})
					continue
				case err != nil:
					outcome = "refused"
				case bytes.Equal(got, want.tbs()):
					outcome = "other-bytes-preserved"
				}
				c.r.Add("obs_noncanonical "+v.name+" => "+outcome, 1)
			}
		}
	}
}
