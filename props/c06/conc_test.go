//go:build verif && go1.25

// C06, concurrent part (Engine A): 2-3 requests run in parallel against one real
// front end whose backend RPCs are gates; the director releases the pending RPCs
// in every order (and sequences queued entries at any point). Whatever each
// request returned is checked against the same invariants as the sequential part.
package c06

import (
	"bytes"
	"context"
	"encoding/base64"
	"encoding/json"
	"fmt"
	"net/http"
	"sort"
	"strings"
	"sync"
	"sync/atomic"
	"testing"
	"testing/synctest"
	"time"

	"verif/engine/enum"
	"verif/engine/gate"
	"verif/engine/rep"
	"verif/ref/ct6962"
	"verif/ref/fe"
	"verif/ref/merkle"
	"verif/ref/pki"
	"verif/ref/reflog"

	ct "github.com/google/certificate-transparency-go"
	"github.com/google/trillian"
	"google.golang.org/grpc"
)

// gatedBackend releases each RPC to the reference backend when the director says so.
type gatedBackend struct {
	*reflog.Log
	env *gate.Env
}

func (g *gatedBackend) wait(ctx context.Context, key string) error {
	v, err := g.env.AskCtx(ctx, key, "rpc", nil)
	if err != nil {
		return err
	}
	if _, ok := v.(gate.Aborted); ok {
		return context.Canceled
	}
	return nil
}

func (g *gatedBackend) QueueLeaf(ctx context.Context, in *trillian.QueueLeafRequest, o ...grpc.CallOption) (*trillian.QueueLeafResponse, error) {
	if err := g.wait(ctx, fmt.Sprintf("QueueLeaf(%x)", in.Leaf.LeafIdentityHash[:4])); err != nil {
		return nil, err
	}
	return g.Log.QueueLeaf(ctx, in)
}
func (g *gatedBackend) GetLatestSignedLogRoot(ctx context.Context, in *trillian.GetLatestSignedLogRootRequest, o ...grpc.CallOption) (*trillian.GetLatestSignedLogRootResponse, error) {
	if err := g.wait(ctx, "GetLatestSignedLogRoot"); err != nil {
		return nil, err
	}
	return g.Log.GetLatestSignedLogRoot(ctx, in)
}
func (g *gatedBackend) GetConsistencyProof(ctx context.Context, in *trillian.GetConsistencyProofRequest, o ...grpc.CallOption) (*trillian.GetConsistencyProofResponse, error) {
	if err := g.wait(ctx, fmt.Sprintf("GetConsistencyProof(%d,%d)", in.FirstTreeSize, in.SecondTreeSize)); err != nil {
		return nil, err
	}
	return g.Log.GetConsistencyProof(ctx, in)
}
func (g *gatedBackend) GetInclusionProofByHash(ctx context.Context, in *trillian.GetInclusionProofByHashRequest, o ...grpc.CallOption) (*trillian.GetInclusionProofByHashResponse, error) {
	if err := g.wait(ctx, fmt.Sprintf("GetInclusionProofByHash(%x,%d)", in.LeafHash[:4], in.TreeSize)); err != nil {
		return nil, err
	}
	return g.Log.GetInclusionProofByHash(ctx, in)
}
func (g *gatedBackend) GetLeavesByRange(ctx context.Context, in *trillian.GetLeavesByRangeRequest, o ...grpc.CallOption) (*trillian.GetLeavesByRangeResponse, error) {
	if err := g.wait(ctx, fmt.Sprintf("GetLeavesByRange(%d,%d)", in.StartIndex, in.Count)); err != nil {
		return nil, err
	}
	return g.Log.GetLeavesByRange(ctx, in)
}
func (g *gatedBackend) GetEntryAndProof(ctx context.Context, in *trillian.GetEntryAndProofRequest, o ...grpc.CallOption) (*trillian.GetEntryAndProofResponse, error) {
	if err := g.wait(ctx, fmt.Sprintf("GetEntryAndProof(%d,%d)", in.LeafIndex, in.TreeSize)); err != nil {
		return nil, err
	}
	return g.Log.GetEntryAndProof(ctx, in)
}

// tickClock returns a later instant on every reading (so concurrent requests never share a clock value).
type tickClock struct {
	mu sync.Mutex
	t  time.Time
}

func (c *tickClock) Now() time.Time {
	c.mu.Lock()
	defer c.mu.Unlock()
	c.t = c.t.Add(1337 * time.Millisecond)
	return c.t
}

type creq struct {
	Kind  string // "add", "sth", "cons", "proof", "entries", "eap"
	Entry int
	A, B  int
}

func (q creq) String() string {
	switch q.Kind {
	case "add":
		return "add(" + entries[q.Entry].name + ")"
	case "cons":
		return fmt.Sprintf("consistency(%d,%d)", q.A, q.B)
	case "proof":
		return fmt.Sprintf("proof(entry %d, size %d)", q.Entry, q.A)
	case "entries":
		return fmt.Sprintf("entries(%d,%d)", q.A, q.B)
	case "eap":
		return fmt.Sprintf("entry-and-proof(%d,%d)", q.A, q.B)
	}
	return q.Kind
}

type cscenario struct {
	Pre   []int  // entries submitted and sequenced beforehand
	Reqs  []creq // concurrent requests
	Bound int
}

func (s cscenario) String() string {
	var r []string
	for _, q := range s.Reqs {
		r = append(r, q.String())
	}
	return fmt.Sprintf("pre=%v reqs=[%s] bound=%d", s.Pre, strings.Join(r, " || "), s.Bound)
}

type cresult struct {
	status int
	body   []byte
	at     time.Duration
}

func runConc(sc cscenario) func(t *testing.T, x *gate.Exec) {
	return func(t *testing.T, x *gate.Exec) {
		env := gate.NewEnv()
		k := logKeys["p256"]
		back := reflog.New(42)
		gb := &gatedBackend{Log: back, env: env}
		clk := &tickClock{t: time.Date(2024, 6, 1, 0, 0, 0, 0, time.UTC)}
		// the front end takes a util.TimeSource: adapt through fe.Clock is not possible (settable only),
		// so build with a custom validation-free config and our own clock type
		f, err := fe.NewWithTimeSource(fe.Config{LogID: 42, Prefix: "c06", Roots: [][]byte{root.DER}, Signer: k.Priv, Client: gb}, clk)
		if err != nil {
			x.Violation("harness", "%v", err)
			return
		}
		results := make([]*cresult, len(sc.Reqs))
		var mu sync.Mutex
		// pre-population without the director: release every RPC at once
		prep := make(chan struct{})
		go func() {
			for _, e := range sc.Pre {
				f.AddChain(entries[e].pre, pki.DERs(entries[e].chain...))
			}
			close(prep)
		}()
		for done := false; !done; {
			synctest.Wait()
			select {
			case <-prep:
				done = true
			default:
				for _, p := range env.Pending() {
					env.Answer(p, "go")
				}
			}
		}
		back.Sequence(-1, rootNanos(len(sc.Pre)))
		nPre := len(sc.Pre)
		preTS := map[int]uint64{}
		for i := 0; i < nPre; i++ {
			lv := back.Leaf(i).LeafValue
			var ts uint64
			for _, b := range lv[2:10] {
				ts = ts<<8 | uint64(b)
			}
			preTS[sc.Pre[i]] = ts
		}
		hashOf := func(e int) []byte {
			for i := 0; i < back.Size(); i++ {
				if idOfLeaf(back.Leaf(i).LeafValue, preTS) == e {
					return merkle.LeafHash(back.Leaf(i).LeafValue)
				}
			}
			return make([]byte, 32)
		}
		var running atomic.Int32
		for i, q := range sc.Reqs {
			running.Add(1)
			go func() {
				defer func() { running.Add(-1); env.Notify() }()
				var r fe.Resp
				switch q.Kind {
				case "add":
					r, _ = f.AddChain(entries[q.Entry].pre, pki.DERs(entries[q.Entry].chain...))
				case "sth":
					r = f.Get(ct.GetSTHPath)
				case "cons":
					r = f.Get(ct.GetSTHConsistencyPath, "first", fmt.Sprint(q.A), "second", fmt.Sprint(q.B))
				case "proof":
					r = f.Get(ct.GetProofByHashPath, "hash", base64.StdEncoding.EncodeToString(hashOf(q.Entry)), "tree_size", fmt.Sprint(q.A))
				case "entries":
					r = f.Get(ct.GetEntriesPath, "start", fmt.Sprint(q.A), "end", fmt.Sprint(q.B))
				case "eap":
					r = f.Get(ct.GetEntryAndProofPath, "leaf_index", fmt.Sprint(q.A), "tree_size", fmt.Sprint(q.B))
				}
				mu.Lock()
				results[i] = &cresult{r.Status, r.Body, gate.Now()}
				mu.Unlock()
			}()
		}
		seqSteps := 0
		for steps := 0; ; steps++ {
			synctest.Wait()
			pend := env.Pending()
			if running.Load() == 0 && len(pend) == 0 {
				break
			}
			if steps > 60 {
				x.Violation("horizon", "%v", sc)
				break
			}
			var alts []gate.Alt
			var acts []func()
			for pi, p := range pend {
				c := 0
				if pi > 0 {
					c = 1
				}
				alts = append(alts, gate.Alt{Label: "release " + p.Key, Cost: c})
				acts = append(acts, func() { env.Answer(p, "go") })
			}
			if back.Queued() > 0 && seqSteps < 2 {
				alts = append(alts, gate.Alt{Label: "backend sequences 1", Cost: 1})
				acts = append(acts, func() { seqSteps++; back.Sequence(1, rootNanos(back.Size()+1)) })
			}
			if len(alts) == 0 {
				x.Violation("stuck", "%v: requests outstanding but no backend call pending", sc)
				break
			}
			acts[x.Choose(alts)]()
		}
		env.Shutdown()
		synctest.Wait()
		// ---- invariants on whatever each request returned
		var lh [][]byte
		for i := 0; i < back.Size(); i++ {
			lh = append(lh, merkle.LeafHash(back.Leaf(i).LeafValue))
		}
		var out []string
		addTS := map[int][]uint64{}
		for i, q := range sc.Reqs {
			r := results[i]
			if r == nil {
				x.Violation("request-did-not-return", "%v: %s", sc, q)
				continue
			}
			out = append(out, fmt.Sprintf("%s=%d", q.Kind, r.status))
			switch q.Kind {
			case "add":
				var a ct.AddChainResponse
				if r.status != 200 || json.Unmarshal(r.body, &a) != nil {
					x.Violation("concurrent-add-refused", "%v: %s: HTTP %d %.80s", sc, q, r.status, r.body)
					continue
				}
				addTS[q.Entry] = append(addTS[q.Entry], a.Timestamp)
				if ts, ok := preTS[q.Entry]; ok && a.Timestamp != ts {
					x.Violation("duplicate-sct-timestamp", "%v: %s: SCT timestamp %d, stored entry has %d", sc, q, a.Timestamp, ts)
				}
			case "sth":
				var sth struct {
					TreeSize  uint64 `json:"tree_size"`
					Timestamp uint64 `json:"timestamp"`
					Root      []byte `json:"sha256_root_hash"`
					Sig       []byte `json:"tree_head_signature"`
				}
				if r.status != 200 || json.Unmarshal(r.body, &sth) != nil {
					x.Violation("concurrent-get-sth-failed", "%v: HTTP %d", sc, r.status)
					continue
				}
				if int(sth.TreeSize) > len(lh) || int(sth.TreeSize) < nPre || !bytes.Equal(sth.Root, merkle.Root(lh[:sth.TreeSize])) {
					x.Violation("sth-not-a-prefix-of-the-history", "%v: served size %d (history %d..%d)", sc, sth.TreeSize, nPre, len(lh))
				}
				var r32 [32]byte
				copy(r32[:], sth.Root)
				msg, _ := ct6962.AppendSTHSignatureInput(nil, 0, sth.Timestamp, sth.TreeSize, r32)
				if !sigOK(k, msg, sth.Sig) {
					x.Violation("sth-signature", "%v: an STH served under concurrency does not verify", sc)
				}
				if sth.Timestamp != rootNanos(int(sth.TreeSize))/1e6 {
					x.Violation("sth-timestamp", "%v: size %d timestamp %d", sc, sth.TreeSize, sth.Timestamp)
				}
			case "cons":
				if r.status != 200 {
					if q.B <= nPre {
						x.Violation("concurrent-consistency-failed", "%v: %s: HTTP %d", sc, q, r.status)
					}
					continue
				}
				var cr struct {
					Consistency [][]byte `json:"consistency"`
				}
				json.Unmarshal(r.body, &cr)
				if q.B > len(lh) || !merkle.VerifyConsistency(uint64(q.A), uint64(q.B), merkle.Root(lh[:q.A]), merkle.Root(lh[:q.B]), cr.Consistency) {
					x.Violation("consistency-proof-does-not-verify", "%v: %s", sc, q)
				}
			case "proof":
				if r.status != 200 {
					if q.A <= nPre {
						x.Violation("concurrent-proof-failed", "%v: %s: HTTP %d", sc, q, r.status)
					}
					continue
				}
				var pr struct {
					LeafIndex int64    `json:"leaf_index"`
					AuditPath [][]byte `json:"audit_path"`
				}
				json.Unmarshal(r.body, &pr)
				if q.A > len(lh) || int(pr.LeafIndex) >= q.A || !merkle.VerifyInclusion(uint64(pr.LeafIndex), uint64(q.A), lh[pr.LeafIndex], pr.AuditPath, merkle.Root(lh[:q.A])) {
					x.Violation("audit-path-does-not-verify", "%v: %s", sc, q)
				}
			case "entries", "eap":
				if r.status != 200 && q.B < nPre {
					x.Violation("concurrent-read-failed", "%v: %s: HTTP %d", sc, q, r.status)
				}
			}
		}
		for e, tss := range addTS {
			for _, ts := range tss[1:] {
				if ts != tss[0] {
					x.Violation("concurrent-duplicates-get-different-timestamps", "%v: entry %d: %v", sc, e, tss)
				}
			}
			// exactly one stored leaf for the entry
			n := 0
			all := back.QueuedValues()
			for i := 0; i < back.Size(); i++ {
				all = append(all, back.Leaf(i).LeafValue)
			}
			for _, lv := range all {
				var ts uint64
				for _, b := range lv[2:10] {
					ts = ts<<8 | uint64(b)
				}
				if ts == tss[0] {
					n++
				}
			}
			if n != 1 {
				x.Violation("entry-stored-other-than-once", "%v: entry %d stored %d times", sc, e, n)
			}
		}
		sort.Strings(out)
		x.Outcome = fmt.Sprintf("size=%d queued=%d %s", back.Size(), back.Queued(), strings.Join(out, ","))
	}
}

func idOfLeaf(lv []byte, preTS map[int]uint64) int {
	var ts uint64
	for _, b := range lv[2:10] {
		ts = ts<<8 | uint64(b)
	}
	for e, t := range preTS {
		if t == ts {
			return e
		}
	}
	return -1
}

func concScenarios(th bool) []cscenario {
	// every request issues one backend RPC, so the order space is small: all orders of the
	// pending RPCs and all placements of up to two sequencing steps are enumerated (no bound)
	b := -1
	add := func(e int) creq { return creq{Kind: "add", Entry: e} }
	sth := creq{Kind: "sth"}
	out := []cscenario{
		{Pre: []int{0, 1}, Reqs: []creq{add(2), add(2)}, Bound: b},
		{Pre: []int{0, 1}, Reqs: []creq{add(2), add(2), add(2)}, Bound: b},
		{Pre: []int{0, 1}, Reqs: []creq{add(2), add(0), sth}, Bound: b},
		{Pre: []int{0, 1}, Reqs: []creq{add(3), sth, {Kind: "cons", A: 1, B: 2}}, Bound: b},
		{Pre: []int{0, 1, 2}, Reqs: []creq{add(3), {Kind: "proof", Entry: 1, A: 3}, sth}, Bound: b},
		{Pre: []int{0, 1}, Reqs: []creq{add(2), sth, sth}, Bound: b},
		{Pre: []int{0}, Reqs: []creq{add(1), add(2), {Kind: "cons", A: 1, B: 2}}, Bound: b},
		{Pre: []int{0}, Reqs: []creq{add(1), add(2), {Kind: "cons", A: 1, B: 3}, sth}, Bound: b},
		{Pre: []int{0, 1, 2}, Reqs: []creq{add(3), {Kind: "entries", A: 0, B: 2}, {Kind: "eap", A: 1, B: 3}}, Bound: b},
		{Pre: []int{0, 1}, Reqs: []creq{sth, {Kind: "proof", Entry: 0, A: 2}, {Kind: "cons", A: 1, B: 2}}, Bound: b},
		{Pre: []int{0}, Reqs: []creq{add(1), {Kind: "proof", Entry: 0, A: 2}, {Kind: "eap", A: 0, B: 2}, sth}, Bound: b},
	}
	if th {
		out = append(out,
			cscenario{Pre: []int{0}, Reqs: []creq{add(1), add(2), add(3), sth, sth}, Bound: b},
			cscenario{Pre: []int{0, 1}, Reqs: []creq{add(2), add(3), {Kind: "cons", A: 2, B: 3}, {Kind: "cons", A: 2, B: 4}, {Kind: "proof", Entry: 1, A: 4}}, Bound: b})
	}
	return out
}

func runConcurrent(t *testing.T, r *rep.R) {
	gate.ReportHangs(r)
	scs := concScenarios(r.Thorough())
	var exec, pts atomic.Int64
	enum.ParFor(len(scs), r.Expired, func(i int) {
		sc := scs[i]
		ex := &gate.Explorer{Name: sc.String(), Bound: sc.Bound, Run: runConc(sc), Stop: r.Expired, Workers: 2}
		ex.OnViolation = func(v gate.Violation, picks []gate.Pick, trace []string) {
			r.Violation("concurrent: "+v.Sig, v.Desc, map[string]any{"scenario": sc.String(), "choices": picks, "trace": trace})
		}
		ex.Explore(t)
		exec.Add(ex.Executions.Load())
		pts.Add(ex.Points.Load())
		r.Eval(int(ex.Executions.Load()))
		for _, o := range ex.OutcomeList(1 << 30) {
			r.Nontrivial("conc|" + sc.String() + o[:strings.LastIndex(o, " x")])
		}
		if ex.Capped.Load() {
			r.Capped("deadline reached in concurrent scenario " + sc.String())
		}
		if n := ex.Divergent.Load(); n > 0 {
			r.Capped(fmt.Sprintf("%d divergent branches in %s", n, sc.String()))
		}
		if i == 1 {
			r.Sample(map[string]any{"concurrent_scenario": sc.String(), "schedules": ex.Executions.Load(), "outcomes": ex.OutcomeList(5), "trace": ex.SampleTrace()})
		}
	})
	r.Set("concurrent_schedules", exec.Load())
	r.Set("concurrent_decision_points", pts.Load())
	_ = http.StatusOK
}
