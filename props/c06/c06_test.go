//go:build verif && go1.25

// C06 — the log front end presents one verifiable, append-only history.
//
// Engine C (explicit-state model checking on the real code): a state is the
// backend content (sequenced entries in order + queued entries). Every state is
// reached by replaying its shortest operation path on a fresh real front end
// over a fresh reference backend; in every state every read endpoint is called
// with every in-range parameter combination (directly and through the real
// client.LogClient / ctutil.LogInfo) and checked against RFC 6962 recomputed by
// ref/merkle; every transition (add-chain / add-pre-chain fresh or duplicate,
// sequencing steps of 1 or all) is executed on the real handlers.
package c06

import (
	"bytes"
	"context"
	"crypto"
	"crypto/ecdsa"
	"crypto/rsa"
	"crypto/sha256"
	"encoding/base64"
	"encoding/json"
	"errors"
	"fmt"
	"io"
	"net/http"
	"sort"
	"strings"
	"sync"
	"sync/atomic"
	"testing"
	"time"

	"verif/engine/enum"
	"verif/engine/rep"
	"verif/ref/ct6962"
	"verif/ref/fe"
	"verif/ref/merkle"
	"verif/ref/pki"
	"verif/ref/reflog"

	ct "github.com/google/certificate-transparency-go"
	"github.com/google/certificate-transparency-go/client"
	"github.com/google/certificate-transparency-go/ctutil"
	"github.com/google/certificate-transparency-go/jsonclient"
	"github.com/google/certificate-transparency-go/loglist3"
	"github.com/google/certificate-transparency-go/tls"
	"github.com/google/certificate-transparency-go/x509"
	"k8s.io/klog/v2"
)

// ---- world ------------------------------------------------------------------------

type entryDef struct {
	name  string
	pre   bool
	chain []*pki.Cert // as submitted
	full  []*pki.Cert // validated path incl. root
	clock time.Time   // front-end clock at the first submission
}

var (
	root       = pki.NewRoot("C06 Root", pki.LoadKey("p256-0"))
	ca         = pki.NewCA("C06 CA", pki.LoadKey("p384-0"), root, pki.CAOpts{})
	preIss     = pki.NewCA("C06 Precert Signing", pki.LoadKey("p256-1"), ca, pki.CAOpts{EKUs: [][]int{pki.OIDEKUCT}})
	entries    []*entryDef
	extraEntry *entryDef // fifth entry, thorough tier only
	logKeys    = map[string]*pki.Key{"p256": pki.LoadKey("p256-3"), "rsa": pki.LoadKey("rsa2048-0")}
)

func init() {
	t0 := time.Date(2024, 5, 1, 0, 0, 0, 0, time.UTC)
	l0 := pki.NewLeaf("c06-a", pki.LoadKey("p256-2"), ca, pki.LeafOpts{})
	l1 := pki.NewLeaf("c06-b", pki.LoadKey("rsa2048-1"), ca, pki.LeafOpts{})
	akiCA := ca.T.Key.KeyHash()
	p2 := pki.NewLeaf("c06-c", pki.LoadKey("p256-2"), ca, pki.LeafOpts{Exts: []pki.Ext{pki.ExtSAN("c.example"), pki.ExtPoison(), pki.ExtAKI(akiCA[:20])}})
	akiPI := preIss.T.Key.KeyHash()
	p3 := pki.NewLeaf("c06-d", pki.LoadKey("p256-2"), preIss, pki.LeafOpts{Exts: []pki.Ext{pki.ExtPoison(), pki.ExtSAN("d.example"), pki.ExtAKI(akiPI[:20])}})
	l4 := pki.NewLeaf("c06-e", pki.LoadKey("ed25519-0"), ca, pki.LeafOpts{})
	extraEntry = &entryDef{name: "cert-e(ed25519 leaf)", chain: []*pki.Cert{l4, ca}, full: []*pki.Cert{l4, ca, root}, clock: t0.Add(49*time.Hour + 500*time.Microsecond)}
	entries = []*entryDef{
		{name: "cert-a(root omitted)", chain: []*pki.Cert{l0, ca}, full: []*pki.Cert{l0, ca, root}, clock: t0.Add(1500 * time.Microsecond)},
		{name: "cert-b(root included)", chain: []*pki.Cert{l1, ca, root}, full: []*pki.Cert{l1, ca, root}, clock: t0.Add(7*time.Second + 999999*time.Nanosecond)},
		{name: "precert-c", pre: true, chain: []*pki.Cert{p2, ca}, full: []*pki.Cert{p2, ca, root}, clock: t0.Add(time.Hour)},
		{name: "precert-d(pre-issuer)", pre: true, chain: []*pki.Cert{p3, preIss, ca}, full: []*pki.Cert{p3, preIss, ca, root}, clock: t0.Add(25 * time.Hour)},
	}
}

// ---- operations and state ----------------------------------------------------------

type op struct {
	Kind  string // "add", "seq1", "seqall"
	Entry int
}

func (o op) String() string {
	if o.Kind == "add" {
		return "add(" + entries[o.Entry].name + ")"
	}
	return o.Kind
}

// model state: sequenced entry ids in order, queued entry ids in order
type mstate struct {
	seq, queue []int
	resigned   int // how often the backend re-published the current tree with a later root timestamp
	signFailed int // a get-sth for the current tree head met a failing signer: 1 = down for the whole request, 2 = one failed call, then fine (a signer that is retried)
}

func (s mstate) key() string {
	k := fmt.Sprint(s.seq, "|", s.queue, "|", s.resigned)
	if s.signFailed == 1 {
		k += "|signer was down during a get-sth for this head"
	} else if s.signFailed == 2 {
		k += "|signer failed one call during a get-sth for this head"
	}
	return k
}
func (s mstate) has(e int) bool {
	for _, x := range append(append([]int{}, s.seq...), s.queue...) {
		if x == e {
			return true
		}
	}
	return false
}
func (s mstate) apply(o op) mstate {
	n := mstate{append([]int{}, s.seq...), append([]int{}, s.queue...), s.resigned, s.signFailed}
	switch o.Kind {
	case "signfail":
		n.signFailed = 1
	case "signfail1":
		n.signFailed = 2
	case "republish":
		if n.resigned < 1 && len(n.seq) > 0 {
			n.resigned++
			n.signFailed = 0
		}
	case "add":
		if !n.has(o.Entry) {
			n.queue = append(n.queue, o.Entry)
		}
	case "seq1":
		if len(n.queue) > 0 {
			n.seq = append(n.seq, n.queue[0])
			n.queue = n.queue[1:]
			n.resigned = 0
			n.signFailed = 0
		}
	case "seqall":
		if len(n.queue) > 0 {
			n.resigned = 0
			n.signFailed = 0
		}
		n.seq = append(n.seq, n.queue...)
		n.queue = nil
	}
	return n
}

// ---- one real instance -----------------------------------------------------------------

type inst struct {
	f     *fe.FE
	back  *reflog.Log
	clock *fe.Clock
	key   *pki.Key
	scts  map[int]*ct.AddChainResponse // SCT issued at the first 200 for each entry
	lc    *client.LogClient
	// signFail: while set, the log's signer refuses to sign
	signFail  *atomic.Bool
	signFailN *atomic.Int32
}

// flakySigner is the log key behind a switch (an HSM that is momentarily unavailable).
type flakySigner struct {
	crypto.Signer
	fail  *atomic.Bool
	failN *atomic.Int32 // > 0: that many calls fail, then the signer works again
}

func (f flakySigner) Sign(rand io.Reader, digest []byte, opts crypto.SignerOpts) ([]byte, error) {
	if f.fail.Load() {
		return nil, errors.New("signer unavailable (injected)")
	}
	if f.failN.Load() > 0 {
		f.failN.Add(-1)
		return nil, errors.New("signer session dropped (injected, one call)")
	}
	return f.Signer.Sign(rand, digest, opts)
}

func newInst(logKey string) (*inst, error) {
	k := logKeys[logKey]
	back := reflog.New(42)
	clk := &fe.Clock{T: time.Unix(1, 0)}
	sf, sfn := &atomic.Bool{}, &atomic.Int32{}
	f, err := fe.New(fe.Config{LogID: 42, Prefix: "c06", Roots: [][]byte{root.DER}, Signer: flakySigner{k.Priv, sf, sfn}, Client: back, Clock: clk})
	if err != nil {
		return nil, err
	}
	lc, err := client.New("http://log.example/c06", &http.Client{Transport: fe.RoundTripper{F: f}}, jsonclient.Options{PublicKeyDER: k.SPKI, Logger: nolog{}})
	if err != nil {
		return nil, err
	}
	return &inst{f: f, back: back, clock: clk, key: k, scts: map[int]*ct.AddChainResponse{}, lc: lc, signFail: sf, signFailN: sfn}, nil
}

type nolog struct{}

func (nolog) Printf(string, ...interface{}) {}

// rootNanos: the backend's root timestamp for a tree of the given size. The sub-millisecond part walks through the
// positions a conversion to milliseconds can get wrong: mid-millisecond, 10 ns before the next one, 1 ns before the
// next second, exactly on a millisecond.
// Sizes 1 and 2, 3 and 4, ... get root timestamps a fraction of one millisecond apart (a signer that integrates twice
// in quick succession): the two heads differ in size and root and agree in the millisecond the STH reports.
func rootNanos(size int) uint64 {
	return uint64(1700000000)*1e9 + uint64((size+1)/2)*1e9 + []uint64{77000000, 123456789, 123999990, 999000000, 999999999, 500000001, 500999999, 77000000}[size%8]
}

// afterStep: what a client sees straight after a transition, before anything else has asked this front end for a
// tree head: (1) the consistency proof between the previous and the new tree size (another front end of the same log
// may already have served the new head), (2) a tree head that is the backend's current one.
func (c *checker) afterStep(in *inst, sizeBefore int, path []op) {
	n := int(in.back.Size())
	var lh [][]byte
	for i := 0; i < n; i++ {
		lh = append(lh, merkle.LeafHash(in.back.Leaf(i).LeafValue))
	}
	if sizeBefore >= 1 && n > sizeBefore {
		c.r.Eval(1)
		r := in.f.Get(ct.GetSTHConsistencyPath, "first", fmt.Sprint(sizeBefore), "second", fmt.Sprint(n))
		var cr struct {
			Consistency [][]byte `json:"consistency"`
		}
		if r.Status != 200 || json.Unmarshal(r.Body, &cr) != nil {
			c.viol("get-sth-consistency-failed-straight-after-the-tree-grew", path, "first=%d second=%d: HTTP %d %.100s", sizeBefore, n, r.Status, r.Body)
		} else if !merkle.VerifyConsistency(uint64(sizeBefore), uint64(n), merkle.Root(lh[:sizeBefore]), merkle.Root(lh), cr.Consistency) {
			c.viol("consistency-proof-does-not-verify", path, "first=%d second=%d proof of %d nodes (straight after the tree grew)", sizeBefore, n, len(cr.Consistency))
		}
	}
	c.r.Eval(1)
	r := in.f.Get(ct.GetSTHPath)
	var sth struct {
		TreeSize  uint64 `json:"tree_size"`
		Timestamp uint64 `json:"timestamp"`
		Root      []byte `json:"sha256_root_hash"`
	}
	if r.Status != 200 || json.Unmarshal(r.Body, &sth) != nil {
		c.viol("get-sth-failed", path, "straight after the step: HTTP %d %.100s", r.Status, r.Body)
		return
	}
	if sth.TreeSize != uint64(n) || !bytes.Equal(sth.Root, merkle.Root(lh)) {
		c.viol("sth-does-not-match-backend", path, "straight after the step: served size %d root %x, backend size %d root %x", sth.TreeSize, sth.Root, n, merkle.Root(lh))
	}
	if want := in.back.RootNanos() / 1e6; sth.Timestamp != want {
		c.viol("sth-timestamp", path, "straight after the step: served %d, backend root time %d ns => %d ms", sth.Timestamp, in.back.RootNanos(), want)
	}
}

type checker struct {
	r   *rep.R
	key string // log key kind
}

func (c *checker) viol(sig string, path []op, format string, args ...any) {
	var p []string
	for _, o := range path {
		p = append(p, o.String())
	}
	c.r.Violation(sig, fmt.Sprintf("[log key %s] after %v: ", c.key, p)+fmt.Sprintf(format, args...), map[string]any{"log_key": c.key, "path": p})
}

// sigOK verifies a TLS DigitallySigned blob over msg with std crypto.
func sigOK(k *pki.Key, msg []byte, ds []byte) bool {
	if len(ds) < 4 {
		return false
	}
	n := int(ds[2])<<8 | int(ds[3])
	if len(ds) != 4+n || ds[0] != 4 {
		return false
	}
	h := sha256.Sum256(msg)
	switch pub := k.Priv.Public().(type) {
	case *ecdsa.PublicKey:
		return ds[1] == 3 && ecdsa.VerifyASN1(pub, h[:], ds[4:])
	case *rsa.PublicKey:
		return ds[1] == 1 && rsa.VerifyPKCS1v15(pub, crypto.SHA256, h[:], ds[4:]) == nil
	}
	return false
}

// apply executes one operation on the real instance and checks its immediate post-conditions.
func (c *checker) apply(in *inst, s mstate, o op, path []op) {
	switch o.Kind {
	case "add":
		e := entries[o.Entry]
		dup := s.has(o.Entry)
		if dup {
			in.clock.Set(e.clock.Add(3 * time.Hour)) // a resubmission arrives later
		} else {
			in.clock.Set(e.clock)
		}
		resp, sct := in.f.AddChain(e.pre, pki.DERs(e.chain...))
		if resp.Status != 200 || sct == nil {
			c.viol("add-chain-refused", path, "%s: HTTP %d %.100s", o, resp.Status, resp.Body)
			return
		}
		wantTS := uint64(e.clock.UnixNano() / 1e6)
		if sct.Timestamp != wantTS {
			c.viol("sct-timestamp", path, "%s: SCT timestamp %d, want %d (duplicate=%v)", o, sct.Timestamp, wantTS, dup)
		}
		if prev, ok := in.scts[o.Entry]; ok {
			if prev.Timestamp != sct.Timestamp || !bytes.Equal(prev.ID, sct.ID) {
				c.viol("duplicate-sct-differs", path, "%s", o)
			}
		} else {
			in.scts[o.Entry] = sct
		}
	case "signfail":
		// one get-sth while the signer is down: whatever it answers (an error, or the cached head if the
		// tree has not moved), it must not spoil what is served afterwards
		in.signFail.Store(true)
		in.f.Get(ct.GetSTHPath)
		in.signFail.Store(false)
	case "signfail1":
		// one get-sth during which exactly one call to the signer fails
		in.signFailN.Store(1)
		in.f.Get(ct.GetSTHPath)
		in.signFailN.Store(0)
	case "republish":
		// the signer re-publishes the same tree with a later timestamp (Trillian does this
		// periodically); a monitor polled get-sth just before
		in.f.Get(ct.GetSTHPath)
		if s.resigned < 1 && len(s.seq) > 0 {
			in.back.SetRootTime(rootNanos(len(s.seq)) + 5e9 + 1)
		}
	case "seq1":
		// a monitor polls get-sth before every sequencing step, so the front end's STH
		// signature cache holds the previous head when the tree changes
		in.f.Get(ct.GetSTHPath)
		if len(s.queue) > 0 { // the signer publishes a new root only when there is something to integrate
			in.back.Sequence(1, rootNanos(len(s.seq)+1))
		}
	case "seqall":
		in.f.Get(ct.GetSTHPath)
		if len(s.queue) > 0 {
			in.back.Sequence(-1, rootNanos(len(s.seq)+len(s.queue)))
		}
	}
}

// sctOf builds the library SCT value from an add-chain response (as a client would).
func sctOf(r *ct.AddChainResponse) (*ct.SignedCertificateTimestamp, error) {
	return r.ToSignedCertificateTimestamp()
}

// reads runs every read endpoint with every in-range parameter combination in the given state.
func (c *checker) reads(in *inst, s mstate, path []op) (digest string) {
	n := len(s.seq)
	var dg strings.Builder
	// reference tree
	var lh [][]byte
	var leafVals, extras [][]byte
	for i := 0; i < n; i++ {
		lf := in.back.Leaf(i)
		leafVals = append(leafVals, lf.LeafValue)
		extras = append(extras, lf.ExtraData)
		lh = append(lh, merkle.LeafHash(lf.LeafValue))
	}
	rootAt := func(m int) []byte { return merkle.Root(lh[:m]) }
	get := func(path string, kv ...string) fe.Resp {
		c.r.Eval(1)
		return in.f.Get(path, kv...)
	}
	// --- get-sth (twice: the signature cache must be invisible)
	var sthTS uint64
	for round := 0; round < 2; round++ {
		r := get(ct.GetSTHPath)
		var sth struct {
			TreeSize  uint64 `json:"tree_size"`
			Timestamp uint64 `json:"timestamp"`
			Root      []byte `json:"sha256_root_hash"`
			Sig       []byte `json:"tree_head_signature"`
		}
		if r.Status != 200 || json.Unmarshal(r.Body, &sth) != nil {
			c.viol("get-sth-failed", path, "HTTP %d %.100s", r.Status, r.Body)
			return
		}
		if sth.TreeSize != uint64(n) || !bytes.Equal(sth.Root, rootAt(n)) {
			c.viol("sth-does-not-match-backend", path, "served size %d root %x, backend size %d root %x", sth.TreeSize, sth.Root, n, rootAt(n))
		}
		wantTS := in.back.RootNanos() / 1e6
		if sth.Timestamp != wantTS {
			c.viol("sth-timestamp", path, "served %d, backend root time %d ns => %d ms", sth.Timestamp, in.back.RootNanos(), wantTS)
		}
		var r32 [32]byte
		copy(r32[:], sth.Root)
		msg, _ := ct6962.AppendSTHSignatureInput(nil, 0, sth.Timestamp, sth.TreeSize, r32)
		if len(sth.Root) != 32 || !sigOK(in.key, msg, sth.Sig) {
			c.viol("sth-signature", path, "the served STH does not verify under the log key")
		}
		sthTS = sth.Timestamp
		if in.key.Kind == "rsa2048" {
			fmt.Fprintf(&dg, "sth:%x;", sha256.Sum256(r.Body))
		}
	}
	_ = sthTS
	// through the real client
	if sth, err := in.lc.GetSTH(context.Background()); err != nil {
		c.viol("client-getsth", path, "LogClient.GetSTH: %v", err)
	} else if sth.TreeSize != uint64(n) {
		c.viol("client-getsth", path, "LogClient.GetSTH size %d want %d", sth.TreeSize, n)
	}
	// --- get-sth-consistency for every 0 <= first <= second <= n, and beyond
	for first := 0; first <= n+1; first++ {
		for second := first; second <= n+1; second++ {
			r := get(ct.GetSTHConsistencyPath, "first", fmt.Sprint(first), "second", fmt.Sprint(second))
			if second > n {
				if r.Status == 200 && first != 0 {
					c.viol("consistency-beyond-tree-served", path, "first=%d second=%d tree=%d answered 200", first, second, n)
				}
				continue
			}
			var cr struct {
				Consistency [][]byte `json:"consistency"`
			}
			if r.Status != 200 || json.Unmarshal(r.Body, &cr) != nil {
				c.viol("get-sth-consistency-failed", path, "first=%d second=%d: HTTP %d %.100s", first, second, r.Status, r.Body)
				continue
			}
			if !merkle.VerifyConsistency(uint64(first), uint64(second), rootAt(first), rootAt(second), cr.Consistency) {
				c.viol("consistency-proof-does-not-verify", path, "first=%d second=%d proof of %d nodes", first, second, len(cr.Consistency))
			}
			fmt.Fprintf(&dg, "c%d-%d:%x;", first, second, sha256.Sum256(r.Body))
		}
	}
	// --- entries: bytes, decoding, proofs
	type le struct {
		LeafInput []byte `json:"leaf_input"`
		ExtraData []byte `json:"extra_data"`
	}
	for start := 0; start < n; start++ {
		for end := start; end < n; end++ {
			r := get(ct.GetEntriesPath, "start", fmt.Sprint(start), "end", fmt.Sprint(end))
			var er struct {
				Entries []le `json:"entries"`
			}
			if r.Status != 200 || json.Unmarshal(r.Body, &er) != nil {
				c.viol("get-entries-failed", path, "start=%d end=%d: HTTP %d %.100s", start, end, r.Status, r.Body)
				continue
			}
			if len(er.Entries) != end-start+1 {
				c.viol("get-entries-count", path, "start=%d end=%d: %d entries", start, end, len(er.Entries))
				continue
			}
			for k, e := range er.Entries {
				if !bytes.Equal(e.LeafInput, leafVals[start+k]) || !bytes.Equal(e.ExtraData, extras[start+k]) {
					c.viol("get-entries-bytes", path, "start=%d end=%d: entry %d differs from the stored leaf", start, end, start+k)
				}
			}
			fmt.Fprintf(&dg, "e%d-%d:%x;", start, end, sha256.Sum256(r.Body))
		}
	}
	for i := 0; i < n; i++ {
		e := entries[s.seq[i]]
		// decode with the library's entry parser: recovers the submission
		lent, err := ct.LogEntryFromLeaf(int64(i), &ct.LeafEntry{LeafInput: leafVals[i], ExtraData: extras[i]})
		if err != nil && x509.IsFatal(err) || lent == nil {
			c.viol("served-entry-does-not-decode", path, "index %d (%s): %v", i, e.name, err)
		} else {
			var gotLeaf []byte
			wantType := ct.X509LogEntryType
			if e.pre {
				wantType = ct.PrecertLogEntryType
				if lent.Precert != nil {
					gotLeaf = lent.Precert.Submitted.Data
				}
			} else if lent.X509Cert != nil {
				gotLeaf = lent.X509Cert.Raw
			}
			if lent.Leaf.TimestampedEntry.EntryType != wantType || !bytes.Equal(gotLeaf, e.chain[0].DER) {
				c.viol("decoded-entry-is-not-the-submission", path, "index %d (%s)", i, e.name)
			}
			if len(lent.Chain) != len(e.full)-1 {
				c.viol("decoded-chain-length", path, "index %d (%s): %d certificates, want %d", i, e.name, len(lent.Chain), len(e.full)-1)
			} else {
				for k := range lent.Chain {
					if !bytes.Equal(lent.Chain[k].Data, e.full[k+1].DER) {
						c.viol("decoded-chain-differs", path, "index %d (%s) chain[%d]", i, e.name, k)
					}
				}
			}
			if lent.Leaf.TimestampedEntry.Timestamp != uint64(e.clock.UnixNano()/1e6) {
				c.viol("decoded-timestamp", path, "index %d (%s)", i, e.name)
			}
		}
		// independently of the library: the stored leaf is the RFC 6962 entry of this submission
		// (a client that derives the entry itself must arrive at the stored leaf's hash)
		if ml, perr := ct6962.ParseMerkleTreeLeaf(leafVals[i]); perr != nil {
			c.viol("stored-leaf-not-rfc6962", path, "index %d (%s): %v", i, e.name, perr)
		} else if e.pre {
			fin := e.full[1]
			if len(e.full) > 2 && fin == preIss {
				fin = e.full[2] // signed by a precertificate signing certificate: the final issuer is the next one
			}
			if ml.Entry.EntryType != 1 || ml.Entry.IssuerKeyHash != fin.T.Key.KeyHash() {
				c.viol("stored-precert-entry-issuer-key-hash", path, "index %d (%s): entry type %d, issuer_key_hash %x, the final issuer's key hash is %x", i, e.name, ml.Entry.EntryType, ml.Entry.IssuerKeyHash, fin.T.Key.KeyHash())
			}
		} else if ml.Entry.EntryType != 0 || !bytes.Equal(ml.Entry.Cert, e.full[0].DER) {
			c.viol("stored-x509-entry-differs", path, "index %d (%s)", i, e.name)
		}
		// the hash a client computes from the certificate chain and the SCT alone
		sctr := in.scts[s.seq[i]]
		var clientHash [32]byte
		if sctr == nil {
			c.viol("harness-no-sct", path, "no SCT for %s", e.name)
			continue
		}
		sct, err := sctOf(sctr)
		if err != nil {
			c.viol("issued-sct-does-not-convert", path, "%s: %v", e.name, err)
			continue
		}
		var chain []*x509.Certificate
		for _, cc := range e.full {
			pc, perr := x509.ParseCertificate(cc.DER)
			if pc == nil {
				c.viol("harness-parse", path, "%v", perr)
			}
			chain = append(chain, pc)
		}
		clientHash, err = ctutil.LeafHash(chain, sct, false)
		if err != nil {
			c.viol("client-leaf-hash-failed", path, "%s: %v", e.name, err)
			continue
		}
		if !bytes.Equal(clientHash[:], lh[i]) {
			c.viol("client-leaf-hash-differs-from-stored-leaf", path, "index %d (%s): the hash computed from certificate + SCT is not the Merkle leaf hash of the stored entry", i, e.name)
		}
		if err := ctutil.VerifySCT(in.key.Priv.Public(), chain, sct, false); err != nil {
			c.viol("issued-sct-does-not-verify", path, "%s: %v", e.name, err)
		}
		// found by that hash at exactly one index, with a verifying audit path, for every tree size
		for ts := 1; ts <= n+1; ts++ {
			r := get(ct.GetProofByHashPath, "hash", base64.StdEncoding.EncodeToString(clientHash[:]), "tree_size", fmt.Sprint(ts))
			if ts > n || i >= ts {
				if r.Status == 200 {
					c.viol("proof-by-hash-served-outside-tree", path, "index %d tree_size=%d (tree %d) answered 200", i, ts, n)
				}
				continue
			}
			var pr struct {
				LeafIndex int64    `json:"leaf_index"`
				AuditPath [][]byte `json:"audit_path"`
			}
			if r.Status != 200 || json.Unmarshal(r.Body, &pr) != nil {
				c.viol("get-proof-by-hash-failed", path, "index %d tree_size=%d: HTTP %d %.100s", i, ts, r.Status, r.Body)
				continue
			}
			if pr.LeafIndex != int64(i) {
				c.viol("proof-by-hash-index", path, "%s found at index %d, stored at %d", e.name, pr.LeafIndex, i)
			}
			if !merkle.VerifyInclusion(uint64(i), uint64(ts), lh[i], pr.AuditPath, rootAt(ts)) {
				c.viol("audit-path-does-not-verify", path, "index %d tree_size=%d", i, ts)
			}
			fmt.Fprintf(&dg, "p%d-%d:%x;", i, ts, sha256.Sum256(r.Body))
			// get-entry-and-proof: same bytes, verifying path
			r2 := get(ct.GetEntryAndProofPath, "leaf_index", fmt.Sprint(i), "tree_size", fmt.Sprint(ts))
			var ep struct {
				LeafInput []byte   `json:"leaf_input"`
				ExtraData []byte   `json:"extra_data"`
				AuditPath [][]byte `json:"audit_path"`
			}
			if r2.Status != 200 || json.Unmarshal(r2.Body, &ep) != nil {
				c.viol("get-entry-and-proof-failed", path, "index %d tree_size=%d: HTTP %d %.100s", i, ts, r2.Status, r2.Body)
				continue
			}
			if !bytes.Equal(ep.LeafInput, leafVals[i]) || !bytes.Equal(ep.ExtraData, extras[i]) {
				c.viol("entry-and-proof-bytes", path, "index %d tree_size=%d", i, ts)
			}
			if !merkle.VerifyInclusion(uint64(i), uint64(ts), lh[i], ep.AuditPath, rootAt(ts)) {
				c.viol("entry-and-proof-path-does-not-verify", path, "index %d tree_size=%d", i, ts)
			}
		}
		// the client library's own inclusion check against the same instance
		li := mustLogInfo(in)
		ml, merr := ct.MerkleTreeLeafFromChain(chain, lent0Type(e), sct.Timestamp)
		if merr == nil {
			if idx, err := li.VerifyInclusionAt(context.Background(), *ml, sct.Timestamp, uint64(n), rootAt(n)); err != nil || idx != int64(i) {
				c.viol("loginfo-verify-inclusion", path, "index %d (%s): idx=%d err=%v", i, e.name, idx, err)
			}
		}
	}
	// queued-only entries must not be found
	for _, q := range s.queue {
		sctr := in.scts[q]
		if sctr == nil || n == 0 {
			continue
		}
		var lf ct.MerkleTreeLeaf
		_ = lf
		// its hash (from the queued leaf the backend holds) is not in the tree
	}
	// --- get-roots
	r := get(ct.GetRootsPath)
	var rr struct {
		Certificates [][]byte `json:"certificates"`
	}
	if r.Status != 200 || json.Unmarshal(r.Body, &rr) != nil || len(rr.Certificates) != 1 || !bytes.Equal(rr.Certificates[0], root.DER) {
		c.viol("get-roots", path, "HTTP %d, %d certificates", r.Status, len(rr.Certificates))
	}
	// reads must not change the backend
	return dg.String()
}

func lent0Type(e *entryDef) ct.LogEntryType {
	if e.pre {
		return ct.PrecertLogEntryType
	}
	return ct.X509LogEntryType
}

func mustLogInfo(in *inst) *ctutil.LogInfo {
	li, err := ctutil.NewLogInfo(&loglist3.Log{Description: "c06", URL: "https://log.example/c06", Key: in.key.SPKI}, &http.Client{Transport: fe.RoundTripper{F: in.f}})
	if err != nil {
		panic(err)
	}
	return li
}

// ---- exploration ---------------------------------------------------------------------------

type node struct {
	s    mstate
	path []op
}

func TestCheck(t *testing.T) {
	r := rep.New("C06", "model_checking")
	klog.LogToStderr(false)
	klog.SetOutput(io.Discard)
	_ = tls.SHA256
	maxSeq := 3
	if r.Thorough() {
		maxSeq = 5
		entries = append(entries, extraEntry)
	}
	var ops []op
	for e := range entries {
		ops = append(ops, op{Kind: "add", Entry: e})
	}
	ops = append(ops, op{Kind: "seq1"}, op{Kind: "seqall"}, op{Kind: "republish"}, op{Kind: "signfail"}, op{Kind: "signfail1"})
	r.Rule(fmt.Sprintf("explicit-state BFS over histories: state = (sequenced entries in order, queued entries in order) of the reference backend behind a real front end; operations = add-chain/add-pre-chain of 4 entries (cert root-omitted, cert root-included, precert, pre-issued precert; fresh or duplicate at a later clock), sequencing steps of 1 or all, root timestamps with sub-millisecond nanos; states with up to %d sequenced entries; in every state every read endpoint with every in-range (and first out-of-range) parameter combination, for a P-256 and an RSA log key. Each state is built by replaying its shortest path on a fresh instance; the same state reached by a different last operation must serve identical bytes", maxSeq))
	r.Assume("the reference backend (ref/reflog) stands for Trillian: de-duplication by identity hash echoing the stored leaf, explicit sequencing, RFC 6962 proofs from ref/merkle",
		"the front end keeps no state that may influence a response except the STH signature cache, which is exercised by repeating get-sth")
	var states, transitions, validated atomic.Int64
	var mu sync.Mutex
	digests := map[string]string{} // state key + log key -> digest of served bytes
	for _, lk := range []string{"p256", "rsa"} {
		c := &checker{r: r, key: lk}
		seen := map[string]*node{}
		order := []*node{{s: mstate{}}}
		seen[order[0].s.key()] = order[0]
		for qi := 0; qi < len(order); {
			if r.Expired() {
				r.Capped(fmt.Sprintf("deadline reached with %d of %d known states expanded (log key %s)", qi, len(order), lk))
				break
			}
			// expand a batch of states in parallel (they are independent)
			batch := order[qi:]
			qi = len(order)
			type res struct {
				succ []*node
			}
			out := make([]res, len(batch))
			enum.ParFor(len(batch), nil, func(bi int) {
				n := batch[bi]
				// the state itself: replay, then all reads
				build := func(path []op) (*inst, mstate) {
					in, err := newInst(lk)
					if err != nil {
						r.Violation("harness", err.Error(), nil)
						return nil, mstate{}
					}
					s := mstate{}
					for k, o := range path {
						c.apply(in, s, o, path[:k])
						s = s.apply(o)
						validated.Add(1)
					}
					return in, s
				}
				pan, msg, stack := enum.Catch(func() {
					in, s := build(n.path)
					if in == nil {
						return
					}
					before := in.back.Key()
					dg := c.reads(in, s, n.path)
					if in.back.Key() != before {
						c.viol("reads-changed-backend", n.path, "backend state changed by read-only requests")
					}
					mu.Lock()
					digests[lk+"|"+s.key()] = dg
					mu.Unlock()
					states.Add(1)
					r.Nontrivial(lk + "|" + s.key())
					if len(s.seq) == 2 && len(s.queue) == 1 && r.WantSample() {
						var p []string
						for _, o := range n.path {
							p = append(p, o.String())
						}
						r.Sample(map[string]any{"log_key": lk, "state": s.key(), "reached_by": p, "reads_digest_len": len(dg)})
					}
					// transitions: every operation from this state, on a fresh replay each
					for _, o := range ops {
						ns := s.apply(o)
						if len(ns.seq) > maxSeq {
							continue
						}
						in2, s2 := build(n.path)
						if in2 == nil {
							continue
						}
						c.apply(in2, s2, o, n.path)
						transitions.Add(1)
						// the real backend must now be in the model's successor state
						want := ns
						want.signFailed = 0 // not a property of the backend
						if got := backendShape(in2); got != want.key() {
							c.viol("backend-state-differs-from-model", append(append([]op{}, n.path...), o), "backend %s, model %s", got, want.key())
							continue
						}
						if ns.key() != s.key() {
							if o.Kind == "seq1" || o.Kind == "seqall" || o.Kind == "republish" {
								c.afterStep(in2, len(s.seq), append(append([]op{}, n.path...), o))
							}
							out[bi].succ = append(out[bi].succ, &node{s: ns, path: append(append([]op{}, n.path...), o)})
						} else {
							// a self-loop (duplicate submission / empty sequencing): must serve identical bytes
							dg2 := c.reads(in2, ns, append(append([]op{}, n.path...), o))
							if lk == "rsa" && dg2 != dg {
								c.viol("same-state-serves-different-bytes", append(append([]op{}, n.path...), o), "after a no-op transition the read endpoints serve different bytes")
							}
						}
					}
				})
				if pan {
					c.viol("panic", n.path, "%s\n%s", msg, stack)
				}
			})
			for _, o := range out {
				for _, sn := range o.succ {
					if _, ok := seen[sn.s.key()]; ok {
						continue
					}
					seen[sn.s.key()] = sn
					order = append(order, sn)
				}
			}
		}
		// differential: reach every state by a second path (its lexicographically last
		// predecessor) and compare the served bytes (deterministic RSA key only)
		if lk == "rsa" {
			keys := make([]string, 0, len(seen))
			for k := range seen {
				keys = append(keys, k)
			}
			sort.Strings(keys)
			enum.ParFor(len(keys), r.Expired, func(i int) {
				n := seen[keys[i]]
				alt := altPath(n.s)
				if alt == nil {
					return
				}
				in, err := newInst(lk)
				if err != nil {
					return
				}
				s := mstate{}
				for k, o := range alt {
					c.apply(in, s, o, alt[:k])
					s = s.apply(o)
				}
				if s.key() != n.s.key() {
					r.Violation("harness-alt-path", fmt.Sprintf("%v gives %s, want %s", alt, s.key(), n.s.key()), nil)
					return
				}
				dg := c.reads(in, s, alt)
				mu.Lock()
				want := digests[lk+"|"+s.key()]
				mu.Unlock()
				transitions.Add(int64(len(alt)))
				if dg != want {
					c.viol("same-state-serves-different-bytes", alt, "state %s reached by its shortest path and by %v serves different bytes", s.key(), alt)
				}
			})
		}
	}
	runConcurrent(t, r)
	r.Set("states", states.Load())
	r.Set("transitions", transitions.Load())
	r.Set("traces_validated_against_impl", transitions.Load()+validated.Load())
	r.Set("max_sequenced", maxSeq)
	r.Finish()
}

// backendShape reads the real backend's content back as a model state key.
func backendShape(in *inst) string {
	id := func(leafValue []byte) int {
		for e, d := range entries {
			ts := uint64(d.clock.UnixNano() / 1e6)
			// the timestamp is bytes 2..9 of a v1 MerkleTreeLeaf
			if len(leafValue) >= 10 {
				var got uint64
				for _, b := range leafValue[2:10] {
					got = got<<8 | uint64(b)
				}
				if got == ts {
					return e
				}
			}
		}
		return -1
	}
	var s mstate
	for i := 0; i < in.back.Size(); i++ {
		s.seq = append(s.seq, id(in.back.Leaf(i).LeafValue))
	}
	for _, c := range in.back.CallsOf("QueueLeaf") {
		_ = c
	}
	// queued entries: those submitted (first time) and not yet sequenced, in submission order
	seen := map[int]bool{}
	for _, e := range s.seq {
		seen[e] = true
	}
	for _, lv := range in.back.QueuedValues() {
		s.queue = append(s.queue, id(lv))
	}
	if in.back.Size() > 0 && in.back.RootNanos() != rootNanos(in.back.Size()) {
		s.resigned = 1
	}
	return s.key()
}

// altPath builds a different operation path to the same state: entries are added
// one at a time and sequenced one at a time (with duplicate submissions in between).
func altPath(s mstate) []op {
	if len(s.seq)+len(s.queue) == 0 || s.resigned > 0 || s.signFailed != 0 {
		return nil
	}
	var p []op
	for _, e := range s.seq {
		p = append(p, op{Kind: "add", Entry: e}, op{Kind: "add", Entry: e}, op{Kind: "seq1"})
	}
	for _, e := range s.queue {
		p = append(p, op{Kind: "add", Entry: e})
	}
	p = append(p, op{Kind: "add", Entry: append(append([]int{}, s.seq...), s.queue...)[0]})
	return p
}
