// A tiny tolerant TLV walker (written from X.690, shares nothing with the code
// under test) and the structure-preserving mutation catalogue of C11.
package c11

import (
	"fmt"
)

// node is one TLV of the input. Offsets are into the walked buffer.
type node struct {
	tag      byte
	hdrStart int // first byte of the identifier octet
	valStart int // first content byte
	end      int // one past the last content byte
	prefix   int // content bytes before the children (1 for a BIT STRING wrapper)
	parent   *node
	children []*node
	depth    int
	minimal  bool // definite length in the minimal form
}

func (n *node) constructed() bool { return n.tag&0x20 != 0 }

// readHeader reads one identifier + definite length at off. It tolerates
// non-minimal long-form lengths (so node boundaries of mutated input can still be
// found) and gives up on multi-byte tags, indefinite lengths and overruns.
func readHeader(buf []byte, off, end int) (tag byte, valStart, valEnd int, minimal bool, ok bool) {
	if off+2 > end {
		return
	}
	tag = buf[off]
	if tag&0x1f == 0x1f {
		return // high tag number form: not used by any structure here
	}
	l := int(buf[off+1])
	p := off + 2
	minimal = true
	if l&0x80 != 0 {
		nb := l & 0x7f
		if nb == 0 || nb > 4 || p+nb > end {
			return
		}
		l = 0
		for i := 0; i < nb; i++ {
			l = l<<8 | int(buf[p+i])
		}
		if l < 0x80 || buf[p] == 0 {
			minimal = false
		}
		p += nb
	}
	if l < 0 || p+l > end {
		return
	}
	return tag, p, p + l, minimal, true
}

// walkRange parses [start,end) as a run of TLVs. ok is false when the run does
// not tile the range exactly.
func walkRange(buf []byte, start, end int, parent *node, depth int) (out []*node, ok bool) {
	if depth > 40 {
		return nil, false
	}
	off := start
	for off < end {
		tag, vs, ve, minimal, good := readHeader(buf, off, end)
		if !good {
			return nil, false
		}
		n := &node{tag: tag, hdrStart: off, valStart: vs, end: ve, parent: parent, depth: depth, minimal: minimal}
		switch {
		case n.constructed():
			if ch, ok := walkRange(buf, vs, ve, n, depth+1); ok {
				n.children = ch
			}
		case tag == 0x04 && ve-vs >= 2:
			// OCTET STRING wrapping DER (extension values, PKCS#8 keys)
			if ch, ok := walkRange(buf, vs, ve, n, depth+1); ok && len(ch) > 0 && plausible(ch) {
				n.children = ch
			}
		case tag == 0x03 && ve-vs >= 3 && buf[vs] == 0:
			// BIT STRING wrapping one SEQUENCE (RSA keys, ECDSA signatures)
			if ch, ok := walkRange(buf, vs+1, ve, n, depth+1); ok && len(ch) == 1 && ch[0].tag == 0x30 {
				n.children = ch
				n.prefix = 1
			}
		}
		out = append(out, n)
		off = ve
	}
	return out, true
}

// plausible keeps the walker from "finding" TLVs in opaque octets (key ids,
// seeds): wrapped DER here always starts with a universal tag below 0x31 or a
// constructed one.
func plausible(ch []*node) bool {
	t := ch[0].tag
	if t&0xc0 != 0 && t&0x20 == 0 {
		return false
	}
	if t&0xc0 == 0 && (t&0x1f) > 0x1e {
		return false
	}
	return t != 0
}

// walk returns the top-level TLVs of buf (nil, false when buf is not a run of
// definite-length TLVs).
func walk(buf []byte) ([]*node, bool) { return walkRange(buf, 0, len(buf), nil, 0) }

// flatten lists n and all its descendants in pre-order.
func flatten(ns []*node, out []*node) []*node {
	for _, n := range ns {
		out = append(out, n)
		out = flatten(n.children, out)
	}
	return out
}

func derLen(n int) []byte {
	if n < 0x80 {
		return []byte{byte(n)}
	}
	var b []byte
	for x := n; x > 0; x >>= 8 {
		b = append([]byte{byte(x)}, b...)
	}
	return append([]byte{0x80 | byte(len(b))}, b...)
}

func tlv(tag byte, content []byte) []byte {
	out := append([]byte{tag}, derLen(len(content))...)
	return append(out, content...)
}

func cat(parts ...[]byte) []byte {
	var out []byte
	for _, p := range parts {
		out = append(out, p...)
	}
	return out
}

// replace returns buf with the bytes [from,to) inside node n's ancestors' content
// replaced by repl, every ancestor's length re-encoded (structure preserving).
// anchor is the deepest node whose content contains [from,to) entirely (nil for
// the top level).
func replace(buf []byte, anchor *node, from, to int, repl []byte) []byte {
	cur := repl
	lo, hi := from, to
	for p := anchor; p != nil; p = p.parent {
		content := cat(buf[p.valStart:lo], cur, buf[hi:p.end])
		cur = tlv(p.tag, content)
		lo, hi = p.hdrStart, p.end
	}
	return cat(buf[:lo], cur, buf[hi:])
}

// replaceNode swaps the whole TLV of n for repl (any byte string, possibly empty
// or several TLVs).
func replaceNode(buf []byte, n *node, repl []byte) []byte {
	return replace(buf, n.parent, n.hdrStart, n.end, repl)
}

type mutant struct {
	kind string
	data []byte
}

var stringTags = map[byte]bool{0x0c: true, 0x12: true, 0x13: true, 0x14: true, 0x16: true, 0x1e: true}

// laxKinds are the malformations the lenient parser documents as tolerated
// (asn1 "lax" mode): they are the ones that reach the non-fatal outcome class.
var laxKinds = map[string]bool{"int-nonminimal": true, "oid-empty": true, "printable-latin1": true, "retag-printable-latin1": true}

// mutate applies the catalogue to node n of buf. Every result keeps all
// enclosing lengths consistent except the kinds named "raw-*" and "truncate-*".
func mutate(buf []byte, n *node, only map[string]bool) []mutant {
	var out []mutant
	add := func(kind string, f func() []byte) {
		if only != nil && !only[kind] {
			return
		}
		out = append(out, mutant{kind, f()})
	}
	val := buf[n.valStart:n.end]
	full := buf[n.hdrStart:n.end]
	L := len(val)
	// --- encoding of the length
	add("len-nonminimal", func() []byte {
		var lb []byte
		for x := L; x > 0; x >>= 8 {
			lb = append([]byte{byte(x)}, lb...)
		}
		if L < 0x80 {
			lb = []byte{byte(L)} // 0x81 L
		} else {
			lb = append([]byte{0}, lb...) // leading zero octet
		}
		return replaceNode(buf, n, cat([]byte{n.tag, 0x80 | byte(len(lb))}, lb, val))
	})
	add("len-indefinite", func() []byte {
		return replaceNode(buf, n, cat([]byte{n.tag, 0x80}, val, []byte{0, 0}))
	})
	add("raw-len-plus1", func() []byte { // header claims one byte more than present; no fix-up
		return cat(buf[:n.hdrStart], []byte{n.tag}, derLen(L+1), buf[n.valStart:])
	})
	if L > 0 {
		add("raw-len-minus1", func() []byte {
			return cat(buf[:n.hdrStart], []byte{n.tag}, derLen(L-1), buf[n.valStart:])
		})
	}
	add("raw-len-huge", func() []byte {
		return cat(buf[:n.hdrStart], []byte{n.tag, 0x84, 0x7f, 0xff, 0xff, 0xff}, buf[n.valStart:])
	})
	// --- node level
	add("delete", func() []byte { return replaceNode(buf, n, nil) })
	add("duplicate", func() []byte { return replaceNode(buf, n, cat(full, full)) })
	add("empty-value", func() []byte { return replaceNode(buf, n, []byte{n.tag, 0}) })
	add("retag-constructed-flip", func() []byte { return replaceNode(buf, n, tlv(n.tag^0x20, val)) })
	add("retag-null", func() []byte { return replaceNode(buf, n, []byte{0x05, 0x00}) })
	add("value-ff", func() []byte {
		v := make([]byte, L)
		for i := range v {
			v[i] = 0xff
		}
		return replaceNode(buf, n, tlv(n.tag, v))
	})
	add("value-append-00", func() []byte { return replaceNode(buf, n, tlv(n.tag, cat(val, []byte{0}))) })
	if !n.constructed() {
		add("value-prepend-00", func() []byte { return replaceNode(buf, n, tlv(n.tag, cat([]byte{0}, val))) })
	}
	if L > 1 {
		add("value-drop-last", func() []byte { return replaceNode(buf, n, tlv(n.tag, val[:L-1])) })
	}
	if p := n.parent; p != nil {
		for i, c := range p.children {
			if c == n && i+1 < len(p.children) {
				nx := p.children[i+1]
				add("swap-next-sibling", func() []byte {
					return replace(buf, p, n.hdrStart, nx.end, cat(buf[nx.hdrStart:nx.end], full))
				})
			}
		}
	}
	add("truncate-before", func() []byte { return append([]byte{}, buf[:n.hdrStart]...) })
	add("truncate-after-header", func() []byte { return append([]byte{}, buf[:n.valStart]...) })
	if n.constructed() || len(n.children) > 0 {
		add("append-null-child", func() []byte { return replaceNode(buf, n, tlv(n.tag, cat(val, []byte{0x05, 0x00}))) })
	}
	// --- by universal type
	switch n.tag {
	case 0x02: // INTEGER
		if L > 0 {
			add("int-nonminimal", func() []byte {
				pad := byte(0)
				if val[0]&0x80 != 0 {
					pad = 0xff
				}
				return replaceNode(buf, n, tlv(0x02, cat([]byte{pad}, val)))
			})
			add("int-negate", func() []byte {
				v := append([]byte{}, val...)
				v[0] ^= 0x80
				return replaceNode(buf, n, tlv(0x02, v))
			})
			add("int-9bytes", func() []byte {
				return replaceNode(buf, n, tlv(0x02, []byte{0x01, 2, 3, 4, 5, 6, 7, 8, 9}))
			})
		}
	case 0x06: // OID
		add("oid-empty", func() []byte { return replaceNode(buf, n, []byte{0x06, 0}) })
		if L > 0 {
			add("oid-last-arc", func() []byte {
				v := append([]byte{}, val...)
				v[L-1] ^= 0x01
				return replaceNode(buf, n, tlv(0x06, v))
			})
			add("oid-unterminated", func() []byte {
				v := append([]byte{}, val...)
				v[L-1] |= 0x80
				return replaceNode(buf, n, tlv(0x06, v))
			})
			add("oid-leading-80", func() []byte {
				return replaceNode(buf, n, tlv(0x06, cat(val[:1], []byte{0x80}, val[1:])))
			})
		}
	case 0x01: // BOOLEAN
		add("bool-01", func() []byte { return replaceNode(buf, n, []byte{0x01, 0x01, 0x01}) })
		add("bool-false", func() []byte { return replaceNode(buf, n, []byte{0x01, 0x01, 0x00}) })
		add("bool-2bytes", func() []byte { return replaceNode(buf, n, []byte{0x01, 0x02, 0xff, 0xff}) })
	case 0x17, 0x18: // UTCTime / GeneralizedTime
		for i, s := range []string{"2401010000Z", "240101000000+0000", "241301000000Z", "20240101000000.5Z", "2024010100Z", "240230000000Z", "99991231235959Z"} {
			s := s
			add(fmt.Sprintf("time-bad-%d", i), func() []byte { return replaceNode(buf, n, tlv(n.tag, []byte(s))) })
		}
		add("time-swap-tag", func() []byte { return replaceNode(buf, n, tlv(n.tag^(0x17^0x18), val)) })
	case 0x03: // BIT STRING
		if L > 0 {
			add("bits-unused-9", func() []byte {
				v := append([]byte{}, val...)
				v[0] = 9
				return replaceNode(buf, n, tlv(0x03, v))
			})
			add("bits-unused-7", func() []byte {
				v := append([]byte{}, val...)
				v[0] = 7
				return replaceNode(buf, n, tlv(0x03, v))
			})
		}
	}
	if stringTags[n.tag] {
		add("printable-latin1", func() []byte { return replaceNode(buf, n, tlv(n.tag, cat(val, []byte{0xe9}))) })
		add("retag-printable-latin1", func() []byte { return replaceNode(buf, n, tlv(0x13, []byte("Caf\xe9 M\xfcnchen"))) })
		add("string-nul", func() []byte { return replaceNode(buf, n, tlv(n.tag, cat(val, []byte{0x00, 'x'}))) })
		add("retag-bmp-odd", func() []byte { return replaceNode(buf, n, tlv(0x1e, []byte{0, 'a', 0})) })
	}
	if n.tag&0xc0 == 0x80 && n.tag&0x20 == 0 && L > 0 {
		// context-specific primitive (GeneralName payloads, key ids)
		add("ctx-high-bit", func() []byte {
			v := append([]byte{}, val...)
			v[0] |= 0x80
			return replaceNode(buf, n, tlv(n.tag, v))
		})
		add("ctx-retag-next", func() []byte { return replaceNode(buf, n, tlv(n.tag+1, val)) })
	}
	return out
}

// kindsOf lists the catalogue (for the evidence).
func kindsOf(ms []mutant, set map[string]bool) {
	for _, m := range ms {
		set[m.kind] = true
	}
}
