// Adapter between the fork's object model and crypto/x509's: the two objects
// are walked in parallel by reflection. Structs are compared on the
// intersection of their exported field names (the fields only one side has are
// recorded for the evidence); OIDs, big.Int, times (instant + zone offset),
// URLs, IP networks, curves and keys are compared by value whatever package the
// type comes from; nil and empty slices are the same list.
package c11

import (
	"bytes"
	"crypto/elliptic"
	"crypto/rsa"
	"encoding/hex"
	"fmt"
	"math/big"
	"net"
	"net/url"
	"reflect"
	"regexp"
	"sort"
	"strings"
	"sync"
	"time"
)

var (
	tBigPtr  = reflect.TypeOf(&big.Int{})
	tTime    = reflect.TypeOf(time.Time{})
	tURL     = reflect.TypeOf(url.URL{})
	tIPNet   = reflect.TypeOf(net.IPNet{})
	tRSAPriv = reflect.TypeOf(rsa.PrivateKey{})
	tCurve   = reflect.TypeOf((*elliptic.Curve)(nil)).Elem()
)

var pkgRe = regexp.MustCompile(`[A-Za-z0-9_./-]+/`)

func shortType(t reflect.Type) string { return pkgRe.ReplaceAllString(t.String(), "") }

// fieldNotes records, per struct type, the exported fields only one side has.
type fieldNotes struct {
	mu sync.Mutex
	m  map[string]bool
}

func (n *fieldNotes) add(s string) {
	n.mu.Lock()
	if n.m == nil {
		n.m = map[string]bool{}
	}
	n.m[s] = true
	n.mu.Unlock()
}

func (n *fieldNotes) list() []string {
	n.mu.Lock()
	defer n.mu.Unlock()
	var out []string
	for k := range n.m {
		out = append(out, k)
	}
	sort.Strings(out)
	return out
}

// fieldMap: for a pair of struct types, the index pairs of the common exported fields.
type typePair struct{ a, b reflect.Type }

var fieldMaps sync.Map // typePair -> [][2]int

func commonFields(a, b reflect.Type, notes *fieldNotes) [][2]int {
	if m, ok := fieldMaps.Load(typePair{a, b}); ok {
		return m.([][2]int)
	}
	var out [][2]int
	for i := 0; i < a.NumField(); i++ {
		fa := a.Field(i)
		if fa.PkgPath != "" {
			continue
		}
		if fb, ok := b.FieldByName(fa.Name); ok && fb.PkgPath == "" && len(fb.Index) == 1 {
			out = append(out, [2]int{i, fb.Index[0]})
		} else {
			notes.add("only in fork: " + a.Name() + "." + fa.Name)
		}
	}
	for i := 0; i < b.NumField(); i++ {
		fb := b.Field(i)
		if fb.PkgPath != "" {
			continue
		}
		if _, ok := a.FieldByName(fb.Name); !ok {
			notes.add("only in crypto/x509: " + b.Name() + "." + fb.Name)
		}
	}
	fieldMaps.Store(typePair{a, b}, out)
	return out
}

func isOID(t reflect.Type) bool { return t.Kind() == reflect.Slice && t.Name() == "ObjectIdentifier" }

func oidString(v reflect.Value) string {
	parts := make([]string, v.Len())
	for i := range parts {
		parts[i] = fmt.Sprint(v.Index(i).Int())
	}
	return strings.Join(parts, ".")
}

func byteSlice(v reflect.Value) []byte {
	if v.Kind() == reflect.Slice && v.Type().Elem().Kind() == reflect.Uint8 {
		return v.Bytes()
	}
	b := make([]byte, v.Len())
	reflect.Copy(reflect.ValueOf(b), v)
	return b
}

// show renders a value for a violation description.
func show(v reflect.Value) string {
	if !v.IsValid() {
		return "<absent>"
	}
	var s string
	t := v.Type()
	switch {
	case t == tBigPtr && !v.IsNil():
		s = v.Interface().(*big.Int).String()
	case isOID(t):
		s = oidString(v)
	case (t.Kind() == reflect.Slice || t.Kind() == reflect.Array) && t.Elem().Kind() == reflect.Uint8:
		s = "hex:" + hex.EncodeToString(byteSlice(v))
	case t.Kind() == reflect.Ptr && !v.IsNil():
		return "&" + show(v.Elem())
	case t.Kind() == reflect.Interface && !v.IsNil():
		return "(" + shortType(v.Elem().Type()) + ")" + show(v.Elem())
	case v.CanInterface():
		s = fmt.Sprintf("%+v", v.Interface())
	default:
		s = v.String()
	}
	if len(s) > 300 {
		s = s[:300] + "…"
	}
	return s
}

// diffV returns the path of the first difference between the fork's value a and
// std's value b ("" when equal on the common field set).
func diffV(a, b reflect.Value, notes *fieldNotes) (where, av, bv string) {
	ne := func() (string, string, string) { return ".", show(a), show(b) }
	if !a.IsValid() || !b.IsValid() {
		if a.IsValid() != b.IsValid() {
			return ne()
		}
		return "", "", ""
	}
	ta, tb := a.Type(), b.Type()
	switch {
	case ta == tBigPtr:
		if tb != tBigPtr || a.IsNil() != b.IsNil() {
			return ne()
		}
		if !a.IsNil() && a.Interface().(*big.Int).Cmp(b.Interface().(*big.Int)) != 0 {
			return ne()
		}
		return "", "", ""
	case ta == tTime:
		if tb != tTime {
			return ne()
		}
		x, y := a.Interface().(time.Time), b.Interface().(time.Time)
		_, ox := x.Zone()
		_, oy := y.Zone()
		if !x.Equal(y) || ox != oy {
			return ne()
		}
		return "", "", ""
	case ta == tURL:
		if tb != tURL {
			return ne()
		}
		x, y := a.Interface().(url.URL), b.Interface().(url.URL)
		if x.String() != y.String() || !reflect.DeepEqual(x, y) {
			return ne()
		}
		return "", "", ""
	case ta == tIPNet:
		if tb != tIPNet {
			return ne()
		}
		x, y := a.Interface().(net.IPNet), b.Interface().(net.IPNet)
		if !bytes.Equal(x.IP, y.IP) || !bytes.Equal(x.Mask, y.Mask) {
			return ne()
		}
		return "", "", ""
	case ta == tRSAPriv:
		if tb != tRSAPriv {
			return ne()
		}
		x, y := a.Addr().Interface().(*rsa.PrivateKey), b.Addr().Interface().(*rsa.PrivateKey)
		if x.N.Cmp(y.N) != 0 || x.E != y.E || x.D.Cmp(y.D) != 0 || len(x.Primes) != len(y.Primes) {
			return ne()
		}
		for i := range x.Primes {
			if x.Primes[i].Cmp(y.Primes[i]) != 0 {
				return ne()
			}
		}
		return "", "", ""
	case isOID(ta):
		if !isOID(tb) || oidString(a) != oidString(b) {
			return ne()
		}
		return "", "", ""
	}
	if ta.Kind() != tb.Kind() {
		return ne()
	}
	switch ta.Kind() {
	case reflect.Bool:
		if a.Bool() != b.Bool() {
			return ne()
		}
	case reflect.Int, reflect.Int8, reflect.Int16, reflect.Int32, reflect.Int64:
		if ta.PkgPath() != "" && a.CanInterface() && b.CanInterface() {
			sa, oka := a.Interface().(fmt.Stringer)
			sb, okb := b.Interface().(fmt.Stringer)
			if oka && okb {
				// enumerations with names (SignatureAlgorithm, PublicKeyAlgorithm): by name
				if sa.String() != sb.String() {
					return ne()
				}
				return "", "", ""
			}
		}
		if a.Int() != b.Int() {
			return ne()
		}
	case reflect.Uint, reflect.Uint8, reflect.Uint16, reflect.Uint32, reflect.Uint64:
		if a.Uint() != b.Uint() {
			return ne()
		}
	case reflect.String:
		if a.String() != b.String() {
			return ne()
		}
	case reflect.Slice, reflect.Array:
		if ta.Elem().Kind() == reflect.Uint8 {
			if tb.Elem().Kind() != reflect.Uint8 || !bytes.Equal(byteSlice(a), byteSlice(b)) {
				return ne()
			}
			return "", "", ""
		}
		if a.Len() != b.Len() {
			return ne()
		}
		for i := 0; i < a.Len(); i++ {
			if w, p, q := diffV(a.Index(i), b.Index(i), notes); w != "" {
				return "[]" + w, p, q
			}
		}
	case reflect.Ptr:
		if a.IsNil() || b.IsNil() {
			if a.IsNil() != b.IsNil() {
				return ne()
			}
			return "", "", ""
		}
		return diffV(a.Elem(), b.Elem(), notes)
	case reflect.Interface:
		if a.IsNil() || b.IsNil() {
			if a.IsNil() != b.IsNil() {
				return ne()
			}
			return "", "", ""
		}
		if ca, ok := a.Interface().(elliptic.Curve); ok {
			cb, ok := b.Interface().(elliptic.Curve)
			if !ok || ca.Params().Name != cb.Params().Name {
				return ne()
			}
			return "", "", ""
		}
		if shortType(a.Elem().Type()) != shortType(b.Elem().Type()) {
			return ".(type)", shortType(a.Elem().Type()), shortType(b.Elem().Type())
		}
		return diffV(a.Elem(), b.Elem(), notes)
	case reflect.Struct:
		for _, ix := range commonFields(ta, tb, notes) {
			if w, p, q := diffV(a.Field(ix[0]), b.Field(ix[1]), notes); w != "" {
				return "." + ta.Field(ix[0]).Name + strings.TrimSuffix(w, "."), p, q
			}
		}
	default:
		return ".(unsupported kind " + ta.Kind().String() + ")", "", ""
	}
	return "", "", ""
}

// compareObjects diffs the fork's object against std's.
func compareObjects(root string, fork, std any, notes *fieldNotes) (where, fv, sv string) {
	w, p, q := diffV(reflect.ValueOf(fork), reflect.ValueOf(std), notes)
	if w == "" {
		return "", "", ""
	}
	return root + strings.TrimSuffix(w, "."), p, q
}

func rsaKey(p any) (*rsa.PrivateKey, bool) {
	k, ok := p.(*rsa.PrivateKey)
	return k, ok
}
