// Adapter between the fork's object model and crypto/x509's: both sides are
// reduced to a canonical tree by reflection (OIDs dotted, big.Int decimal,
// times as UTC instant + zone offset, keys by their numbers, byte strings hex),
// structs are compared on the intersection of their exported field names and
// the fields only one side has are recorded for the evidence.
package c11

import (
	"crypto/elliptic"
	"crypto/rsa"
	"encoding/hex"
	"fmt"
	"math/big"
	"net"
	"net/url"
	"reflect"
	"regexp"
	"sort"
	"strings"
	"sync"
	"time"
)

var (
	tBigPtr  = reflect.TypeOf(&big.Int{})
	tTime    = reflect.TypeOf(time.Time{})
	tURL     = reflect.TypeOf(url.URL{})
	tIPNet   = reflect.TypeOf(net.IPNet{})
	tRSAPriv = reflect.TypeOf(rsa.PrivateKey{})
	tCurve   = reflect.TypeOf((*elliptic.Curve)(nil)).Elem()
)

type cstruct struct {
	typ    string
	names  []string
	fields map[string]any
}

type ciface struct {
	typ string
	v   any
}

// canon reduces v to nil | string | int64 | uint64 | bool | []any | *cstruct | *ciface.
func canon(v reflect.Value) any {
	if !v.IsValid() {
		return nil
	}
	t := v.Type()
	switch {
	case t == tBigPtr:
		if v.IsNil() {
			return nil
		}
		return "int:" + v.Interface().(*big.Int).String()
	case t == tTime:
		tm := v.Interface().(time.Time)
		_, off := tm.Zone()
		return fmt.Sprintf("time:%s zone%+d", tm.UTC().Format(time.RFC3339Nano), off)
	case t == tURL:
		u := v.Interface().(url.URL)
		return "url:" + u.String()
	case t == tIPNet:
		n := v.Interface().(net.IPNet)
		return "ipnet:" + hex.EncodeToString(n.IP) + "/" + hex.EncodeToString(n.Mask)
	case t == tRSAPriv:
		k := v.Interface().(rsa.PrivateKey)
		s := fmt.Sprintf("rsa-private N=%v E=%d D=%v primes=", k.N, k.E, k.D)
		for _, p := range k.Primes {
			s += p.String() + ","
		}
		return s
	case t.Name() == "ObjectIdentifier" && t.Kind() == reflect.Slice:
		parts := make([]string, v.Len())
		for i := range parts {
			parts[i] = fmt.Sprint(v.Index(i).Int())
		}
		return "oid:" + strings.Join(parts, ".")
	}
	switch t.Kind() {
	case reflect.Bool:
		return v.Bool()
	case reflect.Int, reflect.Int8, reflect.Int16, reflect.Int32, reflect.Int64:
		if t.PkgPath() != "" && v.CanInterface() {
			if s, ok := v.Interface().(fmt.Stringer); ok {
				return "enum:" + s.String()
			}
		}
		return v.Int()
	case reflect.Uint, reflect.Uint8, reflect.Uint16, reflect.Uint32, reflect.Uint64:
		return v.Uint()
	case reflect.String:
		return "str:" + v.String()
	case reflect.Slice, reflect.Array:
		if t.Elem().Kind() == reflect.Uint8 {
			b := make([]byte, v.Len())
			reflect.Copy(reflect.ValueOf(b), v)
			return "hex:" + hex.EncodeToString(b)
		}
		out := make([]any, v.Len()) // nil and empty slices are the same list
		for i := range out {
			out[i] = canon(v.Index(i))
		}
		return out
	case reflect.Ptr:
		if v.IsNil() {
			return nil
		}
		return canon(v.Elem())
	case reflect.Interface:
		if v.IsNil() {
			return nil
		}
		if t.Implements(tCurve) || v.Elem().Type().Implements(tCurve) {
			if c, ok := v.Interface().(elliptic.Curve); ok {
				return "curve:" + c.Params().Name
			}
		}
		e := v.Elem()
		return &ciface{typ: shortType(e.Type()), v: canon(e)}
	case reflect.Struct:
		cs := &cstruct{typ: t.Name(), fields: map[string]any{}}
		for i := 0; i < t.NumField(); i++ {
			f := t.Field(i)
			if f.PkgPath != "" {
				continue
			}
			cs.names = append(cs.names, f.Name)
			cs.fields[f.Name] = canon(v.Field(i))
		}
		return cs
	}
	return "unsupported:" + t.String()
}

var pkgRe = regexp.MustCompile(`[A-Za-z0-9_./-]+/`)

func shortType(t reflect.Type) string { return pkgRe.ReplaceAllString(t.String(), "") }

// fieldNotes records, per struct type, the exported fields only one side has.
type fieldNotes struct {
	mu sync.Mutex
	m  map[string]bool
}

func (n *fieldNotes) add(s string) {
	n.mu.Lock()
	if n.m == nil {
		n.m = map[string]bool{}
	}
	n.m[s] = true
	n.mu.Unlock()
}

func (n *fieldNotes) list() []string {
	n.mu.Lock()
	defer n.mu.Unlock()
	var out []string
	for k := range n.m {
		out = append(out, k)
	}
	sort.Strings(out)
	return out
}

// diff returns the path of the first difference between the fork's tree a and
// std's tree b ("" when equal on the common field set).
func diff(path string, a, b any, notes *fieldNotes) (where, av, bv string) {
	switch x := a.(type) {
	case *cstruct:
		y, ok := b.(*cstruct)
		if !ok {
			return path, show(a), show(b)
		}
		for _, name := range x.names {
			if _, ok := y.fields[name]; !ok {
				notes.add("only in fork: " + x.typ + "." + name)
				continue
			}
			if w, p, q := diff(path+"."+name, x.fields[name], y.fields[name], notes); w != "" {
				return w, p, q
			}
		}
		for _, name := range y.names {
			if _, ok := x.fields[name]; !ok {
				notes.add("only in crypto/x509: " + y.typ + "." + name)
			}
		}
		return "", "", ""
	case []any:
		y, ok := b.([]any)
		if !ok || len(x) != len(y) {
			return path, show(a), show(b)
		}
		for i := range x {
			if w, p, q := diff(path+"[]", x[i], y[i], notes); w != "" {
				return w, p, q
			}
		}
		return "", "", ""
	case *ciface:
		y, ok := b.(*ciface)
		if !ok || x.typ != y.typ {
			return path, show(a), show(b)
		}
		return diff(path, x.v, y.v, notes)
	default:
		if !reflect.DeepEqual(a, b) {
			return path, show(a), show(b)
		}
		return "", "", ""
	}
}

func show(a any) string {
	var s string
	switch x := a.(type) {
	case nil:
		s = "nil"
	case *cstruct:
		s = x.typ + "{"
		for _, n := range x.names {
			s += n + ":" + show(x.fields[n]) + " "
		}
		s += "}"
	case []any:
		s = "["
		for _, e := range x {
			s += show(e) + ", "
		}
		s += "]"
	case *ciface:
		s = "(" + x.typ + ")" + show(x.v)
	default:
		s = fmt.Sprint(a)
	}
	if len(s) > 300 {
		s = s[:300] + "…"
	}
	return s
}

// compareObjects canonicalises the fork's object and std's and diffs them.
func compareObjects(root string, fork, std any, notes *fieldNotes) (where, fv, sv string) {
	return diff(root, canon(reflect.ValueOf(fork)), canon(reflect.ValueOf(std)), notes)
}

func rsaKey(p any) (*rsa.PrivateKey, bool) {
	k, ok := p.(*rsa.PrivateKey)
	return k, ok
}
