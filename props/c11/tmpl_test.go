// Certificate templates of C11 and the two conforming encoders: the toolchain's
// crypto/x509.CreateCertificate and the ref/der + ref/pki builder. Plus CRLs,
// keys and CSRs from the std encoders.
package c11

import (
	"bytes"
	"crypto"
	"crypto/ecdsa"
	"crypto/elliptic"
	"crypto/sha256"
	"crypto/sha512"
	sx "crypto/x509"
	spkix "crypto/x509/pkix"
	sasn1 "encoding/asn1"
	"fmt"
	"math/big"
	"net"
	"net/url"
	"sort"
	"strings"
	"time"

	"verif/ref/der"
	"verif/ref/pki"

	"github.com/google/certificate-transparency-go/x509"
)

// feat is one point of the template space.
// unkOIDs rotates the OIDs of the two unknown extensions over the other factors, so that every
// neighbour OID meets every value of every other factor somewhere.
func unkOIDs(f feat) (crit, non []int) {
	i := f.Val + 3*f.Serial + 5*f.Key + 7*f.Bc + 11*f.San + f.Enc
	non = unkNeighbours[i%len(unkNeighbours)]
	crit = unkNeighbours[(i+4)%len(unkNeighbours)]
	if i%len(unkNeighbours) == 0 {
		crit = oidUnkCrit
	}
	if fmt.Sprint(crit) == fmt.Sprint(non) {
		crit = oidUnkCrit
	}
	return
}

type feat struct {
	Subj    bool `json:"multi_valued_subject"`
	San     int  `json:"san_mask"` // dns=1 email=2 ip=4 uri=8
	Ku      bool `json:"key_usage"`
	Eku     bool `json:"eku"`
	Bc      int  `json:"basic_constraints"` // 0 absent, 1 present non-CA, 2 CA no pathlen, 3 CA pathlen 0, 4 CA pathlen 3
	Nc      int  `json:"name_constraints"`  // permitted=1 excluded=2
	Pol     bool `json:"policies"`
	Aia     bool `json:"aia"`
	Crldp   bool `json:"crldp"`
	Ski     bool `json:"ski"`
	Aki     bool `json:"aki"`
	UnkCrit bool `json:"unknown_critical"`
	UnkNon  bool `json:"unknown_noncritical"`
	Val     int  `json:"validity"` // 0 both < 2050, 1 straddles 2050, 2 both >= 2050
	Serial  int  `json:"serial"`   // 0: 1 octet, 1: 8 octets with the top bit set, 2: 20 octets
	Key     int  `json:"key"`      // 0 P-256, 1 RSA-2048, 2 Ed25519
	Enc     int  `json:"encoder"`  // 0 crypto/x509.CreateCertificate, 1 ref/der+ref/pki
}

type featPlain feat

func (f feat) String() string { return fmt.Sprintf("%+v", featPlain(f)) }

var keyNames = [3][2]string{{"p256-1", "p256-0"}, {"rsa2048-1", "rsa2048-0"}, {"ed25519-1", "ed25519-0"}} // subject, issuer

var (
	validities = [3][2]time.Time{
		{time.Date(2024, 1, 1, 0, 0, 0, 0, time.UTC), time.Date(2034, 6, 30, 23, 59, 59, 0, time.UTC)},
		{time.Date(2040, 2, 29, 12, 30, 1, 0, time.UTC), time.Date(2060, 1, 1, 0, 0, 0, 0, time.UTC)},
		{time.Date(2050, 1, 1, 0, 0, 0, 0, time.UTC), time.Date(2071, 12, 31, 23, 59, 59, 0, time.UTC)},
	}
	serials = [3][]byte{
		{0x05},
		{0xc3, 0x02, 0x03, 0x04, 0x05, 0x06, 0x07, 0x08},
		{0x7f, 0xa1, 0xa2, 0xa3, 0xa4, 0xa5, 0xa6, 0xa7, 0xa8, 0xa9, 0xaa, 0xab, 0xac, 0xad, 0xae, 0xaf, 0xb0, 0xb1, 0xb2, 0x01},
	}
	skiBytes = []byte{0x51, 2, 3, 4, 5, 6, 7, 8, 9, 10, 11, 12, 13, 14, 15, 16, 17, 18, 19, 0x20}
	akiBytes = []byte{0xa1, 2, 3, 4, 5, 6, 7, 8, 9, 10, 11, 12, 13, 14, 15, 16, 17, 18, 19, 0xa0}

	sanDNS   = []string{"a.example.com", "*.b.example.org"}
	sanEmail = []string{"user@example.com"}
	sanIP    = []net.IP{net.IPv4(192, 0, 2, 1).To4(), net.ParseIP("2001:db8::1")}
	sanURI   = []string{"https://example.com/path?q=1", "urn:example:thing"}

	ocspURL   = []string{"http://ocsp.example.com"}
	issuerURL = []string{"http://ca.example.com/ca.crt"}
	crlURLs   = []string{"http://crl.example.com/a.crl", "ldap://dir.example.com/cn=ca?certificateRevocationList"}

	permDNS   = []string{".example.com", "example.org"}
	exclDNS   = []string{"bad.example.com"}
	permEmail = []string{"user@example.com", ".mail.example.com", "example.net"}
	exclEmail = []string{"root@example.com"}
	permIP    = []*net.IPNet{{IP: net.IPv4(192, 0, 2, 0).To4(), Mask: net.CIDRMask(24, 32)}, {IP: net.ParseIP("2001:db8::"), Mask: net.CIDRMask(32, 128)}}
	exclIP    = []*net.IPNet{{IP: net.IPv4(10, 0, 0, 0).To4(), Mask: net.CIDRMask(8, 32)}}
	permURI   = []string{"example.com", ".sub.example.com"}
	exclURI   = []string{".evil.example"}

	oidServerAuth  = []int{1, 3, 6, 1, 5, 5, 7, 3, 1}
	oidClientAuth  = []int{1, 3, 6, 1, 5, 5, 7, 3, 2}
	oidOCSPSigning = []int{1, 3, 6, 1, 5, 5, 7, 3, 9}
	oidUnknownEKU  = []int{1, 3, 6, 1, 4, 1, 55555, 1, 1}
	oidPolicyDV    = []int{2, 23, 140, 1, 2, 1}
	oidPolicyPriv  = []int{1, 3, 6, 1, 4, 1, 55555, 2, 1}
	oidUnkCrit     = []int{1, 3, 6, 1, 4, 1, 55555, 9, 1}
	oidUnkNon      = []int{1, 3, 6, 1, 4, 1, 55555, 9, 2}
	// unknown extensions also sit right next to known ones: one arc below a known id-ce / id-pe / CT
	// extension, an unassigned id-ce number, the id-ce arc itself (exact-OID dispatch, not prefix dispatch)
	unkNeighbours = [][]int{{1, 3, 6, 1, 4, 1, 55555, 9, 2}, {2, 5, 29, 19, 1}, {2, 5, 29, 17, 1}, {2, 5, 29, 14, 2, 1}, {2, 5, 29, 99}, {2, 5, 29},
		{1, 3, 6, 1, 5, 5, 7, 1, 1, 1}, {1, 3, 6, 1, 4, 1, 11129, 2, 4, 2, 1}, {2, 5, 29, 15, 0}, {2, 5, 29, 37, 1}, {2, 5, 29, 35, 1}}
	unkCritVal = der.Seq(der.Int(7), der.UTF8("critical payload"))
	unkNonVal  = der.OctetString([]byte{1, 2, 3})

	oidNC = []int{2, 5, 29, 30}

	oidPol    = []int{2, 5, 29, 32}
	oidCRLDP  = []int{2, 5, 29, 31}
	oidAIA    = []int{1, 3, 6, 1, 5, 5, 7, 1, 1}
	oidOCSP   = []int{1, 3, 6, 1, 5, 5, 7, 48, 1}
	oidIssuer = []int{1, 3, 6, 1, 5, 5, 7, 48, 2}
	oidCPS    = []int{1, 3, 6, 1, 5, 5, 7, 2, 1}
	oidEmail  = []int{1, 2, 840, 113549, 1, 9, 1}
	oidDC     = []int{0, 9, 2342, 19200300, 100, 1, 25}
	oidL      = []int{2, 5, 4, 7}
	oidST     = []int{2, 5, 4, 8}
	oidStreet = []int{2, 5, 4, 9}
	oidPostal = []int{2, 5, 4, 17}
	oidX121   = []int{2, 5, 4, 24}
)

// built is one encoded seed with what its builder knows about it.
type built struct {
	DER  []byte
	F    feat
	Kind string // "cert", "tbs", "crl", "csr", "pkix", "pkcs1", "pkcs1pub", "pkcs8", "sec1", "testdata"
	Name string
	// builder-known offsets of the raw regions (der encoder only; -1 otherwise)
	TBSOff, TBSLen, IssOff, IssLen, SubOff, SubLen, SPKIOff, SPKILen int
	// ground truth for what crypto/x509 has no field for (fork-only fields), from the template
	Expect     func(c *x509.Certificate) string
	ExpectList func(l *x509.CertificateList) string
	// the fork interprets this critical extension, crypto/x509 reports it as unhandled
	IgnoreUnhandled bool
}

// ---- names

func sortedRDN(atvs ...pki.ATV) []pki.ATV {
	enc := func(a pki.ATV) []byte { return der.Seq(der.OID(a.OID...), der.Str(a.Tag, a.Val)) }
	out := append([]pki.ATV{}, atvs...)
	sort.SliceStable(out, func(i, j int) bool { return bytes.Compare(enc(out[i]), enc(out[j])) < 0 })
	return out
}

func bmp(s string) string {
	var b []byte
	for _, r := range s {
		b = append(b, byte(r>>8), byte(r))
	}
	return string(b)
}

// derNames: subject and issuer for the der encoder.
func derNames(multi bool) (subject, issuer pki.Name) {
	if !multi {
		return pki.CN("leaf.example"), pki.Name{{{pki.OIDC, 0x13, "GB"}}, {{pki.OIDO, 0x13, "Verif"}}, {{pki.OIDCN, 0x13, "Issuing CA 1"}}}
	}
	subject = pki.Name{
		{{pki.OIDC, 0x13, "GB"}},
		sortedRDN(pki.ATV{OID: pki.OIDO, Tag: 0x0c, Val: "Vérif GmbH"}, pki.ATV{OID: pki.OIDO, Tag: 0x13, Val: "Verif Ltd"}, pki.ATV{OID: pki.OIDOU, Tag: 0x14, Val: "T61 Unit"}),
		{{oidL, 0x0c, "Zürich"}},
		{{oidST, 0x13, "ZH"}},
		{{oidStreet, 0x0c, "1 Main St"}},
		{{oidPostal, 0x13, "8000"}},
		{{pki.OIDSer, 0x13, "SN-12345"}},
		{{oidX121, 0x12, "123 456"}},
		sortedRDN(pki.ATV{OID: oidDC, Tag: 0x16, Val: "example"}, pki.ATV{OID: oidEmail, Tag: 0x16, Val: "admin@example.com"}),
		{{pki.OIDCN, 0x1e, bmp("bmp ☃ name")}},
		{{pki.OIDCN, 0x0c, "ünïcode.example"}},
	}
	issuer = pki.Name{
		{{pki.OIDC, 0x13, "CH"}},
		sortedRDN(pki.ATV{OID: pki.OIDO, Tag: 0x0c, Val: "Issüer AG"}, pki.ATV{OID: pki.OIDOU, Tag: 0x13, Val: "PKI"}, pki.ATV{OID: pki.OIDOU, Tag: 0x0c, Val: "Ops & Co"}),
		{{pki.OIDCN, 0x14, "T61 Issuing CA"}},
		{{oidDC, 0x16, "ca"}},
	}
	return
}

// stdNames: subject and issuer for the std encoder (it chooses PrintableString
// or UTF8String per value and puts repeated attribute types in one RDN).
func stdNames(multi bool) (subject, issuer spkix.Name) {
	if !multi {
		return spkix.Name{Country: []string{"GB"}, Organization: []string{"Verif"}, CommonName: "leaf.example"},
			spkix.Name{Country: []string{"GB"}, Organization: []string{"Verif"}, CommonName: "Issuing CA 1"}
	}
	subject = spkix.Name{
		Country: []string{"GB", "CH"}, Organization: []string{"Verif Ltd", "Vérif GmbH"}, OrganizationalUnit: []string{"Unit A", "Unit B", "Ünit C"},
		Locality: []string{"Zürich"}, Province: []string{"ZH"}, StreetAddress: []string{"1 Main St"}, PostalCode: []string{"8000"},
		SerialNumber: "SN-12345", CommonName: "ünïcode.example",
		ExtraNames: []spkix.AttributeTypeAndValue{
			{Type: sasn1.ObjectIdentifier(oidEmail), Value: "admin@example.com"},
			{Type: sasn1.ObjectIdentifier(oidDC), Value: "example"},
		},
	}
	issuer = spkix.Name{Country: []string{"CH"}, Organization: []string{"Issüer AG"}, OrganizationalUnit: []string{"PKI", "Ops & Co"}, CommonName: "Issuing CA *"}
	return
}

// ---- der extension payloads

func gn(tag int, b []byte) []byte { return der.ImplicitPrim(tag, b) }

func ipnetBytes(n *net.IPNet) []byte { return append(append([]byte{}, n.IP...), n.Mask...) }

func derSubtrees(dns, emails []string, ips []*net.IPNet, uris []string) [][]byte {
	var l [][]byte
	// interleaved on purpose: per-type order is what the parsers report
	for _, e := range emails {
		l = append(l, der.Seq(gn(1, []byte(e))))
	}
	for _, i := range ips {
		l = append(l, der.Seq(gn(7, ipnetBytes(i))))
	}
	for _, d := range dns {
		l = append(l, der.Seq(gn(2, []byte(d))))
	}
	for _, u := range uris {
		l = append(l, der.Seq(gn(6, []byte(u))))
	}
	return l
}

func derExts(f feat) []pki.Ext {
	var e []pki.Ext
	switch f.Bc {
	case 1:
		e = append(e, pki.Ext{OID: pki.OIDBasicConstraints, Critical: true, Value: der.Seq()})
	case 2:
		e = append(e, pki.Ext{OID: pki.OIDBasicConstraints, Critical: true, Value: der.Seq(der.Bool(true))})
	case 3:
		e = append(e, pki.Ext{OID: pki.OIDBasicConstraints, Critical: true, Value: der.Seq(der.Bool(true), der.Int(0))})
	case 4:
		e = append(e, pki.Ext{OID: pki.OIDBasicConstraints, Critical: true, Value: der.Seq(der.Bool(true), der.Int(3))})
	}
	if f.UnkNon {
		_, non := unkOIDs(f)
		e = append(e, pki.Ext{OID: non, Value: unkNonVal})
	}
	if f.Ku {
		e = append(e, pki.Ext{OID: pki.OIDKeyUsage, Critical: true, Value: der.BitString([]byte{0x86, 0x80}, 7)})
	}
	if f.Eku {
		e = append(e, pki.Ext{OID: pki.OIDEKU, Value: der.Seq(der.OID(oidServerAuth...), der.OID(oidUnknownEKU...), der.OID(oidClientAuth...), der.OID(oidOCSPSigning...))})
	}
	if f.San != 0 {
		var l [][]byte
		if f.San&2 != 0 {
			l = append(l, gn(1, []byte(sanEmail[0])))
		}
		if f.San&1 != 0 {
			l = append(l, gn(2, []byte(sanDNS[0])))
		}
		if f.San&8 != 0 {
			l = append(l, gn(6, []byte(sanURI[0])))
		}
		if f.San&4 != 0 {
			l = append(l, gn(7, sanIP[0]), gn(7, sanIP[1]))
		}
		if f.San&1 != 0 {
			l = append(l, gn(2, []byte(sanDNS[1])))
		}
		if f.San&8 != 0 {
			l = append(l, gn(6, []byte(sanURI[1])))
		}
		e = append(e, pki.Ext{OID: pki.OIDSAN, Value: der.Seq(l...)})
	}
	if f.Nc != 0 {
		var parts [][]byte
		if f.Nc&1 != 0 {
			parts = append(parts, der.ImplicitCons(0, derSubtrees(permDNS, permEmail, permIP, permURI)...))
		}
		if f.Nc&2 != 0 {
			parts = append(parts, der.ImplicitCons(1, derSubtrees(exclDNS, exclEmail, exclIP, exclURI)...))
		}
		e = append(e, pki.Ext{OID: oidNC, Critical: true, Value: der.Seq(parts...)})
	}
	if f.Pol {
		e = append(e, pki.Ext{OID: oidPol, Value: der.Seq(
			der.Seq(der.OID(oidPolicyDV...)),
			der.Seq(der.OID(oidPolicyPriv...), der.Seq(der.Seq(der.OID(oidCPS...), der.IA5("http://cps.example.com/")))))})
	}
	if f.Aia {
		e = append(e, pki.Ext{OID: oidAIA, Value: der.Seq(
			der.Seq(der.OID(oidIssuer...), gn(6, []byte(issuerURL[0]))),
			der.Seq(der.OID(oidOCSP...), gn(6, []byte(ocspURL[0]))))})
	}
	if f.Crldp {
		var dps [][]byte
		for _, u := range crlURLs {
			dps = append(dps, der.Seq(der.ImplicitCons(0, der.ImplicitCons(0, gn(6, []byte(u))))))
		}
		e = append(e, pki.Ext{OID: oidCRLDP, Value: der.Seq(dps...)})
	}
	if f.Ski {
		e = append(e, pki.ExtSKI(skiBytes))
	}
	if f.Aki {
		e = append(e, pki.ExtAKI(akiBytes))
	}
	if f.UnkCrit {
		crit, _ := unkOIDs(f)
		e = append(e, pki.Ext{OID: crit, Critical: true, Value: unkCritVal})
	}
	return e
}

func outerHeader(total int) int {
	for h := 2; h <= 6; h++ {
		if 1+len(der.Len(total-h)) == h {
			return h
		}
	}
	panic("outerHeader")
}

// zeroReader makes every signature reproducible: ECDSA derives its nonce from the
// key, the digest and this stream; RSA PKCS#1 v1.5 and Ed25519 do not use it.
type zeroReader struct{}

func (zeroReader) Read(p []byte) (int, error) {
	for i := range p {
		p[i] = 0
	}
	return len(p), nil
}

func detSign(k *pki.Key, msg []byte) []byte {
	var sig []byte
	var err error
	switch k.Kind {
	case "ed25519":
		sig, err = k.Priv.Sign(zeroReader{}, msg, crypto.Hash(0))
	case "p384":
		h := sha512.Sum384(msg)
		sig, err = k.Priv.Sign(zeroReader{}, h[:], crypto.SHA384)
	default:
		h := sha256.Sum256(msg)
		sig, err = k.Priv.Sign(zeroReader{}, h[:], crypto.SHA256)
	}
	if err != nil {
		panic(err)
	}
	return sig
}

// assemble signs the template like pki.Build, reproducibly.
func assemble(t pki.Tmpl, signer *pki.Key) (certDER, tbs []byte) {
	alg := signer.SigAlgDER()
	tbs = t.TBS(alg)
	return pki.Assemble(tbs, alg, detSign(signer, tbs)), tbs
}

func buildDER(f feat) *built {
	sub, iss := derNames(f.Subj)
	k := pki.LoadKey(keyNames[f.Key][0])
	signer := pki.LoadKey(keyNames[f.Key][1])
	t := pki.Tmpl{Serial: serials[f.Serial], Issuer: iss, Subject: sub, NotBefore: validities[f.Val][0], NotAfter: validities[f.Val][1], Key: k, Exts: derExts(f)}
	certDER, tbsDER := assemble(t, signer)
	b := &built{DER: certDER, F: f, Kind: "cert", Name: f.String()}
	// what the builder knows: the pieces it concatenated
	b.TBSOff = outerHeader(len(certDER))
	b.TBSLen = len(tbsDER)
	nb, na := der.Time(t.NotBefore), der.Time(t.NotAfter)
	pre := outerHeader(len(tbsDER)) + len(der.Explicit(0, der.Int(2))) + len(der.IntMag(t.Serial)) + len(signer.SigAlgDER())
	b.IssOff, b.IssLen = b.TBSOff+pre, len(iss.DER())
	b.SubOff, b.SubLen = b.IssOff+b.IssLen+len(der.Seq(nb, na)), len(sub.DER())
	b.SPKIOff, b.SPKILen = b.SubOff+b.SubLen, len(k.SPKI)
	return b
}

func mustURL(s string) *url.URL {
	u, err := url.Parse(s)
	if err != nil {
		panic(err)
	}
	return u
}

func buildStd(f feat) *built {
	sub, iss := stdNames(f.Subj)
	k := pki.LoadKey(keyNames[f.Key][0])
	signer := pki.LoadKey(keyNames[f.Key][1])
	t := &sx.Certificate{
		SerialNumber: new(big.Int).SetBytes(serials[f.Serial]), Subject: sub,
		NotBefore: validities[f.Val][0], NotAfter: validities[f.Val][1], MaxPathLen: -1,
	}
	parent := &sx.Certificate{Subject: iss}
	if f.San&1 != 0 {
		t.DNSNames = sanDNS
	}
	if f.San&2 != 0 {
		t.EmailAddresses = sanEmail
	}
	if f.San&4 != 0 {
		t.IPAddresses = sanIP
	}
	if f.San&8 != 0 {
		t.URIs = []*url.URL{mustURL(sanURI[0]), mustURL(sanURI[1])}
	}
	if f.Ku {
		t.KeyUsage = sx.KeyUsageDigitalSignature | sx.KeyUsageCertSign | sx.KeyUsageCRLSign | sx.KeyUsageDecipherOnly
	}
	if f.Eku {
		t.ExtKeyUsage = []sx.ExtKeyUsage{sx.ExtKeyUsageServerAuth, sx.ExtKeyUsageClientAuth, sx.ExtKeyUsageOCSPSigning}
		t.UnknownExtKeyUsage = []sasn1.ObjectIdentifier{oidUnknownEKU}
	}
	switch f.Bc {
	case 1:
		t.BasicConstraintsValid = true
	case 2:
		t.BasicConstraintsValid, t.IsCA = true, true
	case 3:
		t.BasicConstraintsValid, t.IsCA, t.MaxPathLen, t.MaxPathLenZero = true, true, 0, true
	case 4:
		t.BasicConstraintsValid, t.IsCA, t.MaxPathLen = true, true, 3
	}
	if f.Nc != 0 {
		t.PermittedDNSDomainsCritical = true
		if f.Nc&1 != 0 {
			t.PermittedDNSDomains, t.PermittedEmailAddresses, t.PermittedIPRanges, t.PermittedURIDomains = permDNS, permEmail, permIP, permURI
		}
		if f.Nc&2 != 0 {
			t.ExcludedDNSDomains, t.ExcludedEmailAddresses, t.ExcludedIPRanges, t.ExcludedURIDomains = exclDNS, exclEmail, exclIP, exclURI
		}
	}
	if f.Pol {
		t.PolicyIdentifiers = []sasn1.ObjectIdentifier{oidPolicyDV, oidPolicyPriv}
	}
	if f.Aia {
		t.OCSPServer, t.IssuingCertificateURL = ocspURL, issuerURL
	}
	if f.Crldp {
		t.CRLDistributionPoints = crlURLs
	}
	if f.Ski {
		t.SubjectKeyId = skiBytes
	}
	if f.Aki {
		parent.SubjectKeyId = akiBytes
	}
	if f.UnkCrit {
		crit, _ := unkOIDs(f)
		t.ExtraExtensions = append(t.ExtraExtensions, spkix.Extension{Id: crit, Critical: true, Value: unkCritVal})
	}
	if f.UnkNon {
		_, non := unkOIDs(f)
		t.ExtraExtensions = append(t.ExtraExtensions, spkix.Extension{Id: non, Value: unkNonVal})
	}
	d, err := sx.CreateCertificate(zeroReader{}, t, parent, k.Priv.Public(), signer.Priv)
	if err != nil {
		panic(fmt.Sprintf("harness: CreateCertificate(%v): %v", f, err))
	}
	return &built{DER: d, F: f, Kind: "cert", Name: f.String(), TBSOff: -1}
}

func buildCert(f feat) *built {
	if f.Enc == 0 {
		return buildStd(f)
	}
	return buildDER(f)
}

// ---- rich der-only certificates: well-formed syntax the std encoder never emits

func richCerts() []*built {
	var out []*built
	sub, iss := derNames(false)
	k := pki.LoadKey("p256-1")
	signer := pki.LoadKey("p256-0")
	mk := func(name string, t pki.Tmpl) {
		if t.Serial == nil {
			t.Serial = []byte{0x11, 0x22}
		}
		if t.Issuer == nil {
			t.Issuer = iss
		}
		if t.Subject == nil {
			t.Subject = sub
		}
		t.NotBefore, t.NotAfter, t.Key = validities[0][0], validities[0][1], k
		certDER, _ := assemble(t, signer)
		out = append(out, &built{DER: certDER, Kind: "cert", Name: "rich:" + name, TBSOff: -1})
	}
	dirName := der.ImplicitCons(4, sub.DER())
	otherName := der.ImplicitCons(0, der.OID(1, 3, 6, 1, 4, 1, 311, 20, 2, 3), der.Explicit(0, der.UTF8("upn@example.com")))
	regID := gn(8, der.OIDContent(1, 3, 6, 1, 4, 1, 55555, 3))
	mk("san-all-general-name-kinds", pki.Tmpl{Exts: []pki.Ext{{OID: pki.OIDSAN, Value: der.Seq(otherName, gn(2, []byte("x.example.com")), dirName, regID, gn(7, sanIP[0]))}}})
	mk("san-only-unparsed-kinds-critical-empty-subject", pki.Tmpl{Subject: pki.Name{}, Exts: []pki.Ext{{OID: pki.OIDSAN, Critical: true, Value: der.Seq(dirName, regID)}}})
	// a critical subjectAltName with an empty subject, holding names of ONE parsed kind only (SPIFFE-style
	// URI-only certificates and their DNS / e-mail / IP counterparts): handled, so not "unhandled critical"
	mk("san-uri-only-critical-empty-subject", pki.Tmpl{Subject: pki.Name{}, Exts: []pki.Ext{{OID: pki.OIDSAN, Critical: true, Value: der.Seq(gn(6, []byte("spiffe://example.org/workload")), gn(6, []byte("https://example.org/")))}}})
	mk("san-dns-only-critical-empty-subject", pki.Tmpl{Subject: pki.Name{}, Exts: []pki.Ext{{OID: pki.OIDSAN, Critical: true, Value: der.Seq(gn(2, []byte("only.example.com")))}}})
	mk("san-email-only-critical-empty-subject", pki.Tmpl{Subject: pki.Name{}, Exts: []pki.Ext{{OID: pki.OIDSAN, Critical: true, Value: der.Seq(gn(1, []byte("only@example.com")))}}})
	mk("san-ip-only-critical-empty-subject", pki.Tmpl{Subject: pki.Name{}, Exts: []pki.Ext{{OID: pki.OIDSAN, Critical: true, Value: der.Seq(gn(7, sanIP[0]))}}})
	mk("aki-with-issuer-and-serial", pki.Tmpl{Exts: []pki.Ext{{OID: pki.OIDAKI, Value: der.Seq(der.ImplicitPrim(0, akiBytes), der.ImplicitCons(1, dirName), der.ImplicitPrim(2, []byte{0x05}))}}})
	mk("aki-without-keyid", pki.Tmpl{Exts: []pki.Ext{{OID: pki.OIDAKI, Value: der.Seq(der.ImplicitCons(1, dirName), der.ImplicitPrim(2, []byte{0x05}))}}})
	mk("crldp-reasons-and-crlissuer", pki.Tmpl{Exts: []pki.Ext{{OID: oidCRLDP, Value: der.Seq(
		der.Seq(der.ImplicitCons(0, der.ImplicitCons(0, gn(6, []byte(crlURLs[0])), dirName)), der.ImplicitPrim(1, []byte{1, 0x60})),
		der.Seq(der.ImplicitCons(2, dirName)))}}})
	// (a DistributionPoint with nameRelativeToCRLIssuer is well-formed too, but crypto/x509 of go1.23 rejects it,
	// so it cannot be compared and is left out)
	mk("aia-non-uri-locations-and-other-methods", pki.Tmpl{Exts: []pki.Ext{{OID: oidAIA, Value: der.Seq(
		der.Seq(der.OID(oidOCSP...), dirName),
		der.Seq(der.OID(1, 3, 6, 1, 5, 5, 7, 48, 5), gn(6, []byte("http://repo.example.com/"))),
		der.Seq(der.OID(oidOCSP...), gn(6, []byte("http://ocsp2.example.com/"))))}}})
	mk("policies-with-user-notice", pki.Tmpl{Exts: []pki.Ext{{OID: oidPol, Critical: true, Value: der.Seq(
		der.Seq(der.OID(2, 5, 29, 32, 0), der.Seq(der.Seq(der.OID(1, 3, 6, 1, 5, 5, 7, 2, 2), der.Seq(der.UTF8("notice text"))))))}}})
	mk("nc-other-name-kinds-noncritical", pki.Tmpl{Exts: []pki.Ext{pki.ExtBasicConstraints(true, true), {OID: oidNC, Value: der.Seq(
		der.ImplicitCons(0, der.Seq(dirName), der.Seq(gn(2, []byte("example.com")))))}}})
	// critical name constraints: every pairing of a permitted list and an excluded list drawn from
	// {absent, interpreted forms only, an uninterpreted form only, both}; a constraint of an uninterpreted form
	// anywhere leaves the critical extension unhandled, wherever the other list stands
	{
		dnsT, mailT, ipT := der.Seq(gn(2, []byte("example.com"))), der.Seq(gn(1, []byte(".example.org"))), der.Seq(gn(7, []byte{10, 0, 0, 0, 255, 0, 0, 0}))
		dirT, otherT, regT := der.Seq(dirName), der.Seq(otherName), der.Seq(regID)
		lists := []struct {
			n string
			l [][]byte
		}{{"absent", nil}, {"dns", [][]byte{dnsT}}, {"mail+ip", [][]byte{mailT, ipT}}, {"dirname", [][]byte{dirT}}, {"dns+dirname", [][]byte{dnsT, dirT}},
			{"othername+dns", [][]byte{otherT, dnsT}}, {"regid", [][]byte{regT}}}
		for _, pl := range lists {
			for _, el := range lists {
				if pl.l == nil && el.l == nil {
					continue
				}
				var parts [][]byte
				if pl.l != nil {
					parts = append(parts, der.ImplicitCons(0, pl.l...))
				}
				if el.l != nil {
					parts = append(parts, der.ImplicitCons(1, el.l...))
				}
				mk("nc-critical-permitted-"+pl.n+"-excluded-"+el.n, pki.Tmpl{Exts: []pki.Ext{pki.ExtBasicConstraints(true, true), {OID: oidNC, Critical: true, Value: der.Seq(parts...)}}})
			}
		}
	}
	// every character of the PrintableString alphabet (X.680 s41.4) in a PrintableString attribute, one certificate each,
	// plus the two characters crypto/x509 tolerates beyond it; NumericString and IA5String at the ends of their alphabets
	for _, ch := range "AZaz09 '()+,-./:=?*&" {
		mk(fmt.Sprintf("name-printablestring-with-0x%02x", ch), pki.Tmpl{Subject: pki.Name{{{pki.OIDC, 0x13, "GB"}}, {{pki.OIDOU, 0x13, "Unit" + string(ch) + "42"}}, {{pki.OIDCN, 0x13, "p" + string(ch)}}}})
	}
	mk("name-numericstring-ends", pki.Tmpl{Subject: pki.Name{{{oidX121, 0x12, "0 9"}}, {{pki.OIDCN, 0x0c, "n"}}}})
	mk("name-ia5string-ends", pki.Tmpl{Subject: pki.Name{{{oidEmail, 0x16, "\x01~\x7f@example.com"}}, {{pki.OIDCN, 0x0c, "i"}}}})
	mk("unique-ids", pki.Tmpl{IssuerUID: []byte{0xaa, 0xbb}, Exts: []pki.Ext{pki.ExtSKI(skiBytes)}})
	mk("eku-critical-any", pki.Tmpl{Exts: []pki.Ext{{OID: pki.OIDEKU, Critical: true, Value: der.Seq(der.OID(pki.OIDEKUAny...), der.OID(1, 3, 6, 1, 5, 5, 7, 3, 3), der.OID(1, 3, 6, 1, 5, 5, 7, 3, 4), der.OID(1, 3, 6, 1, 5, 5, 7, 3, 8))}}})
	mk("ku-all-nine-bits", pki.Tmpl{Exts: []pki.Ext{{OID: pki.OIDKeyUsage, Critical: true, Value: der.BitString([]byte{0xff, 0x80}, 7)}}})
	mk("ku-single-bit", pki.Tmpl{Exts: []pki.Ext{{OID: pki.OIDKeyUsage, Critical: false, Value: der.BitString([]byte{0x80}, 7)}}})
	mk("bc-noncritical-pathlen-255", pki.Tmpl{Exts: []pki.Ext{{OID: pki.OIDBasicConstraints, Value: der.Seq(der.Bool(true), der.Int(255))}}})
	mk("policy-constraints-and-inhibit-any-critical", pki.Tmpl{Exts: []pki.Ext{{OID: []int{2, 5, 29, 54}, Critical: true, Value: der.Int(0)}, {OID: []int{2, 5, 29, 36}, Critical: true, Value: der.Seq(der.ImplicitPrim(0, []byte{0}))}}})
	mk("serial-zero", pki.Tmpl{Serial: []byte{0}})
	mk("notafter-99991231235959Z", pki.Tmpl{NotAfterDER: der.GeneralizedTime(time.Date(9999, 12, 31, 23, 59, 59, 0, time.UTC))})
	// extensions only the fork interprets: expectations written from RFC 3779 / RFC 5280 4.2.2.2 / RFC 6962 3.3
	bits := func(b []byte, n int) []byte { return der.BitString(b, byte(len(b)*8-n)) }
	mk("rpki-ip-addr-blocks", pki.Tmpl{Exts: []pki.Ext{{OID: []int{1, 3, 6, 1, 5, 5, 7, 1, 7}, Critical: true, Value: der.Seq(
		der.Seq(der.OctetString([]byte{0, 1}), der.Seq(bits([]byte{10}, 8), bits([]byte{192, 0, 2}, 24), der.Seq(bits([]byte{172, 16}, 12), bits([]byte{172, 31}, 16)))),
		der.Seq(der.OctetString([]byte{0, 2, 1}), der.Null()))}}})
	out[len(out)-1].IgnoreUnhandled = true
	out[len(out)-1].Expect = func(c *x509.Certificate) string {
		got := fmt.Sprintf("%d", len(c.RPKIAddressRanges))
		for _, f := range c.RPKIAddressRanges {
			got += fmt.Sprintf(" {afi=%d safi=%d inherit=%v prefixes=%v ranges=%v}", f.AFI, f.SAFI, f.InheritFromIssuer, f.AddressPrefixes, f.AddressRanges)
		}
		want := "2 {afi=1 safi=0 inherit=false prefixes=[{[10] 8} {[192 0 2] 24}] ranges=[{{[172 16] 12} {[172 31] 16}}]} {afi=2 safi=1 inherit=true prefixes=[] ranges=[]}"
		if got != want {
			return "RPKIAddressRanges = " + got + ", want " + want
		}
		return ""
	}
	mk("rpki-as-identifiers", pki.Tmpl{Exts: []pki.Ext{{OID: []int{1, 3, 6, 1, 5, 5, 7, 1, 8}, Critical: true, Value: der.Seq(
		der.Explicit(0, der.Seq(der.Int(64496), der.Seq(der.Int(64500), der.Int(64510)), der.Int(4200000000))),
		der.Explicit(1, der.Null()))}}})
	out[len(out)-1].IgnoreUnhandled = true
	out[len(out)-1].Expect = func(c *x509.Certificate) string {
		got := fmt.Sprintf("%+v %+v", c.RPKIASNumbers, c.RPKIRoutingDomainIDs)
		want := "&{InheritFromIssuer:false ASIDs:[64496 4200000000] ASIDRanges:[{Min:64500 Max:64510}]} &{InheritFromIssuer:true ASIDs:[] ASIDRanges:[]}"
		if got != want {
			return "RPKIASNumbers, RPKIRoutingDomainIDs = " + got + ", want " + want
		}
		return ""
	}
	mk("subject-info-access", pki.Tmpl{Exts: []pki.Ext{{OID: []int{1, 3, 6, 1, 5, 5, 7, 1, 11}, Value: der.Seq(
		der.Seq(der.OID(1, 3, 6, 1, 5, 5, 7, 48, 5), gn(6, []byte("rsync://repo.example.com/"))),
		der.Seq(der.OID(1, 3, 6, 1, 5, 5, 7, 48, 3), gn(6, []byte("http://tsa.example.com"))),
		der.Seq(der.OID(1, 3, 6, 1, 5, 5, 7, 48, 5), dirName),
		der.Seq(der.OID(1, 3, 6, 1, 5, 5, 7, 48, 10), gn(6, []byte("rsync://repo.example.com/m.mft"))))}}})
	out[len(out)-1].Expect = func(c *x509.Certificate) string {
		got := fmt.Sprintf("%q %q", c.SubjectCARepositories, c.SubjectTimestamps)
		want := `["rsync://repo.example.com/"] ["http://tsa.example.com"]`
		if got != want {
			return "SubjectCARepositories, SubjectTimestamps = " + got + ", want " + want
		}
		return ""
	}
	sct1, sct2 := []byte{1, 2, 3}, bytes.Repeat([]byte{0xab}, 47)
	tlsList := cat([]byte{0, byte(2 + len(sct1) + 2 + len(sct2))}, []byte{0, byte(len(sct1))}, sct1, []byte{0, byte(len(sct2))}, sct2)
	mk("embedded-sct-list", pki.Tmpl{Exts: []pki.Ext{pki.ExtSCTList(tlsList), pki.ExtSKI(skiBytes)}})
	out[len(out)-1].Expect = func(c *x509.Certificate) string {
		if !bytes.Equal(c.RawSCT, tlsList) || len(c.SCTList.SCTList) != 2 || !bytes.Equal(c.SCTList.SCTList[0].Val, sct1) || !bytes.Equal(c.SCTList.SCTList[1].Val, sct2) {
			return fmt.Sprintf("RawSCT = %x, SCTList = %v", c.RawSCT, c.SCTList)
		}
		return ""
	}
	return out
}

// richCRLs: der-built CRLs with every extension revoked.go cracks out.
func richCRLs() []*built {
	var out []*built
	sub, iss := derNames(true)
	signer := pki.LoadKey("p256-0")
	ext := func(crit bool, val []byte, oid ...int) []byte {
		if crit {
			return der.Seq(der.OID(oid...), der.Bool(true), der.OctetString(val))
		}
		return der.Seq(der.OID(oid...), der.OctetString(val))
	}
	enumerated := func(n byte) []byte { return der.TLV(0x0a, []byte{n}) }
	this, next := time.Date(2049, 12, 31, 23, 0, 0, 0, time.UTC), time.Date(2050, 1, 31, 23, 0, 0, 0, time.UTC)
	dirName := der.ImplicitCons(4, sub.DER())
	build := func(name string, delta bool) {
		entries := der.Seq(
			der.Seq(der.IntMag(serials[0]), der.Time(this.Add(-time.Hour))),
			der.Seq(der.IntMag(serials[1]), der.Time(this.Add(-2*time.Hour)), der.Seq(
				ext(false, enumerated(1), 2, 5, 29, 21),
				ext(false, der.GeneralizedTime(this.Add(-72*time.Hour)), 2, 5, 29, 24),
				ext(true, der.Seq(dirName), 2, 5, 29, 29))),
			der.Seq(der.IntMag(serials[2]), der.Time(this.Add(-3*time.Hour)), der.Seq(ext(false, enumerated(8), 2, 5, 29, 21))))
		exts := [][]byte{
			ext(false, der.Seq(der.ImplicitPrim(0, akiBytes)), 2, 5, 29, 35),
			ext(false, der.Seq(gn(1, []byte("ca@example.com")), gn(6, []byte("http://ca.example.com/")), gn(2, []byte("ca.example.com")), gn(7, sanIP[0])), 2, 5, 29, 18),
			ext(false, der.Int(4660), 2, 5, 29, 20),
		}
		if delta {
			exts = append(exts, ext(true, der.Int(4600), 2, 5, 29, 27))
		}
		exts = append(exts,
			ext(true, der.Seq(der.ImplicitCons(0, der.ImplicitCons(0, gn(6, []byte(crlURLs[0])))), der.ImplicitPrim(1, []byte{0xff})), 2, 5, 29, 28),
			ext(false, der.Seq(der.Seq(der.ImplicitCons(0, der.ImplicitCons(0, gn(6, []byte("http://crl.example.com/delta.crl")))))), 2, 5, 29, 46),
			ext(false, der.Seq(der.Seq(der.OID(oidIssuer...), gn(6, []byte(issuerURL[0]))), der.Seq(der.OID(oidOCSP...), gn(6, []byte(ocspURL[0])))), oidAIA...))
		tbs := der.Seq(der.Int(1), signer.SigAlgDER(), iss.DER(), der.Time(this), der.Time(next), entries, der.Explicit(0, der.Seq(exts...)))
		d := der.Seq(tbs, signer.SigAlgDER(), der.BitString(detSign(signer, tbs), 0))
		b := &built{DER: d, Kind: "crl", Name: "rich-crl:" + name, TBSOff: -1}
		b.ExpectList = func(l *x509.CertificateList) string {
			t := l.TBSCertList
			base := -1
			if delta {
				base = 4600
			}
			got := fmt.Sprintf("number=%d base=%d aki=%x ian=%q/%q/%q/%d idp.user=%v idp.names=%q fresh=%q ocsp=%q issuers=%q", t.CRLNumber, t.BaseCRLNumber, t.AuthorityKeyID,
				t.IssuerAltNames.EmailAddresses, t.IssuerAltNames.URIs, t.IssuerAltNames.DNSNames, len(t.IssuerAltNames.IPNets),
				t.IssuingDistributionPoint.OnlyContainsUserCerts, t.IssuingDPFullNames.URIs, t.FreshestCRLDistributionPoint, t.OCSPServer, t.IssuingCertificateURL)
			want := fmt.Sprintf("number=4660 base=%d aki=%x ian=%q/%q/%q/1 idp.user=true idp.names=%q fresh=%q ocsp=%q issuers=%q", base, akiBytes,
				[]string{"ca@example.com"}, []string{"http://ca.example.com/"}, []string{"ca.example.com"}, []string{crlURLs[0]}, []string{"http://crl.example.com/delta.crl"}, ocspURL, issuerURL)
			if got != want {
				return got + ", want " + want
			}
			if len(t.RevokedCertificates) != 3 {
				return "RevokedCertificates length"
			}
			r1, r2 := t.RevokedCertificates[1], t.RevokedCertificates[2]
			if r1.RevocationReason != x509.KeyCompromise || !r1.InvalidityDate.Equal(this.Add(-72*time.Hour)) || len(r1.Issuer.DirectoryNames) != 1 || r2.RevocationReason != x509.RemoveFromCRL {
				return fmt.Sprintf("revoked entries: %+v %+v", r1, r2)
			}
			return ""
		}
		out = append(out, b)
	}
	build("full", false)
	build("delta", true)
	return out
}

// generalNameOddities: certificates and CRLs whose GeneralNames carry every form of RFC 5280 s4.2.1.6 - also the ones
// nobody uses (x400Address [3], ediPartyName [5]) - empty and non-empty, first / between / last, in every extension
// that holds GeneralNames. No verdict is prescribed: they feed the totality and coherence oracles of every entry point.
func generalNameOddities() []*built {
	var out []*built
	sub, iss := derNames(true)
	signer := pki.LoadKey("p256-0")
	dns := func(s string) []byte { return gn(2, []byte(s)) }
	forms := map[string][]byte{
		"othername": der.ImplicitCons(0, der.OID(1, 3, 6, 1, 4, 1, 311, 20, 2, 3), der.Explicit(0, der.UTF8("upn@example.com"))),
		"x400-empty": der.ImplicitCons(3), "x400": der.ImplicitCons(3, der.Seq(der.UTF8("x"))),
		"dirname":  der.ImplicitCons(4, sub.DER()),
		"edi-empty": der.ImplicitCons(5), "edi": der.ImplicitCons(5, der.Explicit(1, der.UTF8("party"))),
		"regid": gn(8, der.OIDContent(1, 3, 6, 1, 4, 1, 55555, 3)), "tag9": gn(9, []byte{1}), "tag3-primitive": gn(3, []byte{1, 2}),
	}
	var names []string
	for n := range forms {
		names = append(names, n)
	}
	sort.Strings(names)
	this, next := time.Date(2030, 1, 1, 0, 0, 0, 0, time.UTC), time.Date(2030, 2, 1, 0, 0, 0, 0, time.UTC)
	ext := func(crit bool, val []byte, oid ...int) []byte {
		if crit {
			return der.Seq(der.OID(oid...), der.Bool(true), der.OctetString(val))
		}
		return der.Seq(der.OID(oid...), der.OctetString(val))
	}
	for _, n := range names {
		f := forms[n]
		for li, list := range [][]byte{der.Seq(f), der.Seq(dns("a.example"), f, dns("b.example")), der.Seq(dns("a.example"), f), der.Seq(f, f)} {
			tag := fmt.Sprintf("%s/layout%d", n, li)
			// certificate: subjectAltName, issuerAltName, a CRL distribution point, name constraints
			for _, where := range []struct {
				n string
				e pki.Ext
			}{
				{"san", pki.Ext{OID: pki.OIDSAN, Value: list}},
				{"ian", pki.Ext{OID: []int{2, 5, 29, 18}, Value: list}},
				{"crldp", pki.Ext{OID: oidCRLDP, Value: der.Seq(der.Seq(der.ImplicitCons(0, der.ImplicitCons(0, dns("a.example"), f))))}},
				{"nc", pki.Ext{OID: oidNC, Critical: true, Value: der.Seq(der.ImplicitCons(0, der.Seq(f), der.Seq(dns("example.com"))))}},
			} {
				t := pki.Tmpl{Serial: []byte{0x33}, Issuer: iss, Subject: sub, NotBefore: pki.T0, NotAfter: this, Key: pki.LoadKey("p256-3"),
					Exts: []pki.Ext{pki.ExtBasicConstraints(true, true), where.e}}
				out = append(out, &built{DER: pki.Build(t, signer).DER, Kind: "raw", Name: "general-names:cert-" + where.n + ":" + tag, TBSOff: -1})
			}
			// CRL: issuerAltName, a revoked entry's certificateIssuer, the issuing distribution point
			for _, where := range []string{"ian", "certissuer", "idp"} {
				entries := der.Seq(der.Seq(der.IntMag(serials[0]), der.Time(this)))
				exts := [][]byte{ext(false, der.Int(7), 2, 5, 29, 20)}
				switch where {
				case "ian":
					exts = append(exts, ext(false, list, 2, 5, 29, 18))
				case "certissuer":
					entries = der.Seq(der.Seq(der.IntMag(serials[0]), der.Time(this), der.Seq(ext(true, list, 2, 5, 29, 29))))
				case "idp":
					exts = append(exts, ext(true, der.Seq(der.ImplicitCons(0, der.ImplicitCons(0, dns("a.example"), f))), 2, 5, 29, 28))
				}
				tbs := der.Seq(der.Int(1), signer.SigAlgDER(), iss.DER(), der.Time(this), der.Time(next), entries, der.Explicit(0, der.Seq(exts...)))
				out = append(out, &built{DER: der.Seq(tbs, signer.SigAlgDER(), der.BitString(detSign(signer, tbs), 0)), Kind: "raw", Name: "general-names:crl-" + where + ":" + tag, TBSOff: -1})
			}
		}
	}
	return out
}

// signatureAlgorithmForms: certificates whose inner and outer signatureAlgorithm is each form the
// two parsers classify by table: RSASSA-PSS with every hash x salt length x optional part, and the
// plain identifiers of every family. The signature value is not looked at by a parser.
func signatureAlgorithmForms() []*built {
	var out []*built
	sub, iss := derNames(true)
	hashes := []struct {
		n   string
		oid []int
	}{{"sha1", []int{1, 3, 14, 3, 2, 26}}, {"sha256", []int{2, 16, 840, 1, 101, 3, 4, 2, 1}}, {"sha384", []int{2, 16, 840, 1, 101, 3, 4, 2, 2}}, {"sha512", []int{2, 16, 840, 1, 101, 3, 4, 2, 3}}, {"sha224", []int{2, 16, 840, 1, 101, 3, 4, 2, 4}}}
	oidPSS, oidMGF1 := []int{1, 2, 840, 113549, 1, 1, 10}, []int{1, 2, 840, 113549, 1, 1, 8}
	algs := map[string][]byte{}
	hashAI := func(oid []int, null bool) []byte {
		if null {
			return der.Seq(der.OID(oid...), der.Null())
		}
		return der.Seq(der.OID(oid...))
	}
	for _, h := range hashes {
		for _, mg := range hashes {
			if mg.n != h.n && !(h.n == "sha512" && mg.n == "sha384") && !(h.n == "sha256" && mg.n == "sha1") {
				continue
			}
			for _, salt := range []int64{-1, 0, 20, 28, 32, 48, 64, 65} {
				for _, form := range []string{"null-params", "absent-params", "trailer-1", "trailer-2"} {
					if form != "null-params" && !(salt == 32 || salt == 48 || salt == 64) {
						continue
					}
					parts := [][]byte{der.Explicit(0, hashAI(h.oid, form != "absent-params")),
						der.Explicit(1, der.Seq(der.OID(oidMGF1...), hashAI(mg.oid, form != "absent-params")))}
					if salt >= 0 {
						parts = append(parts, der.Explicit(2, der.Int(salt)))
					}
					switch form {
					case "trailer-1":
						parts = append(parts, der.Explicit(3, der.Int(1)))
					case "trailer-2":
						parts = append(parts, der.Explicit(3, der.Int(2)))
					}
					algs[fmt.Sprintf("pss-%s-mgf1-%s-salt%d-%s", h.n, mg.n, salt, form)] = der.Seq(der.OID(oidPSS...), der.Seq(parts...))
				}
			}
		}
	}
	algs["pss-without-parameters"] = der.Seq(der.OID(oidPSS...))
	algs["pss-null-parameters"] = der.Seq(der.OID(oidPSS...), der.Null())
	algs["pss-empty-parameters"] = der.Seq(der.OID(oidPSS...), der.Seq())
	for n, oid := range map[string][]int{
		"md5-rsa": {1, 2, 840, 113549, 1, 1, 4}, "sha1-rsa": {1, 2, 840, 113549, 1, 1, 5}, "sha1-rsa-iso": {1, 3, 14, 3, 2, 29},
		"sha256-rsa": {1, 2, 840, 113549, 1, 1, 11}, "sha384-rsa": {1, 2, 840, 113549, 1, 1, 12}, "sha512-rsa": {1, 2, 840, 113549, 1, 1, 13}, "sha224-rsa": {1, 2, 840, 113549, 1, 1, 14},
		"dsa-sha1": {1, 2, 840, 10040, 4, 3}, "dsa-sha256": {2, 16, 840, 1, 101, 3, 4, 3, 2},
		"ecdsa-sha1": {1, 2, 840, 10045, 4, 1}, "ecdsa-sha224": {1, 2, 840, 10045, 4, 3, 1}, "ecdsa-sha256": {1, 2, 840, 10045, 4, 3, 2}, "ecdsa-sha384": {1, 2, 840, 10045, 4, 3, 3}, "ecdsa-sha512": {1, 2, 840, 10045, 4, 3, 4},
		"ed25519": {1, 3, 101, 112}, "ed448": {1, 3, 101, 113}, "unassigned": {1, 2, 840, 113549, 1, 1, 99},
	} {
		algs["plain-"+n+"-null"] = der.Seq(der.OID(oid...), der.Null())
		algs["plain-"+n+"-absent"] = der.Seq(der.OID(oid...))
	}
	var names []string
	for n := range algs {
		names = append(names, n)
	}
	sort.Strings(names)
	sig := make([]byte, 256)
	for i := range sig {
		sig[i] = byte(i*7 + 1)
	}
	for _, n := range names {
		for ki, kn := range []string{"rsa2048-0", "p256-3"} {
			if ki == 1 && !strings.HasPrefix(n, "plain-") {
				continue
			}
			t := pki.Tmpl{Serial: []byte{0x35}, Issuer: iss, Subject: sub, NotBefore: pki.T0, NotAfter: time.Date(2030, 1, 1, 0, 0, 0, 0, time.UTC), Key: pki.LoadKey(kn),
				Exts: []pki.Ext{pki.ExtBasicConstraints(true, false)}}
			out = append(out, &built{DER: pki.Assemble(t.TBS(algs[n]), algs[n], sig), Kind: "raw", Name: "signature-algorithm:" + n + ":key-" + kn, TBSOff: -1})
		}
	}
	return out
}

// ---- CRLs, keys, CSRs from the std encoders

func fixedEC(c elliptic.Curve, seed byte) *ecdsa.PrivateKey {
	n := (c.Params().N.BitLen() + 7) / 8
	d := make([]byte, n)
	for i := range d {
		d[i] = seed + byte(i)
	}
	d[0] = 0 // below the group order
	k := new(ecdsa.PrivateKey)
	k.Curve = c
	k.D = new(big.Int).SetBytes(d)
	k.X, k.Y = c.ScalarBaseMult(d)
	return k
}

func stdCRLs() []*built {
	var out []*built
	for ki := 0; ki < 3; ki++ {
		signer := pki.LoadKey(keyNames[ki][1])
		_, issName := stdNames(ki == 1)
		issuer := &sx.Certificate{Subject: issName, KeyUsage: sx.KeyUsageCRLSign, SubjectKeyId: akiBytes}
		for ti := 0; ti < 2; ti++ {
			this := time.Date(2024+30*ti, 3, 1, 10, 0, 0, 0, time.UTC)
			next := this.AddDate(0, 1, 0)
			for ne := 0; ne < 3; ne++ {
				var entries []sx.RevocationListEntry
				var old []spkix.RevokedCertificate
				for e := 0; e < []int{0, 1, 3}[ne]; e++ {
					ent := sx.RevocationListEntry{SerialNumber: new(big.Int).SetBytes(serials[e%3]), RevocationTime: this.Add(-time.Duration(e+1) * time.Hour)}
					oldEnt := spkix.RevokedCertificate{SerialNumber: ent.SerialNumber, RevocationTime: ent.RevocationTime}
					if e != 1 {
						ent.ReasonCode = []int{1, 0, 9}[e]
						rc, _ := sasn1.Marshal(sasn1.Enumerated(ent.ReasonCode))
						oldEnt.Extensions = []spkix.Extension{{Id: []int{2, 5, 29, 21}, Value: rc}}
					}
					if e == 2 {
						inv, _ := sasn1.Marshal(this.Add(-48 * time.Hour))
						x := spkix.Extension{Id: []int{2, 5, 29, 24}, Value: inv}
						ent.ExtraExtensions = []spkix.Extension{x}
						oldEnt.Extensions = append(oldEnt.Extensions, x)
					}
					entries = append(entries, ent)
					old = append(old, oldEnt)
				}
				rl := &sx.RevocationList{Number: big.NewInt(int64(100 + ne)), ThisUpdate: this, NextUpdate: next, RevokedCertificateEntries: entries}
				d, err := sx.CreateRevocationList(zeroReader{}, rl, issuer, signer.Priv)
				if err != nil {
					panic(err)
				}
				out = append(out, &built{DER: d, Kind: "crl", Name: fmt.Sprintf("CreateRevocationList key=%d t=%d entries=%d", ki, ti, len(entries)), TBSOff: -1})
				d, err = issuer.CreateCRL(zeroReader{}, signer.Priv, old, this, next)
				if err != nil {
					panic(err)
				}
				out = append(out, &built{DER: d, Kind: "crl", Name: fmt.Sprintf("CreateCRL key=%d t=%d entries=%d", ki, ti, len(old)), TBSOff: -1})
			}
		}
	}
	return out
}

func stdKeys() []*built {
	var out []*built
	add := func(kind, name string, d []byte, err error) {
		if err != nil {
			panic(fmt.Sprintf("harness: %s %s: %v", kind, name, err))
		}
		out = append(out, &built{DER: d, Kind: kind, Name: kind + " " + name, TBSOff: -1})
	}
	privs := map[string]crypto.Signer{}
	names := []string{"p256-0", "p256-1", "p384-0", "rsa2048-0", "rsa2048-1", "rsa2048-2", "ed25519-0", "ed25519-1", "p224-fixed", "p521-fixed"}
	for _, n := range names[:8] {
		privs[n] = pki.LoadKey(n).Priv
	}
	privs["p224-fixed"] = fixedEC(elliptic.P224(), 0x21)
	privs["p521-fixed"] = fixedEC(elliptic.P521(), 0x42)
	for _, n := range names {
		p := privs[n]
		d, err := sx.MarshalPKIXPublicKey(p.Public())
		add("pkix", n, d, err)
		d, err = sx.MarshalPKCS8PrivateKey(p)
		add("pkcs8", n, d, err)
		switch k := p.(type) {
		case *ecdsa.PrivateKey:
			d, err = sx.MarshalECPrivateKey(k)
			add("sec1", n, d, err)
			if n == "p256-0" || n == "p384-0" {
				// the privateKey OCTET STRING with 1..4 superfluous leading zero octets (GnuTLS and others emit such
				// keys; both parsers tolerate them): SEC1 form and the same wrapped in PKCS#8
				size := (k.Curve.Params().BitSize + 7) / 8
				for pad := 1; pad <= 4; pad++ {
					priv := append(make([]byte, pad), k.D.FillBytes(make([]byte, size))...)
					oid := der.OID(1, 2, 840, 10045, 3, 1, 7)
					if n == "p384-0" {
						oid = der.OID(1, 3, 132, 0, 34)
					}
					sec1 := der.Seq(der.Int(1), der.OctetString(priv), der.Explicit(0, oid))
					add("sec1", fmt.Sprintf("%s privateKey padded with %d zero octets", n, pad), sec1, nil)
					p8 := der.Seq(der.Int(0), der.Seq(der.OID(1, 2, 840, 10045, 2, 1), oid), der.OctetString(der.Seq(der.Int(1), der.OctetString(priv))))
					add("pkcs8", fmt.Sprintf("%s EC privateKey padded with %d zero octets", n, pad), p8, nil)
				}
			}
		default:
			if rk, ok := rsaKey(p); ok {
				add("pkcs1", n, sx.MarshalPKCS1PrivateKey(rk), nil)
				add("pkcs1pub", n, sx.MarshalPKCS1PublicKey(&rk.PublicKey), nil)
			}
		}
	}
	return out
}

func stdCSRs() []*built {
	var out []*built
	for ki := 0; ki < 3; ki++ {
		k := pki.LoadKey(keyNames[ki][0])
		for si := 0; si < 2; si++ {
			sub, _ := stdNames(si == 1)
			for san := 0; san < 2; san++ {
				for xe := 0; xe < 2; xe++ {
					t := &sx.CertificateRequest{Subject: sub}
					if san == 1 {
						t.DNSNames, t.EmailAddresses, t.IPAddresses, t.URIs = sanDNS, sanEmail, sanIP, []*url.URL{mustURL(sanURI[0]), mustURL(sanURI[1])}
					}
					if xe == 1 {
						t.ExtraExtensions = []spkix.Extension{{Id: oidUnkNon, Value: unkNonVal}, {Id: []int{2, 5, 29, 15}, Critical: true, Value: der.BitString([]byte{0x80}, 7)}}
					}
					d, err := sx.CreateCertificateRequest(zeroReader{}, t, k.Priv)
					if err != nil {
						panic(err)
					}
					out = append(out, &built{DER: d, Kind: "csr", Name: fmt.Sprintf("csr key=%d multi=%d san=%d extra=%d", ki, si, san, xe), TBSOff: -1})
				}
			}
		}
	}
	return out
}
