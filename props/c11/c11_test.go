// C11 — the lenient X.509 parser is total, error-coherent and exact on
// well-formed input.
//
// Engine B (bounded-exhaustive enumeration, default toolchain).
//
//	(a) conformance: every certificate template of a feature product, issued by two
//	    conforming encoders (crypto/x509.CreateCertificate and ref/der+ref/pki), plus
//	    CRLs, keys and CSRs from the std encoders: the fork must parse with err == nil
//	    and agree field by field with crypto/x509 of the installed toolchain; the raw
//	    fields must be the input's sub-slices at the offsets the builder / an
//	    independent TLV walker know.
//	(b) totality / coherence: seeds x every TLV node x every mutation of the catalogue
//	    (thorough: two mutations) through every parser entry point: no panic,
//	    terminates, (object, error class) never mixed, raw fields faithful, returned
//	    objects usable through their own methods.
//	(c) ParseCertificates(a||b[||c]) against ParseCertificate of each part.
package c11

import (
	"bytes"
	"crypto/sha256"
	sx "crypto/x509"
	spkix "crypto/x509/pkix"
	"encoding/hex"
	"encoding/pem"
	"fmt"
	"os"
	"path/filepath"
	"reflect"
	"regexp"
	"runtime/pprof"
	"sort"
	"strings"
	"sync"
	"sync/atomic"
	"syscall"
	"testing"
	"time"

	"verif/engine/enum"
	"verif/engine/rep"

	"github.com/google/certificate-transparency-go/x509"
)

// ---------------------------------------------------------------- entry points

type entry struct {
	name string
	run  func(in []byte) (any, error)
}

var entries = []entry{
	{"ParseCertificate", func(b []byte) (any, error) { return x509.ParseCertificate(b) }},
	{"ParseTBSCertificate", func(b []byte) (any, error) { return x509.ParseTBSCertificate(b) }},
	{"ParseCertificates", func(b []byte) (any, error) { return x509.ParseCertificates(b) }},
	{"ParseCertificateList", func(b []byte) (any, error) { return x509.ParseCertificateList(b) }},
	{"ParseCertificateListDER", func(b []byte) (any, error) { return x509.ParseCertificateListDER(b) }},
	{"ParseCRL", func(b []byte) (any, error) { return x509.ParseCRL(b) }},
	{"ParseDERCRL", func(b []byte) (any, error) { return x509.ParseDERCRL(b) }},
	{"ParsePKIXPublicKey", func(b []byte) (any, error) { return x509.ParsePKIXPublicKey(b) }},
	{"ParsePKCS1PrivateKey", func(b []byte) (any, error) { return x509.ParsePKCS1PrivateKey(b) }},
	{"ParsePKCS1PublicKey", func(b []byte) (any, error) { return x509.ParsePKCS1PublicKey(b) }},
	{"ParsePKCS8PrivateKey", func(b []byte) (any, error) { return x509.ParsePKCS8PrivateKey(b) }},
	{"ParseECPrivateKey", func(b []byte) (any, error) { return x509.ParseECPrivateKey(b) }},
	{"ParseCertificateRequest", func(b []byte) (any, error) { return x509.ParseCertificateRequest(b) }},
}

const (
	eCert = iota
	eTBS
	eCerts
	eCertList
	eCertListDER
	eCRL
	eDERCRL
	ePKIX
	ePKCS1
	ePKCS1Pub
	ePKCS8
	eSEC1
	eCSR
	nEntries
)

const (
	clsOK = iota
	clsNonFatal
	clsFatal
	clsPanic
)

var clsName = [...]string{"ok", "non-fatal", "fatal", "panic"}

type result struct {
	obj    any
	err    error
	cls    int
	objNil bool
	pmsg   string
	pstack string
}

// isNilObj: obj is "no object"; nilElem: a container holding a nil element.
func isNilObj(obj any) (isNil, nilElem bool) {
	if obj == nil {
		return true, false
	}
	rv := reflect.ValueOf(obj)
	switch rv.Kind() {
	case reflect.Ptr, reflect.Slice, reflect.Map, reflect.Interface:
		if rv.IsNil() {
			return true, false
		}
	}
	switch o := obj.(type) {
	case []*x509.Certificate:
		for _, c := range o {
			if c == nil {
				return false, true
			}
		}
	case *x509.CertificateList:
		for _, rc := range o.TBSCertList.RevokedCertificates {
			if rc == nil {
				return false, true
			}
		}
	}
	return false, false
}

// ---------------------------------------------------------------- the checker

type caseDesc struct {
	Part     string `json:"part"`
	Seed     string `json:"seed,omitempty"`
	Mutation string `json:"mutation,omitempty"`
	Entry    string `json:"entry_point,omitempty"`
	InputHex string `json:"input_hex"`
	in       []byte
	Got      string `json:"library,omitempty"`
	Want     string `json:"expected,omitempty"`
}

// viol records a violation; the input is hex-encoded only now.
func (c *checker) viol(sig, desc string, d caseDesc) {
	if d.InputHex == "" {
		d.InputHex = hex.EncodeToString(d.in)
	}
	c.r.Violation(sig, desc, d)
}

func cpuSeconds() float64 {
	var ru syscall.Rusage
	syscall.Getrusage(syscall.RUSAGE_SELF, &ru)
	return float64(ru.Utime.Sec+ru.Stime.Sec) + float64(ru.Utime.Usec+ru.Stime.Usec)/1e6
}

type checker struct {
	r         *rep.R
	notes     fieldNotes
	outcomes  [nEntries][4]atomic.Int64
	kinds     sync.Map
	rawSkips  atomic.Int64
	rawOK     atomic.Int64
	usable    atomic.Int64
	mutants   atomic.Int64
	accepted  atomic.Int64
	nonfatal  atomic.Int64
	doubles   atomic.Int64
	laxChecks atomic.Int64
	bSamples  atomic.Int64
	cSamples  atomic.Int64
	concats   atomic.Int64
	wd        watchdog
}

// watchdog: "terminates" is observed as "returns within 90 s, observed by 45 passes of a monitor that runs every 2 s" (typical: 50 µs).
type watchdog struct {
	mu   sync.Mutex
	next int64
	live map[int64]wdCase
}

type wdCase struct {
	start time.Time
	desc  caseDesc
	seen  int // passes of the monitor that found the case still running (a suspended process does not age a case)
}

func (w *watchdog) enter(d caseDesc) int64 {
	w.mu.Lock()
	defer w.mu.Unlock()
	if w.live == nil {
		w.live = map[int64]wdCase{}
	}
	w.next++
	w.live[w.next] = wdCase{start: time.Now(), desc: d}
	return w.next
}

func (w *watchdog) leave(id int64) {
	w.mu.Lock()
	delete(w.live, id)
	w.mu.Unlock()
}

func (c *checker) watch() {
	go func() {
		for {
			time.Sleep(2 * time.Second)
			c.wd.mu.Lock()
			for id, lc := range c.wd.live {
				lc.seen++
				c.wd.live[id] = lc
				if lc.seen >= 45 && time.Since(lc.start) > 90*time.Second {
					d := lc.desc
					c.wd.mu.Unlock()
					c.r.Capped("stopped by the watchdog: a parser call did not return")
					c.viol("termination: a parser did not return within 90 s", "see case", d)
					c.r.Finish()
					return
				}
			}
			c.wd.mu.Unlock()
		}
	}()
}

func (c *checker) call(e int, in []byte) (res result) {
	pan, msg, stack := enum.Catch(func() { res.obj, res.err = entries[e].run(in) })
	if pan {
		res.cls, res.pmsg, res.pstack, res.objNil = clsPanic, msg, stack, true
		res.obj, res.err = nil, nil
	} else {
		switch {
		case res.err == nil:
			res.cls = clsOK
		case x509.IsFatal(res.err):
			res.cls = clsFatal
		default:
			res.cls = clsNonFatal
		}
		res.objNil, _ = isNilObj(res.obj)
	}
	c.outcomes[e][res.cls].Add(1)
	return
}

var (
	quoteRe = regexp.MustCompile(`"[^"]*"|'[^']*'`)
	numRe   = regexp.MustCompile(`\b[0-9]+\b`)
	hexRe   = regexp.MustCompile(`0x[0-9a-f]+|[0-9a-f]{8,}`)
)

// coarse strips the case-specific parts of a message so it can sit in a signature.
func coarse(s string) string {
	s = quoteRe.ReplaceAllString(s, `"…"`)
	s = hexRe.ReplaceAllString(s, "H")
	s = numRe.ReplaceAllString(s, "N")
	if i := strings.Index(s, "\n"); i >= 0 {
		s = s[:i]
	}
	if len(s) > 110 {
		s = s[:110]
	}
	return s
}

func panicSite(stack string) string {
	// first frame inside the repository after the panic frames
	lines := strings.Split(stack, "\n")
	for _, l := range lines {
		if strings.Contains(l, "certificate-transparency-go/") && !strings.Contains(l, "/verif/") && strings.HasPrefix(l, "github.com") {
			fn := l
			if j := strings.Index(fn, "("); j > 0 {
				fn = fn[:j]
			}
			fn = fn[strings.LastIndex(fn, "/")+1:]
			return fn
		}
	}
	return "?"
}

// coherence applies oracle (1)+(2) to one call.
func (c *checker) coherence(e int, res result, d caseDesc) bool {
	name := entries[e].name
	d.Entry = name
	if res.cls == clsPanic {
		d.Got = "panic: " + res.pmsg
		c.viol("panic: "+name+" in "+panicSite(res.pstack)+": "+coarse(res.pmsg), name+" panicked: "+res.pmsg+"\n"+res.pstack, d)
		return false
	}
	isNil, nilElem := isNilObj(res.obj)
	d.Got = fmt.Sprintf("object nil=%v, error class=%s, err=%v", isNil, clsName[res.cls], res.err)
	ok := true
	switch res.cls {
	case clsOK, clsNonFatal:
		if isNil {
			c.viol("coherence: "+name+" returns no object with a "+clsName[res.cls]+" error",
				fmt.Sprintf("%s returned (nil, %v) [class %s]; callers that test IsFatal(err) dereference nil", name, res.err, clsName[res.cls]), d)
			ok = false
		} else if nilElem {
			c.viol("coherence: "+name+" returns a container with a nil element and a "+clsName[res.cls]+" error",
				fmt.Sprintf("%s returned a nil element with err=%v", name, res.err), d)
			ok = false
		}
	case clsFatal:
		if !isNil {
			c.viol("coherence: "+name+" returns an object together with a fatal error",
				fmt.Sprintf("%s returned a non-nil %T with fatal err=%v", name, res.obj, res.err), d)
			ok = false
		}
	}
	// an error value must carry an error
	switch ev := res.err.(type) {
	case x509.NonFatalErrors:
		if len(ev.Errors) == 0 {
			c.viol("coherence: "+name+" returns an empty NonFatalErrors", "non-nil error with no content", d)
			ok = false
		}
	case *x509.Errors:
		if ev == nil || ev.Empty() {
			c.viol("coherence: "+name+" returns an empty *Errors", "non-nil error with no content", d)
			ok = false
		}
	}
	return ok
}

// region is a byte range of the input.
type region struct{ off, n int }

// certRegions computes from the independent walker where the raw fields of a
// certificate (tbsOnly: of a bare TBSCertificate) sit. ok is false when the
// walker cannot tell (indefinite lengths, unexpected shape).
func certRegions(top *node, tbsOnly bool) (tbs, iss, sub, spki region, ok bool) {
	t := top
	if !tbsOnly {
		if len(top.children) < 1 {
			return
		}
		t = top.children[0]
	}
	ch := t.children
	i := 0
	if len(ch) > 0 && ch[0].tag == 0xa0 {
		// asn1 (like encoding/asn1) reads the element inside an EXPLICIT wrapper and goes on after
		// it, whatever length the wrapper declares: when the wrapper's content is not exactly one
		// TLV there are two readings of the input and no offset can be demanded
		if len(ch[0].children) != 1 {
			return
		}
		i = 1
	}
	if len(ch) < i+6 {
		return
	}
	rg := func(n *node) region { return region{n.hdrStart, n.end - n.hdrStart} }
	return rg(t), rg(ch[i+2]), rg(ch[i+4]), rg(ch[i+5]), true
}

func (c *checker) rawEq(field string, got []byte, in []byte, want region, d caseDesc) {
	if want.off < 0 || want.off+want.n > len(in) || !bytes.Equal(got, in[want.off:want.off+want.n]) {
		d.Got = fmt.Sprintf("%s = %d bytes %s", field, len(got), rep.Hex(got))
		d.Want = fmt.Sprintf("input[%d:%d]", want.off, want.off+want.n)
		c.viol("raw-slice: "+d.Entry+" "+field+" is not the corresponding sub-slice of the input", d.Got+" want "+d.Want, d)
		return
	}
	c.rawOK.Add(1)
}

// rawCert applies oracle (3) to a certificate parsed from in[base:base+len].
func (c *checker) rawCert(cert *x509.Certificate, in []byte, top *node, tbsOnly bool, d caseDesc) {
	c.rawEq("Raw", cert.Raw, in, region{top.hdrStart, top.end - top.hdrStart}, d)
	tbs, iss, sub, spki, ok := certRegions(top, tbsOnly)
	if !ok {
		// framing ambiguous: still, every raw field must be a run of input bytes, in field order
		c.rawSkips.Add(1)
		pos := 0
		for _, f := range []struct {
			name string
			b    []byte
		}{{"RawTBSCertificate", cert.RawTBSCertificate}, {"RawIssuer", cert.RawIssuer}, {"RawSubject", cert.RawSubject}, {"RawSubjectPublicKeyInfo", cert.RawSubjectPublicKeyInfo}} {
			k := bytes.Index(in[pos:], f.b)
			if k < 0 || len(f.b) == 0 {
				d.Got = fmt.Sprintf("%s = %d bytes %s", f.name, len(f.b), rep.Hex(f.b))
				c.viol("raw-slice: "+d.Entry+" "+f.name+" is not a sub-slice of the input", d.Got, d)
				return
			}
			if f.name != "RawTBSCertificate" {
				pos += k + len(f.b)
			} else {
				pos += k + 1
			}
		}
		return
	}
	c.rawEq("RawTBSCertificate", cert.RawTBSCertificate, in, tbs, d)
	c.rawEq("RawIssuer", cert.RawIssuer, in, iss, d)
	c.rawEq("RawSubject", cert.RawSubject, in, sub, d)
	c.rawEq("RawSubjectPublicKeyInfo", cert.RawSubjectPublicKeyInfo, in, spki, d)
}

// use exercises a returned object through its own methods: a panic there means
// the object was not usable.
func (c *checker) use(e int, obj any, d caseDesc) {
	d.Entry = entries[e].name
	probe := func(what string, f func()) {
		pan, msg, stack := enum.Catch(f)
		c.usable.Add(1)
		if pan {
			d.Got = "panic: " + msg
			c.viol("usable-object: "+what+" panics on a returned object: "+coarse(msg), what+" panicked on the object returned by "+d.Entry+": "+msg+"\n"+stack, d)
		}
	}
	switch o := obj.(type) {
	case *x509.Certificate:
		probe("Certificate.CheckSignature", func() { _ = o.CheckSignature(o.SignatureAlgorithm, o.RawTBSCertificate, o.Signature) })
		probe("Certificate.IsPrecertificate/Subject.String", func() { _ = o.IsPrecertificate(); _ = o.Subject.String(); _ = o.Issuer.String() })
	case *x509.CertificateRequest:
		probe("CertificateRequest.CheckSignature", func() { _ = o.CheckSignature() })
	case *x509.CertificateList:
		probe("CertificateList.ExpiredAt", func() { _ = o.ExpiredAt(time.Unix(0, 0)) })
	default:
		if e == ePKIX {
			// a bare public key: used the way the package uses it, as the key of a certificate
			holder := &x509.Certificate{PublicKey: obj}
			for _, alg := range []x509.SignatureAlgorithm{x509.SHA256WithRSA, x509.ECDSAWithSHA256, x509.PureEd25519} {
				probe("Certificate.CheckSignature", func() { _ = holder.CheckSignature(alg, []byte("message"), make([]byte, 64)) })
			}
		}
	}
}

// concatOracle is oracle (5): got = ParseCertificates(in) against ParseCertificate
// of each top-level piece.
func (c *checker) concatOracle(in []byte, tops []*node, got result, d caseDesc) {
	d.Entry = "ParseCertificates"
	if got.cls == clsPanic {
		return // reported by coherence
	}
	anyFatal, anyNon := false, false
	var solos []*x509.Certificate
	var classes []string
	for _, t := range tops {
		var cert *x509.Certificate
		var err error
		pan, _, _ := enum.Catch(func() { cert, err = x509.ParseCertificate(in[t.hdrStart:t.end]) })
		switch {
		case pan:
			return
		case err == nil:
			classes = append(classes, "ok")
		case x509.IsFatal(err):
			anyFatal = true
			classes = append(classes, "fatal")
		default:
			anyNon = true
			classes = append(classes, "non-fatal")
		}
		solos = append(solos, cert)
	}
	want := clsOK
	if anyFatal {
		want = clsFatal
	} else if anyNon {
		want = clsNonFatal
	}
	d.Want = fmt.Sprintf("ParseCertificate of the %d parts alone: %v => %s", len(tops), classes, clsName[want])
	d.Got = fmt.Sprintf("%s, err=%v", clsName[got.cls], got.err)
	if got.cls != want {
		c.viol(fmt.Sprintf("concat: ParseCertificates is %s where ParseCertificate of each part alone gives %s", clsName[got.cls], clsName[want]),
			fmt.Sprintf("%d part(s) %v; ParseCertificates: %s", len(tops), classes, d.Got), d)
		return
	}
	if want == clsFatal {
		return
	}
	certs, _ := got.obj.([]*x509.Certificate)
	if len(certs) != len(solos) {
		c.viol("concat: ParseCertificates returns a different number of certificates", fmt.Sprintf("%d vs %d", len(certs), len(solos)), d)
		return
	}
	for i := range certs {
		if !reflect.DeepEqual(certs[i], solos[i]) {
			c.viol("concat: ParseCertificates element differs from ParseCertificate of the same bytes", fmt.Sprintf("element %d", i), d)
			return
		}
	}
}

func sameOutcome(a, b result) bool {
	return a.cls == b.cls && reflect.DeepEqual(a.obj, b.obj)
}

// checkInput runs one byte string through every entry point and applies oracles
// (1) (2) (3) (5) and the usability probe. It returns the ParseCertificate and
// ParseTBSCertificate classes.
func (c *checker) checkInput(in []byte, d caseDesc, pemToo bool) (certCls, tbsCls int) {
	d.in = in
	id := c.wd.enter(d)
	defer c.wd.leave(id)
	c.r.Eval(1)
	var res [nEntries]result
	anyObj, anyNon := false, false
	for e := range entries {
		res[e] = c.call(e, in)
		c.coherence(e, res[e], d)
		if res[e].cls == clsOK || res[e].cls == clsNonFatal {
			anyObj = true
		}
		if res[e].cls == clsNonFatal {
			anyNon = true
		}
	}
	tops, walkable := walk(in)
	// (3) raw fields
	if walkable && len(tops) == 1 {
		top := tops[0]
		whole := region{0, len(in)}
		if cert, ok := res[eCert].obj.(*x509.Certificate); ok && cert != nil {
			d.Entry = "ParseCertificate"
			c.rawCert(cert, in, top, false, d)
		}
		if cert, ok := res[eTBS].obj.(*x509.Certificate); ok && cert != nil {
			d.Entry = "ParseTBSCertificate"
			c.rawCert(cert, in, top, true, d)
		}
		if csr, ok := res[eCSR].obj.(*x509.CertificateRequest); ok && csr != nil {
			d.Entry = "ParseCertificateRequest"
			c.rawEq("Raw", csr.Raw, in, whole, d)
			if len(top.children) > 0 && len(top.children[0].children) >= 3 {
				t := top.children[0]
				rg := func(n *node) region { return region{n.hdrStart, n.end - n.hdrStart} }
				c.rawEq("RawTBSCertificateRequest", csr.RawTBSCertificateRequest, in, rg(t), d)
				c.rawEq("RawSubject", csr.RawSubject, in, rg(t.children[1]), d)
				c.rawEq("RawSubjectPublicKeyInfo", csr.RawSubjectPublicKeyInfo, in, rg(t.children[2]), d)
			}
		}
		for _, e := range []int{eCertList, eCertListDER} {
			if cl, ok := res[e].obj.(*x509.CertificateList); ok && cl != nil {
				d.Entry = entries[e].name
				c.rawEq("Raw", cl.Raw, in, whole, d)
				if len(top.children) > 0 {
					t := top.children[0]
					c.rawEq("TBSCertList.Raw", cl.TBSCertList.Raw, in, region{t.hdrStart, t.end - t.hdrStart}, d)
				}
			}
		}
	}
	if walkable && len(tops) >= 1 {
		if certs, ok := res[eCerts].obj.([]*x509.Certificate); ok && certs != nil && len(certs) == len(tops) {
			d.Entry = "ParseCertificates"
			for i, cert := range certs {
				if cert != nil {
					c.rawCert(cert, in, tops[i], false, d)
				}
			}
		}
		// (5) with one or more top-level parts
		c.concatOracle(in, tops, res[eCerts], d)
	}
	// PEM front ends must agree with their DER back ends
	if !sameOutcome(res[eCRL], res[eDERCRL]) {
		d.Entry = "ParseCRL"
		c.viol("front-end: ParseCRL differs from ParseDERCRL on DER input", fmt.Sprintf("%s vs %s", clsName[res[eCRL].cls], clsName[res[eDERCRL].cls]), d)
	}
	if !sameOutcome(res[eCertList], res[eCertListDER]) {
		d.Entry = "ParseCertificateList"
		c.viol("front-end: ParseCertificateList differs from ParseCertificateListDER on DER input", fmt.Sprintf("%s vs %s", clsName[res[eCertList].cls], clsName[res[eCertListDER].cls]), d)
	}
	if pemToo {
		p := pem.EncodeToMemory(&pem.Block{Type: "X509 CRL", Bytes: in})
		for _, pr := range [][2]int{{eCRL, eDERCRL}, {eCertList, eCertListDER}} {
			rp := c.call(pr[0], p)
			d2 := d
			d2.Mutation += " (PEM armoured)"
			c.coherence(pr[0], rp, d2)
			// Raw of the list refers to the decoded DER, compare everything else
			if rp.cls != res[pr[1]].cls || !reflect.DeepEqual(rp.obj, res[pr[1]].obj) {
				d2.Entry = entries[pr[0]].name
				c.viol("front-end: "+entries[pr[0]].name+" of the PEM armour differs from "+entries[pr[1]].name+" of the DER", fmt.Sprintf("%s vs %s", clsName[rp.cls], clsName[res[pr[1]].cls]), d2)
			}
		}
	}
	// usability of what came back
	for e := range entries {
		if !res[e].objNil && (res[e].cls == clsOK || res[e].cls == clsNonFatal) && e != eCerts && e != eCertListDER {
			c.use(e, res[e].obj, d)
		}
	}
	if anyObj {
		c.accepted.Add(1)
		h := sha256.Sum256(in)
		c.r.Nontrivial(string(h[:]))
	}
	if anyNon {
		c.nonfatal.Add(1)
	}
	return res[eCert].cls, res[eTBS].cls
}

// ---------------------------------------------------------------- (a) conformance

func errSig(err error) string {
	if err == nil {
		return "nil"
	}
	if nf, ok := err.(x509.NonFatalErrors); ok && len(nf.Errors) > 0 {
		return "non-fatal: " + coarse(nf.Errors[0].Error())
	}
	if x509.IsFatal(err) {
		return "fatal: " + coarse(err.Error())
	}
	return "non-fatal: " + coarse(err.Error())
}

func (c *checker) conformCert(b *built) {
	d := caseDesc{Part: "a:conformance", Seed: b.Name, in: b.DER}
	id := c.wd.enter(d)
	defer c.wd.leave(id)
	c.r.Eval(1)
	enc := []string{"crypto/x509.CreateCertificate", "ref/der+ref/pki"}[b.F.Enc]
	std, serr := sx.ParseCertificate(b.DER)
	if serr != nil {
		d.Got = serr.Error()
		c.viol("harness: crypto/x509 rejects a generated certificate: "+coarse(serr.Error()), "encoder "+enc+": "+serr.Error(), d)
		return
	}
	res := c.call(eCert, b.DER)
	d.Entry = "ParseCertificate"
	if !c.coherence(eCert, res, d) {
		return
	}
	if res.err != nil {
		d.Got = res.err.Error()
		c.viol("conformance: ParseCertificate returns an error on a well-formed certificate: "+errSig(res.err),
			fmt.Sprintf("encoder %s, template %s: %v", enc, b.Name, res.err), d)
		if res.objNil {
			return
		}
	}
	fork := res.obj.(*x509.Certificate)
	if b.Expect != nil {
		if msg := b.Expect(fork); msg != "" {
			d.Got = msg
			c.viol("conformance: fork-only field differs from the template ("+strings.TrimPrefix(b.Name, "rich:")+")", msg, d)
		}
	}
	if b.IgnoreUnhandled {
		fc, sc := *fork, *std
		fc.UnhandledCriticalExtensions, sc.UnhandledCriticalExtensions = nil, nil
		fork, std = &fc, &sc
	}
	if w, fv, sv := compareObjects("Certificate", fork, std, &c.notes); w != "" {
		d.Got, d.Want = fv, sv
		c.viol("conformance: field "+w+" differs from crypto/x509", fmt.Sprintf("encoder %s, template %s: %s: fork %s, crypto/x509 %s", enc, b.Name, w, fv, sv), d)
	}
	// raw regions: the builder's own knowledge (der encoder) must match the walker's
	tops, ok := walk(b.DER)
	if !ok || len(tops) != 1 {
		panic("harness: walker cannot walk a generated certificate")
	}
	if rebuilt := replaceNode(b.DER, tops[0], b.DER); !bytes.Equal(rebuilt, b.DER) {
		panic("harness: replaceNode identity")
	}
	tbs, iss, sub, spki, ok := certRegions(tops[0], false)
	if !ok {
		panic("harness: certRegions on a generated certificate")
	}
	if b.TBSOff >= 0 {
		want := [4]region{{b.TBSOff, b.TBSLen}, {b.IssOff, b.IssLen}, {b.SubOff, b.SubLen}, {b.SPKIOff, b.SPKILen}}
		if want != [4]region{tbs, iss, sub, spki} {
			panic(fmt.Sprintf("harness: builder offsets %v disagree with walker %v", want, [4]region{tbs, iss, sub, spki}))
		}
	}
	c.rawCert(fork, b.DER, tops[0], false, d)
	// the bare TBSCertificate through ParseTBSCertificate
	tb := b.DER[tbs.off : tbs.off+tbs.n]
	rt := c.call(eTBS, tb)
	dt := d
	dt.Entry, dt.in = "ParseTBSCertificate", tb
	if c.coherence(eTBS, rt, dt) {
		if rt.err != nil {
			c.viol("conformance: ParseTBSCertificate returns an error on a well-formed TBSCertificate: "+errSig(rt.err), fmt.Sprintf("template %s: %v", b.Name, rt.err), dt)
		}
		if !rt.objNil {
			ft := *rt.obj.(*x509.Certificate)
			ttops, _ := walk(tb)
			c.rawCert(&ft, tb, ttops[0], true, dt)
			// same values as the full parse, but for the outer fields
			ft.Raw, ft.Signature = fork.Raw, fork.Signature
			if b.IgnoreUnhandled {
				ft.UnhandledCriticalExtensions = nil
			}
			if w, fv, sv := compareObjects("Certificate", &ft, std, &c.notes); w != "" {
				dt.Got, dt.Want = fv, sv
				c.viol("conformance: ParseTBSCertificate field "+w+" differs from crypto/x509", fmt.Sprintf("template %s: %s: fork %s, crypto/x509 %s", b.Name, w, fv, sv), dt)
			}
		}
	}
	// the same bytes through ParseCertificates
	rc := c.call(eCerts, b.DER)
	d.Entry = "ParseCertificates"
	if c.coherence(eCerts, rc, d) {
		c.concatOracle(b.DER, tops, rc, d)
	}
	c.use(eCert, fork, d)
	c.r.Nontrivial("a|" + string(b.DER))
	if c.r.WantSample() && b.F.Enc == 1 && b.F.Subj && b.F.San != 0 {
		c.r.Sample(map[string]any{"part": "a", "template": b.F, "encoder": enc, "der_bytes": len(b.DER), "tlv_nodes": len(flatten(tops, nil)),
			"fork_subject": fork.Subject.String(), "std_subject": std.Subject.String(), "extensions": len(fork.Extensions)})
	}
}

// conformOther: CRLs, keys and CSRs from the std encoders.
func (c *checker) conformOther(b *built) {
	d := caseDesc{Part: "a:conformance", Seed: b.Name, in: b.DER}
	id := c.wd.enter(d)
	defer c.wd.leave(id)
	c.r.Eval(1)
	cmp := func(e int, root string, std any, serr error) {
		d.Entry = entries[e].name
		if serr != nil {
			c.viol("harness: crypto/x509 rejects a generated "+b.Kind, serr.Error(), d)
			return
		}
		res := c.call(e, b.DER)
		if !c.coherence(e, res, d) {
			return
		}
		if res.err != nil {
			c.viol("conformance: "+entries[e].name+" returns an error on a well-formed "+b.Kind+": "+errSig(res.err), fmt.Sprintf("%s: %v", b.Name, res.err), d)
			if res.objNil {
				return
			}
		}
		if w, fv, sv := compareObjects(root, res.obj, std, &c.notes); w != "" {
			d.Got, d.Want = fv, sv
			c.viol("conformance: "+entries[e].name+" field "+w+" differs from crypto/x509", fmt.Sprintf("%s: %s: fork %s, crypto/x509 %s", b.Name, w, fv, sv), d)
		}
		c.r.Nontrivial("a|" + entries[e].name + string(b.DER))
	}
	switch b.Kind {
	case "crl":
		s1, err := sx.ParseDERCRL(b.DER)
		cmp(eDERCRL, "pkix.CertificateList", s1, err)
		cmp(eCRL, "pkix.CertificateList", s1, err)
		p := pem.EncodeToMemory(&pem.Block{Type: "X509 CRL", Bytes: b.DER})
		if rp := c.call(eCRL, p); rp.cls != clsOK {
			c.viol("conformance: ParseCRL rejects the PEM armour of a well-formed CRL", fmt.Sprint(rp.err), d)
		}
		// the cracked-out list against std's RevocationList
		rl, err := sx.ParseRevocationList(b.DER)
		if err != nil {
			c.viol("harness: crypto/x509.ParseRevocationList rejects a generated CRL", err.Error(), d)
			return
		}
		for _, e := range []int{eCertListDER, eCertList} {
			res := c.call(e, b.DER)
			d.Entry = entries[e].name
			if !c.coherence(e, res, d) {
				continue
			}
			if res.err != nil {
				c.viol("conformance: "+entries[e].name+" returns an error on a well-formed crl: "+errSig(res.err), fmt.Sprintf("%s: %v", b.Name, res.err), d)
				if res.objNil {
					continue
				}
			}
			cl := res.obj.(*x509.CertificateList)
			c.compareList(cl, rl, s1, d, b.ExpectList != nil)
			if b.ExpectList != nil {
				if msg := b.ExpectList(cl); msg != "" {
					d.Got = msg
					c.viol("conformance: "+entries[e].name+" cracked-out CRL extension differs from the template", msg, d)
				}
			}
			c.r.Nontrivial("a|" + entries[e].name + string(b.DER))
		}
	case "pkix":
		s, err := sx.ParsePKIXPublicKey(b.DER)
		cmp(ePKIX, "PublicKey", s, err)
	case "pkcs1":
		s, err := sx.ParsePKCS1PrivateKey(b.DER)
		cmp(ePKCS1, "PrivateKey", s, err)
	case "pkcs1pub":
		s, err := sx.ParsePKCS1PublicKey(b.DER)
		cmp(ePKCS1Pub, "PublicKey", s, err)
	case "pkcs8":
		s, err := sx.ParsePKCS8PrivateKey(b.DER)
		cmp(ePKCS8, "PrivateKey", s, err)
	case "sec1":
		s, err := sx.ParseECPrivateKey(b.DER)
		cmp(eSEC1, "PrivateKey", s, err)
	case "csr":
		s, err := sx.ParseCertificateRequest(b.DER)
		cmp(eCSR, "CertificateRequest", s, err)
	}
}

// compareList: the fork's cracked-out CertificateList against std's
// RevocationList (different object models: compared member by member).
func (c *checker) compareList(cl *x509.CertificateList, rl *sx.RevocationList, old *spkix.CertificateList, d caseDesc, delta bool) {
	bad := func(field string, f, s any) {
		d.Got, d.Want = fmt.Sprint(f), fmt.Sprint(s)
		c.viol("conformance: "+d.Entry+" "+field+" differs from crypto/x509.ParseRevocationList", fmt.Sprintf("%s: fork %v, std %v", field, f, s), d)
	}
	t := cl.TBSCertList
	if !bytes.Equal(cl.Raw, rl.Raw) {
		bad("Raw", len(cl.Raw), len(rl.Raw))
	}
	if !bytes.Equal(t.Raw, rl.RawTBSRevocationList) {
		bad("TBSCertList.Raw", len(t.Raw), len(rl.RawTBSRevocationList))
	}
	if !bytes.Equal(cl.SignatureValue.RightAlign(), rl.Signature) {
		bad("SignatureValue", "", "")
	}
	if x509.SignatureAlgorithmFromAI(cl.SignatureAlgorithm).String() != rl.SignatureAlgorithm.String() {
		bad("SignatureAlgorithm", x509.SignatureAlgorithmFromAI(cl.SignatureAlgorithm), rl.SignatureAlgorithm)
	}
	if !t.ThisUpdate.Equal(rl.ThisUpdate) || !t.NextUpdate.Equal(rl.NextUpdate) {
		bad("ThisUpdate/NextUpdate", []time.Time{t.ThisUpdate, t.NextUpdate}, []time.Time{rl.ThisUpdate, rl.NextUpdate})
	}
	if rl.Number != nil && (!rl.Number.IsInt64() || int64(t.CRLNumber) != rl.Number.Int64()) {
		bad("CRLNumber", t.CRLNumber, rl.Number)
	}
	if rl.Number == nil && t.CRLNumber != -1 {
		bad("CRLNumber", t.CRLNumber, "absent")
	}
	if !bytes.Equal(t.AuthorityKeyID, rl.AuthorityKeyId) {
		bad("AuthorityKeyID", t.AuthorityKeyID, rl.AuthorityKeyId)
	}
	if t.BaseCRLNumber != -1 && !delta {
		bad("BaseCRLNumber", t.BaseCRLNumber, -1)
	}
	if old != nil {
		if w, fv, sv := compareObjects("TBSCertList.Issuer", t.Issuer, old.TBSCertList.Issuer, &c.notes); w != "" {
			bad(w, fv, sv)
		}
		if w, fv, sv := compareObjects("TBSCertList.Signature", t.Signature, old.TBSCertList.Signature, &c.notes); w != "" {
			bad(w, fv, sv)
		}
		if t.Version != old.TBSCertList.Version {
			bad("TBSCertList.Version", t.Version, old.TBSCertList.Version)
		}
	}
	if w, fv, sv := compareObjects("TBSCertList.Extensions", t.Extensions, rl.Extensions, &c.notes); w != "" {
		bad(w, fv, sv)
	}
	if len(t.RevokedCertificates) != len(rl.RevokedCertificateEntries) {
		bad("RevokedCertificates length", len(t.RevokedCertificates), len(rl.RevokedCertificateEntries))
		return
	}
	for i, rc := range t.RevokedCertificates {
		se := rl.RevokedCertificateEntries[i]
		if rc.SerialNumber.Cmp(se.SerialNumber) != 0 || !rc.RevocationTime.Equal(se.RevocationTime) {
			bad("RevokedCertificates[].SerialNumber/RevocationTime", rc.SerialNumber, se.SerialNumber)
		}
		if int(rc.RevocationReason) != se.ReasonCode {
			bad("RevokedCertificates[].RevocationReason", rc.RevocationReason, se.ReasonCode)
		}
		if w, fv, sv := compareObjects("RevokedCertificates[].Extensions", rc.Extensions, se.Extensions, &c.notes); w != "" {
			bad(w, fv, sv)
		}
	}
}

// ---------------------------------------------------------------- template spaces

type dimSpec struct {
	name string
	vals []int
}

func bin() []int { return []int{0, 1} }

func templateDims(thorough bool) []dimSpec {
	san, nc, val, key := []int{0, 15}, []int{0, 3}, []int{-1}, []int{-1}
	if thorough {
		san = []int{0, 1, 2, 3, 4, 5, 6, 7, 8, 9, 10, 11, 12, 13, 14, 15}
		nc = []int{0, 1, 2, 3}
		key = []int{0, 1, 2}
	}
	return []dimSpec{
		{"subj", bin()}, {"san", san}, {"ku", bin()}, {"eku", bin()}, {"bc", []int{0, 1, 2, 3, 4}}, {"nc", nc},
		{"pol", bin()}, {"aia", bin()}, {"crldp", bin()}, {"ski", bin()}, {"aki", bin()}, {"unkcrit", bin()}, {"unknon", bin()},
		{"val", val}, {"key", key}, {"enc", bin()},
	}
}

func featAt(ds []dimSpec, idx []int) feat {
	v := func(i int) int { return ds[i].vals[idx[i]] }
	f := feat{Subj: v(0) == 1, San: v(1), Ku: v(2) == 1, Eku: v(3) == 1, Bc: v(4), Nc: v(5), Pol: v(6) == 1, Aia: v(7) == 1,
		Crldp: v(8) == 1, Ski: v(9) == 1, Aki: v(10) == 1, UnkCrit: v(11) == 1, UnkNon: v(12) == 1, Val: v(13), Key: v(14), Enc: v(15)}
	// validity (quick) and serial size rotate over the template index so that every
	// value meets every value of every other dimension (checked and reported).
	h, s, g := 0, 0, 0
	for i := 0; i < 13; i++ {
		h += idx[i] * (i + 1)
		s += idx[i]
		g += idx[i] * (i%2 + 1)
	}
	if f.Val < 0 {
		f.Val = h % 3
	}
	f.Serial = (h/3 + s) % 3
	if f.Key < 0 {
		f.Key = (g + h/9) % 3 // quick: the key type rotates too
	}
	return f
}

func allOff(key, enc int) feat { return feat{Key: key, Enc: enc} }
func allOn(key, enc int) feat {
	return feat{Subj: true, San: 15, Ku: true, Eku: true, Bc: 4, Nc: 3, Pol: true, Aia: true, Crldp: true, Ski: true, Aki: true, UnkCrit: true, UnkNon: true, Val: 1, Serial: 1, Key: key, Enc: enc}
}

// singles: all-off with exactly one feature switched on.
func singles(key, enc int) []feat {
	var out []feat
	base := allOff(key, enc)
	for i := 0; i < 16; i++ {
		f := base
		switch i {
		case 0:
			f.Subj = true
		case 1:
			f.San = 15
		case 2:
			f.Ku = true
		case 3:
			f.Eku = true
		case 4:
			f.Bc = 1
		case 5:
			f.Bc = 3
		case 6:
			f.Bc = 4
		case 7:
			f.Nc = 3
		case 8:
			f.Pol = true
		case 9:
			f.Aia = true
		case 10:
			f.Crldp = true
		case 11:
			f.Ski, f.Aki = true, true
		case 12:
			f.UnkCrit, f.UnkNon = true, true
		case 13:
			f.Val = 2
		case 14:
			f.Serial = 2
		case 15:
			f.Val, f.Serial = 1, 1
		}
		out = append(out, f)
	}
	return out
}

// ---------------------------------------------------------------- testdata

func loadTestdata(limit int) []*built {
	var files []string
	for _, pat := range []string{"/repo/x509/testdata/*.crt", "/repo/x509/testdata/invalid/*.pem", "/repo/testdata/*.pem", "/repo/testdata/*.cert", "/repo/testdata/certs.go"} {
		m, _ := filepath.Glob(pat)
		sort.Strings(m)
		files = append(files, m...)
	}
	var out []*built
	seen := map[[32]byte]bool{}
	for _, f := range files {
		data, err := os.ReadFile(f)
		if err != nil {
			continue
		}
		n := 0
		for {
			var blk *pem.Block
			blk, data = pem.Decode(data)
			if blk == nil {
				break
			}
			if blk.Type != "CERTIFICATE" {
				continue
			}
			h := sha256.Sum256(blk.Bytes)
			if seen[h] {
				continue
			}
			seen[h] = true
			out = append(out, &built{DER: blk.Bytes, Kind: "testdata", Name: fmt.Sprintf("%s#%d", f, n), TBSOff: -1})
			n++
		}
	}
	if limit > 0 && len(out) > limit {
		out = out[:limit]
	}
	return out
}

// ---------------------------------------------------------------- TestCheck

func nodePath(n *node) string {
	var parts []string
	for x := n; x != nil; x = x.parent {
		i := 0
		if x.parent != nil {
			for j, c := range x.parent.children {
				if c == x {
					i = j
				}
			}
		}
		parts = append([]string{fmt.Sprintf("%d:%02x", i, x.tag)}, parts...)
	}
	return strings.Join(parts, "/")
}

var ekuOID = []byte{0x55, 0x1d, 0x25}

// interpreted reports whether node n of a generated certificate (tbsOnly: bare
// TBSCertificate) is one the parser decodes with its strict-then-lax ASN.1
// reader: everything outside extension values and outside the outer signature,
// plus the KeyPurposeIds of an extended-key-usage extension.
func interpreted(buf []byte, n *node, tbsOnly bool) bool {
	inValue := false
	for x := n; x != nil; x = x.parent {
		if x.tag == 0x04 {
			inValue = true
			// the Extension this value belongs to
			if p := x.parent; p != nil && len(p.children) > 0 && p.children[0].tag == 0x06 &&
				bytes.Equal(buf[p.children[0].valStart:p.children[0].end], ekuOID) && n.tag == 0x06 {
				return true
			}
		}
		if !tbsOnly && x.parent != nil && x.parent.parent == nil && len(x.parent.children) == 3 && x == x.parent.children[2] {
			return false // signatureValue
		}
		if !tbsOnly && x.parent != nil && x.parent.parent == nil && x == x.parent.children[1] && n != x && n != x.children[0] {
			return false // parameters of the outer signatureAlgorithm
		}
	}
	if inValue {
		return false
	}
	// AlgorithmIdentifier parameters are kept raw
	if p := n.parent; p != nil && len(p.children) == 2 && p.children[0].tag == 0x06 && p.children[1] == n && p.tag == 0x30 && n.tag != 0x13 && !stringTags[n.tag] {
		return false
	}
	return true
}

// laxOnly: the mutation kind produces a malformation that asn1's strict mode
// refuses and its documented lax mode tolerates, at a node of this type.
func laxOnly(kind string, n *node) bool {
	switch kind {
	case "int-nonminimal":
		return n.tag == 0x02
	case "oid-empty":
		return n.tag == 0x06
	case "printable-latin1":
		return n.tag == 0x13
	case "retag-printable-latin1":
		return stringTags[n.tag]
	}
	return false
}

type mseed struct {
	b     *built
	nodes []*node
	deep  bool // thorough: second mutation
}

func TestCheck(t *testing.T) {
	r := rep.New("C11", "exploration")
	th := r.Thorough()
	c := &checker{r: r}
	c.watch()
	if pf := os.Getenv("C11_CPUPROF"); pf != "" { // developer aid only
		if f, err := os.Create(pf); err == nil {
			pprof.StartCPUProfile(f)
			defer func() { pprof.StopCPUProfile(); f.Close() }()
		}
	}
	r.Rule("(a) conformance: templates = full product of {multi-valued subject with every string type (UTF8/Printable/T61/BMP/IA5/Numeric) | plain, SAN dns+email+ip+uri | none (thorough: every subset of the four), key usage, EKU known+unknown, basic constraints absent / non-CA / CA / pathlen 0 / pathlen 3, name constraints permitted+excluded of each type | none (thorough: each side alone too), policies (with qualifiers), AIA ocsp+issuer, CRL DPs, SKI, AKI, unknown critical ext, unknown non-critical ext} x encoder {crypto/x509.CreateCertificate, ref/der+ref/pki} (thorough: x key {P-256, RSA-2048, Ed25519}); validity {<2050, straddling 2050, >=2050}, serial size {1, 8 with top bit, 20 octets} and (quick) the key type rotate over the index so that each meets every value of every other factor (checked, see a_rotated_factors...), plus the full validity x serial x key x encoder product on the all-off and all-on templates; 20 syntax-rich der-only certificates (all GeneralName kinds, AKI with issuer+serial, CRL DP reasons/cRLIssuer, user notices, unique ids, RPKI address blocks and AS ids, SIA, embedded SCT list - fork-only fields against the template); CRLs from both std encoders and 2 der-built CRLs with every extension revoked.go cracks out; PKIX/PKCS1/PKCS8/SEC1 keys (P-224/256/384/521, RSA, Ed25519); CSRs. Each certificate also as bare TBSCertificate through ParseTBSCertificate and through ParseCertificates. (b) totality/coherence: seeds {all-off, all-on, each feature alone} x key x encoder (quick: the single-feature std-encoder seeds with P-256 only), bare TBSCertificates, rich certificates, CRLs/keys/CSRs, the repository's testdata certificates (quick: 8, thorough: all) x every TLV node (descending into OCTET/BIT STRING wrappers) x every mutation of the catalogue (b_mutation_kinds), each mutant through all 13 parser entry points, CRL mutants also PEM-armoured; thorough adds a second mutation: every lax-tolerated kind at every node of every single mutant of the all-off and all-on seeds, and all pairs of mutations on the smallest certificate. (c) concatenations: every lax-kind/delete/bad-BOOLEAN mutant of two all-on certificates (thorough: four, and of every testdata certificate) and every testdata certificate, paired in both orders with a 14-element set holding one element per (mutation kind, solo outcome class); all triples over that set at every position; and, in (b), every mutated input that is a run of k>=1 top-level TLVs. distinct_nontrivial = distinct conformance inputs + distinct mutated/concatenated inputs for which at least one entry point returned an object")
	r.Assume("a parser call that does not return within 60 s counts as non-terminating (typical call: 50 µs)",
		"crypto/x509 of the installed toolchain (go1.23) is the reference for field values; fields only one object model has are skipped and listed under coverage.fields_one_side_lacks; for the three extensions only the fork interprets, UnhandledCriticalExtensions is not compared",
		"ParseCertificates on k concatenated parts is expected to be fatal iff ParseCertificate of some part alone is fatal (the API has one error for the whole slice), else to return the k objects ParseCertificate returns, non-fatal iff some part is",
		"'usable object' is probed through the package's own methods on the returned object (CheckSignature over its own TBS / with the returned key, IsPrecertificate, Name.String, ExpiredAt): only a panic counts",
		"raw-field offsets are demanded exactly where the TLV framing down to the field is unambiguous (an EXPLICIT [0] version wrapper holding exactly one TLV); elsewhere the raw fields must still be runs of input bytes in field order",
		"lax-visibility: non-minimal INTEGER, empty OID and PrintableString with ISO-8859-1 bytes are the malformations asn1 documents as refused in strict and tolerated in lax mode; at a node the certificate parser decodes (outside extension values, signature and algorithm parameters; plus EKU KeyPurposeIds) the result may be non-fatal or fatal but not err == nil",
		"a DistributionPoint with nameRelativeToCRLIssuer is well-formed but rejected by crypto/x509 of go1.23, so it is not in the template set")

	cpu0 := cpuSeconds()
	phase := func(name string) {
		now := cpuSeconds()
		r.Set("cpu_seconds_"+name, float64(int((now-cpu0)*10))/10)
		cpu0 = now
	}
	// ---------------- (a)
	ds := templateDims(th)
	dims := make([]int, len(ds))
	for i, d := range ds {
		dims[i] = len(d.vals)
	}
	// coverage of the rotated factors: (dimension, value) x validity x serial
	type pairKey struct{ dim, val, v, s int }
	var covMu sync.Mutex
	cov := map[pairKey]bool{}
	nT := enum.Size(dims)
	r.Set("a_templates", nT)
	// the big product runs last (below), after the cheaper phases
	product := func() {
		done := enum.ParFor(nT, r.Expired, func(i int) {
			idx := enum.Decode(i, dims, nil)
			f := featAt(ds, idx)
			pan, msg, stack := enum.Catch(func() { c.conformCert(buildCert(f)) })
			if pan {
				r.Violation("harness-panic", msg+"\n"+stack, f.String())
			}
			if f.Enc == 0 {
				covMu.Lock()
				for dimi := 0; dimi < 13; dimi++ {
					cov[pairKey{dimi, idx[dimi], f.Val, f.Serial}] = true
					cov[pairKey{dimi, idx[dimi], -1 - f.Key, 0}] = true
				}
				covMu.Unlock()
			}
		})
		if !done {
			r.Capped("deadline reached before all templates of (a) were run")
		} else {
			want := 0
			for dimi := 0; dimi < 13; dimi++ {
				want += dims[dimi] * (9 + 3)
			}
			r.Set("a_rotated_factors_meet_every_value_of_every_other_factor", fmt.Sprintf("%d of %d (factor value, validity, serial) and (factor value, key) combinations", len(cov), want))
			if len(cov) != want {
				r.Violation("harness: rotation does not cover every (factor value, validity, serial) / (factor value, key) combination", fmt.Sprint(len(cov), want), nil)
			}
		}
	}
	var extra []*built
	for key := 0; key < 3; key++ {
		for enc := 0; enc < 2; enc++ {
			for v := 0; v < 3; v++ {
				for s := 0; s < 3; s++ {
					for _, f := range []feat{allOff(key, enc), allOn(key, enc)} {
						f.Val, f.Serial = v, s
						extra = append(extra, buildCert(f))
					}
				}
			}
		}
	}
	rich := richCerts()
	extra = append(extra, rich...)
	for _, b := range rich {
		b.F.Enc = 1
	}
	r.Set("a_rich_and_full_validity_serial", len(extra))
	enum.ParFor(len(extra), nil, func(i int) {
		pan, msg, stack := enum.Catch(func() { c.conformCert(extra[i]) })
		if pan {
			r.Violation("harness-panic", msg+"\n"+stack, extra[i].Name)
		}
	})
	others := append(append(append(richCRLs(), stdCRLs()...), stdKeys()...), stdCSRs()...)
	r.Set("a_crls_keys_csrs", len(others))
	enum.ParFor(len(others), nil, func(i int) {
		pan, msg, stack := enum.Catch(func() { c.conformOther(others[i]) })
		if pan {
			r.Violation("harness-panic", msg+"\n"+stack, others[i].Name)
		}
	})

	gno := generalNameOddities()
	r.Set("a_general_name_forms", len(gno))
	enum.ParFor(len(gno), nil, func(i int) {
		pan, msg, stack := enum.Catch(func() { c.checkInput(gno[i].DER, caseDesc{Part: "a:general-name-forms", Seed: gno[i].Name}, false) })
		if pan {
			r.Violation("harness-panic", msg+"\n"+stack, gno[i].Name)
		}
	})

	saf := signatureAlgorithmForms()
	r.Set("a_signature_algorithm_forms", len(saf))
	enum.ParFor(len(saf), nil, func(i int) {
		pan, msg, stack := enum.Catch(func() {
			c.checkInput(saf[i].DER, caseDesc{Part: "a:signature-algorithm-forms", Seed: saf[i].Name}, false)
			if _, err := sx.ParseCertificate(saf[i].DER); err == nil {
				c.conformCert(saf[i]) // field by field against crypto/x509
			}
		})
		if pan {
			r.Violation("harness-panic", msg+"\n"+stack, saf[i].Name)
		}
	})

	phase("a_small")
	// ---------------- (b)
	var seeds []*mseed
	addSeed := func(b *built, deep bool) {
		tops, ok := walk(b.DER)
		if !ok {
			r.Violation("harness: walker cannot walk a seed", b.Name, nil)
			return
		}
		seeds = append(seeds, &mseed{b: b, nodes: flatten(tops, nil), deep: deep})
	}
	tbsOf := func(b *built) *built {
		tops, _ := walk(b.DER)
		t := tops[0].children[0]
		return &built{DER: append([]byte{}, b.DER[t.hdrStart:t.end]...), Kind: "tbs", Name: "TBSCertificate of " + b.Name, TBSOff: -1}
	}
	for key := 0; key < 3; key++ {
		for enc := 0; enc < 2; enc++ {
			off, on := buildCert(allOff(key, enc)), buildCert(allOn(key, enc))
			addSeed(off, true)
			addSeed(on, key == 0 || th)
			if enc == 1 {
				addSeed(tbsOf(off), true)
				addSeed(tbsOf(on), false)
			}
			for _, f := range singles(key, enc) {
				if key != 0 && !th && enc == 0 {
					continue // quick: the single-feature seeds of the std encoder only with P-256
				}
				addSeed(buildCert(f), false)
			}
		}
	}
	for _, b := range rich {
		addSeed(b, false)
	}
	for i, b := range others {
		if !th && b.Kind == "crl" && i%3 != 0 && i > 1 {
			continue
		}
		addSeed(b, false)
	}
	tdLimit := 8
	if th {
		tdLimit = 0
	}
	td := loadTestdata(tdLimit)
	r.Set("b_testdata_certificates", len(td))
	if len(td) < 5 {
		r.Violation("harness: repository testdata certificates not found", fmt.Sprint(len(td)), nil)
	}
	for _, b := range td {
		addSeed(b, false)
	}
	type task struct{ s, n int }
	var tasks []task
	totalNodes := 0
	for si, s := range seeds {
		c.checkInput(s.b.DER, caseDesc{Part: "b:seed", Seed: s.b.Name}, s.b.Kind == "crl")
		totalNodes += len(s.nodes)
		for ni := range s.nodes {
			tasks = append(tasks, task{si, ni})
		}
	}
	r.Set("b_seeds", len(seeds))
	r.Set("b_tlv_nodes", totalNodes)
	done := enum.ParFor(len(tasks), r.Expired, func(i int) {
		s := seeds[tasks[i].s]
		n := s.nodes[tasks[i].n]
		pan, msg, stack := enum.Catch(func() {
			for _, m := range mutate(s.b.DER, n, nil) {
				c.kinds.Store(m.kind, true)
				c.mutants.Add(1)
				d := caseDesc{Part: "b:one-mutation", Seed: s.b.Name, Mutation: m.kind + " at node " + nodePath(n)}
				cc, tc := c.checkInput(m.data, d, s.b.Kind == "crl")
				if cc == clsNonFatal && m.kind == "retag-printable-latin1" && c.bSamples.Add(1) <= 2 {
					r.Sample(map[string]any{"part": "b", "seed": s.b.Name, "mutation": d.Mutation, "input_bytes": len(m.data),
						"ParseCertificate": clsName[cc], "ParseTBSCertificate": clsName[tc]})
				}
				// (6) a lax-only malformation at an interpreted node is never reported as "no error"
				if (s.b.Kind == "cert" || s.b.Kind == "tbs") && laxOnly(m.kind, n) && interpreted(s.b.DER, n, s.b.Kind == "tbs") {
					cls, name := cc, "ParseCertificate"
					if s.b.Kind == "tbs" {
						cls, name = tc, "ParseTBSCertificate"
					}
					c.laxChecks.Add(1)
					if cls == clsOK {
						d.in, d.Entry, d.Got, d.Want = m.data, name, "err == nil", "a non-fatal (or fatal) error"
						c.viol("lax-visibility: "+name+" reports no error for a "+m.kind+" malformation it only accepts in lax mode",
							"the strict parse must have failed on "+d.Mutation+", yet the error was not reported", d)
					}
				}
			}
		})
		if pan {
			r.Violation("harness-panic", msg+"\n"+stack, s.b.Name)
		}
	})
	if !done {
		r.Capped("deadline reached before all single mutations of (b) were run")
	}
	phase("b_single")
	if th {
		// second mutation
		var dtasks []task
		smallest := -1
		for si, s := range seeds {
			if s.b.Kind == "cert" && (smallest < 0 || len(s.nodes) < len(seeds[smallest].nodes)) {
				smallest = si
			}
		}
		for si, s := range seeds {
			if s.deep || si == smallest {
				for ni := range s.nodes {
					dtasks = append(dtasks, task{si, ni})
				}
			}
		}
		done = enum.ParFor(len(dtasks), r.Expired, func(i int) {
			s := seeds[dtasks[i].s]
			n := s.nodes[dtasks[i].n]
			second := laxKinds
			if dtasks[i].s == smallest {
				second = nil // all pairs
			}
			pan, msg, stack := enum.Catch(func() {
				for _, m := range mutate(s.b.DER, n, nil) {
					tops, ok := walk(m.data)
					if !ok {
						continue
					}
					for _, n2 := range flatten(tops, nil) {
						for _, m2 := range mutate(m.data, n2, second) {
							c.doubles.Add(1)
							c.checkInput(m2.data, caseDesc{Part: "b:two-mutations", Seed: s.b.Name,
								Mutation: m.kind + " at node " + nodePath(n) + ", then " + m2.kind + " at node " + nodePath(n2)}, false)
						}
					}
				}
			})
			if pan {
				r.Violation("harness-panic", msg+"\n"+stack, s.b.Name)
			}
		})
		if !done {
			r.Capped("deadline reached before all double mutations of (b) were run")
		}
	}

	phase("b_double")
	// ---------------- (c)
	c.concatPhase(th)
	phase("c")
	// ---------------- (a) the template product
	product()
	phase("a_product")

	// ---------------- evidence
	oc := map[string]map[string]int64{}
	for e := range entries {
		oc[entries[e].name] = map[string]int64{}
		for k := 0; k < 4; k++ {
			oc[entries[e].name][clsName[k]] = c.outcomes[e][k].Load()
		}
	}
	r.Set("outcomes_per_entry_point", oc)
	var kinds []string
	c.kinds.Range(func(k, _ any) bool { kinds = append(kinds, k.(string)); return true })
	sort.Strings(kinds)
	r.Set("b_mutation_kinds", kinds)
	r.Set("b_single_mutants", c.mutants.Load())
	r.Set("b_double_mutants", c.doubles.Load())
	r.Set("b_inputs_with_an_object_returned", c.accepted.Load())
	r.Set("b_inputs_with_a_non_fatal_outcome", c.nonfatal.Load())
	r.Set("c_concatenations", c.concats.Load())
	r.Set("raw_field_comparisons", c.rawOK.Load())
	r.Set("raw_field_checks_skipped_shape_unknown_to_walker", c.rawSkips.Load())
	r.Set("usability_probes", c.usable.Load())
	r.Set("b_lax_visibility_checks", c.laxChecks.Load())
	r.Set("fields_one_side_lacks", c.notes.list())
	pprof.StopCPUProfile()
	r.Finish()
}

// concatPhase is part (c).
func (c *checker) concatPhase(th bool) {
	r := c.r
	// elements: clean certificates, and every single mutant of the lax-tolerated
	// kinds plus "delete" of two seeds, each with its solo outcome
	type elem struct {
		data []byte
		name string
		cls  int
	}
	solo := func(b []byte) int {
		var err error
		pan, _, _ := enum.Catch(func() { _, err = x509.ParseCertificate(b) })
		switch {
		case pan:
			return clsPanic
		case err == nil:
			return clsOK
		case x509.IsFatal(err):
			return clsFatal
		}
		return clsNonFatal
	}
	var clean, all []elem
	for key := 0; key < 3; key++ {
		b := buildCert(allOn(key, key%2))
		clean = append(clean, elem{b.DER, b.Name, solo(b.DER)})
	}
	kinds := map[string]bool{"delete": true, "bool-01": true}
	for k := range laxKinds {
		kinds[k] = true
	}
	var srcs []*built
	srcs = append(srcs, buildCert(allOn(0, 1)), buildCert(allOn(1, 0)))
	if th {
		srcs = append(srcs, buildCert(allOn(2, 1)), buildCert(allOff(0, 0)))
		srcs = append(srcs, loadTestdata(0)...)
	} else {
		srcs = append(srcs, loadTestdata(0)...) // the repository's own lax-only fixtures
	}
	for _, b := range srcs {
		tops, ok := walk(b.DER)
		if !ok {
			continue
		}
		if b.Kind == "testdata" {
			all = append(all, elem{b.DER, b.Name, solo(b.DER)})
			if !th {
				continue
			}
		}
		for _, n := range flatten(tops, nil) {
			for _, m := range mutate(b.DER, n, kinds) {
				if t2, ok := walk(m.data); !ok || len(t2) != 1 {
					continue
				}
				all = append(all, elem{m.data, b.Name + " / " + m.kind + " at node " + nodePath(n), solo(m.data)})
			}
		}
	}
	// a small set with one representative of each class and kind
	small := append([]elem{}, clean...)
	seen := map[string]bool{}
	for _, e := range all {
		k := e.name[strings.LastIndex(e.name, "/ ")+1:]
		if i := strings.Index(k, " at node"); i > 0 {
			k = k[:i]
		}
		key := fmt.Sprintf("%s|%d", k, e.cls)
		if e.cls != clsPanic && !seen[key] && len(small) < 14 {
			seen[key] = true
			small = append(small, e)
		}
	}
	hist := map[string]int{}
	for _, e := range all {
		hist[clsName[e.cls]]++
	}
	r.Set("c_elements_by_solo_class", hist)
	r.Set("c_small_set", len(small))
	run := func(parts []elem) {
		var in []byte
		var names []string
		for _, p := range parts {
			in = append(in, p.data...)
			names = append(names, p.name+" ["+clsName[p.cls]+"]")
		}
		d := caseDesc{Part: "c:concatenation", Seed: strings.Join(names, "  ||  "), in: in}
		id := c.wd.enter(d)
		defer c.wd.leave(id)
		c.r.Eval(1)
		c.concats.Add(1)
		tops, ok := walk(in)
		if !ok || len(tops) != len(parts) {
			panic("harness: concatenation not walkable")
		}
		res := c.call(eCerts, in)
		if c.coherence(eCerts, res, d) {
			c.concatOracle(in, tops, res, d)
			if certs, ok := res.obj.([]*x509.Certificate); ok && len(certs) == len(tops) {
				d.Entry = "ParseCertificates"
				for i, cert := range certs {
					if cert != nil {
						c.rawCert(cert, in, tops[i], false, d)
					}
				}
			}
		}
		h := sha256.Sum256(in)
		c.r.Nontrivial("c|" + string(h[:]))
		if len(parts) == 3 && res.cls != clsOK && c.cSamples.Add(1) <= 1 {
			r.Sample(map[string]any{"part": "c", "parts": names, "ParseCertificates": clsName[res.cls], "certificates_returned": len(tops)})
		}
	}
	// pairs: every element with every small-set element, both orders
	n, m := len(all), len(small)
	done := enum.ParFor(n*m*2, r.Expired, func(i int) {
		a, b, o := all[i/(2*m)], small[(i/2)%m], i%2
		pan, msg, stack := enum.Catch(func() {
			if o == 0 {
				run([]elem{a, b})
			} else {
				run([]elem{b, a})
			}
		})
		if pan {
			r.Violation("harness-panic", msg+"\n"+stack, a.name)
		}
	})
	// triples: every element at each position among every ordered pair of the small set
	tripleAll := all
	if !th {
		// quick: triples only with one element of each (mutation kind, class) at every position
		tripleAll = small
	}
	n = len(tripleAll)
	done2 := enum.ParFor(n*m*m*3, r.Expired, func(i int) {
		a := tripleAll[i/(3*m*m)]
		j := i % (3 * m * m)
		pos, x, y := j/(m*m), small[(j/m)%m], small[j%m]
		parts := []elem{x, y}
		parts = append(parts[:pos], append([]elem{a}, parts[pos:]...)...)
		pan, msg, stack := enum.Catch(func() { run(parts) })
		if pan {
			r.Violation("harness-panic", msg+"\n"+stack, a.name)
		}
	})
	if !done || !done2 {
		r.Capped("deadline reached before all concatenations of (c) were run")
	}
}
