package c15

// Alphabets of C15: every field of configpb.LogConfig that the property talks
// about, each with a finite list of values. A value knows how to write itself
// into a LogConfig AND carries its own ground truth (labels in `truth`): the
// oracle is a predicate over those labels only and never looks at the message.

import (
	"crypto/sha256"
	stdx509 "crypto/x509"
	"encoding/binary"
	"encoding/pem"
	"fmt"
	"os"
	"path/filepath"
	"time"

	"verif/ref/pki"

	"github.com/google/certificate-transparency-go/trillian/ctfe/configpb"
	"github.com/google/trillian/crypto/keyspb"
	"google.golang.org/protobuf/proto"
	"google.golang.org/protobuf/types/known/anypb"
	"google.golang.org/protobuf/types/known/timestamppb"
)

type tri int

const (
	no tri = iota
	yes
	dontcare // the property statement does not decide this value: outside the compared domain
)

func (t tri) String() string { return [...]string{"no", "yes", "undecided"}[t] }

// ---- ground truth -----------------------------------------------------------

type pubT struct {
	present, parseable bool
	key                string // name of the pki key the SPKI belongs to
}
type privT struct {
	present  bool
	anyOK    tri    // the Any names a key message type and its bytes parse as that message
	signerOK bool   // a signer can be built from it (DER parses) - matters at instance set-up only
	key      string // name of the pki key
}
type sthT struct {
	present  bool
	intact   bool   // 32-byte root, well-formed DigitallySigned, signature made over exactly these fields
	signedBy string // name of the signing pki key
	size, ts uint64
	root     []byte
	sig      []byte // TLS DigitallySigned bytes as configured
}
type tsT struct {
	present, valid bool
	t              time.Time
}
type truth struct {
	logID       int64
	prefix      string
	backendName string
	pub         pubT
	priv        privT
	mirror      bool
	readonly    bool
	sth         sthT
	start       tsT
	limit       tsT
	mmd, emd    int32
	rejExp      bool
	rejUnexp    bool
	ekuKnown    bool
	ekuWhy      string // why the list is not 'only known names' (signature detail)
	rejExtOK    bool  // every reject_extensions entry is a dotted decimal OID
	backend     int32 // 0 Trillian gRPC (default), 1 CTFE, other: not a defined enum value
	connUsable  tri
	connWhy     string // class of an unusable string (signature detail)
	rootsN      int
	rootsOK     bool // every listed file exists and holds a certificate
	rootCerts   []int // the distinct root certificates (indices into mat.rootDER) the listed files hold
}

// ---- fixed material ---------------------------------------------------------

type material struct {
	dir        string
	rootsFile  string
	rootsFile2 string
	rootDER    [][]byte
	missing    string
	keys       map[string]*pki.Key
	privAny    map[string]*anypb.Any
	unknownAny *anypb.Any
	garbageAny *anypb.Any
	emptyAny   *anypb.Any
	badDERAny  *anypb.Any
	otherAny   *anypb.Any
	sth        map[string]sthT
}

var mat material

const sthSize, sthTS = 5, 1700000000000

func sthInput(ts, size uint64, root []byte) []byte {
	// RFC 6962 s3.5: digitally-signed struct { Version version = v1(0); SignatureType signature_type = tree_hash(1);
	// uint64 timestamp; uint64 tree_size; opaque sha256_root_hash[32]; }
	b := []byte{0, 1}
	b = binary.BigEndian.AppendUint64(b, ts)
	b = binary.BigEndian.AppendUint64(b, size)
	return append(b, root...)
}

func digitallySigned(k *pki.Key, sig []byte) []byte {
	// RFC 5246 s4.7: HashAlgorithm sha256(4), SignatureAlgorithm rsa(1)/ecdsa(3), opaque signature<0..2^16-1>
	alg := byte(3)
	if k.Kind == "rsa2048" {
		alg = 1
	}
	b := []byte{4, alg, byte(len(sig) >> 8), byte(len(sig))}
	return append(b, sig...)
}

func mkRoot(seed string) []byte { h := sha256.Sum256([]byte(seed)); return h[:] }

func prepare() {
	mat.dir = filepath.Join("/verif/build/tmp", fmt.Sprintf("c15-%d", os.Getpid()))
	if err := os.MkdirAll(mat.dir, 0o755); err != nil {
		panic(err)
	}
	mat.rootsFile = filepath.Join(mat.dir, "roots.pem")
	mat.missing = filepath.Join(mat.dir, "no-such-roots.pem")
	mat.rootsFile2 = filepath.Join(mat.dir, "roots2.pem")
	for i, f := range []string{mat.rootsFile, mat.rootsFile2} {
		root := pki.NewRoot(fmt.Sprint("c15 root ", i), pki.LoadKey(fmt.Sprint("p256-", 2+i)))
		mat.rootDER = append(mat.rootDER, root.DER)
		if err := os.WriteFile(f, pem.EncodeToMemory(&pem.Block{Type: "CERTIFICATE", Bytes: root.DER}), 0o644); err != nil {
			panic(err)
		}
	}
	mat.keys = map[string]*pki.Key{}
	mat.privAny = map[string]*anypb.Any{}
	for _, n := range []string{"p256-0", "p256-1", "rsa2048-0"} {
		k := pki.LoadKey(n)
		mat.keys[n] = k
		d, err := stdx509.MarshalPKCS8PrivateKey(k.Priv)
		if err != nil {
			panic(err)
		}
		a, err := anypb.New(&keyspb.PrivateKey{Der: d})
		if err != nil {
			panic(err)
		}
		mat.privAny[n] = a
	}
	mat.unknownAny = &anypb.Any{TypeUrl: "type.googleapis.com/verif.NoSuchKeyType", Value: []byte{0x0a, 0x01, 0x00}}
	mat.garbageAny = &anypb.Any{TypeUrl: "type.googleapis.com/keyspb.PrivateKey", Value: []byte{0xff, 0xff, 0xff}}
	mat.emptyAny = &anypb.Any{}
	mat.badDERAny, _ = anypb.New(&keyspb.PrivateKey{Der: []byte("not a DER key")})
	mat.otherAny, _ = anypb.New(timestamppb.New(pki.T0))

	mat.sth = map[string]sthT{}
	rt := mkRoot("frozen")
	mk := func(name, key string, size, ts uint64, root []byte, f func(s *sthT, k *pki.Key)) {
		k := mat.keys[key]
		s := sthT{present: true, intact: true, signedBy: key, size: size, ts: ts, root: root}
		if len(root) == 32 {
			s.sig = digitallySigned(k, k.SignTBS(sthInput(ts, size, root)))
		}
		if f != nil {
			f(&s, k)
		}
		mat.sth[name] = s
	}
	mk("valid", "p256-0", sthSize, sthTS, rt, nil)
	mk("valid-rsa", "rsa2048-0", sthSize, sthTS, rt, nil)
	mk("valid-size0", "p256-0", 0, sthTS, mkRoot(""), nil)
	mk("badsig", "p256-0", sthSize, sthTS, rt, func(s *sthT, k *pki.Key) {
		s.intact = false // signature made over tree_size+1
		s.sig = digitallySigned(k, k.SignTBS(sthInput(sthTS, sthSize+1, rt)))
	})
	mk("root31", "p256-0", sthSize, sthTS, rt[:31], func(s *sthT, k *pki.Key) {
		s.intact = false
		s.sig = digitallySigned(k, k.SignTBS(sthInput(sthTS, sthSize, rt[:31])))
	})
	mk("garbagesig", "p256-0", sthSize, sthTS, rt, func(s *sthT, k *pki.Key) { s.intact = false; s.sig = []byte{1, 2, 3} })
	mk("trailing", "p256-0", sthSize, sthTS, rt, func(s *sthT, k *pki.Key) { s.intact = false; s.sig = append(s.sig, 0) })
	mk("wrongalg", "p256-0", sthSize, sthTS, rt, func(s *sthT, k *pki.Key) { s.intact = false; s.sig[1] = 1 })
	mk("emptymsg", "p256-0", 0, 0, nil, func(s *sthT, k *pki.Key) { s.intact = false; s.sig = nil })
	// the genuine signature bytes next to altered contents (a verifier that remembers signatures it has seen)
	genuine := mat.sth["valid"].sig
	mk("tampered-size", "p256-0", sthSize+1, sthTS, rt, func(s *sthT, k *pki.Key) { s.intact = false; s.sig = append([]byte(nil), genuine...) })
	mk("tampered-timestamp", "p256-0", sthSize, sthTS+1, rt, func(s *sthT, k *pki.Key) { s.intact = false; s.sig = append([]byte(nil), genuine...) })
	mk("tampered-root", "p256-0", sthSize, sthTS, mkRoot("another tree"), func(s *sthT, k *pki.Key) { s.intact = false; s.sig = append([]byte(nil), genuine...) })
	// a root hash field that is longer than a SHA-256 value and starts with the one that was signed (33 and 64 bytes)
	mk("root33-signed-prefix", "p256-0", sthSize, sthTS, append(append([]byte(nil), rt...), 0), func(s *sthT, k *pki.Key) { s.intact = false; s.sig = append([]byte(nil), genuine...) })
	mk("root64-signed-prefix", "p256-0", sthSize, sthTS, append(append([]byte(nil), rt...), rt...), func(s *sthT, k *pki.Key) { s.intact = false; s.sig = append([]byte(nil), genuine...) })
}

func cleanup() { os.RemoveAll(mat.dir) }

// ---- fields -------------------------------------------------------------------

type value struct {
	label string
	th    bool // used as a deviation in the thorough tier only
	apply func(c *configpb.LogConfig, t *truth)
}

type field struct {
	name string
	vals []value
}

func (f *field) idx(label string) int {
	for i, v := range f.vals {
		if v.label == label {
			return i
		}
	}
	panic("no value " + label + " in field " + f.name)
}

func boolField(name string, set func(c *configpb.LogConfig, t *truth, b bool)) field {
	return field{name, []value{
		{label: "false", apply: func(c *configpb.LogConfig, t *truth) { set(c, t, false) }},
		{label: "true", apply: func(c *configpb.LogConfig, t *truth) { set(c, t, true) }},
	}}
}

func tsValues(set func(c *configpb.LogConfig, t *truth, ts *timestamppb.Timestamp, tt tsT)) []value {
	mk := func(label string, th bool, ts *timestamppb.Timestamp, valid bool) value {
		return value{label: label, th: th, apply: func(c *configpb.LogConfig, t *truth) {
			if ts == nil {
				set(c, t, nil, tsT{})
				return
			}
			tt := tsT{present: true, valid: valid}
			if valid {
				tt.t = time.Unix(ts.Seconds, int64(ts.Nanos)).UTC()
			}
			set(c, t, proto.Clone(ts).(*timestamppb.Timestamp), tt)
		}}
	}
	return []value{
		mk("absent", false, nil, false),
		mk("t0", false, timestamppb.New(pki.T0), true),
		mk("t1", false, timestamppb.New(pki.T1), true),
		mk("epoch", true, &timestamppb.Timestamp{}, true), // present but empty message
		mk("max", false, &timestamppb.Timestamp{Seconds: 253402300799, Nanos: 999999999}, true),
		mk("min", false, &timestamppb.Timestamp{Seconds: -62135596800}, true), // 0001-01-01T00:00:00Z: the smallest valid Timestamp, and Go's zero time.Time
		mk("sec-too-big", false, &timestamppb.Timestamp{Seconds: 253402300800}, false),
		mk("sec-too-small", true, &timestamppb.Timestamp{Seconds: -62135596801}, false),
		mk("nanos-negative", false, &timestamppb.Timestamp{Seconds: pki.T0.Unix(), Nanos: -1}, false),
		mk("nanos-1e9", true, &timestamppb.Timestamp{Seconds: pki.T0.Unix(), Nanos: 1000000000}, false),
	}
}

func strs(xs ...string) []string { return xs }

// connection strings: usable = the documented grammar of config.proto
// (mysql://[user[:pw]@][protocol[(address)]]/dbname[?..] | postgresql://[user[:pw]@][host][:port][/dbname][?..],
// "postgres" being the other scheme name the PostgreSQL driver documents) and a driver exists for the scheme.
var connStrings = []struct {
	s      string
	usable tri
	why    string
	th     bool
}{
	{"", no, "empty", false},
	{"mysql", no, "no-scheme-separator", false},
	{"mysql://", dontcare, "", false}, // empty DSN: grammar asks for /dbname, the driver defaults everything
	{"mysql://u@tcp(h)/db", yes, "", false},
	{"mysql://u:pw@tcp(h:3306)/db?timeout=1s", yes, "", true},
	{"mysql://u@tcp(h", no, "malformed-dsn", false},           // DSN without the /dbname part
	{"mysqlx://u@tcp(h)/db", no, "scheme-is-no-driver", false}, // scheme merely starts with "mysql": no driver takes it
	{"postgres", no, "no-scheme-separator", false},
	{"postgres://h/db", yes, "", false},
	{"postgresql://h/db", yes, "", false},
	{"postgresql://u:pw@h:5432/db?sslmode=disable", yes, "", true},
	{"postgresql://h:port/db", no, "malformed-dsn", false}, // port is not a number
	{"postgresqlx://h/db", no, "scheme-is-no-driver", true},
	{"sqlite://x", no, "unsupported-driver", false},
	{"://", no, "unsupported-driver", true},
}

var fields []field
var fIdx = map[string]int{}

func buildFields() {
	add := func(f field) { fIdx[f.name] = len(fields); fields = append(fields, f) }

	var logIDs []value
	for _, id := range []int64{1, 0, 2, -1} {
		id := id
		logIDs = append(logIDs, value{label: fmt.Sprint(id), apply: func(c *configpb.LogConfig, t *truth) { c.LogId = id; t.logID = id }})
	}
	add(field{"log_id", logIDs})

	var prefixes []value
	for _, p := range []string{"a", "", "dup"} {
		p := p
		prefixes = append(prefixes, value{label: fmt.Sprintf("%q", p), apply: func(c *configpb.LogConfig, t *truth) { c.Prefix = p; t.prefix = p }})
	}
	add(field{"prefix", prefixes})

	var bes []value
	for _, p := range []string{"b1", "b2", "", "nosuch"} {
		p := p
		bes = append(bes, value{label: fmt.Sprintf("%q", p), apply: func(c *configpb.LogConfig, t *truth) { c.LogBackendName = p; t.backendName = p }})
	}
	add(field{"log_backend_name", bes})

	pub := func(label string, th bool, der []byte, parseable bool, key string) value {
		return value{label: label, th: th, apply: func(c *configpb.LogConfig, t *truth) {
			c.PublicKey = &keyspb.PublicKey{Der: append([]byte(nil), der...)}
			t.pub = pubT{present: true, parseable: parseable, key: key}
		}}
	}
	k0, k1, kr := mat.keys["p256-0"], mat.keys["p256-1"], mat.keys["rsa2048-0"]
	add(field{"public_key", []value{
		{label: "absent", apply: func(c *configpb.LogConfig, t *truth) {}},
		pub("empty", false, nil, false, ""),
		pub("p256-0", false, k0.SPKI, true, "p256-0"),
		pub("p256-1", false, k1.SPKI, true, "p256-1"),
		pub("rsa2048-0", false, kr.SPKI, true, "rsa2048-0"),
		pub("garbage", false, []byte("garbage"), false, ""),
		pub("truncated", true, k0.SPKI[:len(k0.SPKI)-1], false, ""),
		pub("trailing-byte", true, append(append([]byte{}, k0.SPKI...), 0), false, ""),
	}})

	priv := func(label string, th bool, a *anypb.Any, tr privT) value {
		tr.present = true
		return value{label: label, th: th, apply: func(c *configpb.LogConfig, t *truth) {
			c.PrivateKey = proto.Clone(a).(*anypb.Any)
			t.priv = tr
		}}
	}
	add(field{"private_key", []value{
		{label: "absent", apply: func(c *configpb.LogConfig, t *truth) {}},
		priv("p256-0", false, mat.privAny["p256-0"], privT{anyOK: yes, signerOK: true, key: "p256-0"}),
		priv("p256-1", false, mat.privAny["p256-1"], privT{anyOK: yes, signerOK: true, key: "p256-1"}),
		priv("rsa2048-0", false, mat.privAny["rsa2048-0"], privT{anyOK: yes, signerOK: true, key: "rsa2048-0"}),
		priv("unknown-any-type", false, mat.unknownAny, privT{anyOK: no}),
		priv("garbage-any-bytes", false, mat.garbageAny, privT{anyOK: no}),
		priv("empty-any", false, mat.emptyAny, privT{anyOK: no}),
		priv("key-message-with-bad-der", false, mat.badDERAny, privT{anyOK: yes}),
		priv("non-key-message", true, mat.otherAny, privT{anyOK: dontcare}),
	}})

	add(boolField("is_mirror", func(c *configpb.LogConfig, t *truth, b bool) { c.IsMirror = b; t.mirror = b }))
	add(boolField("is_readonly", func(c *configpb.LogConfig, t *truth, b bool) { c.IsReadonly = b; t.readonly = b }))

	sth := func(name string, th bool) value {
		return value{label: name, th: th, apply: func(c *configpb.LogConfig, t *truth) {
			s := mat.sth[name]
			c.FrozenSth = &configpb.SignedTreeHead{TreeSize: int64(s.size), Timestamp: int64(s.ts),
				Sha256RootHash: append([]byte(nil), s.root...), TreeHeadSignature: append([]byte(nil), s.sig...)}
			t.sth = s
		}}
	}
	add(field{"frozen_sth", []value{
		{label: "absent", apply: func(c *configpb.LogConfig, t *truth) {}},
		sth("valid", false), sth("valid-rsa", false), sth("valid-size0", true), sth("badsig", false), sth("root31", false),
		sth("garbagesig", false), sth("trailing", true), sth("wrongalg", true), sth("emptymsg", false),
		sth("tampered-size", false), sth("tampered-timestamp", true), sth("tampered-root", false),
		sth("root33-signed-prefix", false), sth("root64-signed-prefix", true),
	}})

	add(field{"not_after_start", tsValues(func(c *configpb.LogConfig, t *truth, ts *timestamppb.Timestamp, tt tsT) {
		if ts != nil {
			c.NotAfterStart = ts
		}
		t.start = tt
	})})
	add(field{"not_after_limit", tsValues(func(c *configpb.LogConfig, t *truth, ts *timestamppb.Timestamp, tt tsT) {
		if ts != nil {
			c.NotAfterLimit = ts
		}
		t.limit = tt
	})})

	var mmd, emd []value
	for _, d := range []int32{0, -1, 1, 2} {
		d := d
		mmd = append(mmd, value{label: fmt.Sprint(d), apply: func(c *configpb.LogConfig, t *truth) { c.MaxMergeDelaySec = d; t.mmd = d }})
		emd = append(emd, value{label: fmt.Sprint(d), apply: func(c *configpb.LogConfig, t *truth) { c.ExpectedMergeDelaySec = d; t.emd = d }})
	}
	add(field{"max_merge_delay_sec", mmd})
	add(field{"expected_merge_delay_sec", emd})

	add(boolField("reject_expired", func(c *configpb.LogConfig, t *truth, b bool) { c.RejectExpired = b; t.rejExp = b }))
	add(boolField("reject_unexpired", func(c *configpb.LogConfig, t *truth, b bool) { c.RejectUnexpired = b; t.rejUnexp = b }))
	add(boolField("accept_only_ca", func(c *configpb.LogConfig, t *truth, b bool) { c.AcceptOnlyCa = b }))

	eku := func(why string, th bool, names ...string) value {
		return value{label: fmt.Sprint(names), th: th, apply: func(c *configpb.LogConfig, t *truth) {
			c.ExtKeyUsages = append([]string(nil), names...)
			t.ekuKnown, t.ekuWhy = why == "", why
		}}
	}
	add(field{"ext_key_usages", []value{
		eku("", false),
		eku("", false, "ServerAuth"),
		eku("", false, "Any"),
		eku("unknown-name", false, "Bogus"),
		eku("unknown-name-after-Any", false, "ServerAuth", "Any", "Bogus"),
		eku("unknown-name", true, "Bogus", "Any"),
		eku("", true, "ClientAuth", "ServerAuth", "ServerAuth"),
		eku("unknown-name", false, ""),
		eku("unknown-name", true, "serverauth"),
	}})

	rext := func(ok bool, th bool, oids ...string) value {
		return value{label: fmt.Sprintf("%q", oids), th: th, apply: func(c *configpb.LogConfig, t *truth) {
			c.RejectExtensions = append([]string(nil), oids...)
			t.rejExtOK = ok
		}}
	}
	add(field{"reject_extensions", []value{rext(true, false), rext(true, false, "1.2.3"), rext(false, false, "x"), rext(false, false, ""), rext(false, true, "1.2.3", "1..2")}})

	var be []value
	for _, b := range []int32{0, 1, 7} {
		b := b
		be = append(be, value{label: fmt.Sprint(b), apply: func(c *configpb.LogConfig, t *truth) {
			c.ExtraDataIssuanceChainStorageBackend = configpb.LogConfig_IssuanceChainStorageBackend(b)
			t.backend = b
		}})
	}
	add(field{"storage_backend", be})

	var cs []value
	for _, x := range connStrings {
		x := x
		cs = append(cs, value{label: fmt.Sprintf("%q", x.s), th: x.th, apply: func(c *configpb.LogConfig, t *truth) {
			c.CtfeStorageConnectionString = x.s
			t.connUsable, t.connWhy = x.usable, x.why
		}})
	}
	add(field{"connection_string", cs})

	roots := func(label string, th bool, ok bool, certs []int, files ...string) value {
		return value{label: label, th: th, apply: func(c *configpb.LogConfig, t *truth) {
			c.RootsPemFile = append([]string(nil), files...)
			t.rootsN, t.rootsOK, t.rootCerts = len(files), ok, certs
		}}
	}
	add(field{"roots_pem_file", []value{
		roots("none", false, true, nil),
		roots("valid", false, true, []int{0}, mat.rootsFile),
		roots("missing", false, false, nil, mat.missing),
		roots("valid+missing", true, false, nil, mat.rootsFile, mat.missing),
		roots("valid+same", true, true, []int{0}, mat.rootsFile, mat.rootsFile),
		roots("valid+other", false, true, []int{0, 1}, mat.rootsFile, mat.rootsFile2),
	}})
}

// ---- baselines ----------------------------------------------------------------

type baseline struct {
	name string
	idx  []int // per field: index of the baseline value
}

var baselines []baseline

func buildBaselines() {
	mk := func(name string, over map[string]string) baseline {
		def := map[string]string{
			"log_id": "1", "prefix": `"a"`, "log_backend_name": `"b1"`, "public_key": "p256-0", "private_key": "p256-0",
			"is_mirror": "false", "is_readonly": "false", "frozen_sth": "absent", "not_after_start": "absent", "not_after_limit": "absent",
			"max_merge_delay_sec": "0", "expected_merge_delay_sec": "0", "reject_expired": "false", "reject_unexpired": "false",
			"accept_only_ca": "false", "ext_key_usages": "[]", "reject_extensions": "[]", "storage_backend": "0",
			"connection_string": `""`, "roots_pem_file": "valid",
		}
		for k, v := range over {
			if _, ok := def[k]; !ok {
				panic("bad baseline field " + k)
			}
			def[k] = v
		}
		b := baseline{name: name, idx: make([]int, len(fields))}
		for i := range fields {
			b.idx[i] = fields[i].idx(def[fields[i].name])
		}
		return b
	}
	baselines = []baseline{
		mk("regular", nil),
		mk("readonly", map[string]string{"is_readonly": "true"}),
		mk("mirror", map[string]string{"is_mirror": "true", "private_key": "absent", "roots_pem_file": "none"}),
		mk("frozen", map[string]string{"frozen_sth": "valid"}),
		mk("extstorage", map[string]string{"storage_backend": "1", "connection_string": `"mysql://u@tcp(h)/db"`}),
	}
}

// build materialises the configuration of an index vector together with its truth.
func build(idx []int) (*configpb.LogConfig, *truth) {
	c := &configpb.LogConfig{}
	t := &truth{}
	for i := range fields {
		fields[i].vals[idx[i]].apply(c, t)
	}
	return c, t
}

// sibling is the fixed, valid second log of every set: id 2, prefix "dup", backend b1.
func sibling() *configpb.LogConfig {
	return &configpb.LogConfig{LogId: 2, Prefix: "dup", LogBackendName: "b1", RootsPemFile: []string{mat.rootsFile},
		PrivateKey: proto.Clone(mat.privAny["p256-0"]).(*anypb.Any)}
}
