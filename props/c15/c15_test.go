// C15 - configuration validation is total and accepts exactly the well-formed
// configurations; an instance built from an accepted configuration matches it.
//
// Engine B (bounded-exhaustive enumeration with a deviation bound): from a valid
// baseline per log kind (regular, read-only, mirror, frozen, external storage)
// every configuration that differs from it in at most 2 (quick) / 3 (thorough)
// fields, each field ranging over its whole alphabet (alphabet_test.go), is
// built as a configpb.LogConfig, placed in a two-log set and a two-backend
// multi-config, and validated as a Go value, after a binary round trip and after
// a text round trip through the real file loaders. The oracle (oracle_test.go)
// is a predicate over the ground-truth labels that every alphabet value carries.
// Every accepted configuration that does not select external storage is handed
// to the real ctfe.SetUpInstance and the instance is driven (instance_test.go).
// Part B (multi_test.go) enumerates whole LogMultiConfig shapes.
package c15

import (
	"context"
	"fmt"
	"github.com/google/certificate-transparency-go/trillian/ctfe/storage"
	"io"
	"os"
	"path/filepath"
	"regexp"
	"strings"
	"testing"
	"unicode/utf8"

	"verif/engine/enum"
	"verif/engine/rep"

	"github.com/google/certificate-transparency-go/trillian/ctfe"
	"github.com/google/certificate-transparency-go/trillian/ctfe/configpb"
	"github.com/google/trillian/crypto/keys"
	"github.com/google/trillian/crypto/keys/der"
	"github.com/google/trillian/crypto/keyspb"
	"google.golang.org/protobuf/encoding/prototext"
	"google.golang.org/protobuf/proto"
	"google.golang.org/protobuf/types/known/anypb"
	"k8s.io/klog/v2"
)

type checker struct {
	r     *rep.R
	files chan string // pool of scratch file names
}

// caseInfo is what a violation records so that it can be reproduced by hand.
type caseInfo struct {
	Part       string   `json:"part"`
	Baseline   string   `json:"baseline,omitempty"`
	Deviations []string `json:"deviations,omitempty"`
	Shape      string   `json:"shape,omitempty"`
	Feature    string   `json:"feature,omitempty"` // label-derived trait that goes into "rejects well-formed" signatures
	Text       string   `json:"message_textproto"`
}

func (cs *caseInfo) key() string {
	return cs.Part + "|" + cs.Baseline + "|" + strings.Join(cs.Deviations, ",") + "|" + cs.Shape
}

type violationCase struct {
	*caseInfo
	Validator string `json:"observed_at"`
	Form      string `json:"form"`
	Library   string `json:"library"`
	Expected  string `json:"expected"`
}

func (c *checker) violation(sig, desc string, cs *caseInfo, validator, form, lib, exp string) {
	c.r.Violation(sig, fmt.Sprintf("[%s %s %v %s] %s(%s form): %s", cs.Part, cs.Baseline, cs.Deviations, cs.Shape, validator, form, desc),
		violationCase{cs, validator, form, lib, exp})
}

var reFrame = regexp.MustCompile(`^github\.com/google/certificate-transparency-go/(?:[\w./-]+/)?([\w-]+\.[\w.()*]+)\(`)

// panicSite names the first repository function below the panic in a stack trace.
func panicSite(stack string) string {
	lines := strings.Split(stack, "\n")
	seen := false
	for _, l := range lines {
		if strings.HasPrefix(l, "panic(") {
			seen = true
			continue
		}
		if seen {
			if m := reFrame.FindStringSubmatch(l); m != nil {
				return m[1]
			}
		}
	}
	return "?"
}

var reNum = regexp.MustCompile(`[0-9]+`)

// errClass reduces a library error to its kind (for signatures).
func errClass(err error) string {
	if err == nil {
		return "no error"
	}
	s := strings.TrimPrefix(err.Error(), "log config: ")
	if i := strings.Index(s, ":"); i > 0 {
		s = s[:i]
	}
	return reNum.ReplaceAllString(s, "N")
}

// compare checks one validator outcome against the verdict.
func (c *checker) compare(cs *caseInfo, validator, form string, v verdict, pan bool, pmsg, stack string, err error) {
	c.r.Eval(1)
	switch {
	case pan:
		c.violation("panic in validation at "+panicSite(stack)+": "+pmsg, "panicked: "+pmsg+"\n"+stack, cs, validator, form, "panic: "+pmsg, v.expect.String())
	case v.expect == dontcare:
		c.r.Add("outside_compared_domain", 1)
	case v.expect == yes && err != nil:
		c.violation("rejects well-formed: "+errClass(err)+cs.Feature, fmt.Sprintf("well-formed by every rule, library refuses: %v", err), cs, validator, form, err.Error(), "accept")
	case v.expect == no && err == nil:
		c.violation("accepts ill-formed: "+v.broken[0], fmt.Sprintf("violates %v, library accepts", v.broken), cs, validator, form, "accepted", "reject: "+strings.Join(v.broken, ","))
	}
}

// ---- files ----------------------------------------------------------------------

func (c *checker) withFile(data []byte, f func(path string)) {
	p := <-c.files
	defer func() { c.files <- p }()
	if err := os.WriteFile(p, data, 0o644); err != nil {
		panic(err)
	}
	f(p)
}

var textOpts = prototext.MarshalOptions{Multiline: true}

// partC: the file loaders reproduce the message written, whatever its bytes look like. Part A's binary files all hold a
// DER key (so they are never text); here the messages are small and key-file based, so that their binary form consists of
// bytes below 0x80 only (valid UTF-8, even printable in places), and each is also written in text form.
func (c *checker) partC() {
	keyFile := func(path string) *anypb.Any {
		a, err := anypb.New(&keyspb.PEMKeyFile{Path: path, Password: "pw"})
		if err != nil {
			panic(err)
		}
		return a
	}
	mk := func(id int64, prefix, backend string) *configpb.LogConfig {
		return &configpb.LogConfig{LogId: id, Prefix: prefix, LogBackendName: backend, RootsPemFile: []string{"roots.pem"}, PrivateKey: keyFile("k" + prefix + ".pem")}
	}
	sets := []*configpb.LogConfigSet{
		{Config: []*configpb.LogConfig{mk(1, "a", "")}},
		{Config: []*configpb.LogConfig{mk(1, "a", "b"), mk(2, "b", "b")}},
		{Config: []*configpb.LogConfig{{LogId: 7, Prefix: "p"}}},
		{Config: []*configpb.LogConfig{mk(3, "c", "b"), {LogId: 4, Prefix: "d", LogBackendName: "b", IsMirror: true, MaxMergeDelaySec: 100, ExpectedMergeDelaySec: 10}}},
	}
	for si, set := range sets {
		multi := &configpb.LogMultiConfig{Backends: &configpb.LogBackendSet{Backend: []*configpb.LogBackend{{Name: "b", BackendSpec: "spec"}}}, LogConfigs: set}
		setBin, setTxt := marshalForms(set)
		mBin, mTxt := marshalForms(multi)
		for _, b := range [][]byte{setBin, mBin} {
			if utf8.Valid(b) {
				c.r.Add("part_c_binary_files_that_are_valid_utf8", 1)
			} else {
				c.r.Add("part_c_binary_files_with_a_byte_above_0x7f", 1) // (a nested message of 128 bytes or more: still loaded and compared)
			}
		}
		for _, f := range []struct {
			form     string
			set, mul []byte
		}{{"binary-file whose bytes are valid UTF-8", setBin, mBin}, {"text-file", setTxt, mTxt}} {
			c.r.Eval(2)
			c.r.Nontrivial(fmt.Sprintf("partC|%d|%s", si, f.form))
			c.withFile(f.set, func(p string) {
				var got []*configpb.LogConfig
				var err error
				pan, msg, _ := enum.Catch(func() { got, err = ctfe.LogConfigFromFile(p) })
				if pan || err != nil || !proto.Equal(&configpb.LogConfigSet{Config: got}, set) {
					c.r.Violation("file loader does not reproduce the message ("+f.form+")", fmt.Sprintf("LogConfigFromFile of set %d (%d bytes): panic=%v %s err=%v", si, len(f.set), pan, msg, err), map[string]any{"file_hex": fmt.Sprintf("%x", f.set)})
				}
			})
			c.withFile(f.mul, func(p string) {
				var got *configpb.LogMultiConfig
				var err error
				pan, msg, _ := enum.Catch(func() { got, err = ctfe.MultiLogConfigFromFile(p) })
				if pan || err != nil || !proto.Equal(got, multi) {
					c.r.Violation("file loader does not reproduce the message ("+f.form+")", fmt.Sprintf("MultiLogConfigFromFile of set %d (%d bytes): panic=%v %s err=%v", si, len(f.mul), pan, msg, err), map[string]any{"file_hex": fmt.Sprintf("%x", f.mul)})
				}
			})
		}
	}
}

func marshalForms(m proto.Message) (bin, txt []byte) {
	bin, err := proto.Marshal(m)
	if err != nil {
		panic(err)
	}
	txt, err = textOpts.Marshal(m)
	if err != nil {
		panic(err)
	}
	return bin, txt
}

// ---- part A: one configuration, deviation-bounded ------------------------------------

var fixedBackends = []beT{{"b1", "spec-1"}, {"b2", "spec-2"}}

func backendSet(bes []beT) *configpb.LogBackendSet {
	s := &configpb.LogBackendSet{}
	for _, b := range bes {
		s.Backend = append(s.Backend, &configpb.LogBackend{Name: b.name, BackendSpec: b.spec})
	}
	return s
}

func (c *checker) evalSingle(b *baseline, devF []int, devV []int) {
	idx := append([]int(nil), b.idx...)
	cs := &caseInfo{Part: "A", Baseline: b.name}
	for i, f := range devF {
		idx[f] = devV[i]
		cs.Deviations = append(cs.Deviations, fields[f].name+"="+fields[f].vals[devV[i]].label)
	}
	cfg, t := build(idx)
	sib := sibling()
	set := &configpb.LogConfigSet{Config: []*configpb.LogConfig{cfg, sib}}
	multi := &configpb.LogMultiConfig{Backends: backendSet(fixedBackends), LogConfigs: set}
	cs.Text = prototext.Format(cfg)
	c.r.Add("single_configs", 1)

	// expected verdicts
	v1 := singleOK(t)
	logs := []logT{{t.logID, t.prefix, t.backendName, v1}, {2, "dup", "b1", verdict{expect: yes}}}
	v2 := logsOK(logs, false, nil)
	v3 := and(backendsOK(fixedBackends), logsOK(logs, true, fixedBackends))

	if v1.expect == yes || (v1.expect == no && len(v1.broken) == 1) {
		c.r.Nontrivial(cs.key())
	}
	for _, rule := range v1.broken {
		if len(v1.broken) == 1 {
			c.r.Add("refused_by_exactly:"+rule, 1)
		}
	}
	if v1.expect == yes {
		c.r.Add("well_formed_single_configs", 1)
	}

	validate := func(form string, one *configpb.LogConfig, s []*configpb.LogConfig, m *configpb.LogMultiConfig) (vc *ctfe.ValidatedLogConfig) {
		var err error
		if one != nil {
			pan, msg, stack := enum.Catch(func() { vc, err = ctfe.ValidateLogConfig(one) })
			c.compare(cs, "ValidateLogConfig", form, v1, pan, msg, stack, err)
			if pan || err != nil {
				vc = nil
			}
		}
		if s != nil {
			pan, msg, stack := enum.Catch(func() { err = ctfe.ValidateLogConfigs(s) })
			c.compare(cs, "ValidateLogConfigs", form, v2, pan, msg, stack, err)
		}
		if m != nil {
			var bm ctfe.LogBackendMap
			pan, msg, stack := enum.Catch(func() { bm, err = ctfe.ValidateLogMultiConfig(m) })
			c.compare(cs, "ValidateLogMultiConfig", form, v3, pan, msg, stack, err)
			if !pan && err == nil && v3.expect == yes && !(len(bm) == 2 && bm["b1"].GetBackendSpec() == "spec-1" && bm["b2"].GetBackendSpec() == "spec-2") {
				c.violation("backend map mismatch", fmt.Sprintf("returned map %v", bm), cs, "ValidateLogMultiConfig", form, fmt.Sprint(bm), "b1,b2")
			}
		}
		return vc
	}
	// Go value
	vc := validate("go", cfg, set.Config, multi)
	// the single-backend path of the server binary: ToMultiLogConfig, then ValidateLogMultiConfig
	{
		cl := proto.Clone(set).(*configpb.LogConfigSet)
		var err error
		pan, msg, stack := enum.Catch(func() { _, err = ctfe.ValidateLogMultiConfig(ctfe.ToMultiLogConfig(cl.Config, "spec")) })
		c.compare(cs, "ToMultiLogConfig+ValidateLogMultiConfig", "go", v2, pan, msg, stack, err)
	}
	// binary and text forms through the real file loaders
	setBin, setTxt := marshalForms(set)
	mBin, mTxt := marshalForms(multi)
	for _, f := range []struct {
		form     string
		set, mul []byte
	}{{"binary-file", setBin, mBin}, {"text-file", setTxt, mTxt}} {
		c.withFile(f.set, func(p string) {
			var got []*configpb.LogConfig
			var err error
			pan, msg, stack := enum.Catch(func() { got, err = ctfe.LogConfigFromFile(p) })
			if pan || err != nil || !proto.Equal(&configpb.LogConfigSet{Config: got}, set) {
				c.violation("file loader does not reproduce the message ("+f.form+")", fmt.Sprintf("LogConfigFromFile: panic=%v %s err=%v\n%s", pan, msg, err, stack), cs, "LogConfigFromFile", f.form, fmt.Sprint(err), "the message written")
				return
			}
			validate(f.form, got[0], got, nil)
		})
		c.withFile(f.mul, func(p string) {
			var got *configpb.LogMultiConfig
			var err error
			pan, msg, stack := enum.Catch(func() { got, err = ctfe.MultiLogConfigFromFile(p) })
			if pan || err != nil || !proto.Equal(got, multi) {
				c.violation("file loader does not reproduce the message ("+f.form+")", fmt.Sprintf("MultiLogConfigFromFile: panic=%v %s err=%v\n%s", pan, msg, err, stack), cs, "MultiLogConfigFromFile", f.form, fmt.Sprint(err), "the message written")
				return
			}
			validate(f.form, nil, nil, got)
		})
	}

	// the instance. Never for the external-storage backend: opening it would dial a database.
	if vc != nil && v1.expect != no && t.backend != 1 {
		c.instanceCheck(cs, t, vc)
	}
	// external storage: what validation accepted as usable, the storage constructor must take too. Only the
	// PostgreSQL schemes are tried (its driver opens lazily; the MySQL constructor dials at once).
	if vc != nil && v1.expect == yes && t.backend == 1 && t.connUsable == yes {
		conn := vc.Config.CtfeStorageConnectionString
		if strings.HasPrefix(conn, "postgres://") || strings.HasPrefix(conn, "postgresql://") {
			c.r.Eval(1)
			var st storage.IssuanceChainStorage
			var err error
			pan, msg, stack := enum.Catch(func() {
				st, err = storage.NewIssuanceChainStorage(context.Background(), vc.Config.ExtraDataIssuanceChainStorageBackend, conn)
			})
			switch {
			case pan:
				c.violation("storage constructor gives up on a connection string that validation accepted", "NewIssuanceChainStorage: "+msg+"\n"+stack, cs, "NewIssuanceChainStorage", "go", "panic/exit: "+msg, "a storage")
			case err != nil || st == nil:
				c.violation("storage constructor refuses a connection string that validation accepted", fmt.Sprintf("NewIssuanceChainStorage(%q) = %v, %v", conn, st, err), cs, "NewIssuanceChainStorage", "go", fmt.Sprint(err), "a storage")
			default:
				c.r.Add("external_storage_constructed", 1)
			}
		}
	}
}

// combos calls f with every k-subset of [0,n) in lexicographic order.
func combos(n, k int, f func(c []int)) {
	c := make([]int, k)
	var rec func(pos, from int)
	rec = func(pos, from int) {
		if pos == k {
			f(append([]int(nil), c...))
			return
		}
		for i := from; i < n; i++ {
			c[pos] = i
			rec(pos+1, i+1)
		}
	}
	rec(0, 0)
}

type unit struct {
	b    *baseline
	devF []int
}

func (c *checker) partA(maxDev int) {
	th := c.r.Thorough()
	var units []unit
	for bi := range baselines {
		for k := 0; k <= maxDev; k++ {
			combos(len(fields), k, func(fs []int) { units = append(units, unit{&baselines[bi], fs}) })
		}
	}
	c.r.Set("partA_units", len(units))
	// per field and baseline: the deviation values (everything but the baseline value; thorough-only values in thorough)
	devVals := func(b *baseline, f int) []int {
		var out []int
		for i, v := range fields[f].vals {
			if i != b.idx[f] && (th || !v.th) {
				out = append(out, i)
			}
		}
		return out
	}
	done := enum.ParFor(len(units), c.r.Expired, func(i int) {
		u := units[i]
		sets := make([][]int, len(u.devF))
		dims := make([]int, len(u.devF))
		for j, f := range u.devF {
			sets[j] = devVals(u.b, f)
			dims[j] = len(sets[j])
		}
		n := enum.Size(dims)
		var od []int
		vals := make([]int, len(u.devF))
		for x := 0; x < n; x++ {
			od = enum.Decode(x, dims, od)
			for j := range vals {
				vals[j] = sets[j][od[j]]
			}
			pan, msg, stack := enum.Catch(func() { c.evalSingle(u.b, u.devF, vals) })
			if pan {
				c.r.Violation("harness-panic", msg+"\n"+stack, fmt.Sprint(u.b.name, u.devF, vals))
			}
		}
	})
	if !done {
		c.r.Capped("deadline reached before all deviation sets of part A were run")
	}
}

func TestCheck(t *testing.T) {
	r := rep.New("C15", "exploration")
	klog.LogToStderr(false)
	klog.SetOutput(io.Discard)
	klog.OsExit = func(code int) { panic(fmt.Sprintf("klog.Exit(%d)", code)) } // the storage constructors call klog.Exitf on failure
	keys.RegisterHandler(&keyspb.PrivateKey{}, der.FromProto)
	prepare()
	buildFields()
	buildBaselines()
	c := &checker{r: r, files: make(chan string, 4*enum.Workers)}
	for i := 0; i < cap(c.files); i++ {
		c.files <- filepath.Join(mat.dir, fmt.Sprintf("cfg-%d", i))
	}
	maxDev := 2
	if r.Thorough() {
		maxDev = 3
	}
	nvals := 0
	for _, f := range fields {
		for _, v := range f.vals {
			if r.Thorough() || !v.th {
				nvals++
			}
		}
	}
	r.Set("fields", len(fields))
	r.Set("alphabet_values", nvals)
	r.Set("max_deviations", maxDev)
	r.Rule(fmt.Sprintf("Part A: 5 baselines (regular, readonly, mirror, frozen, extstorage) x every assignment of <= %d of %d fields to any other value of its alphabet (%d values in all), each configuration in a 2-log set and a 2-backend multi-config, validated by ValidateLogConfig / ValidateLogConfigs / ValidateLogMultiConfig (+ToMultiLogConfig) as Go value, binary file and text file (LogConfigFromFile / MultiLogConfigFromFile); accepted non-external-storage configurations run through SetUpInstance with endpoint-set and get-sth history checks. Part B: every LogMultiConfig with backends in {absent} + lists of <= N backend elements and logs in {absent} + lists of <= M log elements, in 5 forms. distinct_nontrivial = distinct configurations that are well-formed or break exactly one rule", maxDev, len(fields), nvals))
	r.Assume(
		"log_id 0 is proto3's 'unset': 'empty log ID' is mirrored as a rule although the statement does not list it",
		"a NotAfter bound that is not a valid protobuf Timestamp cannot be ordered: counted under the NotAfter-window rule (documented in ValidateLogConfig)",
		"start == limit is 'ordered' (documented as start <= limit) although the half-open window is then empty; 'not rejecting every certificate' is read as the reject_expired/reject_unexpired pair",
		"'parseable' for the private key at validation time = the Any names a key message type and unpacks; whether the key material yields a signer is decided by SetUpInstance (keys may live in files or HSMs); an Any holding a non-key message is outside the compared domain at validation and must be refused by SetUpInstance",
		"storage backend enum values other than 0/1 are not mentioned by the statement: validation may accept them, SetUpInstance must refuse them without panicking",
		"connection string \"mysql://\" (empty DSN) is outside the compared domain: the documented grammar asks for /dbname, the driver defaults every part",
		"usable connection string = documented grammar of config.proto and a scheme some driver takes (mysql | postgresql | postgres)",
		"the file loaders refuse empty sets (documented): compared as loader behaviour, not as validation",
		"a LogMultiConfig whose backends or log_configs message is absent altogether and that breaks no rule otherwise: only 'no panic' is demanded (accepting it as empty or refusing it as incomplete both conform)",
		"only parser-producible messages: no nil elements inside repeated fields",
		"external-storage configurations stop at validation plus, for PostgreSQL connection strings, the (lazy) storage constructor; SetUpInstance itself would dial the database",
		"mirror instances get a contract-abiding MirrorSTHStorage (largest known source STH with tree_size <= maxTreeSize, else an error)",
	)
	c.partA(maxDev)
	c.partB()
	c.partC()
	// deterministic samples: the five baselines with their verdicts
	for i := range baselines {
		cfg, tr := build(baselines[i].idx)
		txt := strings.Join(strings.Fields(prototext.MarshalOptions{}.Format(cfg)), " ")
		if len(txt) > 200 {
			txt = txt[:200] + "..."
		}
		r.Sample(map[string]any{"baseline": baselines[i].name, "well_formed": singleOK(tr).expect.String(), "config": txt})
	}
	cleanup()
	r.Finish()
}
