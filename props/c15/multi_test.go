package c15

// Part B: whole LogMultiConfig shapes. backends is absent or any list of up to
// N backend elements, log_configs is absent or any list of up to M log
// elements; the elements range over small name / spec / id / prefix / backend
// alphabets that contain the empty string, duplicates, an undefined backend, a
// negative id and names that differ only by a trailing '-'.

import (
	"fmt"
	"sort"
	"strings"

	"verif/engine/enum"

	"github.com/google/certificate-transparency-go/trillian/ctfe"
	"github.com/google/certificate-transparency-go/trillian/ctfe/configpb"
	"google.golang.org/protobuf/encoding/prototext"
	"google.golang.org/protobuf/proto"
	"google.golang.org/protobuf/types/known/anypb"
)

type logElem struct {
	id       int64
	prefix   string
	backend  string
	badDelay bool
}

func (e logElem) String() string {
	s := fmt.Sprintf("(%d,%q,%q)", e.id, e.prefix, e.backend)
	if e.badDelay {
		s += "!"
	}
	return s
}

func (e logElem) config() *configpb.LogConfig {
	c := &configpb.LogConfig{LogId: e.id, Prefix: e.prefix, LogBackendName: e.backend, RootsPemFile: []string{mat.rootsFile},
		PrivateKey: proto.Clone(mat.privAny["p256-0"]).(*anypb.Any)}
	if e.badDelay {
		c.MaxMergeDelaySec = -1
	}
	return c
}

func (e logElem) truth() logT {
	v := verdict{expect: yes}
	if e.badDelay {
		v = verdict{expect: no, broken: []string{ruleDelays}}
	}
	return logT{e.id, e.prefix, e.backend, v}
}

// lists returns every list of length <= max over n element indices.
func lists(n, max int) [][]int {
	out := [][]int{{}}
	prev := [][]int{{}}
	for l := 1; l <= max; l++ {
		var next [][]int
		for _, p := range prev {
			for i := 0; i < n; i++ {
				next = append(next, append(append([]int(nil), p...), i))
			}
		}
		out = append(out, next...)
		prev = next
	}
	return out
}

func (c *checker) partB() {
	r := c.r
	th := r.Thorough()
	var beElems []beT
	// ("s1" as a name, "b" as a specification: names are unique among names and specifications among specifications;
	// a name may well equal another backend's specification)
	for _, n := range []string{"b", "b-", "", "s1"} {
		for _, s := range []string{"s1", "s2", "", "b"} {
			beElems = append(beElems, beT{n, s})
		}
	}
	ids := []int64{1, -1}
	if th {
		ids = append(ids, 2)
	}
	var logElems []logElem
	for _, id := range ids {
		for _, p := range []string{"a", "b", "", "/a"} { // ("/a" is a string of its own: equal to itself, different from "a")
			for _, b := range []string{"b", "b-", "", "nosuch"} {
				logElems = append(logElems, logElem{id: id, prefix: p, backend: b})
			}
		}
	}
	logElems = append(logElems, logElem{id: 1, prefix: "c", backend: "b", badDelay: true})
	maxBe, maxLogs := 2, 2
	if th {
		maxBe = 3
	}
	// index -1 = the message is absent
	beLists := append([][]int{nil}, lists(len(beElems), maxBe)...)
	logLists := append([][]int{nil}, lists(len(logElems), maxLogs)...)
	r.Set("partB_backend_shapes", len(beLists))
	r.Set("partB_log_shapes", len(logLists))

	mkBes := func(i int) (absent bool, ts []beT, m *configpb.LogBackendSet) {
		if i == 0 {
			return true, nil, nil
		}
		for _, e := range beLists[i] {
			ts = append(ts, beElems[e])
		}
		return false, ts, backendSet(ts)
	}
	mkLogs := func(i int) (absent bool, ts []logT, m *configpb.LogConfigSet, desc string) {
		if i == 0 {
			return true, nil, nil, "absent"
		}
		m = &configpb.LogConfigSet{}
		var ds []string
		for _, e := range logLists[i] {
			ts = append(ts, logElems[e].truth())
			m.Config = append(m.Config, logElems[e].config())
			ds = append(ds, logElems[e].String())
		}
		return false, ts, m, "[" + strings.Join(ds, " ") + "]"
	}

	// B1: BuildLogBackendMap on every backend shape
	for i := range beLists {
		absent, ts, m := mkBes(i)
		cs := &caseInfo{Part: "B", Shape: fmt.Sprintf("backends=%v absent=%v", ts, absent), Text: prototext.Format(m)}
		v := backendsOK(ts)
		if absent {
			v = verdict{expect: dontcare, undecided: []string{"sub-message-absent"}}
		}
		var bm ctfe.LogBackendMap
		var err error
		pan, msg, stack := enum.Catch(func() { bm, err = ctfe.BuildLogBackendMap(m) })
		c.compare(cs, "BuildLogBackendMap", "go", v, pan, msg, stack, err)
		if !pan && err == nil && v.expect == yes {
			c.checkMap(cs, "BuildLogBackendMap", "go", bm, ts)
		}
	}
	// B2: ValidateLogConfigs + LogConfigFromFile on every log shape
	done := enum.ParFor(len(logLists), r.Expired, func(i int) {
		absent, ts, m, desc := mkLogs(i)
		cs := &caseInfo{Part: "B", Shape: "logs=" + desc, Text: prototext.Format(m)}
		for _, l := range ts {
			if l.id < 0 {
				cs.Feature = " [negative log_id]"
			}
		}
		v := logsOK(ts, false, nil)
		var err error
		pan, msg, stack := enum.Catch(func() { err = ctfe.ValidateLogConfigs(m.GetConfig()) })
		c.compare(cs, "ValidateLogConfigs", "go", v, pan, msg, stack, err)
		if absent {
			return
		}
		bin, txt := marshalForms(m)
		for _, f := range []struct {
			form string
			data []byte
		}{{"binary-file", bin}, {"text-file", txt}} {
			c.withFile(f.data, func(p string) {
				var got []*configpb.LogConfig
				pan, msg, stack := enum.Catch(func() { got, err = ctfe.LogConfigFromFile(p) })
				r.Eval(1)
				switch {
				case pan:
					c.violation("panic in file loader at "+panicSite(stack)+": "+msg, msg+"\n"+stack, cs, "LogConfigFromFile", f.form, "panic", "")
				case (err != nil) != (len(ts) == 0):
					c.violation("file loader verdict mismatch", fmt.Sprintf("LogConfigFromFile err=%v for a set of %d logs", err, len(ts)), cs, "LogConfigFromFile", f.form, fmt.Sprint(err), "error exactly for an empty set")
				case err == nil && !proto.Equal(&configpb.LogConfigSet{Config: got}, m):
					c.violation("file loader does not reproduce the message ("+f.form+")", "LogConfigFromFile returned a different set", cs, "LogConfigFromFile", f.form, "", "")
				case err == nil:
					pan, msg, stack := enum.Catch(func() { err = ctfe.ValidateLogConfigs(got) })
					c.compare(cs, "ValidateLogConfigs", f.form, v, pan, msg, stack, err)
				}
			})
		}
	})
	if !done {
		r.Capped("deadline reached in part B (log shapes)")
	}
	// B3: the product, ValidateLogMultiConfig in five forms
	dims := []int{len(beLists), len(logLists)}
	done = enum.Product(dims, r.Expired, func(ix []int) {
		pan, msg, stack := enum.Catch(func() { c.evalMulti(ix, mkBes, mkLogs) })
		if pan {
			r.Violation("harness-panic", msg+"\n"+stack, fmt.Sprint("partB", ix))
		}
	})
	if !done {
		r.Capped("deadline reached in part B (multi-config product)")
	}
}

func (c *checker) checkMap(cs *caseInfo, validator, form string, bm ctfe.LogBackendMap, ts []beT) {
	ok := len(bm) == len(ts)
	for _, b := range ts {
		if e, found := bm[b.name]; !found || e.GetName() != b.name || e.GetBackendSpec() != b.spec {
			ok = false
		}
	}
	if !ok {
		var ks []string
		for k, e := range bm {
			ks = append(ks, k+"->"+e.GetBackendSpec())
		}
		sort.Strings(ks)
		c.violation("backend map mismatch", fmt.Sprintf("returned map %v for backends %v", ks, ts), cs, validator, form, fmt.Sprint(ks), fmt.Sprint(ts))
	}
}

func (c *checker) evalMulti(ix []int,
	mkBes func(int) (bool, []beT, *configpb.LogBackendSet),
	mkLogs func(int) (bool, []logT, *configpb.LogConfigSet, string)) {
	r := c.r
	beAbsent, bts, bm := mkBes(ix[0])
	logAbsent, lts, lm, ldesc := mkLogs(ix[1])
	m := &configpb.LogMultiConfig{}
	if !beAbsent {
		m.Backends = bm
	}
	if !logAbsent {
		m.LogConfigs = lm
	}
	bdesc := fmt.Sprint(bts)
	if beAbsent {
		bdesc = "absent"
	}
	cs := &caseInfo{Part: "B", Shape: "backends=" + bdesc + " logs=" + ldesc}
	for _, l := range lts {
		if l.id < 0 {
			cs.Feature = " [negative log_id]"
		}
	}
	r.Add("multi_configs", 1)
	v := and(backendsOK(bts), logsOK(lts, true, bts))
	if v.expect == yes && (beAbsent || logAbsent) {
		// nothing is wrong with what is there, but a whole sub-message is missing: whether that is
		// acceptable is not decided by the statement (the file loaders refuse it). No panic is all that is asked.
		v = verdict{expect: dontcare, undecided: []string{"sub-message-absent"}}
	}
	if v.expect == yes || len(v.broken) == 1 {
		r.Nontrivial(cs.key())
	}
	if v.expect == yes {
		r.Add("well_formed_multi_configs", 1)
	}
	text := ""
	run := func(form string, msg *configpb.LogMultiConfig) {
		var got ctfe.LogBackendMap
		var err error
		pan, pmsg, stack := enum.Catch(func() { got, err = ctfe.ValidateLogMultiConfig(msg) })
		if pan || (v.expect != dontcare && (v.expect == yes) != (err == nil)) {
			if text == "" {
				text = prototext.Format(m)
			}
			cs.Text = text
		}
		// absent sub-messages get their own panic signature suffix through the site; the shape is in the case
		c.compare(cs, "ValidateLogMultiConfig", form, v, pan, pmsg, stack, err)
		if !pan && err == nil && v.expect == yes {
			c.checkMap(cs, "ValidateLogMultiConfig", form, got, bts)
		}
	}
	run("go", m)
	bin, txt := marshalForms(m)
	var viaBin, viaTxt configpb.LogMultiConfig
	if err := proto.Unmarshal(bin, &viaBin); err != nil || !proto.Equal(&viaBin, m) {
		panic(fmt.Sprint("binary round trip changed the message: ", err))
	}
	if err := prototext.Unmarshal(txt, &viaTxt); err != nil || !proto.Equal(&viaTxt, m) {
		panic(fmt.Sprint("text round trip changed the message: ", err))
	}
	run("binary", &viaBin)
	run("text", &viaTxt)
	empty := len(bts) == 0 || len(lts) == 0
	for _, f := range []struct {
		form string
		data []byte
	}{{"binary-file", bin}, {"text-file", txt}} {
		c.withFile(f.data, func(p string) {
			var got *configpb.LogMultiConfig
			var err error
			pan, msg, stack := enum.Catch(func() { got, err = ctfe.MultiLogConfigFromFile(p) })
			r.Eval(1)
			switch {
			case pan:
				c.violation("panic in file loader at "+panicSite(stack)+": "+msg, msg+"\n"+stack, cs, "MultiLogConfigFromFile", f.form, "panic", "")
			case (err != nil) != empty:
				c.violation("file loader verdict mismatch", fmt.Sprintf("MultiLogConfigFromFile err=%v, backends=%d logs=%d", err, len(bts), len(lts)), cs, "MultiLogConfigFromFile", f.form, fmt.Sprint(err), "error exactly when a set is empty")
			case err == nil && !proto.Equal(got, m):
				c.violation("file loader does not reproduce the message ("+f.form+")", "MultiLogConfigFromFile returned a different message", cs, "MultiLogConfigFromFile", f.form, "", "")
			case err == nil:
				run(f.form, got)
			default:
				r.Add("multi_refused_by_loader_as_documented", 1)
			}
		})
	}
}
