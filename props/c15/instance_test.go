package c15

// Second half of the property: an instance built from an accepted configuration
// matches it. Real path: ctfe.SetUpInstance with the ValidatedLogConfig that
// ValidateLogConfig returned, DER keys through the keyspb handler, PEM roots
// from disk, verif/ref/reflog as the Trillian client.

import (
	"bytes"
	"context"
	"encoding/base64"
	"encoding/json"
	"errors"
	"fmt"
	"github.com/google/trillian/types"
	"google.golang.org/protobuf/proto"
	"net/http"
	"net/http/httptest"
	"sort"
	"strings"
	"time"

	"verif/engine/enum"
	"verif/ref/reflog"

	ct "github.com/google/certificate-transparency-go"
	cttls "github.com/google/certificate-transparency-go/tls"
	"github.com/google/certificate-transparency-go/trillian/ctfe"
	"github.com/google/trillian"
	"github.com/google/trillian/monitoring"
)

var readPaths = []string{"/ct/v1/get-sth", "/ct/v1/get-sth-consistency", "/ct/v1/get-proof-by-hash", "/ct/v1/get-entries",
	"/ct/v1/get-roots", "/ct/v1/get-entry-and-proof"}
var addPaths = []string{"/ct/v1/add-chain", "/ct/v1/add-pre-chain"}

// mirrorStore is a contract-abiding MirrorSTHStorage: it knows a fixed list of
// source-log STHs and answers with the largest one not above maxTreeSize.
type mirrorStore struct {
	sths []*ct.SignedTreeHead
	raw  [][]byte // DigitallySigned bytes of each
}

func (m *mirrorStore) GetMirrorSTH(_ context.Context, maxTreeSize int64) (*ct.SignedTreeHead, error) {
	var best *ct.SignedTreeHead
	for _, s := range m.sths {
		if int64(s.TreeSize) <= maxTreeSize && (best == nil || s.TreeSize > best.TreeSize) {
			best = s
		}
	}
	if best == nil {
		return nil, errors.New("mirror store: no source STH at or below the requested size")
	}
	cp := *best
	return &cp, nil
}

var sourceSizes = []uint64{2, 5, 6}

func newMirrorStore() *mirrorStore {
	k := mat.keys["p256-0"]
	m := &mirrorStore{}
	for _, n := range sourceSizes {
		root := mkRoot(fmt.Sprint("source", n))
		ts := uint64(1600000000000 + n)
		sig := k.SignTBS(sthInput(ts, n, root))
		s := &ct.SignedTreeHead{Version: ct.V1, TreeSize: n, Timestamp: ts,
			TreeHeadSignature: ct.DigitallySigned{Algorithm: cttls.SignatureAndHashAlgorithm{Hash: cttls.SHA256, Signature: cttls.ECDSA}, Signature: sig}}
		copy(s.SHA256RootHash[:], root)
		m.sths = append(m.sths, s)
		m.raw = append(m.raw, digitallySigned(k, sig))
	}
	return m
}

type sthJSON struct {
	TreeSize  uint64 `json:"tree_size"`
	Timestamp uint64 `json:"timestamp"`
	Root      string `json:"sha256_root_hash"`
	Sig       string `json:"tree_head_signature"`
}

type gotSTH struct {
	status    int
	size, ts  uint64
	root, sig []byte
	body      string
}

func getSTH(inst *ctfe.Instance, path string) (g gotSTH, err error) {
	h, ok := inst.Handlers[path]
	if !ok {
		return g, fmt.Errorf("no handler at %s", path)
	}
	w := httptest.NewRecorder()
	h.ServeHTTP(w, httptest.NewRequest(http.MethodGet, "http://log.example"+path, nil))
	g.status = w.Code
	g.body = w.Body.String()
	if w.Code != 200 {
		return g, nil
	}
	var j sthJSON
	if err := json.Unmarshal(w.Body.Bytes(), &j); err != nil {
		return g, fmt.Errorf("get-sth body is not the RFC 6962 JSON: %v", err)
	}
	g.size, g.ts = j.TreeSize, j.Timestamp
	if g.root, err = base64.StdEncoding.DecodeString(j.Root); err != nil {
		return g, err
	}
	if g.sig, err = base64.StdEncoding.DecodeString(j.Sig); err != nil {
		return g, err
	}
	return g, nil
}

func grow(l *reflog.Log, to int, nanos uint64) {
	for i := l.Size(); i < to; i++ {
		_, err := l.QueueLeaf(context.Background(), &trillian.QueueLeafRequest{LogId: l.TreeID, Leaf: &trillian.LogLeaf{LeafValue: []byte(fmt.Sprintf("leaf-%d", i))}})
		if err != nil {
			panic(err)
		}
	}
	l.Sequence(-1, nanos)
}

// instanceCheck runs SetUpInstance on an accepted configuration and checks the
// instance against the truth. report(sig, desc) records a violation.
func (c *checker) instanceCheck(cs *caseInfo, t *truth, v *ctfe.ValidatedLogConfig) {
	r := c.r
	r.Add("instances_attempted", 1)
	backend := reflog.New(t.logID)
	store := newMirrorStore()
	opts := ctfe.InstanceOptions{Validated: v, Client: backend, Deadline: time.Hour, MetricFactory: monitoring.InertMetricFactory{},
		RequestLog: new(ctfe.DefaultRequestLog), STHStorage: store}
	var inst *ctfe.Instance
	var err error
	pan, msg, stack := enum.Catch(func() { inst, err = ctfe.SetUpInstance(context.Background(), opts) })
	if pan {
		c.violation("panic in SetUpInstance at "+panicSite(stack)+": "+msg, "SetUpInstance panicked: "+msg+"\n"+stack, cs, "SetUpInstance", "go", "panic", "")
		return
	}
	want := setupOK(t)
	if want != (err == nil) {
		c.violation(fmt.Sprintf("setup verdict mismatch: builds=%v expected=%v (%s)", err == nil, want, errClass(err)),
			fmt.Sprintf("SetUpInstance err=%v, expected to build: %v", err, want), cs, "SetUpInstance", "go", fmt.Sprint(err), fmt.Sprint(want))
		return
	}
	if err != nil {
		r.Add("instances_refused_as_expected", 1)
		return
	}
	r.Add("instances_built", 1)

	// 1. endpoint set
	pfx := "/" + t.prefix
	if t.prefix == "" {
		pfx = ""
	}
	wantKeys := map[string]bool{}
	for _, p := range readPaths {
		wantKeys[pfx+p] = true
	}
	writable := !t.mirror && !t.readonly
	if writable {
		for _, p := range addPaths {
			wantKeys[pfx+p] = true
		}
	}
	var got []string
	same := len(inst.Handlers) == len(wantKeys)
	for k := range inst.Handlers {
		got = append(got, k)
		if !wantKeys[k] {
			same = false
		}
	}
	if !same {
		sort.Strings(got)
		hasAdd := false
		for _, k := range got {
			if strings.HasSuffix(k, addPaths[0]) || strings.HasSuffix(k, addPaths[1]) {
				hasAdd = true
			}
		}
		c.violation(fmt.Sprintf("endpoint set mismatch: submission endpoints present=%v expected=%v", hasAdd, writable),
			fmt.Sprintf("mirror=%v readonly=%v: handler paths %v", t.mirror, t.readonly, got), cs, "Instance.Handlers", "go", fmt.Sprint(got), fmt.Sprint(writable))
		return
	}
	r.Add("endpoint_sets_checked", 1)

	// 2. get-roots serves exactly the certificates of the configured roots files
	{
		w := httptest.NewRecorder()
		pan, msg, stack := enum.Catch(func() {
			inst.Handlers[pfx+"/ct/v1/get-roots"].ServeHTTP(w, httptest.NewRequest(http.MethodGet, "http://log.example"+pfx+"/ct/v1/get-roots", nil))
		})
		if pan {
			c.violation("panic in get-roots at "+panicSite(stack)+": "+msg, "get-roots panicked: "+msg+"\n"+stack, cs, "get-roots", "go", "panic", "")
			return
		}
		var body struct {
			Certificates [][]byte `json:"certificates"`
		}
		err := json.Unmarshal(w.Body.Bytes(), &body)
		okRoots := w.Code == 200 && err == nil && len(body.Certificates) == len(t.rootCerts)
		for _, i := range t.rootCerts {
			found := false
			for _, c := range body.Certificates {
				found = found || bytes.Equal(c, mat.rootDER[i])
			}
			okRoots = okRoots && found
		}
		if !okRoots {
			c.violation("get-roots does not serve the configured roots", fmt.Sprintf("status %d, %d certificates, expected roots %v (err=%v)", w.Code, len(body.Certificates), t.rootCerts, err),
				cs, "get-roots", "go", w.Body.String(), fmt.Sprint(t.rootCerts))
			return
		}
	}

	// 3. what get-sth serves along a growth history of the backend
	sthPath := pfx + "/ct/v1/get-sth"
	serve := func() (g gotSTH, ok bool) {
		var e error
		pan, msg, stack := enum.Catch(func() { g, e = getSTH(inst, sthPath) })
		if pan {
			c.violation("panic in get-sth at "+panicSite(stack)+": "+msg, "get-sth panicked: "+msg+"\n"+stack, cs, "get-sth", "go", "panic", "")
			return g, false
		}
		if e != nil {
			c.violation("get-sth response malformed", e.Error(), cs, "get-sth", "go", g.body, "")
			return g, false
		}
		return g, true
	}
	switch {
	case t.sth.present:
		for step, size := range []int{0, 3, 7} {
			grow(backend, size, uint64(1800000000000000000+step))
			g, ok := serve()
			if !ok {
				return
			}
			if g.status != 200 || g.size != t.sth.size || g.ts != t.sth.ts || !bytes.Equal(g.root, t.sth.root) || !bytes.Equal(g.sig, t.sth.sig) {
				c.violation("frozen log serves something other than its frozen STH",
					fmt.Sprintf("backend size %d: status %d tree_size %d timestamp %d root %x sig %x; configured tree_size %d timestamp %d root %x sig %x",
						size, g.status, g.size, g.ts, g.root, g.sig, t.sth.size, t.sth.ts, t.sth.root, t.sth.sig), cs, "get-sth", "go", g.body, "the frozen STH")
				return
			}
			// the exported getter must agree
			s, e := inst.STHGetter.GetSTH(context.Background())
			if e != nil || s.TreeSize != t.sth.size || s.Timestamp != t.sth.ts || !bytes.Equal(s.SHA256RootHash[:], t.sth.root) {
				c.violation("frozen log serves something other than its frozen STH",
					fmt.Sprintf("Instance.STHGetter at backend size %d: %+v err=%v", size, s, e), cs, "STHGetter", "go", fmt.Sprint(s), "the frozen STH")
				return
			}
		}
		r.Add("frozen_histories_checked", 1)
	case t.mirror:
		for step, size := range []int{0, 1, 2, 4, 5, 7} {
			grow(backend, size, uint64(1800000000000000000+step))
			g, ok := serve()
			if !ok {
				return
			}
			// reference: the largest source STH not above the backend's tree size
			best := -1
			for i, n := range sourceSizes {
				if int(n) <= size {
					best = i
				}
			}
			if g.status == 200 && g.size > uint64(size) {
				c.violation("mirror serves an STH larger than its backend tree",
					fmt.Sprintf("backend tree size %d, served tree_size %d", size, g.size), cs, "get-sth", "go", g.body, fmt.Sprint("<= ", size))
				return
			}
			if best < 0 {
				if g.status == 200 {
					c.violation("mirror serves an STH its store does not have", fmt.Sprintf("backend size %d: %s", size, g.body), cs, "get-sth", "go", g.body, "an error")
					return
				}
				continue
			}
			w := store.sths[best]
			if g.status != 200 || g.size != w.TreeSize || g.ts != w.Timestamp || !bytes.Equal(g.root, w.SHA256RootHash[:]) || !bytes.Equal(g.sig, store.raw[best]) {
				c.violation("mirror does not serve the best source STH at or below its backend tree",
					fmt.Sprintf("backend size %d: status %d served tree_size %d, store's best is %d", size, g.status, g.size, w.TreeSize), cs, "get-sth", "go", g.body, fmt.Sprint(w.TreeSize))
				return
			}
		}
		// a lagging backend replica: later get-latest-root answers report a smaller tree than an
		// earlier one did; the bound is the tree the backend reports for THIS request
		for _, size := range []int{4, 1, 6} {
			size := size
			backend.SetHook(func(method string, req proto.Message, next func() (proto.Message, error)) (proto.Message, error) {
				rsp, err := next()
				if method != "GetLatestSignedLogRoot" || err != nil {
					return rsp, err
				}
				lr := types.LogRootV1{TreeSize: uint64(size), RootHash: backend.RootAt(size), TimestampNanos: 1800000000000000100, Revision: 99}
				b, merr := lr.MarshalBinary()
				if merr != nil {
					return nil, merr
				}
				return &trillian.GetLatestSignedLogRootResponse{SignedLogRoot: &trillian.SignedLogRoot{LogRoot: b}}, nil
			})
			g, ok := serve()
			backend.SetHook(nil)
			if !ok {
				return
			}
			best := -1
			for i, n := range sourceSizes {
				if int(n) <= size {
					best = i
				}
			}
			if g.status == 200 && g.size > uint64(size) {
				c.violation("mirror serves an STH larger than its backend tree",
					fmt.Sprintf("the backend (a lagging replica) reports tree size %d after having reported 7; served tree_size %d", size, g.size), cs, "get-sth", "go", g.body, fmt.Sprint("<= ", size))
				return
			}
			if best >= 0 {
				if w := store.sths[best]; g.status != 200 || g.size != w.TreeSize {
					c.violation("mirror does not serve the best source STH at or below its backend tree",
						fmt.Sprintf("backend (lagging) size %d: status %d served tree_size %d, store's best is %d", size, g.status, g.size, w.TreeSize), cs, "get-sth", "go", g.body, fmt.Sprint(w.TreeSize))
					return
				}
			}
		}
		r.Add("mirror_histories_checked", 1)
	default:
		key := mat.keys[t.priv.key]
		for step, size := range []int{0, 3} {
			nanos := uint64(1800000000123000000 + step*1000000)
			grow(backend, size, nanos)
			g, ok := serve()
			if !ok {
				return
			}
			wantRoot := backend.RootAt(size)
			if g.status != 200 || g.size != uint64(size) || g.ts != nanos/1000000 || !bytes.Equal(g.root, wantRoot) {
				c.violation("log does not serve its backend's tree head",
					fmt.Sprintf("backend size %d root %x ts %d: status %d served %s", size, wantRoot, nanos/1000000, g.status, g.body), cs, "get-sth", "go", g.body, "")
				return
			}
			// signature by the configured private key over the RFC 6962 structure
			okSig := len(g.sig) >= 4 && g.sig[0] == 4 && int(g.sig[2])<<8|int(g.sig[3]) == len(g.sig)-4 &&
				((key.Kind == "rsa2048" && g.sig[1] == 1) || (key.Kind == "p256" && g.sig[1] == 3)) &&
				key.Verify(sthInput(g.ts, g.size, g.root), g.sig[4:])
			if !okSig {
				c.violation("log STH is not signed by the configured private key",
					fmt.Sprintf("key %s: signature %x does not verify over the served tree head", key.Name, g.sig), cs, "get-sth", "go", g.body, "")
				return
			}
		}
		r.Add("signing_histories_checked", 1)
	}
}
