package c15

// The reference predicate: "well-formed" exactly as the property statement lists
// it, over ground-truth labels only.

// Rule names, in the canonical order used for violation signatures.
const (
	ruleLogID     = "log-id-nonzero"
	rulePub       = "public-key"
	rulePriv      = "private-key"
	ruleSTH       = "frozen-sth"
	ruleWindow    = "notafter-window"
	ruleDelays    = "merge-delays"
	ruleRejectAll = "reject-all"
	ruleEKU       = "eku-names"
	ruleConn      = "connection-string"
	// set level
	rulePrefixEmpty = "prefix-empty"
	rulePrefixDup   = "prefix-duplicate"
	ruleTreeDup     = "tree-id-duplicate"
	ruleBackendRef  = "backend-reference"
	ruleBeName      = "backend-name-empty"
	ruleBeSpec      = "backend-spec-empty"
	ruleBeNameDup   = "backend-name-duplicate"
	ruleBeSpecDup   = "backend-spec-duplicate"
)

// verdict of a predicate: expect = yes (must be accepted), no (must be refused),
// dontcare (not decided by the statement). broken lists the rules that are
// definitely violated; undecided the ones that hinge on a borderline value.
type verdict struct {
	expect    tri
	broken    []string
	undecided []string
}

func (v *verdict) fail(rule string)  { v.broken = append(v.broken, rule) }
func (v *verdict) maybe(rule string) { v.undecided = append(v.undecided, rule) }
func (v *verdict) close() verdict {
	switch {
	case len(v.broken) > 0:
		v.expect = no
	case len(v.undecided) > 0:
		v.expect = dontcare
	default:
		v.expect = yes
	}
	return *v
}

// and combines verdicts of independent rule groups.
func and(vs ...verdict) verdict {
	var out verdict
	for _, v := range vs {
		out.broken = append(out.broken, v.broken...)
		out.undecided = append(out.undecided, v.undecided...)
	}
	return out.close()
}

// singleOK: one LogConfig on its own (rules 1-6 of the statement + the assumed log-id rule).
func singleOK(t *truth) verdict {
	var v verdict
	if t.logID == 0 {
		v.fail(ruleLogID)
	}
	// keys present and parseable as the log kind requires (mirror: public key only)
	if t.pub.present && !t.pub.parseable {
		v.fail(rulePub)
	}
	if t.mirror {
		if !t.pub.present {
			v.fail(rulePub)
		}
		if t.priv.present {
			v.fail(rulePriv)
		}
	} else {
		switch {
		case !t.priv.present, t.priv.anyOK == no:
			v.fail(rulePriv)
		case t.priv.anyOK == dontcare:
			v.maybe(rulePriv)
		}
	}
	// frozen STH: verifies under the public key
	if t.sth.present {
		if !t.pub.present || !t.pub.parseable || !t.sth.intact || t.sth.signedBy != t.pub.key {
			v.fail(ruleSTH)
		}
	}
	// NotAfter window ordered (a bound that is not a valid Timestamp cannot be ordered)
	if (t.start.present && !t.start.valid) || (t.limit.present && !t.limit.valid) {
		v.fail(ruleWindow)
	} else if t.start.present && t.limit.present && t.limit.t.Before(t.start.t) {
		v.fail(ruleWindow)
	}
	// merge delays non-negative and ordered
	if t.mmd < 0 || t.emd < 0 || t.emd > t.mmd {
		v.fail(ruleDelays)
	}
	// not rejecting every certificate
	if t.rejExp && t.rejUnexp {
		v.fail(ruleRejectAll)
	}
	// only known EKU names
	if !t.ekuKnown {
		v.fail(ruleEKU + "/" + t.ekuWhy)
	}
	// a usable external-storage connection string when that backend is selected
	if t.backend == 1 {
		switch t.connUsable {
		case no:
			v.fail(ruleConn + "/" + t.connWhy)
		case dontcare:
			v.maybe(ruleConn)
		}
	}
	return v.close()
}

// setupOK: does ctfe.SetUpInstance build an instance from this (accepted) configuration?
// From config.proto: roots required unless mirror; every roots file must load; the
// private key must yield a signer; a configured public key must match it; the
// reject_extensions entries are dotted OIDs; the storage backend must be a defined one.
func setupOK(t *truth) bool {
	if !t.mirror && t.rootsN == 0 {
		return false
	}
	if !t.rootsOK {
		return false
	}
	if !t.mirror {
		if !t.priv.signerOK {
			return false
		}
		if t.pub.present && t.pub.key != t.priv.key {
			return false
		}
	}
	if !t.rejExtOK {
		return false
	}
	return t.backend == 0
}

// ---- sets -------------------------------------------------------------------

type beT struct{ name, spec string }

type logT struct {
	id      int64
	prefix  string
	backend string
	single  verdict
}

func backendsOK(bes []beT) verdict {
	var v verdict
	names, specs := map[string]bool{}, map[string]bool{}
	for _, b := range bes {
		if b.name == "" {
			v.fail(ruleBeName)
		}
		if b.spec == "" {
			v.fail(ruleBeSpec)
		}
		if names[b.name] {
			v.fail(ruleBeNameDup)
		}
		if specs[b.spec] {
			v.fail(ruleBeSpecDup)
		}
		names[b.name], specs[b.spec] = true, true
	}
	return v.close()
}

// logsOK: the log set under one implicit backend (multi == false) or against the
// named backends bes (multi == true).
func logsOK(logs []logT, multi bool, bes []beT) verdict {
	var v verdict
	names := map[string]bool{}
	for _, b := range bes {
		names[b.name] = true
	}
	prefixes := map[string]bool{}
	type tk struct {
		be string
		id int64
	}
	trees := map[tk]bool{}
	for _, l := range logs {
		v.broken = append(v.broken, l.single.broken...)
		v.undecided = append(v.undecided, l.single.undecided...)
		if l.prefix == "" {
			v.fail(rulePrefixEmpty)
		}
		if prefixes[l.prefix] {
			v.fail(rulePrefixDup)
		}
		prefixes[l.prefix] = true
		k := tk{id: l.id}
		if multi {
			k.be = l.backend
			if !names[l.backend] {
				v.fail(ruleBackendRef)
			}
		}
		if trees[k] {
			v.fail(ruleTreeDup)
		}
		trees[k] = true
	}
	return v.close()
}
