//go:build verif

// C08 — backend faults and bad requests never surface as success.
//
// Engine B over a fault matrix (level fault_enumeration). A real ctfe front end
// instance (ref/fe) runs over the reference backend ref/reflog, seeded with six
// entries. Every case is a short request sequence on ONE fresh instance; at the
// chosen positions the single backend RPC of the request is replaced by one
// element of the fault alphabet (every gRPC code, plain / wrapped / context
// errors, absent reply, garbled tree heads, smaller trees, surplus and
// mis-indexed leaves, absent parts, wrong-size proof nodes, undecodable echoes),
// all other calls are served by the reference backend. The oracle is the
// statement's status table evaluated on the injected cause, plus a reference
// model of the healthy answers (RFC 6962 s4 from templates, ref/merkle,
// ref/ct6962) for the neighbours of the faulty call. A second family of cases
// sends wrong methods, raw parameter strings and ill-formed submission bodies
// to a healthy backend; the request grammar (RFC 6962 s4: decimal numbers,
// base64 SHA-256) decides 4xx-without-backend-call vs. answer.
package c08

import (
	"bytes"
	"context"
	"flag"
	"fmt"
	"io"
	"net/http"
	"net/http/httptest"
	"net/url"
	"sort"
	"strings"
	"sync"
	"testing"
	"time"

	"verif/engine/enum"
	"verif/engine/rep"
	"verif/ref/fe"

	"google.golang.org/protobuf/proto"
	"k8s.io/klog/v2"
)

// inj delivers the armed fault to the first matching RPC of the current request.
type inj struct {
	w          *world
	svc        int
	armed      *fault
	req        *request
	fired      int
	nextCalled bool
	harness    string
}

func (x *inj) hook(method string, req proto.Message, next func() (proto.Message, error)) (proto.Message, error) {
	f := x.armed
	if f == nil || f.rpc != method {
		x.nextCalled = true
		return next()
	}
	x.armed = nil
	x.fired++
	if f.err != nil {
		return nil, f.err
	}
	x.nextCalled = true
	rsp, err := next()
	if err != nil || rsp == nil {
		x.harness = fmt.Sprintf("the reference backend did not serve %s for %s: %v", method, x.req, err)
		return rsp, err
	}
	out := f.mut(x, proto.Clone(rsp))
	if out == nil {
		return nil, nil
	}
	return out, nil
}

type step struct {
	req *request
	f   *fault
}

type seqCase struct {
	phase string
	svc   int
	mask  bool
	steps []step
}

func (sc *seqCase) key() string {
	var b strings.Builder
	fmt.Fprintf(&b, "%s|%s|%v", sc.phase, svcName[sc.svc], sc.mask)
	for _, s := range sc.steps {
		b.WriteString("|" + s.req.String())
		if s.f != nil {
			b.WriteString("#" + s.f.name)
		}
	}
	return b.String()
}

type stepDesc struct {
	Request  string `json:"request"`
	Body     string `json:"body,omitempty"`
	Fault    string `json:"injected_fault,omitempty"`
	Expected string `json:"expected"`
	Status   int    `json:"status"`
	Reply    string `json:"reply"`
	Panic    string `json:"panic,omitempty"`
	Backend  string `json:"backend_calls"`
}

type caseDesc struct {
	Phase   string     `json:"phase"`
	Service string     `json:"chain_service"`
	Mask    bool       `json:"mask_internal_errors"`
	Failing int        `json:"failing_step"`
	Steps   []stepDesc `json:"steps"`
}

// ---- aggregation: one signature per (oracle, feature), naming the endpoints it shows at

type aggEntry struct {
	oracle, what string
	eps          map[string]bool
	svcs         map[int]bool
	count        int
	key          string
	desc         string
	c            caseDesc
}

type checker struct {
	r   *rep.R
	w   *world
	mu  sync.Mutex
	agg map[string]*aggEntry
}

func (c *checker) viol(oracle, what string, ep int, sc *seqCase, failing int, desc string, steps []stepDesc) {
	k := oracle + "\x00" + what
	c.mu.Lock()
	defer c.mu.Unlock()
	e := c.agg[k]
	if e == nil {
		e = &aggEntry{oracle: oracle, what: what, eps: map[string]bool{}, svcs: map[int]bool{}}
		c.agg[k] = e
	}
	e.eps[epName[ep]] = true
	e.svcs[sc.svc] = true
	e.count++
	if ck := sc.key(); e.key == "" || ck < e.key {
		e.key, e.desc = ck, desc
		e.c = caseDesc{Phase: sc.phase, Service: svcName[sc.svc], Mask: sc.mask, Failing: failing + 1, Steps: append([]stepDesc{}, steps...)}
	}
}

func (c *checker) flush() {
	var keys []string
	for k := range c.agg {
		keys = append(keys, k)
	}
	sort.Strings(keys)
	for _, k := range keys {
		e := c.agg[k]
		var eps []string
		for ep := range e.eps {
			eps = append(eps, ep)
		}
		sort.Strings(eps)
		sig := fmt.Sprintf("%s: %s at=%s", e.oracle, e.what, strings.Join(eps, ","))
		if len(e.svcs) == 1 {
			for s := range e.svcs {
				sig += " svc=" + svcName[s] + "-only"
			}
		}
		for i := 0; i < e.count; i++ {
			c.r.Violation(sig, e.desc, e.c)
		}
	}
}

// ---- driving one request

func do(in *instance, r *request) fe.Resp {
	path := in.fe.Prefix + "/ct/v1/" + epName[r.ep]
	h, ok := in.fe.Inst.Handlers[path]
	if !ok {
		panic("no handler for " + path)
	}
	u := &url.URL{Scheme: "http", Host: "log.example", Path: path, RawQuery: r.query}
	req := &http.Request{Method: r.method, URL: u, Proto: "HTTP/1.1", ProtoMajor: 1, ProtoMinor: 1, Header: http.Header{}, Host: "log.example", RequestURI: u.RequestURI(), Body: http.NoBody}
	if r.body != nil {
		req.Body = io.NopCloser(bytes.NewReader(r.body))
		req.ContentLength = int64(len(r.body))
		req.Header.Set("Content-Type", "application/json")
	}
	rec := httptest.NewRecorder()
	h.ServeHTTP(rec, req.WithContext(context.Background()))
	return fe.Resp{Status: rec.Code, Body: rec.Body.Bytes(), Header: rec.Header()}
}

func clip(b []byte) string {
	s := strings.TrimSpace(string(b))
	if len(s) > 240 {
		s = s[:240] + "…"
	}
	return s
}

func carriesSCT(body []byte) bool {
	return bytes.Contains(body, []byte(`"signature"`)) || bytes.Contains(body, []byte(`"sct_version"`))
}

const maskedBody = "Internal Server Error\n"

// run executes one sequence on a fresh instance and judges every step.
func (c *checker) run(sc *seqCase) {
	w := c.w
	be, st := w.freshBackend(sc.svc)
	in := w.newInstance(sc.svc, sc.mask, be, st)
	x := &inj{w: w, svc: sc.svc}
	be.SetHook(x.hook)
	stored := map[string]uint64{}
	for k, v := range w.seedTS {
		stored[k] = v
	}
	neighbour := "in a fault-free sequence"
	for _, s := range sc.steps {
		if s.f != nil {
			neighbour = "in a sequence with a faulty call"
			break
		}
	}
	var descs []stepDesc
	for i, s := range sc.steps {
		r, f := s.req, s.f
		now := seqTime.Add(time.Duration(i) * time.Second)
		in.clock.Set(now)
		be.ResetCalls()
		st0 := st.Calls()
		iss0, stat0 := in.fe.Log.Snapshot()
		x.armed, x.req, x.fired, x.nextCalled, x.harness = f, r, 0, false, ""
		var rsp fe.Resp
		pan, msg, stack := enum.Catch(func() { rsp = do(in, r) })
		x.armed = nil
		calls := be.Calls()
		iss1, stat1 := in.fe.Log.Snapshot()
		c.r.Eval(1)

		var cl []string
		for _, k := range calls {
			cl = append(cl, k.Method)
		}
		d := stepDesc{Request: r.String(), Status: rsp.Status, Reply: clip(rsp.Body), Backend: fmt.Sprint(cl)}
		if r.body != nil {
			d.Body = clip(r.body)
		}
		if pan {
			d.Panic = msg
			d.Status = 0
		}
		// model of the backend's de-duplication: the first stored submission of a chain fixes its timestamp
		if r.sub != nil && r.verdict == vHealthy && x.nextCalled {
			if _, ok := stored[r.sub.id]; !ok {
				stored[r.sub.id] = millis(now)
			}
		}
		// sign-prefixed numbers are don't-care between "malformed" and "the unsigned number"
		orig := r
		if r.alt != nil && f == nil {
			refused := !pan && rsp.Status/100 == 4 && len(cl) == 0 && st.Calls() == st0 && len(iss1) == len(iss0) && !carriesSCT(rsp.Body)
			if refused {
				d.Expected = "4xx without backend call, or the answer to the unsigned number"
				c.r.Nontrivial(fmt.Sprintf("S|%d|%v|%s", sc.svc, sc.mask, orig))
				descs = append(descs, d)
				continue
			}
			r = r.alt
		}
		bad := func(oracle, what, desc string) {
			all := append(append([]stepDesc{}, descs...), d)
			for _, rest := range sc.steps[i+1:] {
				rd := stepDesc{Request: rest.req.String(), Expected: "(not reached in this report)"}
				if rest.f != nil {
					rd.Fault = rest.f.name
				}
				all = append(all, rd)
			}
			c.viol(oracle, what, r.ep, sc, i, fmt.Sprintf("[%s, mask=%v, step %d of %d] %s: %s", svcName[sc.svc], sc.mask, i+1, len(sc.steps), orig, desc), all)
		}
		reqLog := func(what string) {
			if len(stat1) != len(stat0)+1 || stat1[len(stat1)-1] != rsp.Status {
				bad("RequestLog.Status does not record the answered status", what, fmt.Sprintf("HTTP %d, RequestLog statuses added: %v", rsp.Status, stat1[len(stat0):]))
			}
		}
		masked := func(what string) {
			if sc.mask && rsp.Status == 500 && string(rsp.Body) != maskedBody {
				what = "after a backend fault"
				if f == nil {
					what = "for a refused request"
				}
				bad("500 body not masked", what, fmt.Sprintf("MaskInternalErrors is on, the 500 body is %q, want %q", clip(rsp.Body), maskedBody))
			}
		}

		switch {
		case f != nil:
			d.Fault = f.name + " on " + f.rpc
			d.Expected = f.want.String() + ", no SCT"
			if x.fired != 1 || x.harness != "" {
				bad("harness", "fault-not-delivered", fmt.Sprintf("fault %s fired %d times; %s", f.name, x.fired, x.harness))
				break
			}
			c.r.Nontrivial(fmt.Sprintf("F|%s|%d", sc.key(), i))
			if pan {
				bad("panic escapes ServeHTTP", f.class, fmt.Sprintf("backend fault %q on %s: panic: %s\n%s", f.name, f.rpc, msg, trimStack(stack)))
				break
			}
			if f.want.free {
				if f.want.sound200 && rsp.Status == 200 && r.ep == epProof {
					if why := w.checkProof(rsp.Body, int(r.a), r.b); why != "" {
						bad("answers 200 with content taken from the faulty part of a backend reply", f.class, fmt.Sprintf("backend fault %q on %s answered 200: %s", f.name, f.rpc, why))
					}
				}
				break
			}
			if rsp.Status == 200 {
				bad("answers 200 on a faulty backend call", f.class, fmt.Sprintf("backend fault %q on %s answered 200 %s (want %s)", f.name, f.rpc, clip(rsp.Body), f.want))
			} else if !f.want.ok(rsp.Status) {
				bad(fmt.Sprintf("status does not reflect the cause (want %s, got %d)", f.want, rsp.Status), f.class,
					fmt.Sprintf("backend fault %q on %s answered %d %s", f.name, f.rpc, rsp.Status, clip(rsp.Body)))
			}
			if len(iss1) != len(iss0) {
				bad("SCT recorded as issued on a faulty backend call", f.class, fmt.Sprintf("backend fault %q: RequestLog.IssueSCT called, HTTP %d", f.name, rsp.Status))
			}
			if carriesSCT(rsp.Body) {
				bad("SCT in the body of a faulty backend call", f.class, fmt.Sprintf("backend fault %q: HTTP %d body %s", f.name, rsp.Status, clip(rsp.Body)))
			}
			reqLog("after a backend fault")
			masked(f.class)

		case r.verdict == vHealthy:
			d.Expected = "200 with the modelled content"
			if pan {
				bad("panic on a healthy request", neighbour, "panic: "+msg+"\n"+trimStack(stack))
				break
			}
			if rsp.Status != 200 {
				bad("healthy request not answered 200", neighbour, fmt.Sprintf("HTTP %d %s", rsp.Status, clip(rsp.Body)))
				break
			}
			var why string
			switch r.ep {
			case epAddChain, epAddPreChain:
				ts := stored[r.sub.id]
				why = w.checkSCT(rsp.Body, r.sub, ts)
				if why == "" {
					if len(iss1) != len(iss0)+1 {
						why = fmt.Sprintf("RequestLog.IssueSCT called %d times for one 200 answer", len(iss1)-len(iss0))
					} else {
						why = w.checkIssued(iss1[len(iss1)-1], r.sub, ts)
					}
				}
			case epSTH:
				why = w.checkSTH(rsp.Body)
			case epCons:
				why = w.checkConsistency(rsp.Body, r.a, r.b)
			case epProof:
				why = w.checkProof(rsp.Body, int(r.a), r.b)
			case epEntries:
				why = w.checkEntries(rsp.Body, r.a, r.b)
			case epRoots:
				why = w.checkRoots(rsp.Body)
			case epEAP:
				why = w.checkEAP(rsp.Body, r.a, r.b)
			}
			if why == "" && r.ep > epAddPreChain && len(iss1) != len(iss0) {
				why = "RequestLog.IssueSCT called by a read endpoint"
			}
			if why != "" {
				bad("healthy request answered with wrong content", neighbour, why)
			}
			wantCalls := "[" + epRPC[r.ep] + "]"
			if r.noCall {
				wantCalls = "[]"
			}
			if fmt.Sprint(cl) != wantCalls {
				bad("healthy request: unexpected backend calls", neighbour, fmt.Sprintf("backend calls %v, want %s", cl, wantCalls))
			}
			reqLog(neighbour)
			if sc.phase != "matrix" {
				c.r.Nontrivial("H|" + epName[r.ep] + "|" + orig.String())
			}

		case r.verdict == vBad || r.verdict == vCaller:
			d.Expected = "4xx, no SCT"
			if r.verdict == vBad {
				d.Expected = "4xx, no backend call, no SCT"
			}
			c.r.Nontrivial(fmt.Sprintf("B|%d|%v|%s", sc.svc, sc.mask, orig))
			if pan {
				bad("panic escapes ServeHTTP", r.what, "panic: "+msg+"\n"+trimStack(stack))
				break
			}
			called := len(cl) > 0 || st.Calls() != st0
			switch {
			case r.verdict == vCaller && rsp.Status/100 != 4:
				bad(fmt.Sprintf("caller-caused condition not answered 4xx (got %d)", rsp.Status), r.what, fmt.Sprintf("HTTP %d %s", rsp.Status, clip(rsp.Body)))
			case r.verdict == vBad && (rsp.Status/100 != 4 || called):
				bad("bad request not rejected with 4xx before any backend call", r.what,
					fmt.Sprintf("HTTP %d %s; backend calls %v, chain store calls %d", rsp.Status, clip(rsp.Body), cl, st.Calls()-st0))
			}
			if len(iss1) != len(iss0) || carriesSCT(rsp.Body) {
				bad("SCT emitted for a refused request", r.what, fmt.Sprintf("HTTP %d %s", rsp.Status, clip(rsp.Body)))
			}
			reqLog("for a refused request")
			masked(r.what)

		default: // vFree
			d.Expected = "not judged (outside the statement)"
			if pan {
				bad("panic escapes ServeHTTP", "unjudged-request", "panic: "+msg+"\n"+trimStack(stack))
			}
		}
		descs = append(descs, d)
	}
	if c.r.WantSample() && len(sc.steps) == 3 && sc.steps[1].f != nil && sc.steps[1].f.mut != nil {
		c.r.Sample(caseDesc{Phase: sc.phase, Service: svcName[sc.svc], Mask: sc.mask, Steps: descs})
	}
}

func trimStack(s string) string {
	// keep the frames of the code under test
	var keep []string
	lines := strings.Split(s, "\n")
	for i := 0; i+1 < len(lines); i++ {
		if strings.Contains(lines[i], "certificate-transparency-go/") && !strings.Contains(lines[i], "verif") {
			keep = append(keep, strings.TrimSpace(lines[i])+" "+strings.TrimSpace(lines[i+1]))
			if len(keep) == 4 {
				break
			}
		}
	}
	return strings.Join(keep, "\n")
}

func silenceKlog() {
	fs := flag.NewFlagSet("klog", flag.ContinueOnError)
	klog.InitFlags(fs)
	fs.Set("logtostderr", "false")
	fs.Set("alsologtostderr", "false")
	fs.Set("stderrthreshold", "FATAL")
	klog.SetOutput(io.Discard)
}

// variants are the healthy requests of an endpoint used in the fault matrix.
func (w *world) variants(ep int) []*request {
	switch ep {
	case epAddChain:
		return []*request{w.reqAdd(w.fresh[0]), w.reqAdd(w.fresh[1]), w.reqAdd(w.fresh[2]), w.reqAdd(w.seeds[0])}
	case epAddPreChain:
		return []*request{w.reqAdd(w.fresh[3]), w.reqAdd(w.fresh[4]), w.reqAdd(w.fresh[5]), w.reqAdd(w.seeds[1])}
	case epSTH:
		return []*request{w.reqSTH(), w.reqSTH(), w.reqSTH(), w.reqSTH()}
	case epCons:
		return []*request{w.reqCons(1, 6), w.reqCons(3, 5), w.reqCons(2, 6), w.reqCons(4, 4)}
	case epProof:
		return []*request{w.reqProof(0, 6), w.reqProof(4, 5), w.reqProof(5, 6), w.reqProof(0, 1)}
	case epEntries:
		return []*request{w.reqEntries(2, 4), w.reqEntries(5, 5), w.reqEntries(0, 9), w.reqEntries(0, 0)}
	case epRoots:
		return []*request{w.reqRoots(), w.reqRoots(), w.reqRoots(), w.reqRoots()}
	case epEAP:
		return []*request{w.reqEAP(0, 6), w.reqEAP(4, 5), w.reqEAP(5, 6), w.reqEAP(0, 1)}
	}
	return nil
}

func faultsOf(ep int) []*fault {
	switch ep {
	case epAddChain, epAddPreChain:
		return queueFaults()
	case epSTH:
		return sthFaults()
	case epCons:
		return consistencyFaults()
	case epProof:
		return proofByHashFaults()
	case epEntries:
		return entriesFaults()
	case epEAP:
		return entryAndProofFaults()
	}
	return nil
}

func TestCheck(t *testing.T) {
	silenceKlog()
	r := rep.New("C08", "fault_enumeration")
	th := r.Thorough()
	w := newWorld()
	c := &checker{r: r, w: w, agg: map[string]*aggEntry{}}

	// ---- seed one backend per chain service through the real front end and compare with the model
	for svc := range svcName {
		sd, why := w.seedThrough(svc)
		if why != "" {
			r.Violation("baseline: "+svcName[svc]+" front end cannot be seeded", why, why)
			r.Finish()
			return
		}
		w.seed[svc] = sd
		for i, lf := range sd.leaves {
			r.Eval(1)
			if !bytes.Equal(lf.LeafValue, w.leafInput[i]) {
				r.Violation("baseline: leaf handed to the backend differs from RFC 6962 MerkleTreeLeaf svc="+svcName[svc],
					fmt.Sprintf("seed %d: backend got %x, model %x", i, lf.LeafValue, w.leafInput[i]), w.seeds[i].id)
			}
			if svc == svcDirect && !bytes.Equal(lf.ExtraData, w.extra[i]) {
				r.Violation("baseline: extra data handed to the backend differs from RFC 6962 s4.6",
					fmt.Sprintf("seed %d: backend got %x, model %x", i, lf.ExtraData, w.extra[i]), w.seeds[i].id)
			}
		}
	}

	var jobs []*seqCase
	add := func(phase string, steps ...step) {
		for svc := range svcName {
			for _, mask := range []bool{false, true} {
				jobs = append(jobs, &seqCase{phase: phase, svc: svc, mask: mask, steps: steps})
			}
		}
	}
	count := map[string]int{}
	mark := func(k string) func() {
		n := len(jobs)
		return func() { count[k] += len(jobs) - n }
	}

	// ---- phase "matrix": endpoint x fault x position (x fault x position)
	nf := 0
	classes := map[string]bool{}
	for ep := 0; ep < nEP; ep++ {
		vs := w.variants(ep)
		fs := faultsOf(ep)
		nf += len(fs)
		for _, f := range fs {
			classes[f.class] = true
		}
		tmpl := [][]*request{{vs[0], vs[0], vs[0]}, {vs[0], vs[1], vs[2]}}
		if th {
			tmpl = append(tmpl, []*request{vs[1], vs[1], vs[1]}, []*request{vs[2], vs[0], vs[1]}, []*request{vs[3], vs[3], vs[3]}, []*request{vs[3], vs[2], vs[0]})
		}
		done := mark("matrix_single_fault_sequences")
		for _, tp := range tmpl {
			add("matrix", step{req: tp[0]}, step{req: tp[1]}, step{req: tp[2]}) // the fault-free run of the same sequence
			for p := 0; p < 3; p++ {
				for _, f := range fs {
					if !f.applicable(tp[p]) {
						continue
					}
					st := []step{{req: tp[0]}, {req: tp[1]}, {req: tp[2]}}
					st[p].f = f
					add("matrix", st...)
				}
			}
		}
		done()
		if ep == epRoots {
			// get-roots issues no RPC: it must answer while the backend is down for its neighbours
			var down *fault
			for _, f := range sthFaults() {
				if f.name == "code-Unavailable" {
					down = f
				}
			}
			add("matrix", step{req: w.reqSTH(), f: down}, step{req: vs[0]}, step{req: w.reqSTH(), f: down})
			continue
		}
		if th {
			// foreign neighbours: get-sth and (for read endpoints) a submission around the faulty call
			done = mark("matrix_foreign_neighbour_sequences")
			for _, f := range fs {
				if !f.applicable(vs[0]) {
					continue
				}
				if ep != epSTH {
					add("matrix", step{req: w.reqSTH()}, step{req: vs[0], f: f}, step{req: w.reqSTH()})
				}
				if ep > epAddPreChain {
					add("matrix", step{req: w.reqAdd(w.fresh[0])}, step{req: vs[0], f: f}, step{req: w.reqAdd(w.fresh[0])})
				}
			}
			done()
			// pairs of faults on one instance
			done = mark("matrix_fault_pair_sequences")
			for _, pp := range [][2]int{{0, 1}, {0, 2}, {1, 2}} {
				for _, f1 := range fs {
					for _, f2 := range fs {
						if !f1.applicable(vs[0]) || !f2.applicable(vs[0]) {
							continue
						}
						st := []step{{req: vs[0]}, {req: vs[0]}, {req: vs[0]}}
						st[pp[0]].f, st[pp[1]].f = f1, f2
						add("matrix", st...)
						if f1.applicable(vs[pp[0]]) && f2.applicable(vs[pp[1]]) {
							st = []step{{req: vs[0]}, {req: vs[1]}, {req: vs[2]}}
							st[pp[0]].f, st[pp[1]].f = f1, f2
							add("matrix", st...)
						}
					}
				}
			}
			done()
		}
	}
	r.Set("fault_alphabet_size_summed_over_endpoints", nf)
	r.Set("fault_classes", len(classes))

	// ---- phase "method": wrong HTTP method x endpoint
	done := mark("wrong_method_sequences")
	for ep := 0; ep < nEP; ep++ {
		v0 := w.variants(ep)[0]
		for _, m := range wrongMethods {
			if m == epMethod(ep) {
				continue
			}
			b := *v0
			b.method, b.verdict, b.what = m, vBad, "method:"+m
			add("method", step{req: &b}, step{req: v0})
			if th {
				add("method", step{req: v0}, step{req: &b}, step{req: v0})
			}
		}
	}
	done()

	// ---- phase "params": raw parameter strings on every numeric / base64 parameter
	done = mark("parameter_string_sequences")
	nums := numAlphabet(th)
	for _, ep := range []int{epCons, epProof, epEntries, epEAP} {
		v0 := w.variants(ep)[0]
		a0 := nums
		if ep == epProof {
			a0 = w.hashAlphabet(th)
		}
		for _, p0 := range a0 {
			for _, p1 := range nums {
				rq := w.reqParams(ep, p0, p1)
				add("params", step{req: rq}, step{req: v0})
				if th {
					add("params", step{req: v0}, step{req: rq}, step{req: rq})
				}
			}
		}
	}
	for ep := epSTH; ep < nEP; ep++ {
		v0 := w.variants(ep)[0]
		for _, q := range []string{"%zz", "first=%", "start=1;end=2", "tree_size=%u0031"} {
			add("params", step{req: &request{ep: ep, method: "GET", query: q, verdict: vBad, what: "query-string-malformed"}}, step{req: v0})
		}
	}
	done()

	// ---- phase "body": ill-formed submissions
	done = mark("bad_body_sequences")
	for _, ep := range []int{epAddChain, epAddPreChain} {
		v0 := w.variants(ep)[0]
		for _, b := range w.badBodies(ep, th) {
			add("body", step{req: b}, step{req: v0})
			if th {
				add("body", step{req: v0}, step{req: b}, step{req: v0})
			}
		}
	}
	done()
	for k, v := range count {
		r.Set(k, v)
	}
	r.Set("sequences", len(jobs))

	r.Rule("One case = one request sequence on one fresh front end instance (real ctfe handlers) over ref/reflog holding 6 sequenced entries (3 certificates, 3 precertificates), " +
		"x chain service {direct, indirect with in-memory store + cache} x MaskInternalErrors {off, on}. " +
		"matrix: for each of the 7 RPC-issuing endpoints, 3-request sequences (same request three times; three different requests; thorough: 4 more templates, get-sth / add-chain as foreign neighbours) with the endpoint's RPC replaced at position 1, 2 or 3 " +
		"(thorough: every ordered pair of faults at two of the three positions) by: each gRPC code 1..16 as status.Error (status.Error(OK) is nil and coincides with the absent reply), two wrapped status errors, a plain error, raw context.DeadlineExceeded and context.Canceled, each of them wrapped with %w, an error value claiming code OK; " +
		"absent reply; SignedLogRoot absent; LogRoot empty / cut by 1 / cut in half / version only / version 0 / version 2 / one trailing byte; root hash of 0 / 31 / 33 bytes; a well-formed head of a tree one smaller than the request needs (without and with the data), and of the empty tree; " +
		"get-entries: one surplus leaf, the whole tree instead of the range, indices +1 / -1 / zero-based / gap / reversed / all equal / first only wrong, leaves in reverse order; proofs: Proof absent, proof list empty, node of 0/31/33 bytes at first/middle/last position, proof without nodes; get-entry-and-proof: leaf absent, leaf value empty; " +
		"submission: QueuedLeaf absent, QueuedLeaf without Leaf (with and without status), echoed value empty / garbage / cut / trailing byte / leaf type 1, 255 / entry type 2, 65535 / version 1. get-roots (no RPC) runs while the backend is down. " +
		"method: 9 wrong methods x 8 endpoints. params: every pair of raw strings from the numeric alphabet (absent, empty, x, 1e3, +1, ' 1', '1 ', -1, 2^63, 0x1, 1.0, fullwidth 1, 0,1,2,5,6,7, 2^63-1; thorough: 16 more) and, for hash, the base64 alphabet (absent, empty, not base64, bad length, URL alphabet, unpadded, 31 / 33 bytes, known / unknown hashes) on the four parameterised endpoints, plus 4 malformed query strings x 6 GET endpoints. body: 15 (thorough 19) ill-formed or inadmissible submission bodies x 2 endpoints. " +
		"Every sequence ends with (or surrounds the case by) a healthy request that must answer 200 with the modelled content. distinct_nontrivial = distinct (configuration, request, fault, position) whose fault was really delivered to the front end + distinct refused / judged requests")
	r.Assume(
		"one backend RPC per request is faulty; the issuance chain store and cache of the indirect service stay healthy",
		"only wire-representable replies: no nil element inside a repeated field; an absent reply (nil, nil) is part of the alphabet although the generated gRPC client never produces it",
		"numbers are RFC 6962 s4 'decimal': one or more ASCII digits within int64; a hash is padded standard base64 of exactly 32 bytes; anything else is a malformed parameter",
		"context.DeadlineExceeded or context.Canceled returned by the client, bare or wrapped, is a timeout (504); an error value whose status code is OK is a backend fault (5xx)",
		"'every other backend fault or malformed reply gives 5xx' is read as: 5xx other than 501 / 503 / 504, which the statement reserves for named causes",
		"a sound tree head with an empty proof list on get-proof-by-hash may be 4xx or 5xx (unknown hash and backend fault are indistinguishable)",
		"not judged (only no-panic): proof nodes of wrong size on get-entry-and-proof, a proof without nodes on the two proof-only endpoints, an echoed leaf of version 1, get-sth-consistency first=0 beyond the tree, get-entries 0..2^63-1",
		"a sign-prefixed number (+1, +0, -0) is don't-care: whether it is a malformed decimal number is an interpretation (strconv.ParseInt's grammar is a defensible reading); accepted outcomes are 4xx without any backend call, or exactly the judged behaviour of the same request with the unsigned number (false alarm corrected: an earlier version demanded 4xx)",
		"SCT timestamps: the reference backend echoes the stored leaf, so the SCT of a chain carries the time of its first stored submission; the clock advances 1 s per request",
	)

	doneAll := enum.ParFor(len(jobs), r.Expired, func(i int) {
		pan, msg, stack := enum.Catch(func() { c.run(jobs[i]) })
		if pan {
			r.Violation("harness-panic", msg+"\n"+stack, jobs[i].key())
		}
	})
	if !doneAll {
		r.Capped("deadline reached before all sequences were run")
	}
	c.flush()
	r.Finish()
}
