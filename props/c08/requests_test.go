//go:build verif

package c08

import (
	"encoding/base64"
	"encoding/json"
	"fmt"
	"math/big"
	"net/url"
	"strings"

	"verif/ref/merkle"
)

const (
	epAddChain = iota
	epAddPreChain
	epSTH
	epCons
	epProof
	epEntries
	epRoots
	epEAP
	nEP
)

var epName = []string{"add-chain", "add-pre-chain", "get-sth", "get-sth-consistency", "get-proof-by-hash", "get-entries", "get-roots", "get-entry-and-proof"}
var epRPC = []string{"QueueLeaf", "QueueLeaf", "GetLatestSignedLogRoot", "GetConsistencyProof", "GetInclusionProofByHash", "GetLeavesByRange", "", "GetEntryAndProof"}
var epParams = [][]string{nil, nil, nil, {"first", "second"}, {"hash", "tree_size"}, {"start", "end"}, nil, {"leaf_index", "tree_size"}}

func epMethod(ep int) string {
	if ep <= epAddPreChain {
		return "POST"
	}
	return "GET"
}

// verdict of the reference model on a request sent to a healthy backend holding nSeed leaves.
const (
	vHealthy = iota // 200 with the modelled content
	vBad            // wrong method / missing / malformed / out-of-range: 4xx and no backend call
	vCaller         // well-formed but beyond the current tree or unknown to it: 4xx (the backend may be asked)
	vFree           // not judged here
)

type request struct {
	ep      int
	method  string
	query   string
	body    []byte
	label   string
	verdict int
	what    string   // for vBad / vCaller: the coarse reason (goes into signatures)
	noCall  bool     // healthy and answered without any backend call
	alt     *request // sign-prefixed number(s): the same request with the unsigned number(s), judged by the model (see run)

	sub     *sub  // submissions
	a, b    int64 // first,second | leaf index of the hash,tree_size | start,end | leaf_index,tree_size
	needs   int64 // tree size the request needs from the backend
	pathLen int   // number of nodes of the healthy proof
}

func (r *request) String() string {
	s := r.method + " " + epName[r.ep]
	if r.query != "" {
		s += "?" + r.query
	}
	if r.body != nil {
		s += " " + r.label
	}
	return s
}

func chainBody(chain [][]byte) []byte {
	b, _ := json.Marshal(map[string]any{"chain": chain})
	return b
}

func (w *world) reqAdd(s *sub) *request {
	ep := epAddChain
	if s.pre {
		ep = epAddPreChain
	}
	return &request{ep: ep, method: "POST", body: chainBody(s.chain), label: "chain[" + s.id + ", intermediate]", sub: s}
}

func (w *world) reqSTH() *request   { return &request{ep: epSTH, method: "GET"} }
func (w *world) reqRoots() *request { return &request{ep: epRoots, method: "GET", noCall: true} }

func (w *world) reqCons(first, second int64) *request {
	r := &request{ep: epCons, method: "GET", query: fmt.Sprintf("first=%d&second=%d", first, second), a: first, b: second, needs: second}
	w.judgeCons(r)
	return r
}

func (w *world) reqProof(idx int, size int64) *request {
	r := &request{ep: epProof, method: "GET", query: "hash=" + url.QueryEscape(base64.StdEncoding.EncodeToString(w.hashes[idx])) + fmt.Sprintf("&tree_size=%d", size)}
	w.judgeProof(r, w.hashes[idx], size)
	return r
}

func (w *world) reqEntries(start, end int64) *request {
	r := &request{ep: epEntries, method: "GET", query: fmt.Sprintf("start=%d&end=%d", start, end)}
	w.judgeEntries(r, start, end)
	return r
}

func (w *world) reqEAP(idx, size int64) *request {
	r := &request{ep: epEAP, method: "GET", query: fmt.Sprintf("leaf_index=%d&tree_size=%d", idx, size)}
	w.judgeEAP(r, idx, size)
	return r
}

// ---- the model's judgement of well-formed numeric parameters

func (w *world) judgeCons(r *request) {
	first, second := r.a, r.b
	switch {
	case first > second:
		r.verdict, r.what = vBad, "first-greater-than-second"
	case first == 0 && second > nSeed:
		r.verdict = vFree // an empty proof needs no tree; the statement is silent
	case first == 0:
		r.noCall = true
	case second > nSeed:
		r.verdict, r.what = vCaller, "beyond-current-tree"
	default:
		r.needs = second
		r.pathLen = len(merkle.Proof(int(first), w.hashes[:second]))
	}
}

func (w *world) judgeProof(r *request, hash []byte, size int64) {
	r.b, r.needs = size, size
	switch {
	case size > nSeed:
		r.verdict, r.what = vCaller, "beyond-current-tree"
	case w.indexOfHash(hash, size) < 0:
		r.verdict, r.what = vCaller, "hash-not-in-tree"
	default:
		r.a = int64(w.indexOfHash(hash, size))
		r.pathLen = len(merkle.Path(int(r.a), w.hashes[:size]))
	}
}

func (w *world) judgeEntries(r *request, start, end int64) {
	r.a, r.b, r.needs = start, end, start+1
	switch {
	case start > end:
		r.verdict, r.what = vBad, "start-greater-than-end"
	case start == 0 && end == 1<<63-1:
		r.verdict = vFree // end+1-start leaves int64: range arithmetic belongs to another property
	case start >= nSeed:
		r.verdict, r.what = vCaller, "beyond-current-tree"
	}
}

func (w *world) judgeEAP(r *request, idx, size int64) {
	r.a, r.b, r.needs = idx, size, size
	switch {
	case size < 1:
		r.verdict, r.what = vBad, "tree-size-zero"
	case idx >= size:
		r.verdict, r.what = vBad, "leaf-index-not-below-tree-size"
	case size > nSeed:
		r.verdict, r.what = vCaller, "beyond-current-tree"
	default:
		r.pathLen = len(merkle.Path(int(idx), w.hashes[:size]))
	}
}

// ---- parameter strings

// pval is one raw parameter: absent, or present with this exact string.
type pval struct {
	class  string // coarse name
	absent bool
	s      string
}

func (p pval) String() string {
	if p.absent {
		return "<absent>"
	}
	return fmt.Sprintf("%q", p.s)
}

// decimal is the reference grammar of RFC 6962 s4 numbers ("in decimal"): one or more ASCII
// digits; the value must fit the signed 64-bit range the backend API uses.
func decimal(p pval) (int64, bool) {
	if p.absent || p.s == "" {
		return 0, false
	}
	for _, c := range []byte(p.s) {
		if c < '0' || c > '9' {
			return 0, false
		}
	}
	v, _ := new(big.Int).SetString(p.s, 10)
	if !v.IsInt64() {
		return 0, false
	}
	return v.Int64(), true
}

func numAlphabet(thorough bool) []pval {
	out := []pval{
		{class: "missing", absent: true}, {class: "empty", s: ""}, {class: "non-numeric", s: "x"}, {class: "exponent", s: "1e3"},
		{class: "sign-prefixed", s: "+1"}, {class: "leading-space", s: " 1"}, {class: "trailing-space", s: "1 "}, {class: "negative", s: "-1"},
		{class: "above-int64", s: "9223372036854775808"}, {class: "hex", s: "0x1"}, {class: "decimal-point", s: "1.0"}, {class: "fullwidth-digit", s: "１"},
		{class: "valid", s: "0"}, {class: "valid", s: "1"}, {class: "valid", s: "2"}, {class: "valid", s: "5"}, {class: "valid", s: "6"}, {class: "valid", s: "7"},
		{class: "valid", s: "9223372036854775807"},
	}
	if thorough {
		out = append(out,
			pval{class: "above-uint64", s: "18446744073709551616"}, pval{class: "negative", s: "-9223372036854775808"}, pval{class: "underscore", s: "1_0"},
			pval{class: "comma", s: "1,0"}, pval{class: "arabic-indic-digit", s: "٣"}, pval{class: "binary-prefix", s: "0b1"}, pval{class: "nul-byte", s: "1\x00"},
			pval{class: "sign-prefixed", s: "-0"}, pval{class: "quoted", s: "'1'"}, pval{class: "sign-prefixed", s: "+0"},
			pval{class: "valid", s: "3"}, pval{class: "valid", s: "4"}, pval{class: "valid", s: "03"}, pval{class: "valid", s: "000"}, pval{class: "valid", s: "1000"},
			pval{class: "valid", s: "4294967296"})
	}
	return out
}

func (w *world) hashAlphabet(thorough bool) []pval {
	b64 := base64.StdEncoding.EncodeToString
	odd := make([]byte, 32) // encodes with '+' and '/' in the standard alphabet, '-' and '_' in the URL-safe one
	for i := range odd {
		odd[i] = 0xfb + byte(i%2)*4
	}
	unknown := merkle.LeafHash([]byte("no such leaf"))
	out := []pval{
		{class: "missing", absent: true}, {class: "empty", s: ""}, {class: "not-base64", s: "!!!!"}, {class: "base64-bad-length", s: "AAA"},
		{class: "base64-url-alphabet", s: base64.URLEncoding.EncodeToString(odd)}, {class: "base64-unpadded", s: base64.RawStdEncoding.EncodeToString(w.hashes[0])},
		{class: "hash-not-32-bytes", s: b64(w.hashes[0][:31])}, {class: "hash-not-32-bytes", s: b64(append(append([]byte{}, w.hashes[0]...), 0))},
		{class: "valid", s: b64(w.hashes[0])}, {class: "valid", s: b64(w.hashes[4])}, {class: "valid", s: b64(unknown)}, {class: "valid", s: b64(odd)},
	}
	if thorough {
		out = append(out, pval{class: "hash-not-32-bytes", s: "AA=="}, pval{class: "hash-not-32-bytes", s: b64(make([]byte, 64))},
			pval{class: "not-base64", s: strings.Repeat("=", 44)}, pval{class: "base64-inner-padding", s: "AA==" + b64(w.hashes[0])},
			pval{class: "valid", s: b64(w.hashes[5])}, pval{class: "valid", s: b64(w.hashes[3])})
	}
	return out
}

func hashParam(p pval) ([]byte, bool) {
	if p.absent || p.s == "" {
		return nil, false
	}
	b, err := base64.StdEncoding.Strict().DecodeString(p.s)
	if err != nil || len(b) != 32 {
		return nil, false
	}
	return b, true
}

// unsign drops the sign of a sign-prefixed number.
func unsign(p pval) pval {
	if p.class != "sign-prefixed" {
		return p
	}
	return pval{class: "valid", s: p.s[1:]}
}

// reqParams builds the GET request for raw parameter values and lets the model judge it.
func (w *world) reqParams(ep int, p0, p1 pval) *request {
	names := epParams[ep]
	var parts []string
	for i, p := range []pval{p0, p1} {
		if !p.absent {
			parts = append(parts, names[i]+"="+url.QueryEscape(p.s))
		}
	}
	r := &request{ep: ep, method: "GET", query: strings.Join(parts, "&")}
	if p0.class == "sign-prefixed" || p1.class == "sign-prefixed" {
		// Whether "+1" / "+0" / "-0" is a malformed decimal number is an interpretation: the request may be
		// refused (4xx, no backend call) or treated exactly like the same request with the unsigned number.
		r.alt = w.reqParams(ep, unsign(p0), unsign(p1))
		r.verdict = vFree
		return r
	}
	bad := func(i int, p pval) {
		r.verdict = vBad
		r.what = "parameter:" + p.class
		if p.class == "valid" { // a well-formed number outside the parameter's own range
			r.what = "parameter:out-of-range"
		}
		_ = names[i]
	}
	if ep == epProof {
		h, ok := hashParam(p0)
		size, ok1 := decimal(p1)
		switch {
		case !ok:
			bad(0, p0)
		case !ok1 || size < 1:
			bad(1, p1)
		default:
			w.judgeProof(r, h, size)
		}
		return r
	}
	x, ok0 := decimal(p0)
	y, ok1 := decimal(p1)
	switch {
	case !ok0:
		bad(0, p0)
	case !ok1:
		bad(1, p1)
	default:
		r.a, r.b = x, y
		switch ep {
		case epCons:
			w.judgeCons(r)
		case epEntries:
			w.judgeEntries(r, x, y)
		case epEAP:
			w.judgeEAP(r, x, y)
		}
	}
	return r
}

// badBodies: submissions that must be refused before the backend is asked.
func (w *world) badBodies(ep int, thorough bool) []*request {
	mine, other := w.fresh[0], w.fresh[3]
	if ep == epAddPreChain {
		mine, other = other, mine
	}
	stray := w.strayChain(ep == epAddPreChain)
	b64 := base64.StdEncoding.EncodeToString
	raw := func(what, body string) *request {
		return &request{ep: ep, method: "POST", body: []byte(body), label: what, verdict: vBad, what: "body:" + what}
	}
	out := []*request{
		raw("empty", ""), raw("empty-object", "{}"), raw("empty-chain", `{"chain":[]}`), raw("json-null", "null"), raw("not-json", "hello"),
		raw("chain-not-array", `{"chain":"x"}`), raw("chain-of-numbers", `{"chain":[1]}`), raw("chain-not-base64", `{"chain":["!!!"]}`),
		raw("json-cut", `{"chain":["`+b64(mine.chain[0])+`"`), raw("json-trailing-data", string(chainBody(mine.chain))+" x"),
		raw("chain-of-garbage", string(chainBody([][]byte{{0xde, 0xad, 0xbe, 0xef}}))),
		raw("leaf-with-trailing-byte", string(chainBody([][]byte{append(append([]byte{}, mine.chain[0]...), 0), mine.chain[1]}))),
		raw("issuer-missing", string(chainBody(mine.chain[:1]))),
		raw("wrong-kind-for-endpoint", string(chainBody(other.chain))),
		raw("untrusted-root", string(chainBody(stray))),
	}
	if thorough {
		out = append(out, raw("json-array", "[]"), raw("chain-null", `{"chain":null}`), raw("empty-certificate", `{"chain":[""]}`),
			raw("leaf-cut", string(chainBody([][]byte{mine.chain[0][:len(mine.chain[0])-1], mine.chain[1]}))))
	}
	return out
}

var wrongMethods = []string{"GET", "POST", "HEAD", "PUT", "DELETE", "PATCH", "OPTIONS", "get", "post", "QUERY"}
