//go:build verif

package c08

import (
	"bytes"
	"context"
	"crypto/ecdsa"
	"crypto/sha256"
	"encoding/json"
	"fmt"
	"strings"
	"sync"
	"time"

	"verif/ref/ct6962"
	"verif/ref/fe"
	"verif/ref/merkle"
	"verif/ref/pki"
	"verif/ref/reflog"

	"github.com/google/trillian"
	"google.golang.org/protobuf/proto"
)

// ----------------------------------------------------------------------------
// healthy in-memory issuance chain store and cache (indirect chain service)

type memStore struct {
	mu    sync.Mutex
	m     map[string][]byte
	calls int
}

func newStore(init map[string][]byte) *memStore {
	s := &memStore{m: map[string][]byte{}}
	for k, v := range init {
		s.m[k] = v
	}
	return s
}

func (s *memStore) FindByKey(_ context.Context, key []byte) ([]byte, error) {
	s.mu.Lock()
	defer s.mu.Unlock()
	s.calls++
	v, ok := s.m[string(key)]
	if !ok {
		return nil, fmt.Errorf("issuance chain not found: %x", key)
	}
	return append([]byte{}, v...), nil
}

func (s *memStore) Add(_ context.Context, key []byte, chain []byte) error {
	s.mu.Lock()
	defer s.mu.Unlock()
	s.calls++
	if _, ok := s.m[string(key)]; !ok {
		s.m[string(key)] = append([]byte{}, chain...)
	}
	return nil
}

func (s *memStore) Calls() int { s.mu.Lock(); defer s.mu.Unlock(); return s.calls }

func (s *memStore) snapshot() map[string][]byte {
	s.mu.Lock()
	defer s.mu.Unlock()
	out := map[string][]byte{}
	for k, v := range s.m {
		out[k] = v
	}
	return out
}

type memCache struct {
	mu sync.Mutex
	m  map[string][]byte
}

func (c *memCache) Get(_ context.Context, key []byte) ([]byte, error) {
	c.mu.Lock()
	defer c.mu.Unlock()
	if v, ok := c.m[string(key)]; ok {
		return append([]byte{}, v...), nil
	}
	return nil, nil
}

func (c *memCache) Set(_ context.Context, key []byte, chain []byte) error {
	c.mu.Lock()
	defer c.mu.Unlock()
	c.m[string(key)] = append([]byte{}, chain...)
	return nil
}

// ----------------------------------------------------------------------------
// the world: one hierarchy, six seeded entries, fresh submissions

const (
	svcDirect   = 0
	svcIndirect = 1
	treeID      = 4242
	nSeed       = 6 // sequenced leaves in the backend of every sequence
)

var svcName = []string{"direct", "indirect"}

var (
	seedTime  = time.Date(2024, 5, 1, 10, 0, 0, 0, time.UTC) // clock of the i-th seeding submission is seedTime + i s
	rootNanos = uint64(time.Date(2024, 5, 1, 11, 0, 0, 0, time.UTC).UnixNano())
	seqTime   = time.Date(2024, 5, 2, 9, 0, 0, 0, time.UTC) // clock of request i of a sequence is seqTime + i s
)

// sub is one submission with its ground truth (from templates only).
type sub struct {
	id    string
	pre   bool
	leaf  *pki.Cert
	chain [][]byte           // as submitted: leaf, intermediate (root omitted)
	path  [][]byte           // leaf, intermediate, root
	entry ct6962.SignedEntry // what an SCT over it signs
}

func (s *sub) extraData() []byte {
	var b []byte
	var err error
	if s.pre {
		b, err = ct6962.AppendPrecertChainEntry(nil, ct6962.PrecertChainEntry{PreCertificate: s.path[0], Chain: s.path[1:]})
	} else {
		b, err = ct6962.AppendCertificateChain(nil, s.path[1:])
	}
	if err != nil {
		panic(err)
	}
	return b
}

func (s *sub) leafInput(tsMillis uint64) []byte {
	b, err := ct6962.AppendMerkleTreeLeaf(nil, ct6962.MerkleTreeLeaf{Version: ct6962.V1, LeafType: ct6962.TimestampedEntryLeaf,
		Entry: ct6962.TimestampedEntry{Timestamp: tsMillis, SignedEntry: s.entry}})
	if err != nil {
		panic(err)
	}
	return b
}

type seedData struct {
	leaves []*trillian.LogLeaf // as stored by the backend after seeding through the real front end
	store  map[string][]byte
}

type world struct {
	root, inter *pki.Cert
	signer      *pki.Key
	logID       [32]byte
	seeds       []*sub // index = leaf index
	fresh       []*sub // 3 certificates then 3 precertificates, never seeded
	leafInput   [][]byte
	extra       [][]byte
	hashes      [][]byte
	seed        [2]*seedData
	subByID     map[string]*sub
	strayRoot   *pki.Cert
	seedTS      map[string]uint64
}

func millis(t time.Time) uint64 { return uint64(t.UnixNano() / 1e6) }

func newWorld() *world {
	w := &world{signer: pki.LoadKey("p256-6"), subByID: map[string]*sub{}, seedTS: map[string]uint64{}}
	w.logID = w.signer.KeyHash()
	w.root = pki.NewRoot("C08 Root", pki.LoadKey("p256-0"))
	w.inter = pki.NewCA("C08 Intermediate", pki.LoadKey("p256-1"), w.root, pki.CAOpts{})
	mk := func(id string, pre bool) *sub {
		aki := w.inter.T.Key.KeyHash()
		exts := []pki.Ext{pki.ExtSAN(id + ".example"), pki.ExtAKI(aki[:20])}
		if pre {
			exts = append(exts, pki.ExtPoison())
		}
		l := pki.NewLeaf(id, pki.LoadKey("p256-3"), w.inter, pki.LeafOpts{Exts: exts})
		s := &sub{id: id, pre: pre, leaf: l, chain: [][]byte{l.DER, w.inter.DER}, path: [][]byte{l.DER, w.inter.DER, w.root.DER}}
		if pre {
			// RFC 6962 s3.2: the TBSCertificate without the poison extension, and the issuer key hash
			t := l.T
			t.Exts = nil
			for _, e := range l.T.Exts {
				if e.Label != "poison" {
					t.Exts = append(t.Exts, e)
				}
			}
			s.entry = ct6962.SignedEntry{EntryType: ct6962.PrecertEntry, IssuerKeyHash: w.inter.T.Key.KeyHash(), TBS: t.TBS(l.Signer.SigAlgDER())}
		} else {
			s.entry = ct6962.SignedEntry{EntryType: ct6962.X509Entry, Cert: l.DER}
		}
		w.subByID[id] = s
		return s
	}
	for i := 0; i < nSeed; i++ {
		w.seeds = append(w.seeds, mk(fmt.Sprintf("seed%d", i), i%2 == 1))
	}
	for i := 0; i < 3; i++ {
		w.fresh = append(w.fresh, mk(fmt.Sprintf("cert%d", i), false))
	}
	for i := 0; i < 3; i++ {
		w.fresh = append(w.fresh, mk(fmt.Sprintf("pre%d", i), true))
	}
	w.strayRoot = pki.NewRoot("C08 Untrusted Root", pki.LoadKey("p256-8"))
	for i, s := range w.seeds {
		ts := millis(seedTime.Add(time.Duration(i) * time.Second))
		w.seedTS[s.id] = ts
		li := s.leafInput(ts)
		w.leafInput = append(w.leafInput, li)
		w.extra = append(w.extra, s.extraData())
		w.hashes = append(w.hashes, merkle.LeafHash(li))
	}
	return w
}

// strayChain is a well-formed chain to a root the log does not trust.
func (w *world) strayChain(pre bool) [][]byte {
	aki := w.strayRoot.T.Key.KeyHash()
	exts := []pki.Ext{pki.ExtSAN("stray.example"), pki.ExtAKI(aki[:20])}
	if pre {
		exts = append(exts, pki.ExtPoison())
	}
	l := pki.NewLeaf("stray", pki.LoadKey("p256-3"), w.strayRoot, pki.LeafOpts{Exts: exts, Serial: []byte{0x7f, 0x01}})
	return [][]byte{l.DER, w.strayRoot.DER}
}

// instance is one front end over one backend, built fresh for every sequence.
type instance struct {
	be    *reflog.Log
	fe    *fe.FE
	clock *fe.Clock
	store *memStore
}

func (w *world) newInstance(svc int, mask bool, be *reflog.Log, st *memStore) *instance {
	clock := &fe.Clock{T: seqTime}
	cfg := fe.Config{LogID: treeID, Prefix: "log", Roots: [][]byte{w.root.DER}, Signer: w.signer.Priv, Client: be, Clock: clock, Mask: mask}
	if svc == svcIndirect {
		cfg.Store = st
		cfg.Cache = &memCache{m: map[string][]byte{}}
	}
	f, err := fe.New(cfg)
	if err != nil {
		panic(err)
	}
	return &instance{be: be, fe: f, clock: clock, store: st}
}

// seedThrough fills a backend by submitting the seeds to a real front end of the given chain service.
func (w *world) seedThrough(svc int) (*seedData, string) {
	be := reflog.New(treeID)
	st := newStore(nil)
	in := w.newInstance(svc, false, be, st)
	for i, s := range w.seeds {
		in.clock.Set(seedTime.Add(time.Duration(i) * time.Second))
		rsp, _ := in.fe.AddChain(s.pre, s.chain)
		if rsp.Status != 200 {
			return nil, fmt.Sprintf("seeding %s through the %s front end: HTTP %d %s", s.id, svcName[svc], rsp.Status, rsp.Body)
		}
	}
	if n := be.Sequence(-1, rootNanos); n != nSeed {
		return nil, fmt.Sprintf("seeding: %d leaves sequenced, want %d", n, nSeed)
	}
	sd := &seedData{store: st.snapshot()}
	for i := 0; i < nSeed; i++ {
		sd.leaves = append(sd.leaves, be.Leaf(i))
	}
	return sd, ""
}

// freshBackend returns a backend holding the seeded leaves (sequenced, root at rootNanos) and a store copy.
func (w *world) freshBackend(svc int) (*reflog.Log, *memStore) {
	be := reflog.New(treeID)
	for _, lf := range w.seed[svc].leaves {
		c := proto.Clone(lf).(*trillian.LogLeaf)
		if _, err := be.QueueLeaf(context.Background(), &trillian.QueueLeafRequest{LogId: treeID, Leaf: c}); err != nil {
			panic(err)
		}
	}
	be.Sequence(-1, rootNanos)
	be.ResetCalls()
	return be, newStore(w.seed[svc].store)
}

// ----------------------------------------------------------------------------
// reference model of the healthy answers (RFC 6962 s4), from templates + ref/merkle only

type jSTH struct {
	TreeSize  uint64 `json:"tree_size"`
	Timestamp uint64 `json:"timestamp"`
	Root      []byte `json:"sha256_root_hash"`
	Sig       []byte `json:"tree_head_signature"`
}
type jCons struct {
	Consistency [][]byte `json:"consistency"`
}
type jProof struct {
	LeafIndex int64    `json:"leaf_index"`
	AuditPath [][]byte `json:"audit_path"`
}
type jEntry struct {
	LeafInput []byte `json:"leaf_input"`
	ExtraData []byte `json:"extra_data"`
}
type jEntries struct {
	Entries []jEntry `json:"entries"`
}
type jEAP struct {
	LeafInput []byte   `json:"leaf_input"`
	ExtraData []byte   `json:"extra_data"`
	AuditPath [][]byte `json:"audit_path"`
}
type jRoots struct {
	Certificates [][]byte `json:"certificates"`
}
type jSCT struct {
	Version    *uint8  `json:"sct_version"`
	ID         []byte  `json:"id"`
	Timestamp  *uint64 `json:"timestamp"`
	Extensions *string `json:"extensions"`
	Signature  []byte  `json:"signature"`
}

func strictJSON(body []byte, v any) error {
	d := json.NewDecoder(bytes.NewReader(body))
	d.DisallowUnknownFields()
	if err := d.Decode(v); err != nil {
		return err
	}
	if d.More() {
		return fmt.Errorf("trailing data after JSON value")
	}
	return nil
}

func eqList(a, b [][]byte) bool {
	if len(a) != len(b) {
		return false
	}
	for i := range a {
		if !bytes.Equal(a[i], b[i]) {
			return false
		}
	}
	return true
}

func hexList(l [][]byte) string {
	var s []string
	for _, b := range l {
		s = append(s, fmt.Sprintf("%x", b))
	}
	return "[" + strings.Join(s, ",") + "]"
}

func (w *world) verifyLogSig(input []byte, ds []byte) string {
	d, err := ct6962.ParseDigitallySigned(ds)
	if err != nil {
		return "signature is not a DigitallySigned: " + err.Error()
	}
	if d.Hash != 4 || d.Sig != 3 {
		return fmt.Sprintf("signature algorithm (%d,%d), want sha256/ecdsa (4,3)", d.Hash, d.Sig)
	}
	h := sha256.Sum256(input)
	if !ecdsa.VerifyASN1(w.signer.Priv.Public().(*ecdsa.PublicKey), h[:], d.Signature) {
		return "signature does not verify under the log key"
	}
	return ""
}

// checkSCT judges an add-chain answer: a v1 SCT of this log over s at timestamp ts.
func (w *world) checkSCT(body []byte, s *sub, ts uint64) string {
	var j jSCT
	if err := strictJSON(body, &j); err != nil {
		return "body is not an add-chain response: " + err.Error()
	}
	if j.Version == nil || j.Timestamp == nil || j.Extensions == nil {
		return "add-chain response lacks a field"
	}
	if *j.Version != 0 || !bytes.Equal(j.ID, w.logID[:]) || *j.Extensions != "" {
		return fmt.Sprintf("sct_version=%d id=%x extensions=%q, want 0, %x, \"\"", *j.Version, j.ID, *j.Extensions, w.logID)
	}
	if *j.Timestamp != ts {
		return fmt.Sprintf("SCT timestamp %d, want %d (time of the first stored submission of this chain)", *j.Timestamp, ts)
	}
	in, err := ct6962.AppendSCTSignatureInput(nil, ct6962.V1, ts, s.entry, nil)
	if err != nil {
		panic(err)
	}
	return w.verifyLogSig(in, j.Signature)
}

// checkIssued judges the bytes handed to RequestLog.IssueSCT.
func (w *world) checkIssued(b []byte, s *sub, ts uint64) string {
	sct, err := ct6962.ParseSCT(b)
	if err != nil {
		return "IssueSCT argument is not an SCT: " + err.Error()
	}
	if sct.Version != 0 || sct.LogID != w.logID || sct.Timestamp != ts || len(sct.Extensions) != 0 {
		return fmt.Sprintf("IssueSCT argument: version %d id %x timestamp %d, want 0 %x %d", sct.Version, sct.LogID, sct.Timestamp, w.logID, ts)
	}
	in, _ := ct6962.AppendSCTSignatureInput(nil, ct6962.V1, ts, s.entry, nil)
	ds, _ := ct6962.AppendDigitallySigned(nil, sct.Signature)
	return w.verifyLogSig(in, ds)
}

func (w *world) checkSTH(body []byte) string {
	var j jSTH
	if err := strictJSON(body, &j); err != nil {
		return "body is not a get-sth response: " + err.Error()
	}
	root := merkle.Root(w.hashes)
	if j.TreeSize != nSeed || j.Timestamp != rootNanos/1e6 || !bytes.Equal(j.Root, root) {
		return fmt.Sprintf("STH (size %d, timestamp %d, root %x), want (%d, %d, %x)", j.TreeSize, j.Timestamp, j.Root, nSeed, rootNanos/1e6, root)
	}
	var r32 [32]byte
	copy(r32[:], root)
	in, _ := ct6962.AppendSTHSignatureInput(nil, ct6962.V1, j.Timestamp, j.TreeSize, r32)
	return w.verifyLogSig(in, j.Sig)
}

func (w *world) checkConsistency(body []byte, first, second int64) string {
	var j jCons
	if err := strictJSON(body, &j); err != nil {
		return "body is not a get-sth-consistency response: " + err.Error()
	}
	want := [][]byte{}
	if first > 0 {
		want = merkle.Proof(int(first), w.hashes[:second])
	}
	if !eqList(j.Consistency, want) {
		return fmt.Sprintf("consistency(%d,%d) = %s, want %s", first, second, hexList(j.Consistency), hexList(want))
	}
	return ""
}

// indexOfHash returns the lowest index < size whose leaf hash is h, or -1.
func (w *world) indexOfHash(h []byte, size int64) int {
	for i := 0; i < int(size) && i < nSeed; i++ {
		if bytes.Equal(w.hashes[i], h) {
			return i
		}
	}
	return -1
}

func (w *world) checkProof(body []byte, idx int, size int64) string {
	var j jProof
	if err := strictJSON(body, &j); err != nil {
		return "body is not a get-proof-by-hash response: " + err.Error()
	}
	want := merkle.Path(idx, w.hashes[:size])
	if j.LeafIndex != int64(idx) || !eqList(j.AuditPath, want) {
		return fmt.Sprintf("proof = (index %d, %s), want (%d, %s)", j.LeafIndex, hexList(j.AuditPath), idx, hexList(want))
	}
	return ""
}

func (w *world) checkEntries(body []byte, start, end int64) string {
	var j jEntries
	if err := strictJSON(body, &j); err != nil {
		return "body is not a get-entries response: " + err.Error()
	}
	last := end
	if last > nSeed-1 {
		last = nSeed - 1
	}
	if int64(len(j.Entries)) != last-start+1 {
		return fmt.Sprintf("%d entries for [%d,%d] of a tree of %d, want %d", len(j.Entries), start, end, nSeed, last-start+1)
	}
	for k, e := range j.Entries {
		i := int(start) + k
		if !bytes.Equal(e.LeafInput, w.leafInput[i]) || !bytes.Equal(e.ExtraData, w.extra[i]) {
			return fmt.Sprintf("entry %d: leaf_input %x extra_data %x, want %x %x", i, e.LeafInput, e.ExtraData, w.leafInput[i], w.extra[i])
		}
	}
	return ""
}

func (w *world) checkEAP(body []byte, idx, size int64) string {
	var j jEAP
	if err := strictJSON(body, &j); err != nil {
		return "body is not a get-entry-and-proof response: " + err.Error()
	}
	want := merkle.Path(int(idx), w.hashes[:size])
	if !bytes.Equal(j.LeafInput, w.leafInput[idx]) || !bytes.Equal(j.ExtraData, w.extra[idx]) || !eqList(j.AuditPath, want) {
		return fmt.Sprintf("entry-and-proof(%d,%d) = (%x, %x, %s), want (%x, %x, %s)", idx, size, j.LeafInput, j.ExtraData, hexList(j.AuditPath),
			w.leafInput[idx], w.extra[idx], hexList(want))
	}
	return ""
}

func (w *world) checkRoots(body []byte) string {
	var j jRoots
	if err := strictJSON(body, &j); err != nil {
		return "body is not a get-roots response: " + err.Error()
	}
	if !eqList(j.Certificates, [][]byte{w.root.DER}) {
		return fmt.Sprintf("get-roots returns %d certificates, want exactly the configured root", len(j.Certificates))
	}
	return ""
}
