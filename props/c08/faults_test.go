//go:build verif

package c08

import (
	"context"
	"encoding/binary"
	"errors"
	"fmt"

	"verif/ref/merkle"

	"github.com/google/trillian"
	"google.golang.org/grpc/codes"
	"google.golang.org/grpc/status"
	"google.golang.org/protobuf/proto"
)

// want is what the statement demands of the HTTP status of a faulty call.
type want struct {
	exact    int  // this very status
	c4, c5   bool // any status of the class
	generic5 bool // 5xx, but none of the statuses reserved for a specific cause (501, 503, 504)
	free     bool // outside the statement: only "no panic, neighbours healthy" is judged
	sound200 bool // with free: the status is unconstrained, but a 200 must carry what a healthy backend's answer would have carried
}

func (w want) String() string {
	switch {
	case w.free && w.sound200:
		return "any status, but a 200 only with the sound content"
	case w.free:
		return "unconstrained"
	case w.exact != 0:
		return fmt.Sprint(w.exact)
	case w.generic5:
		return "5xx (not 501/503/504)"
	case w.c4 && w.c5:
		return "4xx or 5xx"
	case w.c4:
		return "4xx"
	}
	return "5xx"
}

func (w want) ok(st int) bool {
	switch {
	case w.free:
		return true
	case w.exact != 0:
		return st == w.exact
	case w.generic5:
		return st/100 == 5 && st != 501 && st != 503 && st != 504
	}
	return (w.c4 && st/100 == 4) || (w.c5 && st/100 == 5)
}

var (
	w5    = want{generic5: true}
	w4    = want{c4: true}
	w45   = want{c4: true, c5: true}
	wFree = want{free: true}
)

// fault is one way a single backend call can go wrong.
type fault struct {
	name  string // exact
	class string // coarse: goes into violation signatures
	rpc   string
	err   error
	mut   func(x *inj, rsp proto.Message) proto.Message // healthy reply (a private copy) -> faulty reply; nil = no reply at all
	want  want
	appl  func(r *request) bool
}

func (f *fault) applicable(r *request) bool { return f.appl == nil || f.appl(r) }

const secret = "backend-internal-detail-7731"

// okCodeErr is a non-nil error whose gRPC status code is OK.
type okCodeErr struct{}

func (okCodeErr) Error() string              { return "error value carrying code OK " + secret }
func (okCodeErr) GRPCStatus() *status.Status { return status.New(codes.OK, "ok "+secret) }

var codeStatus = map[codes.Code]want{
	codes.Canceled:           {exact: 504},
	codes.Unknown:            w5,
	codes.InvalidArgument:    {exact: 400},
	codes.DeadlineExceeded:   {exact: 504},
	codes.NotFound:           {exact: 404},
	codes.AlreadyExists:      {exact: 400},
	codes.PermissionDenied:   {exact: 403},
	codes.ResourceExhausted:  {exact: 429},
	codes.FailedPrecondition: {exact: 412},
	codes.Aborted:            {exact: 409},
	codes.OutOfRange:         {exact: 400},
	codes.Unimplemented:      {exact: 501},
	codes.Internal:           w5,
	codes.Unavailable:        {exact: 503},
	codes.DataLoss:           w5,
	codes.Unauthenticated:    {exact: 401},
}

// errorFaults: every non-OK gRPC code as status.Error (status.Error(codes.OK) is the nil error and
// coincides with the "no reply" fault), a wrapped status error, a plain error, a raw context
// deadline error and an error value that claims code OK.
func errorFaults(rpc string) []*fault {
	var out []*fault
	for c := codes.Canceled; c <= codes.Unauthenticated; c++ {
		out = append(out, &fault{name: "code-" + c.String(), class: "code-" + c.String(), rpc: rpc,
			err: status.Error(c, "injected "+c.String()+" "+secret), want: codeStatus[c]})
	}
	// numeric codes gRPC has not assigned (grpc-go passes them through unchanged): "every other backend fault" = 5xx
	for _, c := range []codes.Code{17, 42, 1000} {
		out = append(out, &fault{name: fmt.Sprintf("code-unassigned-%d", c), class: "code-unassigned", rpc: rpc,
			err: status.Error(c, "injected unassigned code "+secret), want: w5})
	}
	out = append(out,
		&fault{name: "wrapped-Unavailable", class: "wrapped-status-error", rpc: rpc, err: fmt.Errorf("rpc layer: %w", status.Error(codes.Unavailable, "injected "+secret)), want: want{exact: 503}},
		&fault{name: "wrapped-ResourceExhausted", class: "wrapped-status-error", rpc: rpc, err: fmt.Errorf("rpc layer: %w", status.Error(codes.ResourceExhausted, "injected "+secret)), want: want{exact: 429}},
		&fault{name: "plain-error", class: "plain-error", rpc: rpc, err: errors.New("plain backend failure " + secret), want: w5},
		&fault{name: "context.DeadlineExceeded", class: "raw-context-deadline-error", rpc: rpc, err: context.DeadlineExceeded, want: want{exact: 504}},
		&fault{name: "error-with-code-OK", class: "error-value-with-code-OK", rpc: rpc, err: okCodeErr{}, want: w5},
		// the context's own errors as an RPC layer, an interceptor or net/url hands them on: still a timeout
		&fault{name: "context.Canceled", class: "raw-context-canceled-error", rpc: rpc, err: context.Canceled, want: want{exact: 504}},
		&fault{name: "wrapped-context.DeadlineExceeded", class: "wrapped-context-error", rpc: rpc, err: fmt.Errorf("rpc layer %s: %w", secret, context.DeadlineExceeded), want: want{exact: 504}},
		&fault{name: "wrapped-context.Canceled", class: "wrapped-context-error", rpc: rpc, err: fmt.Errorf("rpc layer %s: %w", secret, context.Canceled), want: want{exact: 504}},
	)
	return out
}

// ----------------------------------------------------------------------------
// log root (trillian types.LogRootV1 wire layout: u16 version, u64 size, opaque<0..128> hash,
// u64 timestamp, u64 revision, opaque<0..65535> metadata)

type rootV1 struct {
	version uint16
	size    uint64
	hash    []byte
	ts, rev uint64
	meta    []byte
}

func decRoot(b []byte) rootV1 {
	var r rootV1
	r.version = binary.BigEndian.Uint16(b)
	r.size = binary.BigEndian.Uint64(b[2:])
	n := int(b[10])
	r.hash = append([]byte{}, b[11:11+n]...)
	b = b[11+n:]
	r.ts = binary.BigEndian.Uint64(b)
	r.rev = binary.BigEndian.Uint64(b[8:])
	m := int(binary.BigEndian.Uint16(b[16:]))
	r.meta = append([]byte{}, b[18:18+m]...)
	if len(b) != 18+m {
		panic("healthy log root has trailing data")
	}
	return r
}

func (r rootV1) enc() []byte {
	b := binary.BigEndian.AppendUint16(nil, r.version)
	b = binary.BigEndian.AppendUint64(b, r.size)
	b = append(b, byte(len(r.hash)))
	b = append(b, r.hash...)
	b = binary.BigEndian.AppendUint64(b, r.ts)
	b = binary.BigEndian.AppendUint64(b, r.rev)
	b = binary.BigEndian.AppendUint16(b, uint16(len(r.meta)))
	return append(b, r.meta...)
}

func getSLR(m proto.Message) *trillian.SignedLogRoot {
	return m.(interface {
		GetSignedLogRoot() *trillian.SignedLogRoot
	}).GetSignedLogRoot()
}

func setSLR(m proto.Message, s *trillian.SignedLogRoot) {
	switch v := m.(type) {
	case *trillian.GetLatestSignedLogRootResponse:
		v.SignedLogRoot = s
	case *trillian.GetConsistencyProofResponse:
		v.SignedLogRoot = s
	case *trillian.GetInclusionProofByHashResponse:
		v.SignedLogRoot = s
	case *trillian.GetLeavesByRangeResponse:
		v.SignedLogRoot = s
	case *trillian.GetEntryAndProofResponse:
		v.SignedLogRoot = s
	default:
		panic(fmt.Sprintf("setSLR: %T", m))
	}
}

func withLogRoot(f func(b []byte) []byte) func(*inj, proto.Message) proto.Message {
	return func(_ *inj, m proto.Message) proto.Message {
		setSLR(m, &trillian.SignedLogRoot{LogRoot: f(getSLR(m).GetLogRoot())})
		return m
	}
}

func withRoot(f func(r *rootV1)) func(*inj, proto.Message) proto.Message {
	return withLogRoot(func(b []byte) []byte { r := decRoot(b); f(&r); return r.enc() })
}

// headFaults: the reply is absent, or its tree head is missing or garbled.
func headFaults(rpc string) []*fault {
	mk := func(name, class string, mut func(*inj, proto.Message) proto.Message) *fault {
		return &fault{name: name, class: class, rpc: rpc, mut: mut, want: w5}
	}
	return []*fault{
		mk("no-reply(nil,nil)", "nil-response", func(*inj, proto.Message) proto.Message { return nil }),
		mk("signed-log-root-absent", "signed-log-root-absent", func(_ *inj, m proto.Message) proto.Message { setSLR(m, nil); return m }),
		mk("log-root-empty", "log-root-empty", withLogRoot(func([]byte) []byte { return []byte{} })),
		mk("log-root-cut-1", "log-root-truncated", withLogRoot(func(b []byte) []byte { return b[:len(b)-1] })),
		mk("log-root-cut-half", "log-root-truncated", withLogRoot(func(b []byte) []byte { return b[:len(b)/2] })),
		mk("log-root-version-only", "log-root-truncated", withLogRoot(func(b []byte) []byte { return b[:2] })),
		mk("log-root-version-0", "log-root-wrong-version", withRoot(func(r *rootV1) { r.version = 0 })),
		mk("log-root-version-2", "log-root-wrong-version", withRoot(func(r *rootV1) { r.version = 2 })),
		mk("log-root-trailing-byte", "log-root-trailing-byte", withLogRoot(func(b []byte) []byte { return append(append([]byte{}, b...), 0) })),
		mk("root-hash-0-bytes", "root-hash-size", withRoot(func(r *rootV1) { r.hash = nil })),
		mk("root-hash-31-bytes", "root-hash-size", withRoot(func(r *rootV1) { r.hash = r.hash[:31] })),
		mk("root-hash-33-bytes", "root-hash-size", withRoot(func(r *rootV1) { r.hash = append(r.hash, 0x5a) })),
	}
}

// shrink replaces the tree head by a well-formed head of a smaller tree.
func shrink(x *inj, m proto.Message, size int64) {
	r := decRoot(getSLR(m).GetLogRoot())
	r.size = uint64(size)
	r.hash = merkle.Root(x.w.hashes[:size])
	setSLR(m, &trillian.SignedLogRoot{LogRoot: r.enc()})
}

// smallerFaults: the backend's tree is smaller than the request needs; dataless replies as the
// real backend gives them. strip removes the parts a backend cannot serve from the smaller tree.
func smallerFaults(rpc string, strip func(m proto.Message)) []*fault {
	keepWant := w4
	if rpc == "GetLeavesByRange" {
		keepWant = w45 // leaves from beyond the announced tree: caller-caused and inconsistent at once
	}
	return []*fault{
		{name: "tree-one-smaller-but-data-served", class: "tree-smaller-than-needed", rpc: rpc, want: keepWant,
			mut: func(x *inj, m proto.Message) proto.Message { shrink(x, m, x.req.needs-1); return m }},
		{name: "tree-one-smaller-than-needed", class: "tree-smaller-than-needed", rpc: rpc, want: w4,
			mut: func(x *inj, m proto.Message) proto.Message { shrink(x, m, x.req.needs-1); strip(m); return m }},
		{name: "tree-empty", class: "tree-smaller-than-needed", rpc: rpc, want: w4, appl: func(r *request) bool { return r.needs > 1 },
			mut: func(x *inj, m proto.Message) proto.Message { shrink(x, m, 0); strip(m); return m }},
	}
}

var nodeSizes = []int{0, 31, 33}

func resize(h []byte, n int) []byte {
	out := make([]byte, n)
	copy(out, h)
	if n > len(h) {
		out[n-1] = 0x5a
	}
	return out
}

// nodeFaults: one proof node of the wrong size, at the first / middle / last position.
func nodeFaults(rpc string, w want, proof func(m proto.Message) *trillian.Proof) []*fault {
	var out []*fault
	for _, pos := range []string{"first", "middle", "last"} {
		for _, n := range nodeSizes {
			pos, n := pos, n
			out = append(out, &fault{name: fmt.Sprintf("proof-node-%s-%d-bytes", pos, n), class: "proof-node-size", rpc: rpc, want: w,
				appl: func(r *request) bool {
					switch pos {
					case "first":
						return r.pathLen >= 1
					case "last":
						return r.pathLen >= 2
					}
					return r.pathLen >= 3
				},
				mut: func(_ *inj, m proto.Message) proto.Message {
					p := proof(m)
					i := 0
					switch pos {
					case "middle":
						i = len(p.Hashes) / 2
					case "last":
						i = len(p.Hashes) - 1
					}
					hs := make([][]byte, len(p.Hashes))
					copy(hs, p.Hashes)
					hs[i] = resize(hs[i], n)
					p.Hashes = hs
					return m
				}})
		}
	}
	return out
}

func consistencyFaults() []*fault {
	const rpc = "GetConsistencyProof"
	out := append(errorFaults(rpc), headFaults(rpc)...)
	out = append(out, smallerFaults(rpc, func(m proto.Message) { m.(*trillian.GetConsistencyProofResponse).Proof = nil })...)
	out = append(out,
		&fault{name: "proof-absent", class: "proof-absent", rpc: rpc, want: w5,
			mut: func(_ *inj, m proto.Message) proto.Message {
				m.(*trillian.GetConsistencyProofResponse).Proof = nil
				return m
			}},
		// not named by the statement: a present proof without nodes where the RFC proof is non-empty
		&fault{name: "proof-without-nodes", class: "proof-without-nodes", rpc: rpc, want: wFree, appl: func(r *request) bool { return r.pathLen > 0 },
			mut: func(_ *inj, m proto.Message) proto.Message {
				m.(*trillian.GetConsistencyProofResponse).Proof = &trillian.Proof{}
				return m
			}},
	)
	return append(out, nodeFaults(rpc, w5, func(m proto.Message) *trillian.Proof { return m.(*trillian.GetConsistencyProofResponse).Proof })...)
}

func proofByHashFaults() []*fault {
	const rpc = "GetInclusionProofByHash"
	out := append(errorFaults(rpc), headFaults(rpc)...)
	out = append(out, smallerFaults(rpc, func(m proto.Message) { m.(*trillian.GetInclusionProofByHashResponse).Proof = nil })...)
	out = append(out,
		// a sound tree head and no proof: the front end cannot tell "unknown hash" (caller) from a backend fault
		&fault{name: "proof-list-empty", class: "proof-list-empty", rpc: rpc, want: w45,
			mut: func(_ *inj, m proto.Message) proto.Message {
				m.(*trillian.GetInclusionProofByHashResponse).Proof = nil
				return m
			}},
		&fault{name: "proof-without-nodes", class: "proof-without-nodes", rpc: rpc, want: wFree, appl: func(r *request) bool { return r.pathLen > 0 },
			mut: func(_ *inj, m proto.Message) proto.Message {
				v := m.(*trillian.GetInclusionProofByHashResponse)
				v.Proof = []*trillian.Proof{{LeafIndex: v.Proof[0].LeafIndex}}
				return m
			}},
	)
	// several proofs in one reply (the backend holds the leaf hash more than once): whatever the front end does with
	// the surplus, a proof it serves has nodes of the right size and is the proof of the leaf asked for
	for _, delta := range []int64{-1, 0, 1} {
		for _, n := range nodeSizes {
			for _, where := range []string{"after", "before"} {
				delta, n, where := delta, n, where
				f := &fault{name: fmt.Sprintf("surplus-proof-%s-index%+d-node-%d-bytes", where, delta, n), class: "surplus-proof-with-bad-node", rpc: rpc, want: want{free: true, sound200: true},
					appl: func(r *request) bool { return r.pathLen >= 1 && (delta >= 0 || r.a >= 1) },
					mut: func(_ *inj, m proto.Message) proto.Message {
						v := m.(*trillian.GetInclusionProofByHashResponse)
						p0 := v.Proof[0]
						hs := make([][]byte, len(p0.Hashes))
						copy(hs, p0.Hashes)
						hs[0] = resize(hs[0], n)
						extra := &trillian.Proof{LeafIndex: p0.LeafIndex + delta, Hashes: hs}
						if where == "after" {
							v.Proof = []*trillian.Proof{p0, extra}
						} else {
							v.Proof = []*trillian.Proof{extra, p0}
						}
						return m
					}}
				if where == "before" {
					f.want = w5 // the first proof itself is ill-formed: as for a single proof
				}
				out = append(out, f)
			}
		}
	}
	return append(out, nodeFaults(rpc, w5, func(m proto.Message) *trillian.Proof { return m.(*trillian.GetInclusionProofByHashResponse).Proof[0] })...)
}

func entryAndProofFaults() []*fault {
	const rpc = "GetEntryAndProof"
	out := append(errorFaults(rpc), headFaults(rpc)...)
	out = append(out, smallerFaults(rpc, func(m proto.Message) {
		v := m.(*trillian.GetEntryAndProofResponse)
		v.Leaf, v.Proof = nil, nil
	})...)
	out = append(out,
		&fault{name: "leaf-absent", class: "leaf-absent", rpc: rpc, want: w5,
			mut: func(_ *inj, m proto.Message) proto.Message {
				m.(*trillian.GetEntryAndProofResponse).Leaf = nil
				return m
			}},
		&fault{name: "leaf-value-empty", class: "leaf-value-empty", rpc: rpc, want: w5,
			mut: func(_ *inj, m proto.Message) proto.Message {
				m.(*trillian.GetEntryAndProofResponse).Leaf.LeafValue = nil
				return m
			}},
		&fault{name: "proof-absent", class: "proof-absent", rpc: rpc, want: w5,
			mut: func(_ *inj, m proto.Message) proto.Message {
				m.(*trillian.GetEntryAndProofResponse).Proof = nil
				return m
			}},
		&fault{name: "proof-without-nodes", class: "proof-without-nodes", rpc: rpc, want: w5, appl: func(r *request) bool { return r.pathLen > 0 },
			mut: func(_ *inj, m proto.Message) proto.Message {
				m.(*trillian.GetEntryAndProofResponse).Proof = &trillian.Proof{LeafIndex: m.(*trillian.GetEntryAndProofResponse).Proof.LeafIndex}
				return m
			}},
	)
	// the statement limits the proof-node-size clause to the two proof-only endpoints
	return append(out, nodeFaults(rpc, wFree, func(m proto.Message) *trillian.Proof { return m.(*trillian.GetEntryAndProofResponse).Proof })...)
}

func entriesFaults() []*fault {
	const rpc = "GetLeavesByRange"
	out := append(errorFaults(rpc), headFaults(rpc)...)
	out = append(out, smallerFaults(rpc, func(m proto.Message) { m.(*trillian.GetLeavesByRangeResponse).Leaves = nil })...)
	lv := func(m proto.Message) *trillian.GetLeavesByRangeResponse {
		return m.(*trillian.GetLeavesByRangeResponse)
	}
	full := func(r *request) bool { return r.b < nSeed-1 } // the healthy reply holds exactly the requested count and a next leaf exists
	reidx := func(name string, appl func(*request) bool, f func(i int, n int, start int64) int64) *fault {
		return &fault{name: name, class: "leaves-mis-indexed", rpc: rpc, want: w5, appl: appl,
			mut: func(x *inj, m proto.Message) proto.Message {
				v := lv(m)
				for i, l := range v.Leaves {
					l.LeafIndex = f(i, len(v.Leaves), x.req.a)
				}
				return m
			}}
	}
	multi := func(r *request) bool { return r.b > r.a }
	out = append(out,
		&fault{name: "one-surplus-leaf", class: "leaves-surplus", rpc: rpc, want: w5, appl: full,
			mut: func(x *inj, m proto.Message) proto.Message {
				v := lv(m)
				extra := proto.Clone(x.w.seed[x.svc].leaves[x.req.b+1]).(*trillian.LogLeaf)
				extra.LeafIndex = x.req.b + 1
				v.Leaves = append(v.Leaves, extra)
				return m
			}},
		&fault{name: "whole-tree-instead-of-range", class: "leaves-surplus", rpc: rpc, want: w5, appl: func(r *request) bool { return r.a > 0 },
			mut: func(x *inj, m proto.Message) proto.Message {
				v := lv(m)
				v.Leaves = nil
				for i, l := range x.w.seed[x.svc].leaves {
					c := proto.Clone(l).(*trillian.LogLeaf)
					c.LeafIndex = int64(i)
					v.Leaves = append(v.Leaves, c)
				}
				return m
			}},
		reidx("indices-offset-plus-1", nil, func(i, n int, s int64) int64 { return s + int64(i) + 1 }),
		reidx("indices-offset-minus-1", nil, func(i, n int, s int64) int64 { return s + int64(i) - 1 }),
		reidx("indices-all-zero-based", func(r *request) bool { return r.a > 0 }, func(i, n int, s int64) int64 { return int64(i) }),
		reidx("index-gap-before-last", multi, func(i, n int, s int64) int64 {
			if i == n-1 {
				return s + int64(i) + 1
			}
			return s + int64(i)
		}),
		reidx("indices-reversed", multi, func(i, n int, s int64) int64 { return s + int64(n-1-i) }),
		reidx("indices-all-equal-start", multi, func(i, n int, s int64) int64 { return s }),
		reidx("first-index-wrong-only", nil, func(i, n int, s int64) int64 {
			if i == 0 {
				return s + 7
			}
			return s + int64(i)
		}),
		&fault{name: "leaves-in-reverse-order", class: "leaves-mis-indexed", rpc: rpc, want: w5, appl: multi,
			mut: func(_ *inj, m proto.Message) proto.Message {
				v := lv(m)
				for i, j := 0, len(v.Leaves)-1; i < j; i, j = i+1, j-1 {
					v.Leaves[i], v.Leaves[j] = v.Leaves[j], v.Leaves[i]
				}
				return m
			}},
	)
	return out
}

func sthFaults() []*fault {
	const rpc = "GetLatestSignedLogRoot"
	return append(errorFaults(rpc), headFaults(rpc)...)
}

// queueFaults: the submission RPC fails, or its echo is absent or does not decode (RFC 6962 s3.4).
func queueFaults() []*fault {
	const rpc = "QueueLeaf"
	ql := func(m proto.Message) *trillian.QueueLeafResponse { return m.(*trillian.QueueLeafResponse) }
	value := func(name, class string, w want, f func(b []byte) []byte) *fault {
		return &fault{name: name, class: class, rpc: rpc, want: w,
			mut: func(_ *inj, m proto.Message) proto.Message {
				l := ql(m).QueuedLeaf.Leaf
				l.LeafValue = f(append([]byte{}, l.LeafValue...))
				return m
			}}
	}
	out := errorFaults(rpc)
	out = append(out,
		&fault{name: "no-reply(nil,nil)", class: "nil-response", rpc: rpc, want: w5, mut: func(*inj, proto.Message) proto.Message { return nil }},
		&fault{name: "queued-leaf-absent", class: "queued-leaf-absent", rpc: rpc, want: w5,
			mut: func(_ *inj, m proto.Message) proto.Message { ql(m).QueuedLeaf = nil; return m }},
		&fault{name: "queued-leaf-without-leaf", class: "queued-leaf-without-leaf", rpc: rpc, want: w5,
			mut: func(_ *inj, m proto.Message) proto.Message { ql(m).QueuedLeaf.Leaf = nil; return m }},
		&fault{name: "queued-leaf-without-leaf-with-status", class: "queued-leaf-without-leaf", rpc: rpc, want: w5,
			mut: func(_ *inj, m proto.Message) proto.Message {
				ql(m).QueuedLeaf = &trillian.QueuedLogLeaf{Status: status.New(codes.AlreadyExists, "dup").Proto()}
				return m
			}},
		value("echo-value-empty", "echoed-leaf-undecodable", w5, func(b []byte) []byte { return nil }),
		value("echo-value-garbage", "echoed-leaf-undecodable", w5, func(b []byte) []byte { return []byte{0xde, 0xad, 0xbe, 0xef, 0x01, 0x02, 0x03} }),
		value("echo-value-cut-1", "echoed-leaf-undecodable", w5, func(b []byte) []byte { return b[:len(b)-1] }),
		value("echo-value-cut-half", "echoed-leaf-undecodable", w5, func(b []byte) []byte { return b[:len(b)/2] }),
		value("echo-value-trailing-byte", "echoed-leaf-trailing-byte", w5, func(b []byte) []byte { return append(b, 0) }),
		value("echo-leaf-type-1", "echoed-leaf-unknown-leaf-type", w5, func(b []byte) []byte { b[1] = 1; return b }),
		value("echo-leaf-type-255", "echoed-leaf-unknown-leaf-type", w5, func(b []byte) []byte { b[1] = 255; return b }),
		value("echo-entry-type-2", "echoed-leaf-unknown-entry-type", w5, func(b []byte) []byte { b[10], b[11] = 0, 2; return b }),
		value("echo-entry-type-65535", "echoed-leaf-unknown-entry-type", w5, func(b []byte) []byte { b[10], b[11] = 0xff, 0xff; return b }),
		// the optional parts of the echoed leaf other than its value: absent, or shorter than anything indexes into.
		// The statement prescribes no status for these (the value, which is all the SCT needs, is sound); no crash.
		&fault{name: "echo-without-identity-hash", class: "echoed-leaf-optional-part-absent", rpc: rpc, want: wFree,
			mut: func(_ *inj, m proto.Message) proto.Message { ql(m).QueuedLeaf.Leaf.LeafIdentityHash = nil; return m }},
		&fault{name: "echo-identity-hash-4-bytes", class: "echoed-leaf-optional-part-absent", rpc: rpc, want: wFree,
			mut: func(_ *inj, m proto.Message) proto.Message {
				l := ql(m).QueuedLeaf.Leaf
				l.LeafIdentityHash = append([]byte{}, l.LeafIdentityHash[:4]...)
				return m
			}},
		&fault{name: "echo-without-extra-data-merkle-hash-timestamps", class: "echoed-leaf-optional-part-absent", rpc: rpc, want: wFree,
			mut: func(_ *inj, m proto.Message) proto.Message {
				l := ql(m).QueuedLeaf.Leaf
				ql(m).QueuedLeaf.Leaf = &trillian.LogLeaf{LeafValue: l.LeafValue}
				return m
			}},
		// not named by the statement: a leaf of another protocol version decodes structurally
		value("echo-version-1", "echoed-leaf-other-version", wFree, func(b []byte) []byte { b[0] = 1; return b }),
	)
	return out
}
