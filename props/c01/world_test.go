//go:build verif

package c01

import (
	"crypto/sha256"
	"fmt"
	"os"
	"strings"
	"time"

	"verif/ref/ct6962"
	"verif/ref/der"
	"verif/ref/pki"
)

// ---------------------------------------------------------------------------
// Hierarchies. Every (number of intermediates, key kind of the leaf's direct
// issuer, pre-issuer?, pre-issuer has AKI?) gets its own CA hierarchy with its
// own root; the front end of a case trusts only that root, so one key may serve
// in several hierarchies but never twice in one.

// kinds[4] is reachable only as ik == 4 (see caKey): an RSA issuer whose certificate publishes its
// key with a valid but non-canonical SubjectPublicKeyInfo (no NULL parameters).
var kinds = []string{"p256", "p384", "rsa2048", "ed25519", "rsa2048-spki-without-null"}

// caKey is the key of the CA at distance d (1 = direct issuer of the leaf)
// when the direct issuer has kind index ik: kinds rotate upwards, so the
// (up to four) CAs of one hierarchy have four different algorithms.
func caKey(ik, d int) *pki.Key {
	if ik == 4 {
		switch d {
		case 1:
			return pki.LoadKey("rsa2048-0~nonull")
		case 2:
			return pki.LoadKey("rsa2048-1~nonull")
		}
		return pki.LoadKey(kinds[(d-3)%2] + "-0")
	}
	return pki.LoadKey(kinds[(ik+d-1)%4] + "-0")
}

var leafKeys = []string{"p256-8", "p384-1", "rsa2048-2", "ed25519-1"}

func keyID(k *pki.Key) []byte { h := k.KeyHash(); return h[:20] }

type hier struct {
	n     int         // intermediates between leaf and root (0..3); a pre-issuer is one of them
	ik    int         // key kind index of the direct issuer
	pi    bool        // direct issuer is a dedicated precertificate signing certificate (CT EKU)
	piAKI bool        // ... that carries an authority key identifier
	caEKU bool        // the (ordinary) direct issuer carries an extended key usage extension (serverAuth, clientAuth): not a pre-issuer
	caCT    bool      // the CA above the precert signing certificate lists the CT usage too (it is a CA that may also sign precertificates itself): still the final issuer
	sameSKI bool      // the final issuer carries a subject key identifier that other CAs (with other keys) carry too
	piEKU int         // the signing certificate's extended key usages: 0 = {CT}; 1 = {CT, serverAuth}; 2 = {serverAuth, CT}; 3 = {clientAuth, CT, serverAuth}
	cas   []*pki.Cert // cas[0] = direct issuer ... cas[n] = root
}

var piEKUs = [][][]int{{pki.OIDEKUCT}, {pki.OIDEKUCT, pki.OIDEKUServerAuth}, {pki.OIDEKUServerAuth, pki.OIDEKUCT}, {pki.OIDEKUClientAuth, pki.OIDEKUCT, pki.OIDEKUServerAuth}}

func (h *hier) label() string {
	s := fmt.Sprintf("n=%d issuer=%s", h.n, kinds[h.ik])
	if h.pi {
		s += fmt.Sprintf(" preissuer(aki=%v)", h.piAKI)
		if h.piEKU != 0 {
			s += fmt.Sprintf(" preissuer-ekus#%d", h.piEKU)
		}
	}
	if h.caCT {
		s += " final-issuer-lists-the-CT-usage-too"
	}
	if h.sameSKI {
		s += " final-issuer-shares-its-key-id-with-other-CAs"
	}
	if h.caEKU {
		s += " issuer-with-serverAuth-EKU"
	}
	return s
}

func (h *hier) root() *pki.Cert { return h.cas[h.n] }

func buildHier(n, ik int, pi, piAKI, caEKU bool, piEKU int) *hier {
	caCT := piEKU >= 1000
	piEKU %= 1000
	sameSKI := piEKU >= 100
	piEKU %= 100
	h := &hier{n: n, ik: ik, pi: pi, piAKI: piAKI, caEKU: caEKU, piEKU: piEKU, sameSKI: sameSKI, caCT: caCT, cas: make([]*pki.Cert, n+1)}
	tag := fmt.Sprintf("n%d-%s", n, kinds[ik])
	if pi {
		tag += fmt.Sprintf("-pi%v", piAKI)
	}
	if caEKU {
		tag += "-eku"
	}
	if piEKU != 0 {
		tag += fmt.Sprintf("-piekus%d", piEKU)
	}
	if sameSKI {
		tag += "-sameski"
	}
	if caCT {
		tag += "-cact"
	}
	h.cas[n] = pki.NewRoot("C01 root "+tag, caKey(ik, n+1))
	for d := n; d >= 1; d-- {
		o := pki.CAOpts{}
		cn := fmt.Sprintf("C01 int%d %s", d, tag)
		if d == 1 && pi {
			o.EKUs = piEKUs[piEKU]
			o.NoAKI = !piAKI
			cn = "C01 precert signing " + tag
		}
		if d == 1 && caEKU {
			o.EKUs = [][]int{pki.OIDEKUServerAuth, pki.OIDEKUClientAuth}
		}
		if h.caCT && d == 2 && pi {
			o.EKUs = [][]int{pki.OIDEKUServerAuth, pki.OIDEKUCT}
		}
		if h.sameSKI && ((d == 1 && !pi) || (d == 2 && pi)) {
			o.SKI = []byte("one key id, many CAs")
		}
		h.cas[d-1] = pki.NewCA(cn, caKey(ik, d), h.cas[d], o)
	}
	return h
}

// ---------------------------------------------------------------------------
// Leaf shapes.

const (
	kCert      = "cert"
	kPreDirect = "precert-direct-issuer"
	kPrePI     = "precert-via-preissuer"
)

type shape struct {
	id      int
	kind    string
	h       *hier
	leafKey int    // index into leafKeys
	leafAKI bool   // the leaf carries an authority key identifier
	m       int    // other extensions besides AKI and poison
	akiPos  int    // position of the AKI among the m+1 non-poison extensions
	poison  int    // position of the poison among all extensions (-1: none)
	val     string // validity encoding variant
	exts    []pki.Ext
	leaf    *pki.Cert
	lax     bool // the serial number is encoded with a superfluous leading zero octet: only the lenient parser accepts the certificate. The log may refuse it; if it answers 200, every clause holds for the bytes as submitted
	alone   bool // the submission is a trusted root certificate on its own: a validated path of length one
}

func (s *shape) pre() bool { return s.kind != kCert }

func (s *shape) extLabels() string {
	var l []string
	for _, e := range s.exts {
		l = append(l, e.Label)
	}
	return "[" + strings.Join(l, ",") + "]"
}

func (s *shape) label() string {
	if s.alone {
		return fmt.Sprintf("#%d the root certificate of [%s] submitted on its own", s.id, s.h.label())
	}
	if s.lax {
		return fmt.Sprintf("#%d %s %s leafkey=%s exts=%s validity=%s serial-with-superfluous-leading-zero", s.id, s.kind, s.h.label(), leafKeys[s.leafKey], s.extLabels(), s.val)
	}
	return fmt.Sprintf("#%d %s %s leafkey=%s exts=%s validity=%s", s.id, s.kind, s.h.label(), leafKeys[s.leafKey], s.extLabels(), s.val)
}

// features is the coarse part of a shape used in violation signatures: the
// entry kind and, where the TBSCertificate is rewritten, what the rewrite has to
// deal with. It is kept coarse so that one defect yields few signatures.
func (s *shape) features() string {
	switch {
	case s.kind == kPrePI && !s.leafAKI && s.h.piAKI:
		return "kind=precert-via-preissuer leaf-aki=false preissuer-aki=true"
	case s.pre() && len(s.refExts()) == 0:
		return "kind=precert no-extension-left-after-depoisoning"
	case s.val == "generalized-before-2050":
		return "kind=precert validity-not-rfc5280(generalized-time-before-2050)"
	case s.kind == kPrePI:
		return fmt.Sprintf("kind=precert-via-preissuer leaf-aki=%v preissuer-aki=%v", s.leafAKI, s.h.piAKI)
	}
	return "kind=" + s.kind
}

// featuresFor: only a difference in the rewritten TBSCertificate depends on the
// extension / AKI situation; every other field depends on the entry kind alone.
func (s *shape) featuresFor(field string) string {
	if field == "tbs_certificate" {
		return s.features()
	}
	return "kind=" + s.kind
}

// others is the pool the m other extensions are taken from, in order: a
// non-critical one with a constructed value, a critical one (BOOLEAN present in
// the encoding), a non-critical private one.
func others(cn string) []pki.Ext {
	return []pki.Ext{pki.ExtSAN(cn + ".example"), pki.ExtKeyUsage(0x80, 7), pki.ExtUnknown(7, false, der.Null())}
}

var (
	leafNA  = time.Date(2025, 6, 1, 12, 0, 0, 0, time.UTC)
	leafNAg = time.Date(2050, 1, 1, 0, 0, 0, 0, time.UTC)      // first instant RFC 5280 encodes as GeneralizedTime
	leafNAu = time.Date(2049, 12, 31, 23, 59, 59, 0, time.UTC) // last instant encoded as UTCTime
)

func (s *shape) build() {
	if s.alone {
		s.leaf = s.h.root()
		return
	}
	cn := fmt.Sprintf("leaf%d", s.id)
	issuer := s.h.cas[0]
	var non []pki.Ext
	o := others(cn)[:s.m]
	if s.leafAKI {
		non = append(non, o[:s.akiPos]...)
		non = append(non, pki.ExtAKI(keyID(issuer.T.Key)))
		non = append(non, o[s.akiPos:]...)
	} else {
		non = o
	}
	exts := []pki.Ext{}
	if s.poison >= 0 {
		exts = append(exts, non[:s.poison]...)
		exts = append(exts, pki.ExtPoison())
		exts = append(exts, non[s.poison:]...)
	} else {
		exts = append(exts, non...)
	}
	s.exts = exts
	// serial numbers: unique; odd ids have the top bit set (leading 00 octet in DER)
	ser := []byte{0x01, byte(s.id >> 16), byte(s.id >> 8), byte(s.id)}
	if s.id%2 == 1 {
		ser[0] = 0x81
	}
	var serContent []byte
	if s.lax {
		serContent = append([]byte{0x00}, ser...)
		serContent[1] &= 0x7f // 00 followed by an octet below 0x80: not minimal
	}
	t := pki.Tmpl{Serial: ser, SerialContent: serContent, Issuer: issuer.T.Subject, Subject: pki.CN(cn), NotBefore: pki.T0, NotAfter: leafNA, Key: pki.LoadKey(leafKeys[s.leafKey]), Exts: exts}
	switch s.val {
	case "generalized-2050":
		t.NotAfter = leafNAg
	case "utc-2049":
		t.NotAfter = leafNAu
	case "generalized-before-2050":
		t.NotAfterDER = der.GeneralizedTime(leafNA)
	}
	s.leaf = pki.Build(t, issuer.T.Key)
	s.leaf.Parent = issuer
	s.leaf.Label = cn
}

// path is the validated path: leaf, issuers, root.
func (s *shape) path() [][]byte {
	if s.alone {
		return [][]byte{s.leaf.DER}
	}
	out := [][]byte{s.leaf.DER}
	for _, c := range s.h.cas {
		out = append(out, c.DER)
	}
	return out
}

// submitted is the chain as posted: form 0 omits the root, form 1 includes it.
func (s *shape) submitted(form int) [][]byte {
	p := s.path()
	if form == 0 && !s.alone {
		return p[:len(p)-1]
	}
	return p
}

func isLabel(e pki.Ext, l string) bool { return e.Label == l }

// refExts is the extension list of the TBSCertificate an RFC 6962 client signs
// for / reconstructs from this precertificate (s3.2): the template's list
// without the poison; when a precertificate signing certificate issued it and
// the list has an authority key identifier, that extension's value is the one
// of the signing certificate (which names the final issuer).
func (s *shape) refExts() []pki.Ext {
	var out []pki.Ext
	var piAKI *pki.Ext
	if s.kind == kPrePI {
		for i, e := range s.h.cas[0].T.Exts {
			if isLabel(e, "aki") {
				piAKI = &s.h.cas[0].T.Exts[i]
			}
		}
	}
	for _, e := range s.leaf.T.Exts {
		if isLabel(e, "poison") {
			continue
		}
		if s.kind == kPrePI && isLabel(e, "aki") {
			if piAKI == nil {
				// RFC 6962 s3.2 requires the signing certificate to carry the extension in this
				// case; the statement is silent. Pinned to the documented behaviour of
				// x509.BuildPrecertTBS ("changed to the AuthorityKeyId of the intermediate"): none.
				continue
			}
			e.Value = piAKI.Value
		}
		out = append(out, e)
	}
	if s.kind == kPrePI && !s.leafAKI && piAKI != nil {
		// RFC 6962 s3.2 and the statement are silent on a precertificate without the extension
		// under a signing certificate that has one. Pinned (coordinator's ruling, same assumption
		// as C03) to the documented, upstream-tested behaviour of x509.BuildPrecertTBS: the signing
		// certificate's extension, value verbatim and non-critical, appended as the last extension.
		out = append(out, pki.Ext{OID: pki.OIDAKI, Critical: false, Value: piAKI.Value, Label: "aki"})
	}
	return out
}

// entry is the reference signed entry of the shape, from templates only.
func (s *shape) entry() ct6962.SignedEntry {
	if !s.pre() {
		return ct6962.SignedEntry{EntryType: ct6962.X509Entry, Cert: s.leaf.DER}
	}
	t := s.leaf.T
	t.Exts = s.refExts()
	final := s.h.cas[0]
	if s.kind == kPrePI {
		t.Issuer = s.h.cas[0].T.Issuer // name of the CA that will issue the final certificate
		final = s.h.cas[1]
	}
	return ct6962.SignedEntry{EntryType: ct6962.PrecertEntry, IssuerKeyHash: sha256.Sum256(final.T.Key.SPKI), TBS: t.TBS(s.leaf.Signer.SigAlgDER())}
}

// extraData is the reference extra_data of the log entry (s4.6).
func (s *shape) extraData() []byte {
	p := s.path()
	var b []byte
	var err error
	if s.pre() {
		b, err = ct6962.AppendPrecertChainEntry(nil, ct6962.PrecertChainEntry{PreCertificate: p[0], Chain: p[1:]})
	} else {
		b, err = ct6962.AppendCertificateChain(nil, p[1:])
	}
	if err != nil {
		panic(err)
	}
	return b
}

func refLeaf(e ct6962.SignedEntry, ts uint64, ext []byte) []byte {
	b, err := ct6962.AppendMerkleTreeLeaf(nil, ct6962.MerkleTreeLeaf{Version: ct6962.V1, LeafType: ct6962.TimestampedEntryLeaf,
		Entry: ct6962.TimestampedEntry{Timestamp: ts, SignedEntry: e, Extensions: ext}})
	if err != nil {
		panic(err)
	}
	return b
}

// ---------------------------------------------------------------------------

type world struct {
	hiers  map[string]*hier
	shapes []*shape
}

func (w *world) hier(n, ik int, pi, piAKI bool) *hier { return w.hierE(n, ik, pi, piAKI, false) }

func (w *world) hierE(n, ik int, pi, piAKI, caEKU bool) *hier { return w.hierX(n, ik, pi, piAKI, caEKU, 0) }

func (w *world) hierX(n, ik int, pi, piAKI, caEKU bool, piEKU int) *hier {
	k := fmt.Sprintf("%d/%d/%v/%v/%v/%d", n, ik, pi, piAKI, caEKU, piEKU)
	if h, ok := w.hiers[k]; ok {
		return h
	}
	h := buildHier(n, ik, pi, piAKI, caEKU, piEKU)
	w.hiers[k] = h
	return h
}

// layouts enumerates (leafAKI, m, akiPos, poison position) for one entry kind.
type layout struct {
	aki       bool
	m, akiPos int
	poison    int
}

func layouts(pre bool, akis []bool) []layout {
	var out []layout
	for _, aki := range akis {
		for m := 0; m <= 3; m++ {
			aps := []int{0}
			if aki {
				aps = []int{0, m} // AKI first or last among the others
				if m == 0 {
					aps = []int{0}
				}
			}
			for _, ap := range aps {
				non := m
				if aki {
					non++
				}
				if !pre {
					out = append(out, layout{aki, m, ap, -1})
					continue
				}
				for p := 0; p <= non; p++ { // poison first, at every middle position, last
					out = append(out, layout{aki, m, ap, p})
				}
			}
		}
	}
	return out
}

func newWorld() *world {
	w := &world{hiers: map[string]*hier{}}
	add := func(kind string, h *hier, lk int, l layout, val string) {
		s := &shape{id: len(w.shapes), kind: kind, h: h, leafKey: lk, leafAKI: l.aki, m: l.m, akiPos: l.akiPos, poison: l.poison, val: val}
		s.build()
		w.shapes = append(w.shapes, s)
	}
	both := []bool{true, false}
	for ik := 0; ik < 4; ik++ {
		for lk := 0; lk < 4; lk++ {
			for n := 0; n <= 3; n++ {
				h := w.hier(n, ik, false, false)
				for _, l := range layouts(false, both) {
					add(kCert, h, lk, l, "utc")
				}
				for _, l := range layouts(true, both) {
					add(kPreDirect, h, lk, l, "utc")
				}
				if n == 0 {
					continue
				}
				for _, piAKI := range both {
					hp := w.hier(n, ik, true, piAKI)
					for _, l := range layouts(true, both) {
						add(kPrePI, hp, lk, l, "utc")
					}
				}
			}
		}
	}
	// validity encodings at the UTCTime / GeneralizedTime boundary of RFC 5280 s4.1.2.5
	vals := []string{"utc-2049", "generalized-2050"}
	if os.Getenv("C01_NONCONFORMING_VALIDITY") != "" {
		// outside the stated quantifier (RFC 5280 s4.1.2.5 forbids it): NotAfter 2025 as GeneralizedTime.
		// Kept as an opt-in probe; see mutants/c01/README.md.
		vals = append(vals, "generalized-before-2050")
	}
	for _, val := range vals {
		for ik := 0; ik < 4; ik++ {
			l := layout{true, 2, 0, 1}
			add(kCert, w.hier(1, ik, false, false), ik, layout{true, 2, 0, -1}, val)
			add(kPreDirect, w.hier(1, ik, false, false), ik, l, val)
			add(kPrePI, w.hier(2, ik, true, true), ik, l, val)
		}
	}
	// issuers whose SubjectPublicKeyInfo is not the canonical encoding of their key: issuer_key_hash
	// is the hash of the bytes in the issuer certificate
	for n := 1; n <= 3; n++ {
		h := w.hier(n, 4, false, false)
		add(kCert, h, 0, layout{true, 1, 0, -1}, "utc")
		add(kPreDirect, h, 0, layout{true, 1, 0, 2}, "utc")
		add(kPreDirect, h, 3, layout{false, 0, 0, 0}, "utc")
		if n >= 2 {
			for _, piAKI := range both {
				add(kPrePI, w.hier(n, 4, true, piAKI), 0, layout{true, 1, 0, 2}, "utc")
				add(kPrePI, w.hier(n, 4, true, piAKI), 1, layout{false, 3, 0, 0}, "utc")
			}
		}
	}
	// an ordinary issuing CA that carries an extended key usage extension is not a pre-issuer
	for ik := 0; ik < 4; ik++ {
		for n := 1; n <= 2; n++ {
			h := w.hierE(n, ik, false, false, true)
			add(kCert, h, (ik+1)%4, layout{true, 1, 0, -1}, "utc")
			add(kPreDirect, h, (ik+1)%4, layout{true, 1, 0, 2}, "utc")
			add(kPreDirect, h, (ik+2)%4, layout{false, 2, 0, 0}, "utc")
		}
	}
	// a precertificate signing certificate is one that has the CT extended key usage, wherever in its list and whatever else is in it
	for ik := 0; ik < 4; ik++ {
		for pe := 1; pe < len(piEKUs); pe++ {
			for _, piAKI := range both {
				for n := 2; n <= 3; n++ {
					h := w.hierX(n, ik, true, piAKI, false, pe)
					add(kPrePI, h, (ik+pe)%4, layout{true, 1, 0, 2}, "utc")
					add(kPrePI, h, (ik+pe+1)%4, layout{false, 2, 0, 0}, "utc")
				}
			}
		}
	}
	// CAs with different keys that carry the same subject key identifier (whoever issues a CA certificate chooses it):
	// the issuer key hash is the hash of the key
	for ik := 0; ik < 4; ik++ {
		for n := 1; n <= 2; n++ {
			h := w.hierX(n, ik, false, false, false, 100)
			add(kPreDirect, h, (ik+1)%4, layout{false, 2, 0, 0}, "utc")
			add(kCert, h, (ik+1)%4, layout{false, 1, 0, -1}, "utc")
		}
		hp := w.hierX(2, ik, true, true, false, 100)
		add(kPrePI, hp, (ik+2)%4, layout{false, 1, 0, 1}, "utc")
	}
	// the CA that issued the precert signing certificate lists the CT usage as well: it is still the final issuer
	for ik := 0; ik < 4; ik++ {
		for _, piAKI := range both {
			for n := 2; n <= 3; n++ {
				h := w.hierX(n, ik, true, piAKI, false, 1000)
				add(kPrePI, h, (ik+1)%4, layout{true, 1, 0, 2}, "utc")
				add(kPrePI, h, (ik+3)%4, layout{false, 0, 0, 0}, "utc")
			}
		}
	}
	// certificates and precertificates that only the lenient parser accepts (non-minimal serial number)
	for ik := 0; ik < 4; ik++ {
		for _, sp := range []struct {
			kind string
			h    *hier
			l    layout
		}{{kCert, w.hier(1, ik, false, false), layout{true, 1, 0, -1}}, {kPreDirect, w.hier(1, ik, false, false), layout{true, 1, 0, 2}},
			{kPreDirect, w.hier(2, ik, false, false), layout{false, 0, 0, 0}}, {kPrePI, w.hier(2, ik, true, true), layout{true, 2, 0, 1}}} {
			s := &shape{id: len(w.shapes), kind: sp.kind, h: sp.h, leafKey: (ik + 1) % 4, leafAKI: sp.l.aki, m: sp.l.m, akiPos: sp.l.akiPos, poison: sp.l.poison, val: "utc", lax: true}
			s.build()
			w.shapes = append(w.shapes, s)
		}
	}
	// a trusted root submitted on its own: the validated path has length one, the chain part of the extra data is empty
	for ik := 0; ik < 5; ik++ {
		s := &shape{id: len(w.shapes), kind: kCert, h: w.hier(0, ik, false, false), alone: true, val: "utc", poison: -1}
		s.build()
		w.shapes = append(w.shapes, s)
	}
	return w
}
