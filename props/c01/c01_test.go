//go:build verif

// C01 — an issued SCT binds exactly the submitted entry, the stored leaf and the log key.
//
// Engine B + C (bounded-exhaustive enumeration of PKI shapes x configurations x
// submission histories on the real front end). Certificates are built from
// explicit templates (ref/pki); every shape is posted to add-chain /
// add-pre-chain of a real ctfe instance (ref/fe) over the reference
// de-duplicating backend (ref/reflog). On every answer the check re-derives,
// from the templates only and with the hand-written RFC 6962 encoders
// (ref/ct6962), what an independent client and the backend must see: log id,
// signed CertificateTimestamp (verified with std crypto), MerkleTreeLeaf,
// identity hash, extra data, the duplicate's timestamp and the IssueSCT record.
// No serializer of the repository is used by the oracle.
package c01

import (
	"bytes"
	"crypto"
	"crypto/ecdsa"
	"crypto/ed25519"
	"crypto/rsa"
	"crypto/sha256"
	stdx509 "crypto/x509"
	"encoding/base64"
	"encoding/json"
	"errors"
	"flag"
	"fmt"
	"io"
	"strings"
	"sync/atomic"
	"testing"
	"time"

	"verif/engine/enum"
	"verif/engine/rep"
	"verif/ref/ct6962"
	"verif/ref/fe"
	"verif/ref/pki"
	"verif/ref/reflog"

	"github.com/google/trillian"
	"google.golang.org/genproto/googleapis/rpc/status"
	"google.golang.org/grpc/codes"
	gstatus "google.golang.org/grpc/status"
	"google.golang.org/protobuf/proto"
	"k8s.io/klog/v2"
)

const logID int64 = 0x0102030405

// ---------------------------------------------------------------------------
// clocks

type clockT struct {
	name string
	t    time.Time
}

var clocks = []clockT{
	{"1ms", time.Unix(0, 1_000_000)},
	{"sub-ms-nanos", time.Unix(1_700_000_000, 123_999_999)}, // truncation, not rounding: ...123 ms
	{"2^31s", time.Unix(1<<31, 0)},
	{"2^41ms", time.Unix((1<<41)/1000, ((1<<41)%1000)*1_000_000)},
}

// ms is the RFC 6962 timestamp of an instant: whole milliseconds since the epoch.
func ms(t time.Time) uint64 {
	return uint64(t.Unix())*1000 + uint64(t.Nanosecond())/1_000_000
}

// later is the clock of the i-th submission of a history that starts at t0.
func later(t0 time.Time, i int) time.Time {
	return t0.Add(time.Duration(i) * (7*time.Second + 3*time.Millisecond + 500*time.Microsecond))
}

// ---------------------------------------------------------------------------
// histories

// step is one submission of a history after the first one.
type step struct {
	otherForm bool // through the other root-included / root-omitted form
	seqBefore bool // the backend integrates its queue before this submission
	sibling   bool // a different precertificate with the same de-poisoned TBSCertificate (fresh entry)
	signFail  bool // the log's signer refuses to sign during this submission (HSM hiccup): no 200, no SCT record, later submissions unaffected
}

func (s step) String() string {
	var p []string
	if s.signFail {
		p = append(p, "signer-refuses")
	}
	if s.seqBefore {
		p = append(p, "sequence")
	}
	switch {
	case s.sibling:
		p = append(p, "submit-sibling")
	case s.otherForm:
		p = append(p, "resubmit-other-form")
	default:
		p = append(p, "resubmit")
	}
	return strings.Join(p, "+")
}

func histLabel(h []step) string {
	l := []string{"first"}
	for _, s := range h {
		l = append(l, s.String())
	}
	return strings.Join(l, " ; ")
}

// histories returns every history of exactly `depth` submissions (prefixes are
// checked on the way: every submission of a history is judged).
func histories(depth int) [][]step {
	al := []step{{}, {otherForm: true}, {seqBefore: true}, {otherForm: true, seqBefore: true}}
	out := [][]step{{}}
	for d := 1; d < depth; d++ {
		var next [][]step
		for _, h := range out {
			for _, s := range al {
				next = append(next, append(append([]step{}, h...), s))
			}
		}
		out = next
	}
	return out
}

// ---------------------------------------------------------------------------
// backend behaviours (reflog.SetHook)

type hookT struct {
	name   string
	expect int // 200: echo variant; 0: a non-200 is expected
	// echo variants: the backend answers with a *different stored leaf* of the same entry
	tsDelta  int64 // stored timestamp = request ms + tsDelta (tsAbs if != 0)
	tsAbs    uint64
	ext      []byte
	dupCode  bool // status AlreadyExists (otherwise OK)
	failMode string
}

var echoHooks = []hookT{
	{name: "echo-older-leaf(ts=1,already-exists)", expect: 200, tsAbs: 1, dupCode: true},
	{name: "echo-older-leaf(ts-1ms,already-exists)", expect: 200, tsDelta: -1, dupCode: true},
	{name: "echo-older-leaf(ts-1ms,status-ok)", expect: 200, tsDelta: -1},
	{name: "echo-newer-leaf(ts+1000ms,already-exists)", expect: 200, tsDelta: 1000, dupCode: true},
	{name: "echo-older-leaf-with-extensions", expect: 200, tsDelta: -86_400_000, ext: []byte{0xab, 0xcd}, dupCode: true},
}

var failHooks = []hookT{
	{name: "backend-unavailable", failMode: "error"},
	{name: "backend-no-queued-leaf", failMode: "nil-leaf"},
	{name: "backend-queued-leaf-without-leaf", failMode: "nil-inner-leaf"},
	{name: "backend-leaf-trailing-byte", failMode: "trailing"},
	{name: "backend-leaf-truncated", failMode: "truncated"},
}

// ---------------------------------------------------------------------------

type caseDesc struct {
	Shape     string   `json:"shape"`
	Endpoint  string   `json:"endpoint"`
	LogKey    string   `json:"log_key"`
	Clock     string   `json:"clock_of_first_submission"`
	History   string   `json:"history"`
	Step      int      `json:"failing_submission_index"`
	Backend   string   `json:"backend_behaviour,omitempty"`
	Submitted []string `json:"submitted_chain_der_hex"`
	Expected  string   `json:"expected"`
	Got       string   `json:"got"`
}

type job struct {
	s         *shape
	form      int
	lk        *pki.Key
	clk       int
	hist      []step
	hook      *hookT
	wrong     bool // post to the endpoint of the other entry kind
	phase     string
	failFirst bool // the signer refuses during the first submission of the history
}

// flakySigner is the log key behind a switch.
type flakySigner struct {
	crypto.Signer
	fail *atomic.Bool
}

func (f flakySigner) Sign(rand io.Reader, digest []byte, opts crypto.SignerOpts) ([]byte, error) {
	if f.fail.Load() {
		return nil, errors.New("signer unavailable (injected)")
	}
	return f.Signer.Sign(rand, digest, opts)
}

type checker struct {
	r        *rep.R
	w        *world
	siblings map[int]*shape
}

// addChainResponse is the JSON body of RFC 6962 s4.1.
type addChainResponse struct {
	SCTVersion *int    `json:"sct_version"`
	ID         *string `json:"id"`
	Timestamp  *uint64 `json:"timestamp"`
	Extensions *string `json:"extensions"`
	Signature  *string `json:"signature"`
}

func (c *checker) desc(j job, i int, chain [][]byte, exp, got string) caseDesc {
	d := caseDesc{Shape: j.s.label(), LogKey: j.lk.Name, Clock: clocks[j.clk].name + " = " + clocks[j.clk].t.UTC().Format(time.RFC3339Nano),
		History: fmt.Sprintf("form0=%s ; %s", formName(j.form), histLabel(j.hist)), Step: i, Expected: exp, Got: got}
	d.Endpoint = "add-chain"
	if j.s.pre() != j.wrong {
		d.Endpoint = "add-pre-chain"
	}
	if j.hook != nil {
		d.Backend = j.hook.name
	}
	for _, x := range chain {
		d.Submitted = append(d.Submitted, fmt.Sprintf("%x", x))
	}
	return d
}

func formName(f int) string {
	if f == 0 {
		return "root-omitted"
	}
	return "root-included"
}

// verifySig checks a DigitallySigned over input with std crypto only.
func verifySig(k *pki.Key, ds ct6962.DigitallySigned, input []byte) string {
	const hashSHA256, sigRSA, sigECDSA = 4, 1, 3 // RFC 5246 s7.4.1.4.1
	digest := sha256.Sum256(input)
	switch pub := k.Priv.Public().(type) {
	case *ecdsa.PublicKey:
		if ds.Hash != hashSHA256 || ds.Sig != sigECDSA {
			return fmt.Sprintf("algorithm (hash=%d, signature=%d) is not (sha256, ecdsa)", ds.Hash, ds.Sig)
		}
		if !ecdsa.VerifyASN1(pub, digest[:], ds.Signature) {
			return "ecdsa.VerifyASN1 fails"
		}
	case *rsa.PublicKey:
		if ds.Hash != hashSHA256 || ds.Sig != sigRSA {
			return fmt.Sprintf("algorithm (hash=%d, signature=%d) is not (sha256, rsa)", ds.Hash, ds.Sig)
		}
		if err := rsa.VerifyPKCS1v15(pub, crypto.SHA256, digest[:], ds.Signature); err != nil {
			return "rsa.VerifyPKCS1v15 fails"
		}
	case ed25519.PublicKey:
		if !ed25519.Verify(pub, input, ds.Signature) && !ed25519.Verify(pub, digest[:], ds.Signature) {
			return "ed25519.Verify fails"
		}
	default:
		return "unknown key type"
	}
	return ""
}

// diffEntry names the first field in which a MerkleTreeLeaf differs from the reference.
func diffEntry(got []byte, want ct6962.MerkleTreeLeaf) string {
	g, err := ct6962.ParseMerkleTreeLeaf(got)
	if err != nil {
		return "not-a-merkle-tree-leaf(" + ct6962.Class(err) + ")"
	}
	switch {
	case g.Version != want.Version:
		return "version"
	case g.LeafType != want.LeafType:
		return "leaf_type"
	case g.Entry.Timestamp != want.Entry.Timestamp:
		return "timestamp"
	case g.Entry.EntryType != want.Entry.EntryType:
		return "entry_type"
	case g.Entry.EntryType == ct6962.X509Entry && !bytes.Equal(g.Entry.Cert, want.Entry.Cert):
		return "x509_entry"
	case g.Entry.EntryType == ct6962.PrecertEntry && g.Entry.IssuerKeyHash != want.Entry.IssuerKeyHash:
		return "issuer_key_hash"
	case g.Entry.EntryType == ct6962.PrecertEntry && !bytes.Equal(g.Entry.TBS, want.Entry.TBS):
		return "tbs_certificate"
	case !bytes.Equal(g.Entry.Extensions, want.Entry.Extensions):
		return "extensions"
	}
	return ""
}

func supported(k *pki.Key) bool { return k.Kind == "p256" || k.Kind == "rsa2048" }

// run plays one history on a fresh front end + backend and judges every submission.
func (c *checker) run(j job) {
	be := reflog.New(logID)
	clk := &fe.Clock{T: clocks[j.clk].t}
	signerDown := &atomic.Bool{}
	f, err := fe.New(fe.Config{LogID: logID, Prefix: "log", Roots: [][]byte{j.s.h.root().DER}, Signer: flakySigner{j.lk.Priv, signerDown}, Client: be, Clock: clk})
	if err != nil {
		c.r.Violation("harness: front end cannot be built", err.Error(), j.s.label())
		return
	}
	spki, err := stdx509.MarshalPKIXPublicKey(j.lk.Priv.Public())
	if err != nil {
		panic(err)
	}
	wantID := sha256.Sum256(spki)
	stored := map[[32]byte]uint64{} // model of the de-duplicating backend: identity -> timestamp of the stored entry

	steps := append([]step{{}}, j.hist...)
	form := j.form
	for i, st := range steps {
		sh := j.s
		if i > 0 {
			if st.seqBefore {
				be.Sequence(-1, uint64(later(clocks[j.clk].t, i).UnixNano()))
			}
			if st.otherForm {
				form = 1 - form
			}
			if st.sibling {
				sh = c.siblings[j.s.id]
			}
		}
		now := later(clocks[j.clk].t, i)
		clk.Set(now)
		reqMS := ms(now)
		chain := sh.submitted(form)
		entry := sh.entry()
		be.ResetCalls()
		f.Log.Reset()

		// backend behaviour
		var echo *hookT
		if j.hook != nil {
			h := j.hook
			if h.expect == 200 {
				echo = h
			}
			be.SetHook(func(method string, req proto.Message, next func() (proto.Message, error)) (proto.Message, error) {
				if method != "QueueLeaf" {
					return next()
				}
				switch h.failMode {
				case "error":
					return nil, gstatus.Errorf(codes.Unavailable, "backend down")
				case "nil-leaf":
					return &trillian.QueueLeafResponse{}, nil
				case "nil-inner-leaf":
					return &trillian.QueueLeafResponse{QueuedLeaf: &trillian.QueuedLogLeaf{}}, nil
				}
				ts := h.tsAbs
				if ts == 0 {
					ts = uint64(int64(reqMS) + h.tsDelta)
				}
				lv := refLeaf(entry, ts, h.ext)
				switch h.failMode {
				case "trailing":
					lv = append(lv, 0)
				case "truncated":
					lv = lv[:len(lv)-1]
				}
				in := req.(*trillian.QueueLeafRequest)
				q := &trillian.QueuedLogLeaf{Leaf: &trillian.LogLeaf{LeafValue: lv, ExtraData: in.Leaf.ExtraData, LeafIdentityHash: in.Leaf.LeafIdentityHash}}
				if h.dupCode {
					q.Status = &status.Status{Code: int32(codes.AlreadyExists)}
				}
				return &trillian.QueueLeafResponse{QueuedLeaf: q}, nil
			})
		}

		c.r.Eval(1)
		var rsp fe.Resp
		signFail := st.signFail || (i == 0 && j.failFirst)
		signerDown.Store(signFail)
		pan, msg, stack := enum.Catch(func() { rsp, _ = f.AddChain(sh.pre() != j.wrong, chain) })
		signerDown.Store(false)
		jj := j
		jj.s = sh
		cd := func(exp, got string) caseDesc { return c.desc(jj, i, chain, exp, got) }
		if pan {
			c.r.Violation("frontend-panic "+sh.features(), msg+"\n"+stack, cd("an HTTP answer", "panic"))
			return
		}
		issued, _ := f.Log.Snapshot()
		queued := be.CallsOf("QueueLeaf")
		body := strings.TrimSpace(string(rsp.Body))
		if len(body) > 200 {
			body = body[:200]
		}

		// ---- (5) never an SCT record on a non-200
		if rsp.Status != 200 {
			if len(issued) != 0 {
				c.r.Violation("issue-sct: RequestLog.IssueSCT called although the answer is not 200",
					fmt.Sprintf("HTTP %d (%s) but IssueSCT was called %d time(s)", rsp.Status, body, len(issued)), cd("no IssueSCT", fmt.Sprintf("%d calls", len(issued))))
			}
			if signFail {
				// the leaf reached the backend before signing was attempted: it is stored with this request's time
				c.r.Nontrivial(fmt.Sprintf("signfail|%d|%d|%s|%s|%d", sh.id, form, j.lk.Name, histLabel(j.hist), i))
				id0 := sha256.Sum256(sh.leaf.DER)
				if _, dup := stored[id0]; !dup && len(queued) == 1 {
					stored[id0] = reqMS
				}
				continue
			}
			expectFail := j.wrong || (j.hook != nil && j.hook.expect != 200)
			switch {
			case sh.lax && !expectFail:
				// only the lenient parser accepts this submission: refusing it is the log's right (the statement is conditional on 200)
				c.r.Nontrivial(fmt.Sprintf("lax-refused|%d|%d|%s", sh.id, form, j.lk.Name))
				c.r.Add("refusals_of_submissions_only_the_lenient_parser_accepts", 1)
			case expectFail:
				c.r.Nontrivial(fmt.Sprintf("neg|%d|%d|%s|%v|%v", sh.id, form, j.lk.Name, j.wrong, j.hook))
			case supported(j.lk):
				// the statement is conditional on 200, but a valid submission that is not
				// answered 200 makes it vacuous: report it
				c.r.Violation(fmt.Sprintf("valid submission not answered 200: status=%d %s logkey=%s", rsp.Status, sh.features(), j.lk.Kind),
					fmt.Sprintf("%s posted as [%s] answered HTTP %d: %s", sh.label(), formName(form), rsp.Status, body), cd("HTTP 200", fmt.Sprintf("HTTP %d %s", rsp.Status, body)))
			default:
				c.r.Add("non200_with_log_key_outside_rfc6962_"+j.lk.Kind, 1)
			}
			return
		}
		if j.wrong || (j.hook != nil && j.hook.expect != 200) {
			what := "wrong-endpoint"
			if j.hook != nil {
				what = j.hook.name
			}
			c.r.Violation("200 where a refusal is expected: "+what, fmt.Sprintf("%s: HTTP 200 %s", sh.label(), body), cd("non-200", "HTTP 200"))
			return
		}
		if !supported(j.lk) {
			c.r.Add("answers_200_with_log_key_outside_rfc6962_"+j.lk.Kind, 1)
		}

		// ---- decode the answer (RFC 6962 s4.1) with the check's own structures
		var a addChainResponse
		if err := json.Unmarshal(rsp.Body, &a); err != nil || a.SCTVersion == nil || a.ID == nil || a.Timestamp == nil || a.Extensions == nil || a.Signature == nil {
			c.r.Violation("response: body is not the add-chain JSON object", fmt.Sprintf("%s: %v", body, err), cd("sct_version,id,timestamp,extensions,signature", body))
			return
		}
		id, e1 := base64.StdEncoding.DecodeString(*a.ID)
		ext, e2 := base64.StdEncoding.DecodeString(*a.Extensions)
		sigB, e3 := base64.StdEncoding.DecodeString(*a.Signature)
		ds, e4 := ct6962.ParseDigitallySigned(sigB)
		if e1 != nil || e2 != nil || e3 != nil || e4 != nil || *a.SCTVersion != 0 {
			c.r.Violation("response: ill-formed SCT fields", fmt.Sprintf("%s: id %v, extensions %v, signature %v / %v, sct_version %d", body, e1, e2, e3, e4, *a.SCTVersion), cd("v1 SCT", body))
			return
		}
		ts := *a.Timestamp

		// ---- (1) log id
		if !bytes.Equal(id, wantID[:]) {
			c.r.Violation("log-id: SCT id is not SHA-256 of the log key's SubjectPublicKeyInfo logkey="+j.lk.Kind,
				fmt.Sprintf("log key %s: id %x, expected %x", j.lk.Name, id, wantID), cd(fmt.Sprintf("%x", wantID), fmt.Sprintf("%x", id)))
		}

		// ---- (4) timestamp: fresh entries carry the request clock, duplicates the stored entry's
		ident := sha256.Sum256(sh.leaf.DER)
		wantTS, wantExt := reqMS, []byte(nil)
		hstep, hclass := "first-submission", "first-submission"
		if old, dup := stored[ident]; dup {
			wantTS = old
			hstep, hclass = st.String(), "duplicate"
		} else if i > 0 {
			hstep, hclass = st.String()+"(fresh)", "fresh-entry-after-another"
		}
		if echo != nil {
			wantTS = echo.tsAbs
			if wantTS == 0 {
				wantTS = uint64(int64(reqMS) + echo.tsDelta)
			}
			wantExt = echo.ext
			hstep, hclass = "backend-echoes-other-stored-leaf", "backend-echoes-other-stored-leaf"
		} else if _, dup := stored[ident]; !dup {
			stored[ident] = reqMS
		}
		if ts != wantTS {
			c.r.Violation("timestamp: SCT does not carry the stored entry's timestamp: "+hclass,
				fmt.Sprintf("%s, submission %d of [%s] at clock %d ms: SCT timestamp %d, stored entry has %d", sh.label(), i, histLabel(j.hist), reqMS, ts, wantTS),
				cd(fmt.Sprint(wantTS), fmt.Sprint(ts)))
		}
		if !bytes.Equal(ext, wantExt) {
			c.r.Violation("extensions: SCT extensions differ from the stored entry's: "+hclass,
				fmt.Sprintf("SCT extensions %x, stored entry has %x", ext, wantExt), cd(fmt.Sprintf("%x", wantExt), fmt.Sprintf("%x", ext)))
		}

		// ---- (2) signature over the independently derived CertificateTimestamp at the SCT's timestamp
		input, err := ct6962.AppendSCTSignatureInput(nil, ct6962.V1, ts, entry, ext)
		if err != nil {
			panic(err)
		}
		if why := verifySig(j.lk, ds, input); why != "" {
			// diagnosis only: if the leaf the front end queued already differs from the reference
			// entry, the cause is the entry derivation (named by field), otherwise the signing
			cause, feat := "entry-as-queued-matches-reference logkey="+j.lk.Kind, "kind="+sh.kind
			if len(queued) == 1 {
				lv := queued[0].Req.(*trillian.QueueLeafRequest).Leaf.LeafValue
				qts := reqMS
				if g, err := ct6962.ParseMerkleTreeLeaf(lv); err == nil {
					qts = g.Entry.Timestamp // the timestamp is judged separately
				}
				if f := diffEntry(lv, refMTL(entry, qts)); f != "" {
					cause, feat = "front-end-derives-different-"+f, sh.featuresFor(f)
				}
			}
			c.r.Violation(fmt.Sprintf("sct-signature does not verify over the client-derived entry: %s %s", feat, cause),
				fmt.Sprintf("%s posted [%s] to a log with key %s: %s over CertificateTimestamp %s at timestamp %d", sh.label(), formName(form), j.lk.Name, why, rep.Hex(input), ts),
				cd("signature verifies over "+fmt.Sprintf("%x", input), why))
		}

		// ---- (3) what was handed to the backend for this request
		if len(queued) != 1 {
			c.r.Violation("queued: not exactly one QueueLeaf per 200", fmt.Sprintf("%d QueueLeaf calls", len(queued)), cd("1 QueueLeaf", fmt.Sprint(len(queued))))
		} else {
			q := queued[0].Req.(*trillian.QueueLeafRequest)
			if q.LogId != logID || q.Leaf == nil {
				c.r.Violation("queued: wrong log id or no leaf", fmt.Sprintf("LogId %d", q.LogId), cd(fmt.Sprint(logID), fmt.Sprint(q.LogId)))
			} else {
				wl := refLeaf(entry, reqMS, nil)
				if !bytes.Equal(q.Leaf.LeafValue, wl) {
					field := diffEntry(q.Leaf.LeafValue, refMTL(entry, reqMS))
					if field == "" {
						field = "encoding"
					}
					sig := fmt.Sprintf("queued-leaf-value differs from the reference MerkleTreeLeaf in %s: %s", field, sh.featuresFor(field))
					if field == "timestamp" {
						sig = "queued-leaf-value differs from the reference MerkleTreeLeaf in timestamp" // independent of the entry kind
					}
					c.r.Violation(sig,
						fmt.Sprintf("%s at clock %d ms: LeafValue %s, reference %s", sh.label(), reqMS, rep.Hex(q.Leaf.LeafValue), rep.Hex(wl)),
						cd(fmt.Sprintf("%x", wl), fmt.Sprintf("%x", q.Leaf.LeafValue)))
				}
				if !bytes.Equal(q.Leaf.LeafIdentityHash, ident[:]) {
					c.r.Violation("queued-identity-hash is not SHA-256 of the submitted leaf certificate: kind="+sh.kind,
						fmt.Sprintf("%s: LeafIdentityHash %x, expected %x", sh.label(), q.Leaf.LeafIdentityHash, ident), cd(fmt.Sprintf("%x", ident), fmt.Sprintf("%x", q.Leaf.LeafIdentityHash)))
				}
				we := sh.extraData()
				if !bytes.Equal(q.Leaf.ExtraData, we) {
					c.r.Violation(fmt.Sprintf("queued-extra-data differs from the reference chain structure: kind=%s form=%s", sh.kind, formName(form)),
						fmt.Sprintf("%s posted [%s]: ExtraData %s, reference %s", sh.label(), formName(form), rep.Hex(q.Leaf.ExtraData), rep.Hex(we)),
						cd(fmt.Sprintf("%x", we), fmt.Sprintf("%x", q.Leaf.ExtraData)))
				}
			}
		}

		// ---- (5) the SCT record
		wantSCT, err := ct6962.AppendSCT(nil, ct6962.SCT{Version: ct6962.V1, LogID: [32]byte(id32(id)), Timestamp: ts, Extensions: ext, Signature: ds})
		if err != nil {
			panic(err)
		}
		if len(issued) != 1 {
			c.r.Violation("issue-sct: RequestLog.IssueSCT not called exactly once on a 200", fmt.Sprintf("%d calls", len(issued)), cd("1 call", fmt.Sprint(len(issued))))
		} else if !bytes.Equal(issued[0], wantSCT) {
			c.r.Violation("issue-sct: recorded bytes are not the TLS encoding of the returned SCT",
				fmt.Sprintf("recorded %s, returned SCT encodes to %s", rep.Hex(issued[0]), rep.Hex(wantSCT)), cd(fmt.Sprintf("%x", wantSCT), fmt.Sprintf("%x", issued[0])))
		}

		hk := ""
		if j.hook != nil {
			hk = j.hook.name
		}
		c.r.Nontrivial(fmt.Sprintf("%d|%d|%s|%d|%s|%d|%s", j.s.id, j.form, j.lk.Name, j.clk, histLabel(j.hist), i, hk))
		c.r.Add("answers_200_judged", 1)
		c.r.Add("step:"+hstep, 1)
		if i == len(steps)-1 && len(steps) > 2 && j.s.pre() && c.r.WantSample() {
			c.r.Sample(map[string]any{"shape": j.s.label(), "log_key": j.lk.Name, "first_clock": clocks[j.clk].name, "first_form": formName(j.form), "history": histLabel(j.hist),
				"last_sct_timestamp": ts, "reference_signed_entry": map[string]any{"issuer_key_hash": fmt.Sprintf("%x", entry.IssuerKeyHash), "tbs_certificate": rep.Hex(entry.TBS)},
				"verdict": "id, signature (std crypto over the reference CertificateTimestamp), queued leaf value / identity hash / extra data, duplicate timestamp and IssueSCT record all as derived from the templates"})
		}
	}
}

func refMTL(e ct6962.SignedEntry, ts uint64) ct6962.MerkleTreeLeaf {
	return ct6962.MerkleTreeLeaf{Version: ct6962.V1, LeafType: ct6962.TimestampedEntryLeaf, Entry: ct6962.TimestampedEntry{Timestamp: ts, SignedEntry: e}}
}

func id32(b []byte) (out [32]byte) { copy(out[:], b); return }

func silenceKlog() {
	fs := flag.NewFlagSet("klog", flag.ContinueOnError)
	klog.InitFlags(fs)
	fs.Set("logtostderr", "false")
	fs.Set("alsologtostderr", "false")
	fs.Set("stderrthreshold", "FATAL")
	klog.SetOutput(io.Discard)
}

// reduced says whether a shape belongs to the reduced set used for the history,
// hook and refusal phases: every entry kind x hierarchy depth x AKI combination,
// with the poison first among three others and last after one other.
func reduced(s *shape, th bool) bool {
	if s.val != "utc" || s.h.caEKU || s.h.ik == 4 || s.h.piEKU != 0 || s.h.sameSKI || s.h.caCT || s.alone || s.lax {
		return true
	}
	lay := (s.m == 3 && s.poison <= 0 && s.akiPos == 0) || (s.m == 1 && (s.poison < 0 || s.poison == s.m+b2i(s.leafAKI)) && s.akiPos == 0)
	if s.m == 0 && s.pre() && !s.leafAKI {
		lay = true // the precertificate whose only extension is the poison
	}
	if !lay {
		return false
	}
	if th {
		return s.leafKey == s.h.ik || s.leafKey == (s.h.ik+1)%4
	}
	return s.leafKey == 0 && (s.h.ik == 0 || s.h.ik == 2) || s.leafKey == 3 && s.h.ik == 1 && s.h.n >= 2
}

func b2i(b bool) int {
	if b {
		return 1
	}
	return 0
}

func TestCheck(t *testing.T) {
	silenceKlog()
	r := rep.New("C01", "exploration")
	th := r.Thorough()
	w := newWorld()
	c := &checker{r: r, w: w, siblings: map[int]*shape{}}

	// harness self-test: the reference TBS builder reproduces the TBS that was signed
	for _, s := range w.shapes {
		t2 := s.leaf.T
		if !bytes.Equal(t2.TBS(s.leaf.Signer.SigAlgDER()), s.leaf.TBS) {
			t.Fatalf("harness: template of %s does not rebuild its TBSCertificate", s.label())
		}
	}
	// siblings: another precertificate with the same serial, subject and extensions whose poison
	// stands elsewhere: a different certificate with the same de-poisoned TBSCertificate
	mkSibling := func(s *shape) *shape {
		non := s.m + b2i(s.leafAKI)
		if !s.pre() || non == 0 {
			return nil
		}
		o := *s
		o.poison = (s.poison + 1) % (non + 1)
		o.build()
		if bytes.Equal(o.leaf.DER, s.leaf.DER) || !o.entry().Equal(s.entry()) {
			t.Fatalf("harness: sibling of %s is not a different certificate with the same entry", s.label())
		}
		return &o
	}

	logKeys := []*pki.Key{pki.LoadKey("p256-9"), pki.LoadKey("rsa2048-2")}
	if th {
		logKeys = append(logKeys, pki.LoadKey("p384-1"), pki.LoadKey("ed25519-1"))
	}

	var jobs []job
	// ---- phase S: every shape x form x log key x clock; first submission + resubmission at a later clock
	for _, s := range w.shapes {
		for form := 0; form < 2; form++ {
			for li, lk := range logKeys {
				for ci := range clocks {
					if !th && ci != (s.id+form+2*li)%4 {
						continue // quick: one clock per (shape, form, log key), rotating so that every clock meets every kind, form and log key
					}
					jobs = append(jobs, job{s: s, form: form, lk: lk, clk: ci, hist: []step{{}}, phase: "S"})
				}
			}
		}
	}
	// ... and a P-256 log key whose public point has a coordinate with a leading zero octet (log id = SHA-256 of
	// the DER SubjectPublicKeyInfo, fixed-width coordinates), on the reduced shape set
	shortKey := pki.LoadKey("p256-shortcoord")
	for _, s := range w.shapes {
		if reduced(s, th) && s.val == "utc" {
			jobs = append(jobs, job{s: s, form: s.id % 2, lk: shortKey, clk: s.id % 4, hist: []step{{}}, phase: "S"})
		}
	}
	// ... and log keys on other curves / of other types (outside what RFC 6962 lets a log use, but "a signature that
	// verifies under that key" is demanded of every 200): P-384 and Ed25519, on a third of the reduced shapes
	if !th {
		for _, lk := range []*pki.Key{pki.LoadKey("p384-1"), pki.LoadKey("ed25519-1")} {
			for _, s := range w.shapes {
				if reduced(s, th) && s.val == "utc" && s.id%3 == 0 {
					jobs = append(jobs, job{s: s, form: s.id % 2, lk: lk, clk: s.id % 4, hist: []step{{}}, phase: "S"})
				}
			}
		}
	}
	nS := len(jobs)
	// ---- phase H: all histories of depth 3 on the reduced shape set
	var red []*shape
	for _, s := range w.shapes {
		if reduced(s, th) {
			red = append(red, s)
		}
	}
	hs := histories(3)
	hclocks := []int{0, 1, 2, 3}
	for _, s := range red {
		for form := 0; form < 2; form++ {
			for _, lk := range logKeys {
				if !supported(lk) {
					continue
				}
				for _, ci := range hclocks {
					if !th && ci != (s.id+form)%4 {
						continue // quick: one first clock per (shape, form), rotating
					}
					for _, h := range hs {
						jobs = append(jobs, job{s: s, form: form, lk: lk, clk: ci, hist: h, phase: "H"})
					}
					// a different precertificate of the same final certificate is a fresh entry
					if o := mkSibling(s); o != nil {
						c.siblings[s.id] = o
						jobs = append(jobs, job{s: s, form: form, lk: lk, clk: ci, hist: []step{{sibling: true}, {}}, phase: "H"},
							job{s: s, form: form, lk: lk, clk: ci, hist: []step{{}, {sibling: true, seqBefore: true}}, phase: "H"})
					}
				}
			}
		}
	}
	nH := len(jobs) - nS
	// ---- phase F: the signer refuses during one submission of a history; the others are judged as ever
	for _, s := range w.shapes {
		if !reduced(s, th) || s.val != "utc" {
			continue
		}
		for _, lk := range logKeys {
			if !supported(lk) {
				continue
			}
			jobs = append(jobs, job{s: s, form: 0, lk: lk, clk: 0, hist: []step{{}, {otherForm: true}}, failFirst: true, phase: "F"},
				job{s: s, form: 1, lk: lk, clk: 0, hist: []step{{signFail: true}, {}}, phase: "F"},
				job{s: s, form: 0, lk: lk, clk: 0, hist: []step{{seqBefore: true, signFail: true}, {}}, phase: "F"})
		}
	}
	// ---- phase K: the backend echoes a different stored leaf / fails; phase N: wrong endpoint
	for _, s := range red {
		for form := 0; form < 2; form++ {
			for _, lk := range logKeys {
				if !supported(lk) {
					continue
				}
				ci := (s.id + form) % 4
				for k := range echoHooks {
					jobs = append(jobs, job{s: s, form: form, lk: lk, clk: ci, hook: &echoHooks[k], phase: "K"})
				}
				for k := range failHooks {
					jobs = append(jobs, job{s: s, form: form, lk: lk, clk: ci, hook: &failHooks[k], phase: "N"})
				}
				jobs = append(jobs, job{s: s, form: form, lk: lk, clk: ci, wrong: true, phase: "N"})
			}
		}
	}
	nK := len(jobs) - nS - nH

	var lkn []string
	for _, k := range logKeys {
		lkn = append(lkn, k.Name)
	}
	r.Set("shapes", len(w.shapes))
	r.Set("hierarchies", len(w.hiers))
	r.Set("reduced_shapes", len(red))
	r.Set("histories_phaseS", nS)
	r.Set("histories_phaseH", nH)
	r.Set("histories_phaseK_N", nK)
	r.Set("log_keys", lkn)
	r.Rule(fmt.Sprintf("PKI shapes: leaf key {p256,p384,rsa2048,ed25519} x direct-issuer key {p256,p384,rsa2048,ed25519} (the up to four CAs of one hierarchy use four different algorithms; own root per hierarchy) x 0..3 intermediates x entry kind {certificate, precertificate by the direct issuer, precertificate by a dedicated signing certificate with CT EKU (1..3 intermediates, final issuer = next CA or the root)} x signing certificate with/without AKI x leaf with/without AKI x 0..3 other extensions {SAN, critical keyUsage, private} x AKI first/last among them x poison at every position (first, each middle, last); serial numbers with and without a leading 00 octet; plus NotAfter at the UTCTime/GeneralizedTime boundary (2049-12-31T23:59:59Z, 2050-01-01), plus ordinary issuing CAs that carry a serverAuth/clientAuth EKU extension. %d leaf certificates in %d hierarchies. "+
		"Phase S: every shape x {root omitted, root included} x log key %v x clock {1 ms, 1700000000.123999999 s, 2^31 s, 2^41 ms} (quick: one clock per (shape, form, log key), rotating; thorough: all four), first submission and a resubmission 7.0035 s later. "+
		"Phase H: on the reduced set (every kind x depth x AKI combination x {poison first of 4, poison last of 2, poison only}; %d shapes) every history of 3 submissions over {resubmit, resubmit through the other root form} x {backend sequences before, not}, plus histories submitting a second precertificate with the same de-poisoned TBSCertificate, at %s. "+
		"Phase K/N: reduced set x backend hook {echoes the same entry with timestamp 1 / clock-1 ms / clock+1000 ms / one day older with extensions abcd; status AlreadyExists or OK; Unavailable; no queued leaf; queued leaf without leaf; leaf with trailing byte; truncated leaf} and the endpoint of the other entry kind. "+
		"distinct_nontrivial = distinct (shape, form, log key, clock, history, submission index, backend behaviour) answered 200 and judged by all five oracles, plus distinct expected refusals judged by oracle 5",
		len(w.shapes), len(w.hiers), lkn, len(red), map[bool]string{false: "one of the four first clocks per (shape, form), rotating", true: "each of the four first clocks"}[th]))
	r.Assume(
		"a precertificate issued by a signing certificate WITHOUT authority key identifier while the precertificate has one is outside RFC 6962 s3.2 (the extension 'must also be present'); the statement is silent, the expected TBSCertificate then has the extension removed, as documented for x509.BuildPrecertTBS",
		"a precertificate WITHOUT authority key identifier issued by a signing certificate that has one: RFC 6962 s3.2 and the statement are silent; the expected TBSCertificate carries the signing certificate's extension (value verbatim, non-critical) appended as its last extension, as documented and test-pinned for x509.BuildPrecertTBS (same assumption as C03: the documented behaviour defines the corresponding final certificate)",
		"a TBSCertificate left without any extension after de-poisoning has no extensions field (RFC 5280 s4.1: Extensions ::= SEQUENCE SIZE (1..MAX))",
		"the signature algorithm identifier inside the TBSCertificate is left as signed (RFC 6962 requires the final issuer to use the same algorithm; not enforced by a log)",
		"SCT signatures are judged by the algorithm RFC 6962 s2.1.4 allows for the key type: (sha256, ecdsa) via ecdsa.VerifyASN1 or (sha256, rsa) via rsa.VerifyPKCS1v15; for P-384 and Ed25519 log keys (thorough) a non-200 is counted, not reported, a 200 is judged the same way",
		"a valid submission to a P-256 / RSA-2048 log that is not answered 200 is reported although the statement is conditional on 200 (it would make the check vacuous)",
		"ref/reflog is the model of the de-duplicating backend: identity-hash de-duplication echoing the stored leaf; sequencing does not change stored leaves",
		"all certificates are DER and RFC 5280 conformant in their time encodings")

	done := enum.ParFor(len(jobs), r.Expired, func(i int) {
		pan, msg, stack := enum.Catch(func() { c.run(jobs[i]) })
		if pan {
			r.Violation("harness-panic", msg+"\n"+stack, jobs[i].s.label())
		}
	})
	if !done {
		r.Capped("deadline reached before all histories were run")
	}
	r.Finish()
}
