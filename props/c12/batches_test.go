//go:build go1.25

package c12

// get-entries answers of every length around the sizes an implementation is likely to treat specially
// (1..9, 15..17, 31..33, 35, 63..65, 100, 127..129, 255..257, 1000, 1024, 1025): GetRawEntries and GetEntries
// return exactly the served entries, in order, each fully decoded with its own index - or an error; with one
// undecodable entry at any of the probed positions (first, second, middle, last eight) GetEntries fails.

import (
	"bytes"
	"context"
	"fmt"
	"io"
	"net/http"
	"strings"

	"verif/engine/enum"

	ct "github.com/google/certificate-transparency-go"
	"verif/ref/ct6962"
	"verif/ref/pki"

	"github.com/google/certificate-transparency-go/client"
	"github.com/google/certificate-transparency-go/jsonclient"
	cttls "github.com/google/certificate-transparency-go/tls"
)

func tlsMarshalLeaf(ml *ct.MerkleTreeLeaf) ([]byte, error) { return cttls.Marshal(*ml) }

type fixedRT struct{ body string }

func (f fixedRT) RoundTrip(req *http.Request) (*http.Response, error) {
	return &http.Response{StatusCode: 200, Status: "200 OK", Header: http.Header{"Content-Type": []string{"application/json"}},
		Body: io.NopCloser(strings.NewReader(f.body)), Request: req, Proto: "HTTP/1.1", ProtoMajor: 1, ProtoMinor: 1, ContentLength: -1}, nil
}

func (c *checker) batchSizes() {
	r := c.r
	sizes := []int{1, 2, 3, 4, 5, 6, 7, 8, 9, 15, 16, 17, 31, 32, 33, 35, 63, 64, 65, 100, 127, 128, 129, 255, 256, 257}
	if r.Thorough() {
		sizes = append(sizes, 511, 512, 513, 1000, 1023, 1024, 1025)
	}
	type job struct{ n, bad int }
	var jobs []job
	for _, n := range sizes {
		jobs = append(jobs, job{n, -1})
		pos := map[int]bool{0: true, 1: true, n / 2: true}
		for k := 1; k <= 8; k++ {
			pos[n-k] = true
		}
		for p := range pos {
			if p >= 0 && p < n {
				jobs = append(jobs, job{n, p})
			}
		}
	}
	const start = 40
	// the batch cycles through a certificate entry, a precertificate entry and a certificate entry whose certificate
	// parses with a remark the lenient parser does not treat as fatal (an entry like any other)
	lintCert := pki.NewLeaf("c12 batch lint", pki.LoadKey("rsa2048-1~nonull"), c.w.ca, pki.LeafOpts{})
	lintLeaf := must(ct6962.AppendMerkleTreeLeaf(nil, ct6962.MerkleTreeLeaf{Entry: ct6962.TimestampedEntry{Timestamp: 99, SignedEntry: ct6962.SignedEntry{Cert: lintCert.DER}}}))
	batchEntries := []refEntry{c.w.entries[0], c.w.entries[1], {lintLeaf, c.w.entries[0].extra}}
	enum.ParFor(len(jobs), r.Expired, func(ji int) {
		j := jobs[ji]
		a := jarr()
		for i := 0; i < j.n; i++ {
			e := batchEntries[i%len(batchEntries)]
			leaf := e.leaf
			if i == j.bad {
				leaf = leaf[:len(leaf)-3] // a MerkleTreeLeaf cut short: no decoder accepts it
			}
			a.kids = append(a.kids, jobj("leaf_input", jb64(leaf), "extra_data", jb64(e.extra)))
		}
		body := jobj("entries", a).String()
		lc, err := client.New("http://batch.example/log", &http.Client{Transport: fixedRT{body}}, jsonclient.Options{})
		if err != nil {
			r.Violation("harness", "client: "+err.Error(), nil)
			return
		}
		desc := map[string]any{"served_entries": j.n, "undecodable_position": j.bad, "first_index": start}
		r.Eval(2)
		r.Nontrivial(fmt.Sprintf("batch|%d|%d", j.n, j.bad))
		var raw *ct.GetEntriesResponse
		var ents []ct.LogEntry
		var e1, e2 error
		if pan, msg, stack := enum.Catch(func() {
			raw, e1 = lc.GetRawEntries(context.Background(), start, start+int64(j.n)-1)
			ents, e2 = lc.GetEntries(context.Background(), start, start+int64(j.n)-1)
		}); pan {
			r.Violation("panic in get-entries client", msg+"\n"+stack, desc)
			return
		}
		// raw entries: bytes as served, whatever they are
		if e1 != nil || raw == nil || len(raw.Entries) != j.n {
			r.Violation("GetRawEntries does not return the served batch", fmt.Sprintf("%d entries served: err=%v", j.n, e1), desc)
		} else {
			for i, e := range raw.Entries {
				w := batchEntries[i%len(batchEntries)]
				wl := w.leaf
				if i == j.bad {
					wl = wl[:len(wl)-3]
				}
				if !bytes.Equal(e.LeafInput, wl) || !bytes.Equal(e.ExtraData, w.extra) {
					r.Violation("GetRawEntries returns an entry that is not the served one", fmt.Sprintf("%d entries served: position %d differs", j.n, i), desc)
					break
				}
			}
		}
		if j.bad >= 0 {
			if e2 == nil {
				r.Violation("GetEntries returns success although an entry of the batch cannot be decoded", fmt.Sprintf("%d entries served, position %d is cut short: %d entries returned without error", j.n, j.bad, len(ents)), desc)
			} else if len(ents) != 0 {
				r.Violation("GetEntries returns entries together with an error", fmt.Sprintf("%d entries and error %v", len(ents), e2), desc)
			}
			return
		}
		if e2 != nil || len(ents) != j.n {
			r.Violation("GetEntries does not return the served batch", fmt.Sprintf("%d entries served: %d returned, err=%v", j.n, len(ents), e2), desc)
			return
		}
		for i := range ents {
			w := batchEntries[i%len(batchEntries)]
			var ml ct.MerkleTreeLeaf
			ml = ents[i].Leaf
			li, err := tlsMarshalLeaf(&ml)
			pre := i%len(batchEntries) == 1
			ok := err == nil && bytes.Equal(li, w.leaf) && ents[i].Index == start+int64(i) && len(ents[i].Chain) == 2
			if pre {
				ok = ok && ents[i].Precert != nil && ents[i].X509Cert == nil
			} else {
				ok = ok && ents[i].X509Cert != nil && ents[i].Precert == nil
			}
			if !ok {
				r.Violation("GetEntries returns an entry that is not the decoded form of the served one", fmt.Sprintf("%d entries served: position %d: index %d (want %d), leaf matches=%v, cert=%v precert=%v chain=%d",
					j.n, i, ents[i].Index, start+int64(i), err == nil && bytes.Equal(li, w.leaf), ents[i].X509Cert != nil, ents[i].Precert != nil, len(ents[i].Chain)), desc)
				return
			}
		}
	})
}
