//go:build go1.25

// C12 — a log client holding the log key never hands back unverified signed data.
//
// Engine B over server behaviours (fault enumeration): every LogClient method and
// the TemporalLogClient add methods are run against every behaviour of a scripted
// http.RoundTripper: status x (honest body x mutation), redirects, transport
// errors, body read errors, retry-then-answer sequences. Each case runs in its own
// testing/synctest bubble so that the retry back-off of the add methods costs no
// wall time. Oracles are computed by a reference model: hand-written decoding of
// the served body, std-crypto verification over verif/ref/ct6962 signature inputs
// built from the certificate templates of the submitted chain.
package c12

import (
	"bytes"
	"context"
	"crypto/sha256"
	"errors"
	"fmt"
	"io"
	"log"
	"net/http"
	"reflect"
	"sort"
	"strings"
	"sync"
	"testing"
	"testing/synctest"
	"time"

	"verif/engine/enum"
	"verif/engine/rep"
	"verif/ref/ct6962"

	ct "github.com/google/certificate-transparency-go"
	"github.com/google/certificate-transparency-go/client"
	"github.com/google/certificate-transparency-go/client/configpb"
	"github.com/google/certificate-transparency-go/jsonclient"
	"google.golang.org/protobuf/types/known/timestamppb"
)

// ---- scripted server -----------------------------------------------------------

type step struct {
	neterr   bool
	status   int
	location string // with 301: Location header; the GET that follows is answered by target
	target   *step
	body     string
	readErr  int   // >= 0: deliver body[:readErr], then fail the read
	clen     int64 // != 0: the Content-Length the server declares (0: none, the length is unknown)
}

func ok200(body string) step { return step{status: 200, body: body, readErr: -1} }

// script: the steps of first are served in order, then `then` for ever.
type script struct {
	first []step
	then  step
}

type served struct {
	method, host, path string
	reqBody            []byte
	st                 *step
}

type scriptedRT struct {
	sc  *script
	n   int
	log []served
	cur *step // redirect in progress
}

type failingBody struct {
	data []byte
	off  int
}

func (f *failingBody) Read(p []byte) (int, error) {
	if f.off >= len(f.data) {
		return 0, errors.New("connection reset while reading the body")
	}
	n := copy(p, f.data[f.off:])
	f.off += n
	return n, nil
}
func (f *failingBody) Close() error { return nil }

func (rt *scriptedRT) RoundTrip(req *http.Request) (*http.Response, error) {
	var rb []byte
	if req.Body != nil {
		rb, _ = io.ReadAll(req.Body)
		req.Body.Close()
	}
	var st *step
	if rt.cur != nil && req.URL.Path == "/moved" {
		st = rt.cur.target
		rt.cur = nil
	} else {
		if rt.n < len(rt.sc.first) {
			st = &rt.sc.first[rt.n]
		} else {
			st = &rt.sc.then
		}
		rt.n++
	}
	rt.log = append(rt.log, served{method: req.Method, host: req.URL.Host, path: req.URL.Path, reqBody: rb, st: st})
	if len(rt.log) > 64 {
		return nil, errors.New("harness: more than 64 requests in one case")
	}
	if st.neterr {
		return nil, errors.New("connection refused")
	}
	h := http.Header{}
	if st.location != "" {
		h.Set("Location", st.location)
		rt.cur = st
	}
	var body io.ReadCloser = io.NopCloser(strings.NewReader(st.body))
	if st.readErr >= 0 {
		body = &failingBody{data: []byte(st.body[:st.readErr])}
	}
	cl := int64(-1)
	if st.clen != 0 {
		cl = st.clen
		h.Set("Content-Length", fmt.Sprint(cl))
	}
	return &http.Response{StatusCode: st.status, Status: fmt.Sprintf("%d %s", st.status, http.StatusText(st.status)), Header: h,
		Body: body, Request: req, Proto: "HTTP/1.1", ProtoMajor: 1, ProtoMinor: 1, ContentLength: cl}, nil
}

type nolog struct{}

func (nolog) Printf(string, ...interface{}) {}

// ---- method variants -----------------------------------------------------------

type variant struct {
	name     string
	ep       string
	post     bool
	signed   bool
	temporal bool
	keys     []*keyCfg
	sub      *submission
	honest   func(w *world, kc *keyCfg) *jn
	call     func(ctx context.Context, lc *client.LogClient, tlc *client.TemporalLogClient, sub *submission) (any, error)
}

const (
	entStart, entEnd = 3, 4
	callTimeout      = 10 * time.Second
)

func asn1Chain(chain [][]byte) []ct.ASN1Cert {
	out := make([]ct.ASN1Cert, len(chain))
	for i, c := range chain {
		out[i] = ct.ASN1Cert{Data: c}
	}
	return out
}

func variants(w *world) []*variant {
	both := []*keyCfg{kP256, kRSA}
	one := []*keyCfg{kP256}
	honestSCT := func(s *submission) func(w *world, kc *keyCfg) *jn {
		return func(w *world, kc *keyCfg) *jn {
			c := w.sctContents()[0]
			return sctBody(kc.id(), c, honestDS(kc.k, hSHA256, sctInput(c, s.entry)))
		}
	}
	add := func(name string, s *submission, keys []*keyCfg, temporal bool) *variant {
		return &variant{name: name, ep: "add-chain", post: true, signed: true, temporal: temporal, keys: keys, sub: s, honest: honestSCT(s),
			call: func(ctx context.Context, lc *client.LogClient, tlc *client.TemporalLogClient, sub *submission) (any, error) {
				ch := asn1Chain(sub.chain)
				switch {
				case temporal && sub.pre:
					return tlc.AddPreChain(ctx, ch)
				case temporal:
					return tlc.AddChain(ctx, ch)
				case sub.pre:
					return lc.AddPreChain(ctx, ch)
				}
				return lc.AddChain(ctx, ch)
			}}
	}
	vs := []*variant{
		{name: "GetSTH", ep: "get-sth", signed: true, keys: both,
			honest: func(w *world, kc *keyCfg) *jn {
				c := w.sthContents()[0]
				return sthBody(c, honestDS(kc.k, hSHA256, sthInput(c)))
			},
			call: func(ctx context.Context, lc *client.LogClient, _ *client.TemporalLogClient, _ *submission) (any, error) {
				return lc.GetSTH(ctx)
			}},
		add("AddChain", w.subX509, both, false),
		add("AddPreChain", w.subPre, both, false),
		add("AddPreChain[via precert signing cert]", w.subPreIssuer, both, false),
		add("AddPreChain[via precert signing cert with several EKUs]", w.subPreIssuer2, one, false),
		add("Temporal.AddChain[shard0]", w.subX509Old, []*keyCfg{kShard0}, true),
		add("Temporal.AddChain[shard1]", w.subX509, []*keyCfg{kShard1}, true),
		add("Temporal.AddPreChain[shard0]", w.subPreOld, []*keyCfg{kShard0}, true),
		add("Temporal.AddPreChain[shard1]", w.subPre, []*keyCfg{kShard1}, true),
		{name: "GetSTHConsistency", ep: "get-sth-consistency", keys: one,
			honest: func(w *world, _ *keyCfg) *jn { return jobj("consistency", jb64s(w.consist)) },
			call: func(ctx context.Context, lc *client.LogClient, _ *client.TemporalLogClient, _ *submission) (any, error) {
				return lc.GetSTHConsistency(ctx, 3, 7)
			}},
		{name: "GetProofByHash", ep: "get-proof-by-hash", keys: one,
			honest: func(w *world, _ *keyCfg) *jn { return jobj("leaf_index", jnum(3), "audit_path", jb64s(w.audit)) },
			call: func(ctx context.Context, lc *client.LogClient, _ *client.TemporalLogClient, _ *submission) (any, error) {
				return lc.GetProofByHash(ctx, w.leafHash[3], 7)
			}},
		{name: "GetRawEntries", ep: "get-entries", keys: one, honest: honestEntries,
			call: func(ctx context.Context, lc *client.LogClient, _ *client.TemporalLogClient, _ *submission) (any, error) {
				return lc.GetRawEntries(ctx, entStart, entEnd)
			}},
		{name: "GetEntries", ep: "get-entries", keys: one, honest: honestEntries,
			call: func(ctx context.Context, lc *client.LogClient, _ *client.TemporalLogClient, _ *submission) (any, error) {
				return lc.GetEntries(ctx, entStart, entEnd)
			}},
		{name: "GetEntryAndProof", ep: "get-entry-and-proof", keys: one,
			honest: func(w *world, _ *keyCfg) *jn {
				return jobj("leaf_input", jb64(w.entries[0].leaf), "extra_data", jb64(w.entries[0].extra), "audit_path", jb64s(w.audit))
			},
			call: func(ctx context.Context, lc *client.LogClient, _ *client.TemporalLogClient, _ *submission) (any, error) {
				return lc.GetEntryAndProof(ctx, 3, 7)
			}},
		{name: "GetAcceptedRoots", ep: "get-roots", keys: one,
			honest: func(w *world, _ *keyCfg) *jn { return jobj("certificates", jb64s(w.roots)) },
			call: func(ctx context.Context, lc *client.LogClient, _ *client.TemporalLogClient, _ *submission) (any, error) {
				return lc.GetAcceptedRoots(ctx)
			}},
	}
	return vs
}

func honestEntries(w *world, _ *keyCfg) *jn {
	a := jarr()
	for _, e := range w.entries {
		a.kids = append(a.kids, jobj("leaf_input", jb64(e.leaf), "extra_data", jb64(e.extra)))
	}
	return jobj("entries", a)
}

// semanticBodies: responses that are perfectly formed but signed differently /
// signed over something else / carrying another id.
func semanticBodies(w *world, v *variant, kc *keyCfg, thorough bool) []bodyCase {
	var out []bodyCase
	sms := sigModes()
	switch v.ep {
	case "get-sth":
		for _, c := range w.sthContents() {
			msg := sthInput(c)
			for _, sm := range sms {
				out = append(out, bodyCase{label: c.name + " " + sm.name, body: sthBody(c, sm.make(kc, msg)).String(), benign: sm.good})
			}
		}
		// fields changed after signing
		c := w.sthContents()[0]
		ds := honestDS(kc.k, hSHA256, sthInput(c))
		for _, d := range []struct {
			l string
			c sthContent
		}{
			{"tree_size+1-after-signing", sthContent{size: c.size + 1, ts: c.ts, root: c.root}},
			{"tree_size-0-after-signing", sthContent{size: 0, ts: c.ts, root: c.root}},
			{"timestamp+1-after-signing", sthContent{size: c.size, ts: c.ts + 1, root: c.root}},
			{"timestamp-0-after-signing", sthContent{size: c.size, ts: 0, root: c.root}},
			{"root-flipped-after-signing", sthContent{size: c.size, ts: c.ts, root: [32]byte(flip(c.root[:], 31, 1))}},
			{"size-and-timestamp-swapped-after-signing", sthContent{size: c.ts, ts: c.size, root: c.root}},
		} {
			out = append(out, bodyCase{label: "sth:" + d.l, body: sthBody(d.c, ds).String()})
		}
		// wrong-length roots that zero-padding / truncation would turn into the signed root
		zc := w.sthContents()[4]
		zds := honestDS(kc.k, hSHA256, sthInput(zc))
		for _, n := range []int{0, 1, 31, 33, 64} {
			b := sthBody(zc, zds)
			b.kids[2] = jb64(make([]byte, n))
			out = append(out, bodyCase{label: fmt.Sprintf("sth:zero-root-served-with-%d-bytes", n), body: b.String()})
		}
		// an SCT-shaped signature (another signature type of the same key)
		sc := w.sctContents()[0]
		out = append(out, bodyCase{label: "sth:signature-of-an-SCT", body: sthBody(c, honestDS(kc.k, hSHA256, sctInput(sc, w.subX509.entry))).String()})
	case "add-chain":
		type em struct {
			name string
			e    ct6962.SignedEntry
			good bool
		}
		ems := []em{{"entry:submitted", v.sub.entry, true}, {"entry:other-type", v.sub.otherType, false}, {"entry:other-chain", v.sub.otherChain, false}}
		if v.sub.otherIssue != nil {
			ems = append(ems, em{"entry:other-issuer-key-hash", *v.sub.otherIssue, false})
		}
		type im struct {
			name string
			id   []byte
			good bool
		}
		fh, oh := kc.foreign.KeyHash(), kc.other.KeyHash()
		spkiSHA1 := make([]byte, 32)
		ims := []im{{"id:configured-key", kc.id(), true}, {"id:foreign-key", fh[:], false}, {"id:other-log-key", oh[:], false},
			{"id:31-bytes", kc.id()[:31], false}, {"id:33-bytes", append(kc.id(), 0), false}, {"id:empty", nil, false},
			{"id:zero", make([]byte, 32), false}, {"id:last-bit-flipped", flip(kc.id(), 31, 1), false}, {"id:not-a-hash-of-the-key", spkiSHA1, false}}
		cs := w.sctContents()
		for ci, c := range cs {
			for ei, e := range ems {
				msg := sctInput(c, e.e)
				for ii, i := range ims {
					for si, sm := range sms {
						// quick: at most two dimensions away from the honest response, plus all (entry, id) x 5 signature modes; thorough: full product
						dims := 0
						for _, x := range []int{ci, ei, ii, si} {
							if x != 0 {
								dims++
							}
						}
						if !thorough && dims > 2 && !(ci == 0 && si <= 4) {
							continue
						}
						out = append(out, bodyCase{label: strings.Join([]string{c.name, e.name, i.name, sm.name}, " "),
							body: sctBody(i.id, c, sm.make(kc, msg)).String(), benign: e.good && i.good && sm.good})
					}
				}
			}
		}
		// fields changed after signing
		c := cs[0]
		ds := honestDS(kc.k, hSHA256, sctInput(c, v.sub.entry))
		mk := func(l string, ver uint64, c2 sctContent) {
			b := sctBody(kc.id(), c2, ds)
			b.kids[0] = jnum(ver)
			out = append(out, bodyCase{label: "sct:" + l, body: b.String()})
		}
		mk("timestamp+1-after-signing", 0, sctContent{ts: c.ts + 1})
		mk("timestamp-0-after-signing", 0, sctContent{ts: 0})
		mk("extensions-added-after-signing", 0, sctContent{ts: c.ts, ext: []byte{0}})
		mk("version-1-after-signing", 1, c)
		mk("version-255-after-signing", 255, c)
		mk("version-256-after-signing", 256, c)
		c1 := cs[1]
		ds1 := honestDS(kc.k, hSHA256, sctInput(c1, v.sub.entry))
		out = append(out, bodyCase{label: "sct:extensions-dropped-after-signing", body: sctBody(kc.id(), sctContent{ts: c1.ts}, ds1).String()})
		out = append(out, bodyCase{label: "sct:extensions-changed-after-signing", body: sctBody(kc.id(), sctContent{ts: c1.ts, ext: []byte{1, 2, 4}}, ds1).String()})
		// extensions at and beyond what the 2-byte length prefix of an SCT can express: 65535 bytes is an SCT like any other;
		// anything longer is not an SCT, whatever the log signed (the bytes with the length prefix wrapped modulo 2^16, or cut)
		bigExt := func(n int) []byte {
			b := make([]byte, n)
			for i := range b {
				b[i] = byte(i*13 + 1)
			}
			return b
		}
		c65535 := sctContent{ts: c.ts, ext: bigExt(65535)}
		out = append(out, bodyCase{label: "sct:extensions-65535-bytes", body: sctBody(kc.id(), c65535, honestDS(kc.k, hSHA256, sctInput(c65535, v.sub.entry))).String(), benign: true})
		for _, n := range []int{65536, 65539, 131072} {
			ext := bigExt(n)
			base := sctInput(sctContent{ts: c.ts}, v.sub.entry) // ends with the empty extensions' 00 00
			wrapped := append(append(append([]byte{}, base[:len(base)-2]...), byte(n>>8), byte(n)), ext...)
			out = append(out, bodyCase{label: fmt.Sprintf("sct:extensions-%d-bytes signed-over-wrapped-length-prefix", n),
				body: sctBody(kc.id(), sctContent{ts: c.ts, ext: ext}, honestDS(kc.k, hSHA256, wrapped)).String()})
			cut := sctInput(sctContent{ts: c.ts, ext: ext[:n%65536]}, v.sub.entry)
			out = append(out, bodyCase{label: fmt.Sprintf("sct:extensions-%d-bytes signed-over-cut-extensions", n),
				body: sctBody(kc.id(), sctContent{ts: c.ts, ext: ext}, honestDS(kc.k, hSHA256, cut)).String()})
		}
		// an STH signature of the same key
		sc := w.sthContents()[0]
		out = append(out, bodyCase{label: "sct:signature-of-an-STH", body: sctBody(kc.id(), c, honestDS(kc.k, hSHA256, sthInput(sc))).String()})
	case "get-entries":
		// more entries than asked for, entries in another order, a single entry
		h := honestEntries(w, nil)
		e0, e1 := h.kids[0].kids[0], h.kids[0].kids[1]
		out = append(out, bodyCase{label: "entries:three-for-a-range-of-two", body: jobj("entries", jarr(e0, e1, e0)).String()},
			bodyCase{label: "entries:swapped", body: jobj("entries", jarr(e1, e0)).String()},
			bodyCase{label: "entries:only-first", body: jobj("entries", jarr(e0)).String(), benign: true},
			bodyCase{label: "entries:extra-data-of-the-other", body: jobj("entries", jarr(
				jobj("leaf_input", jb64(w.entries[0].leaf), "extra_data", jb64(w.entries[1].extra)),
				jobj("leaf_input", jb64(w.entries[1].leaf), "extra_data", jb64(w.entries[0].extra)))).String()})
	}
	return out
}

// ---- prediction by the reference model -------------------------------------------

type predKind int

const (
	pNoResponse         predKind = iota // transport failure before any response reached the JSON client
	pRspError                           // a response was received that a correct client must refuse
	pRetryUntilDeadline                 // the server keeps asking for retries: the call ends with the context
	pOK200                              // a 200 whose body has to be judged
)

type prediction struct {
	kind   predKind
	status int
	body   []byte
	cause  string
	steps  int // scripted answers consumed when the call must end (0 = not applicable)
}

func retryable(st *step) bool {
	return st.neterr || st.readErr >= 0 || st.status == 408 || st.status == 429 || st.status == 503 || (st.status == 301 && st.location != "")
}

func final(st *step) prediction {
	switch {
	case st.neterr:
		return prediction{kind: pNoResponse}
	case st.readErr >= 0:
		return prediction{kind: pRspError, status: st.status, body: []byte(st.body[:st.readErr]), cause: "body-read-error"}
	case st.status != 200:
		return prediction{kind: pRspError, status: st.status, body: []byte(st.body), cause: "non-200-status"}
	}
	return prediction{kind: pOK200, status: 200, body: []byte(st.body)}
}

// unparsable200: a 200 whose body the reference decoder refuses (or that carries
// bytes after the document): property C13 makes it a retry class of the add
// methods, so the client may go on, end with the context error, or refuse it at
// once with RspError{200, body}.
func unparsable200(ep string, st *step) bool {
	if st.neterr || st.readErr >= 0 || st.status != 200 {
		return false
	}
	_, trailing, err := decodeBody(ep, []byte(st.body))
	return err != nil || trailing
}

// predict: served = scripted answers the client consumed; succeeded = it returned no error.
func predict(post bool, ep string, sc *script, served int, succeeded bool) prediction {
	if !post {
		st := &sc.then
		if len(sc.first) > 0 {
			st = &sc.first[0]
		}
		for hops := 0; st.status == 301 && st.location != "" && !st.neterr && hops < 5; hops++ {
			st = st.target
		}
		return final(st)
	}
	for i := 0; ; i++ {
		st := &sc.then
		if i < len(sc.first) {
			st = &sc.first[i]
		}
		if unparsable200(ep, st) {
			if served > i+1 {
				continue // the client retried, as C13 requires
			}
			if succeeded {
				p := final(st) // judged as a body: accepting a malformed one is an alarm
				p.steps = i + 1
				return p
			}
			return prediction{kind: pRetryUntilDeadline, status: 200, body: []byte(st.body)}
		}
		if retryable(st) {
			if i >= len(sc.first) {
				p := prediction{kind: pRetryUntilDeadline, status: st.status, body: []byte(st.body)}
				if st.readErr >= 0 {
					p.body = []byte(st.body[:st.readErr])
				}
				if st.status == 301 && st.target != nil {
					p.status, p.body = st.target.status, []byte(st.target.body)
				}
				return p
			}
			continue
		}
		p := final(st)
		p.steps = i + 1
		return p
	}
}

// ---- one case ------------------------------------------------------------------------

type hcase struct {
	label  string
	sc     script
	benign bool
}

type checker struct {
	r *rep.R
	w *world
	t *testing.T

	mu       sync.Mutex
	accepted map[string]int
	outcomes map[string]int
}

type caseDesc struct {
	Method   string `json:"method"`
	Key      string `json:"configured_key"`
	Case     string `json:"case"`
	Script   string `json:"server_script"`
	Body     string `json:"served_body,omitempty"`
	Got      string `json:"client_returned"`
	Expected string `json:"expected"`
}

func showStep(st *step) string {
	switch {
	case st.neterr:
		return "transport-error"
	case st.readErr >= 0:
		return fmt.Sprintf("%d+body-read-error-after-%d-bytes", st.status, st.readErr)
	case st.status == 301 && st.location != "":
		return "301->GET(" + showStep(st.target) + ")"
	}
	return fmt.Sprint(st.status)
}

func showScript(sc *script) string {
	var p []string
	for i := range sc.first {
		p = append(p, showStep(&sc.first[i]))
	}
	return strings.Join(append(p, showStep(&sc.then)+"*"), ", ")
}

func clip(s string) string {
	if len(s) > 1500 {
		return s[:700] + fmt.Sprintf("...(%d bytes)...", len(s)) + s[len(s)-300:]
	}
	return s
}

// ascii keeps reports printable (the driver greps its log as text).
func ascii(s string) string {
	var sb strings.Builder
	for i := 0; i < len(s); i++ {
		c := s[i]
		switch {
		case c == '\n' || c == '\t' || (c >= 0x20 && c < 0x7f):
			sb.WriteByte(c)
		default:
			fmt.Fprintf(&sb, "\\x%02x", c)
		}
	}
	return sb.String()
}

func isNilResult(v any) bool {
	if v == nil {
		return true
	}
	rv := reflect.ValueOf(v)
	switch rv.Kind() {
	case reflect.Ptr, reflect.Slice, reflect.Map:
		return rv.IsNil()
	}
	return false
}

func (c *checker) newClients(v *variant, kc *keyCfg, rt http.RoundTripper) (*client.LogClient, *client.TemporalLogClient, error) {
	hc := &http.Client{Transport: rt}
	if v.temporal {
		cfg := &configpb.TemporalLogConfig{Shard: []*configpb.LogShardConfig{
			{Uri: "http://shard0.example/log", PublicKeyDer: kShard0.k.SPKI, NotAfterLimit: timestamppb.New(shardBoundary)},
			{Uri: "http://shard1.example/log", PublicKeyDer: kShard1.k.SPKI, NotAfterStart: timestamppb.New(shardBoundary)},
		}}
		tlc, err := client.NewTemporalLogClient(cfg, hc)
		return nil, tlc, err
	}
	lc, err := client.New("http://log.example/log", hc, jsonclient.Options{Logger: nolog{}, PublicKeyDER: kc.k.SPKI})
	return lc, nil, err
}

// sstep is one call of a session: several calls on the SAME client instance.
// sub / kc override the variant's submission and the key the answer is judged
// under (temporal client: the other shard).
type sstep struct {
	hc  *hcase
	sub *submission
	kc  *keyCfg
}

type switchRT struct{ cur *scriptedRT }

func (s *switchRT) RoundTrip(req *http.Request) (*http.Response, error) { return s.cur.RoundTrip(req) }

type callResult struct {
	rt      *scriptedRT
	res     any
	err     error
	pan     bool
	pmsg    string
	pstack  string
	elapsed time.Duration
}

func (c *checker) run(v *variant, kc *keyCfg, hcs *hcase) {
	c.runSeq(v, kc, []sstep{{hc: hcs}}, "")
}

// runSeq makes the calls of a session one after the other on one client, in one
// bubble, and judges every call by the single-call oracle.
func (c *checker) runSeq(v *variant, kc *keyCfg, steps []sstep, session string) {
	sw := &switchRT{}
	out := make([]callResult, len(steps))
	var cerr error
	synctest.Test(c.t, func(t *testing.T) {
		lc, tlc, e := c.newClients(v, kc, sw)
		if e != nil {
			cerr = e
			return
		}
		for i := range steps {
			sc := steps[i].hc.sc
			o := &out[i]
			o.rt = &scriptedRT{sc: &sc}
			sw.cur = o.rt
			sub := v.sub
			if steps[i].sub != nil {
				sub = steps[i].sub
			}
			ctx, cancel := context.WithTimeout(context.Background(), callTimeout)
			start := time.Now()
			o.pan, o.pmsg, o.pstack = enum.Catch(func() { o.res, o.err = v.call(ctx, lc, tlc, sub) })
			o.elapsed = time.Since(start)
			cancel()
		}
	})
	if cerr != nil {
		c.r.Violation("harness: client construction failed", cerr.Error(), v.name)
		return
	}
	for i := range steps {
		vv, k := v, kc
		if steps[i].sub != nil {
			cp := *v
			cp.sub = steps[i].sub
			vv = &cp
		}
		if steps[i].kc != nil {
			k = steps[i].kc
		}
		label := steps[i].hc.label
		if session != "" {
			label = fmt.Sprintf("%s call %d of %d: %s", session, i+1, len(steps), label)
		}
		c.judgeCall(vv, k, steps[i].hc, label, &out[i], session != "")
	}
}

func (c *checker) judgeCall(v *variant, kc *keyCfg, hcs *hcase, label string, o *callResult, inSession bool) {
	c.r.Eval(1)
	rt, res, err := o.rt, o.res, o.err
	sc := *rt.sc
	pred := predict(v.post, v.ep, &sc, rt.n, err == nil && !o.pan)
	cd := caseDesc{Method: v.name, Key: kc.name, Case: label, Script: showScript(&sc)}
	if pred.kind == pOK200 || pred.kind == pRspError {
		cd.Body = clip(string(pred.body))
	}
	viol := func(sig, format string, a ...any) {
		cd.Got = ascii(fmt.Sprintf("result=%s err=%v", clip(fmt.Sprintf("%+v", res)), err))
		if err != nil {
			cd.Got += fmt.Sprintf(" (%T)", err)
		}
		cd.Body = ascii(cd.Body)
		if inSession {
			sig += " (in a session of several calls on one client)"
		}
		c.r.Violation(sig, ascii(fmt.Sprintf("%s, client key %s, case %q, server %s: ", v.name, kc.name, label, showScript(&sc))+fmt.Sprintf(format, a...)), cd)
	}
	if o.pan {
		viol("panic in "+famOf(v), "panic: %s\n%s", o.pmsg, o.pstack)
		return
	}
	if v.post {
		c.checkRequests(v, kc, rt, viol)
	}
	if o.elapsed > callTimeout {
		viol("call returns after the context deadline "+famOf(v), "returned %v after the call, deadline %v", o.elapsed, callTimeout)
	}
	outcome := "error"
	if err == nil {
		outcome = "accepted"
		if v.post && pred.steps > 0 && rt.n > pred.steps && pred.kind != pNoResponse {
			// the client went on after a response that had to end the call; whatever it
			// returns must be justified by the last response it was served
			cause := pred.cause
			if pred.kind == pOK200 {
				cause = "200-body-the-reference-refuses-or-accepts"
				if _, _, derr := decodeBody(v.ep, pred.body); derr != nil {
					cause = "malformed-200-body"
				}
			}
			viol(fmt.Sprintf("request repeated after a response that must end the call %s cause=%s", famOf(v), cause), "%d requests answered, the call had to end with answer %d", rt.n, pred.steps)
			pred = final(rt.log[len(rt.log)-1].st)
			outcome = "accepted-after-unwarranted-retry"
		}
		if v.post && distinct200(rt) > 1 {
			// several different 200 bodies reached the client (an unparsable one, retried, then another):
			// the returned SCT is judged by its own fields only
			c.judgeAssembledSCT(v, kc, rt, res, viol)
			outcome = "accepted-after-several-200-bodies"
		} else {
			c.judgeSuccess(v, kc, hcs, pred, res, viol)
		}
	} else {
		if !isNilResult(res) {
			viol("non-nil result returned together with an error "+famOf(v), "result %+v with error %v", res, err)
		}
		c.judgeError(v, kc, hcs, pred, err, viol)
		var re jsonclient.RspError
		switch {
		case errors.As(err, &re):
			outcome = fmt.Sprintf("RspError(%d)", re.StatusCode)
		case errors.Is(err, context.DeadlineExceeded):
			outcome = "deadline"
		}
	}
	name := v.name
	if inSession {
		name += " (session)"
		c.r.Add("session_calls", 1)
	}
	c.mu.Lock()
	c.outcomes[name+" => "+outcome]++
	c.mu.Unlock()
	c.r.Nontrivial(v.name + "|" + kc.name + "|" + label + "|" + showScript(&sc) + "|" + outcome)
	if outcome == "accepted" && !hcs.benign && c.r.WantSample() && strings.Contains(hcs.label, "sha384") {
		c.r.Sample(map[string]any{"method": v.name, "key": kc.name, "case": label, "server": showScript(&sc), "outcome": "accepted; verified by std crypto with the declared hash"})
	}
}

func distinct200(rt *scriptedRT) int {
	seen := map[string]bool{}
	for _, s := range rt.log {
		if s.method == http.MethodPost && !s.st.neterr && s.st.readErr < 0 && s.st.status == 200 {
			seen[s.st.body] = true
		}
	}
	return len(seen)
}

// judgeAssembledSCT: (verifies for the submitted chain and type at its own fields)
// and (LogID == SHA-256(SPKI)) and (the last answer was a 200 to the POST).
func (c *checker) judgeAssembledSCT(v *variant, kc *keyCfg, rt *scriptedRT, res any, viol func(string, string, ...any)) {
	last := rt.log[len(rt.log)-1]
	if last.method != http.MethodPost || last.st.neterr || last.st.readErr >= 0 || last.st.status != 200 {
		viol("success although no 200 response was served "+famOf(v), "last answer %s to %s", showStep(last.st), last.method)
		return
	}
	sct, _ := res.(*ct.SignedCertificateTimestamp)
	if sct == nil {
		viol("nil result without error "+famOf(v), "nil, nil")
		return
	}
	ds := ct6962.DigitallySigned{Hash: uint8(sct.Signature.Algorithm.Hash), Sig: uint8(sct.Signature.Algorithm.Signature), Signature: sct.Signature.Signature}
	msg, err := ct6962.AppendSCTSignatureInput(nil, uint8(sct.SCTVersion), sct.Timestamp, v.sub.entry, sct.Extensions)
	if err != nil || uint64(sct.SCTVersion) > 255 || !verifyStd(kc.k, ds, msg) {
		viol("SCT returned whose signature does not verify for the submitted chain and entry type", "returned %+v", *sct)
		return
	}
	if !bytes.Equal(sct.LogID.KeyID[:], kc.id()) {
		viol("SCT returned whose log id is not SHA-256 of the configured key", "returned LogID %x, SHA-256(configured SubjectPublicKeyInfo) = %x", sct.LogID.KeyID, kc.id())
		return
	}
	c.r.Add("scts_assembled_from_two_200_bodies_verified_by_own_fields", 1)
	c.mu.Lock()
	c.accepted[v.name]++
	c.mu.Unlock()
}

func famOf(v *variant) string {
	if v.ep == "add-chain" {
		return "[add-chain family]"
	}
	return "[" + v.name + "]"
}

// checkRequests: what was posted is the chain the caller submitted, to the shard
// that owns the certificate.
func (c *checker) checkRequests(v *variant, kc *keyCfg, rt *scriptedRT, viol func(string, string, ...any)) {
	want := ct6962.JSONAddChainRequest(v.sub.chain)
	for _, s := range rt.log {
		if s.method != http.MethodPost {
			continue
		}
		got, _, err := firstDoc(s.reqBody)
		wv, _, _ := firstDoc([]byte(want))
		if err != nil || !reflect.DeepEqual(got, wv) {
			viol("posted chain differs from the submitted chain", "posted %s", clip(string(s.reqBody)))
			return
		}
		if v.temporal {
			wantHost := "shard1.example"
			if kc == kShard0 {
				wantHost = "shard0.example"
			}
			if s.host != wantHost {
				viol("temporal client posted to the wrong shard", "posted to %s, the certificate's NotAfter belongs to %s", s.host, wantHost)
				return
			}
		}
	}
}

func (c *checker) judgeError(v *variant, kc *keyCfg, hcs *hcase, pred prediction, err error, viol func(string, string, ...any)) {
	var re jsonclient.RspError
	isRsp := errors.As(err, &re)
	matches := func() bool { return isRsp && re.StatusCode == pred.status && bytes.Equal(re.Body, pred.body) }
	switch pred.kind {
	case pNoResponse:
		// nothing is demanded of the error's shape
	case pRetryUntilDeadline:
		if !errors.Is(err, context.DeadlineExceeded) && !matches() {
			viol("retrying call ends with neither the context error nor the last response "+famOf(v), "error %T %v", err, err)
		}
	case pRspError:
		if !matches() {
			c.shapeViolation(v, pred, pred.cause, isRsp, re, err, viol)
		}
	case pOK200:
		val, trailing, derr := decodeBody(v.ep, pred.body)
		cause := ""
		switch {
		case derr != nil:
			cause = "malformed-200-body"
		case trailing:
			cause = "malformed-200-body" // refusing trailing bytes is allowed, and then it is a malformed body
		default:
			if why := c.contentInvalid(v, kc, val); why != "" {
				cause = "invalid-200-content"
			} else {
				cause = "well-formed-200-refused"
				if hcs.benign {
					viol("valid response rejected "+famOf(v), "the reference accepts this response; client error: %v", err)
				}
			}
		}
		if !matches() {
			c.shapeViolation(v, pred, cause, isRsp, re, err, viol)
		}
	}
}

func (c *checker) shapeViolation(v *variant, pred prediction, cause string, isRsp bool, re jsonclient.RspError, err error, viol func(string, string, ...any)) {
	switch {
	case !isRsp:
		viol(fmt.Sprintf("error does not carry status and body %s cause=%s", famOf(v), cause),
			"a response (status %d, %d body bytes) was received but the error is %T: %v", pred.status, len(pred.body), err, err)
	case re.StatusCode != pred.status:
		viol(fmt.Sprintf("RspError carries the wrong status %s cause=%s", famOf(v), cause), "served %d, RspError.StatusCode=%d (%v)", pred.status, re.StatusCode, err)
	default:
		viol(fmt.Sprintf("RspError carries the wrong body %s cause=%s", famOf(v), cause), "served %q, RspError.Body=%q", clip(string(pred.body)), clip(string(re.Body)))
	}
}

// contentInvalid: why a well-formed 200 body must still be refused ("" = it is
// acceptable). For the signed endpoints this is the reference verification.
func (c *checker) contentInvalid(v *variant, kc *keyCfg, val any) string {
	switch x := val.(type) {
	case refSTH:
		if len(x.root) != 32 {
			return fmt.Sprintf("sha256_root_hash has %d bytes", len(x.root))
		}
		ds, err := ct6962.ParseDigitallySigned(x.sig)
		if err != nil {
			return "tree_head_signature: " + err.Error()
		}
		if !verifyStd(kc.k, ds, must(ct6962.AppendSTHSignatureInput(nil, ct6962.V1, x.ts, x.size, [32]byte(x.root)))) {
			return "signature does not verify under the configured key"
		}
	case refSCT:
		if x.version != 0 {
			return fmt.Sprintf("sct_version %d", x.version)
		}
		if len(x.id) > 0 && !bytes.Equal(x.id, kc.id()) {
			return "id is not SHA-256 of the configured key"
		}
		ds, err := ct6962.ParseDigitallySigned(x.sig)
		if err != nil {
			return "signature: " + err.Error()
		}
		if len(x.ext) > ct6962.MaxExtensions {
			return "extensions too long"
		}
		if !verifyStd(kc.k, ds, must(ct6962.AppendSCTSignatureInput(nil, ct6962.V1, x.ts, v.sub.entry, x.ext))) {
			return "signature does not verify under the configured key for the submitted chain and entry type"
		}
	case []refEntry:
		if v.name != "GetEntries" {
			return ""
		}
		for i, e := range x {
			if _, _, why := refEntryDecode(e.leaf, e.extra); why != "" {
				return fmt.Sprintf("entries[%d]: %s", i, why)
			}
		}
	}
	return ""
}

func eqBytesList(a, b [][]byte) bool {
	if len(a) != len(b) {
		return false
	}
	for i := range a {
		if !bytes.Equal(a[i], b[i]) {
			return false
		}
	}
	return true
}

func (c *checker) judgeSuccess(v *variant, kc *keyCfg, hcs *hcase, pred prediction, res any, viol func(string, string, ...any)) {
	if pred.kind != pOK200 {
		viol("success although no 200 response was served "+famOf(v), "prediction kind %d status %d", pred.kind, pred.status)
		return
	}
	if isNilResult(res) && v.name != "GetSTHConsistency" && v.name != "GetAcceptedRoots" {
		viol("nil result without error "+famOf(v), "nil, nil")
		return
	}
	val, _, derr := decodeBody(v.ep, pred.body)
	if derr != nil {
		viol("malformed response accepted "+famOf(v), "reference: %v", derr)
		return
	}
	differs := func(format string, a ...any) {
		viol("result differs from what was served "+famOf(v), format, a...)
	}
	switch x := val.(type) {
	case refSTH:
		sth := res.(*ct.SignedTreeHead)
		ds := ct6962.DigitallySigned{Hash: uint8(sth.TreeHeadSignature.Algorithm.Hash), Sig: uint8(sth.TreeHeadSignature.Algorithm.Signature), Signature: sth.TreeHeadSignature.Signature}
		// 1. the returned STH verifies, by std crypto, over exactly the returned fields
		msg, err := ct6962.AppendSTHSignatureInput(nil, uint8(sth.Version), sth.Timestamp, sth.TreeSize, [32]byte(sth.SHA256RootHash))
		if err != nil || uint64(sth.Version) > 255 || !verifyStd(kc.k, ds, msg) {
			viol("STH returned whose signature does not verify under the configured key", "returned %+v", *sth)
			return
		}
		// 2. and is the served one
		if why := c.contentInvalid(v, kc, val); why != "" {
			viol("signed response accepted that the reference refuses "+famOf(v), "reference: %s; returned %+v", why, *sth)
			return
		}
		rds, perr := ct6962.ParseDigitallySigned(x.sig)
		if sth.TreeSize != x.size || sth.Timestamp != x.ts || !bytes.Equal(sth.SHA256RootHash[:], x.root) || perr != nil || !rds.Equal(ds) {
			differs("returned %+v, served size=%d ts=%d root=%x sig=%x", *sth, x.size, x.ts, x.root, x.sig)
		}
	case refSCT:
		sct := res.(*ct.SignedCertificateTimestamp)
		ds := ct6962.DigitallySigned{Hash: uint8(sct.Signature.Algorithm.Hash), Sig: uint8(sct.Signature.Algorithm.Signature), Signature: sct.Signature.Signature}
		msg, err := ct6962.AppendSCTSignatureInput(nil, uint8(sct.SCTVersion), sct.Timestamp, v.sub.entry, sct.Extensions)
		if err != nil || uint64(sct.SCTVersion) > 255 || !verifyStd(kc.k, ds, msg) {
			viol("SCT returned whose signature does not verify for the submitted chain and entry type", "returned %+v", *sct)
			return
		}
		if len(x.id) == 0 {
			c.r.Add("scts_without_id_attributed_to_the_configured_log", 1)
		}
		if !bytes.Equal(sct.LogID.KeyID[:], kc.id()) {
			viol("SCT returned whose log id is not SHA-256 of the configured key", "returned LogID %x, SHA-256(configured SubjectPublicKeyInfo) = %x, served id = %x (%d bytes)",
				sct.LogID.KeyID, kc.id(), x.id, len(x.id))
			return
		}
		if why := c.contentInvalid(v, kc, val); why != "" {
			viol("signed response accepted that the reference refuses "+famOf(v), "reference: %s; returned %+v", why, *sct)
			return
		}
		rds, perr := ct6962.ParseDigitallySigned(x.sig)
		if uint64(sct.SCTVersion) != x.version || sct.Timestamp != x.ts || !bytes.Equal(sct.Extensions, x.ext) || (len(x.id) > 0 && !bytes.Equal(sct.LogID.KeyID[:], x.id)) || perr != nil || !rds.Equal(ds) {
			differs("returned %+v, served version=%d id=%x ts=%d ext=%x sig=%x", *sct, x.version, x.id, x.ts, x.ext, x.sig)
		}
	case [][]byte:
		switch got := res.(type) {
		case [][]byte:
			if !eqBytesList(got, x) {
				differs("returned %x, served %x", got, x)
			}
		case []ct.ASN1Cert:
			var g [][]byte
			for _, r := range got {
				g = append(g, r.Data)
			}
			if !eqBytesList(g, x) {
				differs("returned %d roots, served %d", len(g), len(x))
			}
		}
		for _, n := range x {
			if v.ep != "get-roots" && len(n) != 32 {
				c.r.Add("proof_nodes_not_32_bytes_returned_verbatim", 1)
			}
		}
	case refProof:
		got := res.(*ct.GetProofByHashResponse)
		if got.LeafIndex != x.index || !eqBytesList(got.AuditPath, x.path) {
			differs("returned %+v, served index=%d path=%x", *got, x.index, x.path)
		}
	case refEAP:
		got := res.(*ct.GetEntryAndProofResponse)
		if !bytes.Equal(got.LeafInput, x.leaf) || !bytes.Equal(got.ExtraData, x.extra) || !eqBytesList(got.AuditPath, x.path) {
			differs("returned differs from served")
		}
	case []refEntry:
		switch got := res.(type) {
		case *ct.GetEntriesResponse:
			if len(got.Entries) != len(x) {
				differs("returned %d entries, served %d", len(got.Entries), len(x))
				return
			}
			for i := range x {
				if !bytes.Equal(got.Entries[i].LeafInput, x[i].leaf) || !bytes.Equal(got.Entries[i].ExtraData, x[i].extra) {
					differs("entry %d differs", i)
					return
				}
			}
		case []ct.LogEntry:
			if len(got) != len(x) {
				differs("returned %d entries, served %d", len(got), len(x))
				return
			}
			for i := range x {
				if why := logEntryConsistent(&got[i], int64(entStart+i), x[i].leaf, x[i].extra); why != "" {
					viol("entry returned that is inconsistent with the served leaf_input / extra_data [GetEntries]", "entries[%d]: %s", i, why)
					return
				}
			}
		}
	}
	c.mu.Lock()
	c.accepted[v.name]++
	c.mu.Unlock()
}

// ---- case generation -------------------------------------------------------------------

var otherStatuses = []int{204, 400, 404, 408, 429, 500, 503}

func (c *checker) bodies(v *variant, kc *keyCfg) (root *jn, honest string, bodies []bodyCase) {
	root = v.honest(c.w, kc)
	honest = root.String()
	bodies = append(bodies, bodyCase{label: "honest", body: honest, benign: true})
	bodies = append(bodies, semanticBodies(c.w, v, kc, c.r.Thorough())...)
	bodies = append(bodies, singleMutations(root)...)
	bodies = append(bodies, textMutations(honest, root)...)
	return
}

// deviations counts the dimensions in which a signed-content label differs from
// the honest response (-1: not such a label).
func deviations(label string) int {
	if !strings.HasPrefix(label, "sct:") && !strings.HasPrefix(label, "sth:") {
		return -1
	}
	n := 0
	for _, t := range strings.Fields(label) {
		switch t {
		case "sct:honest", "sth:honest", "entry:submitted", "id:configured-key", "sig:good":
		default:
			n++
		}
	}
	return n
}

type session struct {
	label string
	steps []sstep
}

// sessions: several calls on ONE client instance. Whatever a client remembers
// between calls (a verified signature, a verified id, a body or URL it has seen,
// back-off state) must not let a later answer through unverified: every call is
// judged by the single-call oracle. For each chosen body X: [honest, X, honest]
// and [X, honest, X]; for the add methods also an honest SCT replayed for another
// submission (temporal: for a certificate of the other shard).
func (c *checker) sessions(v *variant, kc *keyCfg) []session {
	th := c.r.Thorough()
	_, honest, bodies := c.bodies(v, kc)
	var out []session
	hc := func(b bodyCase) *hcase {
		return &hcase{label: b.label, sc: script{then: ok200(b.body)}, benign: b.benign}
	}
	H := hc(bodyCase{label: "honest", body: honest, benign: true})
	for _, b := range bodies[1:] {
		pick := th
		if !th {
			if v.signed {
				d := deviations(b.label)
				pick = d == 1 || (d > 1 && strings.Contains(b.label, "after-signing")) || strings.Contains(b.label, "zero-root-served") || strings.Contains(b.label, "signature-of-an")
			} else {
				pick = strings.HasSuffix(b.label, ":absent") || strings.HasSuffix(b.label, ":bytes:flip-last") || b.label == "html" || b.label == "json-empty-object" || strings.HasPrefix(b.label, "entries:")
			}
		}
		if !pick {
			continue
		}
		X := hc(b)
		out = append(out, session{label: "session[honest, X, honest]", steps: []sstep{{hc: H}, {hc: X}, {hc: H}}},
			session{label: "session[X, honest, X]", steps: []sstep{{hc: X}, {hc: H}, {hc: X}}})
	}
	if v.ep == "add-chain" {
		w := c.w
		other, okc := map[*submission]*submission{w.subX509: w.subX509Old, w.subPre: w.subPreOld, w.subPreIssuer: w.subPre, w.subPreIssuer2: w.subPre,
			w.subX509Old: w.subX509, w.subPreOld: w.subPre}[v.sub], kc
		if v.temporal {
			// the other submission belongs to the other shard of the same client
			if kc == kShard0 {
				okc = kShard1
			} else {
				okc = kShard0
			}
		}
		c0 := w.sctContents()[0]
		// the honest SCT of the variant's submission replayed for the other submission
		replay := &hcase{label: "honest SCT of the previous submission replayed for another chain", sc: script{then: ok200(honest)}}
		// the other submission's own honest SCT (under the key that owns it)
		oh := &hcase{label: "honest (other submission)", benign: true,
			sc: script{then: ok200(sctBody(okc.id(), c0, honestDS(okc.k, hSHA256, sctInput(c0, other.entry))).String())}}
		if v.sub == w.subPre && !v.temporal {
			// the same precertificate under another issuer certificate: whatever the client remembers about
			// the leaf it submitted before, the entry (issuer_key_hash) is the one of THIS chain
			sl := w.subPreSameLeaf
			slH := &hcase{label: "honest (same precertificate, other issuer)", benign: true,
				sc: script{then: ok200(sctBody(kc.id(), c0, honestDS(kc.k, hSHA256, sctInput(c0, sl.entry))).String())}}
			slReplay := &hcase{label: "honest SCT of the previous submission replayed for the same precertificate under another issuer", sc: script{then: ok200(honest)}}
			out = append(out,
				session{label: "session[honest A, A's SCT for the same leaf under issuer B, honest B, B's SCT for A]", steps: []sstep{{hc: H}, {hc: slReplay, sub: sl, kc: kc}, {hc: slH, sub: sl, kc: kc},
					{hc: &hcase{label: "honest SCT of the same precertificate under the other issuer replayed", sc: slH.sc}}}},
				session{label: "session[honest B, honest A, B's SCT for A]", steps: []sstep{{hc: slH, sub: sl, kc: kc}, {hc: H}, {hc: &hcase{label: "honest SCT of the same precertificate under the other issuer replayed", sc: slH.sc}}}})
		}
		out = append(out,
			session{label: "session[honest A, A's SCT for B, honest B, B's SCT for A]", steps: []sstep{{hc: H}, {hc: replay, sub: other, kc: okc}, {hc: oh, sub: other, kc: okc},
				{hc: &hcase{label: "honest SCT of the other submission replayed", sc: oh.sc}}}},
			session{label: "session[A's SCT for B, honest A, honest B, honest A]", steps: []sstep{{hc: replay, sub: other, kc: okc}, {hc: H}, {hc: oh, sub: other, kc: okc}, {hc: H}}})
	}
	return out
}

func (c *checker) cases(v *variant, kc *keyCfg) []hcase {
	th := c.r.Thorough()
	root, honest, bodies := c.bodies(v, kc)
	var out []hcase
	// A. 200 x every body
	for _, b := range bodies {
		out = append(out, hcase{label: b.label, sc: script{then: ok200(b.body)}, benign: b.benign})
	}
	if th {
		pairMutations(root, func(b bodyCase) {
			out = append(out, hcase{label: "pair: " + b.label, sc: script{then: ok200(b.body)}})
		})
	}
	// B. the other statuses x bodies (quick: a few bodies; thorough: every body)
	few := []bodyCase{{label: "honest", body: honest}, {label: "empty-body", body: ""}, {label: "html", body: htmlBody}, {label: "truncated-half", body: honest[:len(honest)/2]}}
	sb := few
	if th {
		sb = bodies
	}
	for _, s := range otherStatuses {
		for _, b := range sb {
			out = append(out, hcase{label: fmt.Sprintf("status-%d %s", s, b.label), sc: script{then: step{status: s, body: b.body, readErr: -1}}})
		}
	}
	for _, b := range few {
		out = append(out, hcase{label: "status-301-without-Location " + b.label, sc: script{then: step{status: 301, body: b.body, readErr: -1}}})
	}
	// C. redirects
	targets := []bodyCase{{label: "honest", body: honest, benign: true}, {label: "html", body: htmlBody}}
	for _, b := range bodies {
		if strings.Contains(b.label, "foreign-key-same-kind") && strings.Contains(b.label, "id:foreign-key") || b.label == "truncated-after-token-3" || b.label == "sth:honest sig:foreign-key-same-kind" {
			targets = append(targets, b)
		}
	}
	for _, tb := range targets {
		t := ok200(tb.body)
		out = append(out, hcase{label: "redirect-301-to-200 " + tb.label, benign: tb.benign && !v.post,
			sc: script{then: step{status: 301, location: "/moved", target: &t, body: "moved", readErr: -1}}})
	}
	t404 := step{status: 404, body: htmlBody, readErr: -1}
	out = append(out, hcase{label: "redirect-301-to-404", sc: script{then: step{status: 301, location: "/moved", target: &t404, body: "moved", readErr: -1}}})
	tnet := step{neterr: true, readErr: -1}
	out = append(out, hcase{label: "redirect-301-to-transport-error", sc: script{then: step{status: 301, location: "/moved", target: &tnet, body: "moved", readErr: -1}}})
	// D. transport error
	out = append(out, hcase{label: "transport-error", sc: script{then: step{neterr: true, readErr: -1}}})
	// E. body read error mid-stream
	// len(honest): the whole JSON value arrives and the read then fails (a response cut short of its declared length)
	cuts := map[int]bool{0: true, 1: true, len(honest) / 2: true, len(honest) - 1: true, len(honest): true}
	if th {
		for _, e := range tokenEnds(honest) {
			cuts[e-1] = true
		}
	}
	var cl []int
	for k := range cuts {
		cl = append(cl, k)
	}
	sort.Ints(cl)
	for _, n := range cl {
		for _, s := range []int{200, 500} {
			out = append(out, hcase{label: fmt.Sprintf("body-read-error status-%d after-%d-bytes", s, n), sc: script{then: step{status: s, body: honest, readErr: n}}})
		}
	}
	// ... the same with the length the server had declared: far more than it delivers (a peer that overstates
	// Content-Length and then drops the connection), up to the largest value the header can carry
	for _, n := range []int{0, len(honest) / 2, len(honest)} {
		for _, declared := range []int64{int64(len(honest)) + 1, 1 << 31, 1 << 62, 1<<63 - 1} {
			out = append(out, hcase{label: fmt.Sprintf("body-read-error status-200 after-%d-bytes content-length-%d", n, declared), sc: script{then: step{status: 200, body: honest, readErr: n, clen: declared}}})
		}
	}
	// ... and a complete body under an exact Content-Length
	out = append(out, hcase{label: "honest body with its exact content-length", sc: script{then: step{status: 200, body: honest, readErr: -1, clen: int64(len(honest))}}})
	// F. a retryable answer first, then a 200 (the add methods retry; the others must fail at once)
	firsts := []step{{status: 408, body: "timeout", readErr: -1}, {status: 429, body: "slow down", readErr: -1}, {status: 503, body: htmlBody, readErr: -1},
		{neterr: true, readErr: -1}, {status: 200, body: honest, readErr: len(honest) / 2}}
	thenBodies := []bodyCase{{label: "honest", body: honest, benign: true}}
	for _, b := range bodies {
		if th || strings.Contains(b.label, "foreign-key-same-kind") || strings.Contains(b.label, "id:foreign-key") || strings.Contains(b.label, "other-type") || b.label == "json-empty-object" || b.label == "html" {
			thenBodies = append(thenBodies, bodyCase{label: b.label, body: b.body, benign: b.benign})
		}
	}
	for fi := range firsts {
		for _, b := range thenBodies {
			out = append(out, hcase{label: "after-" + showStep(&firsts[fi]) + " " + b.label, benign: b.benign && v.post,
				sc: script{first: []step{firsts[fi]}, then: ok200(b.body)}})
		}
	}
	if v.post {
		// G. an unparsable 200 (field f mistyped) followed by a 200 lacking field g
		for fi, f := range root.keys {
			for gi, g := range root.keys {
				if fi == gi {
					continue
				}
				p := root.with([]int{fi}, jraw("[true]")).String()
				q := root.with([]int{gi}, nil).String()
				c.r.Add("stale_field_scripts", 1)
				out = append(out, hcase{label: fmt.Sprintf("stale-fields: 200 with %s mistyped, then 200 without %s", f, g),
					sc: script{first: []step{ok200(p)}, then: ok200(q)}})
			}
		}
		two := []step{firsts[2], firsts[1]}
		out = append(out, hcase{label: "after-503-and-429 honest", benign: true, sc: script{first: two, then: ok200(honest)}})
	}
	return out
}

// ---- driver --------------------------------------------------------------------------------

func TestCheck(t *testing.T) {
	log.SetOutput(io.Discard)
	r := rep.New("C12", "fault_enumeration")
	r.Rule("for each of 14 method variants (GetSTH, AddChain, AddPreChain incl. a precert-signing-cert chain, TemporalLogClient.AddChain/AddPreChain per shard, GetSTHConsistency, GetProofByHash, GetRawEntries, GetEntries, GetEntryAndProof, GetAcceptedRoots) and each configured key (P-256 and RSA-2048 for the signed endpoints): " +
		"server behaviour = {200} x {honest body; every (content variant x entry signed x id x signature mode) of the signed responses; every one-node mutation (absent, null, 8 wrong JSON types, base64 garbage x5, byte length -1/+1, bit flips, numeric boundaries, duplicated element); truncation after and inside every JSON token; 17 whole-body replacements; 4 benign rewritings} " +
		"+ {204,400,404,408,429,500,503, 301 without Location} x bodies + 301->GET redirects + transport error + body read error at cut points + {408,429,503,transport error,read error} followed by a 200 + (add methods) an unparsable 200 with field f mistyped followed by a 200 lacking field g (thorough: all pairs of one-node mutations at independent sites, every status x every body, read error at every token, retry-then-every-body). " +
		"Sessions of 3-4 calls on ONE client instance, every call judged by the single-call oracle: for each signed-content variation X one dimension away from honest, every field changed after signing (same signature bytes) and, for the unsigned methods, a few mutated bodies (thorough: every body): [honest, X, honest] and [X, honest, X]; for the add methods an honest SCT replayed for another submission (temporal: for a certificate of the other shard) interleaved with honest answers. " +
		"Then ct.RawLogEntryFromLeaf / ct.LogEntryFromLeaf on honest x509 and precert leaf_input/extra_data x (every prefix, trailing 00/ff, every length field -1/+1/0/max, every enum field x 8 codes, uint64 max), crossed families, and all pairs of strings <=3 bytes over {00,01,02,ff} (thorough: every leaf_input mutation x every extra_data mutation). distinct_nontrivial = distinct (method, key, case, script, outcome class)")
	r.Assume("trusted base: Go std crypto (ecdsa, rsa, sha*), encoding/json as tokenizer for the reference decoder, net/http.Client redirect handling, testing/synctest virtual time",
		"an absent or null JSON member denotes the zero value, and a byte string may be written as a JSON array of integers 0..255 (what encoding/json documents): such responses are not 'malformed'; whatever is returned must still equal the served value and, for STH/SCT, verify",
		"proof nodes, roots and raw entries are returned unverified by these methods: a node of 31 or 33 bytes returned verbatim is counted (proof_nodes_not_32_bytes_returned_verbatim), not alarmed",
		"a signature declaring another RFC 5246 hash (SHA-384/512) and verifying with it under the configured key counts as verifying",
		"AddChain/AddPreChain facing a server that keeps answering 408/429/503, failing the transport, breaking the body or redirecting the POST into a GET may end with the context's error at the deadline (documented retry contract); every other received response must surface as RspError{status, body}",
		"(C13, given) the add methods retry after an unparsable / mistyped 200 body: such a 200 is a retry class like 408/429/503 (the call may go on, may end with the bare context error, or may refuse it at once with RspError{200, body}); the non-retrying GET methods must still answer it with RspError{200, body}",
		"an SCT returned after several different 200 bodies reached the client (fields of an earlier unparsable 200 survive the retry) is judged by its own fields only: verifies for the submitted chain and entry type, LogID == SHA-256(SPKI), last answer a 200; such cases are counted (scts_assembled_from_two_200_bodies_verified_by_own_fields), not alarmed. When a single 200 body was served the returned SCT must also be that response",
		"an absent, null or empty id in an add-chain response is the zero value like every other absent member: the statement constrains the returned SCT, whose LogID must be SHA-256 of the configured key (counted: scts_without_id_attributed_to_the_configured_log); a non-empty id must be that hash",
		"cross-call client state is exercised only through sessions of at most 4 calls of one method variant on one client instance (a remembered signature, id, body, URL or verdict from an earlier call of the SAME method); state shared between different methods of one client is not enumerated",
		"(C05, given) bytes trailing a complete DER ECDSA-Sig-Value inside the signature opaque are ignored: the reference verifier reads the SEQUENCE length itself and verifies exactly those bytes with ecdsa.VerifyASN1",
		"rejection of trailing bytes after a complete JSON document is not demanded")
	c := &checker{r: r, w: newWorld(), t: t, accepted: map[string]int{}, outcomes: map[string]int{}}
	vs := variants(c.w)
	total, nSessions := 0, 0
	perVariant := map[string]int{}
	for _, v := range vs {
		for _, kc := range v.keys {
			if r.Expired() {
				r.Capped("deadline reached before variant " + v.name)
				break
			}
			cs := c.cases(v, kc)
			total += len(cs)
			perVariant[v.name+" / "+kc.name] = len(cs)
			done := enum.ParFor(len(cs), r.Expired, func(i int) {
				pan, msg, stack := enum.Catch(func() { c.run(v, kc, &cs[i]) })
				if pan {
					r.Violation("harness-panic", msg+"\n"+stack, cs[i].label)
				}
			})
			if !done {
				r.Capped("deadline reached in " + v.name)
			}
			ss := c.sessions(v, kc)
			nSessions += len(ss)
			done = enum.ParFor(len(ss), r.Expired, func(i int) {
				pan, msg, stack := enum.Catch(func() { c.runSeq(v, kc, ss[i].steps, ss[i].label) })
				if pan {
					r.Violation("harness-panic", msg+"\n"+stack, ss[i].label)
				}
			})
			if !done {
				r.Capped("deadline reached in the sessions of " + v.name)
			}
		}
	}
	r.Set("sessions", nSessions)
	r.Set("client_cases", total)
	r.Set("client_cases_per_variant", perVariant)
	r.Set("accepted_responses_per_method", c.accepted)
	r.Set("outcome_classes", c.outcomes)
	// every method must have accepted its honest response (non-vacuity)
	for _, v := range vs {
		if c.accepted[v.name] == 0 {
			r.Violation("harness: no response was ever accepted by "+v.name, "vacuous", v.name)
		}
	}
	r.Sample(map[string]any{"method": "AddChain", "case": "honest", "served": clip(vs[1].honest(c.w, kP256).String()), "outcome": "accepted: SCT verifies for [leaf, ca, root] as x509_entry, LogID = SHA-256(SPKI)"})
	r.Sample(map[string]any{"method": "GetSTH", "case": "sth:empty-tree sig:foreign-key-same-kind", "outcome": "RspError(200) carrying the body"})
	c.entryDecoders()
	c.temporalRoots(t)
	c.batchSizes()
	r.Finish()
}

var _ = sha256.Sum256
