//go:build go1.25

package c12

// JSON bodies as small trees, the node-level mutation family, the text-level
// mutation family (truncation at every token, whole-body replacements) and the
// reference decoder of the RFC 6962 section 4 responses.
//
// The reference decoder uses encoding/json only as a tokenizer (generic decode of
// the first document into any, numbers kept as text); field presence, types,
// number ranges and base64 are judged by hand from the RFC text.

import (
	"bytes"
	"encoding/json"
	"fmt"
	"strconv"
	"strings"

	"verif/ref/ct6962"
)

// ---- tree --------------------------------------------------------------------

type jn struct {
	kind byte // 'o' object, 'a' array, 's' base64 string of b, 'n' number, 'r' raw JSON text
	keys []string
	kids []*jn
	b    []byte
	txt  string
}

func jobj(kv ...any) *jn {
	n := &jn{kind: 'o'}
	for i := 0; i < len(kv); i += 2 {
		n.keys = append(n.keys, kv[i].(string))
		n.kids = append(n.kids, kv[i+1].(*jn))
	}
	return n
}
func jarr(kids ...*jn) *jn { return &jn{kind: 'a', kids: kids} }
func jb64(b []byte) *jn    { return &jn{kind: 's', b: b} }
func jnum(u uint64) *jn    { return &jn{kind: 'n', txt: strconv.FormatUint(u, 10)} }
func jraw(s string) *jn    { return &jn{kind: 'r', txt: s} }
func jb64s(bs [][]byte) *jn {
	a := jarr()
	for _, b := range bs {
		a.kids = append(a.kids, jb64(b))
	}
	return a
}

func (n *jn) write(sb *strings.Builder) {
	switch n.kind {
	case 'o':
		sb.WriteByte('{')
		for i, k := range n.keys {
			if i > 0 {
				sb.WriteByte(',')
			}
			sb.WriteString(`"` + k + `":`)
			n.kids[i].write(sb)
		}
		sb.WriteByte('}')
	case 'a':
		sb.WriteByte('[')
		for i, k := range n.kids {
			if i > 0 {
				sb.WriteByte(',')
			}
			k.write(sb)
		}
		sb.WriteByte(']')
	case 's':
		sb.WriteString(`"` + ct6962.B64(n.b) + `"`)
	default:
		sb.WriteString(n.txt)
	}
}

func (n *jn) String() string { var sb strings.Builder; n.write(&sb); return sb.String() }

func (n *jn) clone() *jn {
	c := &jn{kind: n.kind, b: n.b, txt: n.txt, keys: append([]string(nil), n.keys...)}
	for _, k := range n.kids {
		c.kids = append(c.kids, k.clone())
	}
	return c
}

// with returns a copy of the tree in which the node at path is replaced by repl
// (nil: removed from its parent).
func (n *jn) with(path []int, repl *jn) *jn {
	c := n.clone()
	p := c
	for _, i := range path[:len(path)-1] {
		p = p.kids[i]
	}
	i := path[len(path)-1]
	if repl != nil {
		p.kids[i] = repl
		return c
	}
	p.kids = append(p.kids[:i:i], p.kids[i+1:]...)
	if p.kind == 'o' {
		p.keys = append(p.keys[:i:i], p.keys[i+1:]...)
	}
	return c
}

type site struct {
	path   []int
	name   string
	n      *jn
	parent *jn
}

func (n *jn) sites() []site {
	var out []site
	var walk func(x *jn, path []int, name string)
	walk = func(x *jn, path []int, name string) {
		for i, k := range x.kids {
			p := append(append([]int{}, path...), i)
			nm := name
			if x.kind == 'o' {
				if nm != "" {
					nm += "."
				}
				nm += x.keys[i]
			} else {
				nm += fmt.Sprintf("[%d]", i)
			}
			out = append(out, site{path: p, name: nm, n: k, parent: x})
			walk(k, p, nm)
		}
	}
	walk(n, nil, "")
	return out
}

// ---- node-level mutations ------------------------------------------------------

type nodeOp struct {
	label string
	repl  *jn // nil = remove
	ins   bool
}

func flip(b []byte, i int, bit byte) []byte {
	c := append([]byte{}, b...)
	c[i] ^= bit
	return c
}

// opsFor lists the one-node mutations of a site: absent, null, every wrong JSON
// type, and per kind: base64 garbage / byte-length -1, +1 / empty / bit flips,
// numeric boundary values.
func opsFor(s site) []nodeOp {
	ops := []nodeOp{{label: "absent"}, {label: "null", repl: jraw("null")}}
	wrong := map[string]string{"number": "7", "string": `"x"`, "bool": "true", "empty-array": "[]", "int-array": "[1,2,255]", "bad-array": `[300,"x"]`, "object": "{}", "nested-object": `{"a":{"b":[null]}}`}
	order := []string{"number", "string", "bool", "empty-array", "int-array", "bad-array", "object", "nested-object"}
	for _, k := range order {
		if (s.n.kind == 'n' && k == "number") || (s.n.kind == 'o' && k == "object") || (s.n.kind == 'a' && k == "empty-array") {
			continue
		}
		ops = append(ops, nodeOp{label: "type:" + k, repl: jraw(wrong[k])})
	}
	switch s.n.kind {
	case 's':
		good := ct6962.B64(s.n.b)
		ops = append(ops,
			nodeOp{label: "b64:garbage", repl: jraw(`"!!!!"`)},
			nodeOp{label: "b64:empty", repl: jraw(`""`)},
		)
		if len(good) >= 4 {
			ops = append(ops,
				nodeOp{label: "b64:cut1", repl: jraw(`"` + good[:len(good)-1] + `"`)},
				nodeOp{label: "b64:badchar", repl: jraw(`"` + good[:len(good)/2] + "*" + good[len(good)/2+1:] + `"`)},
				nodeOp{label: "b64:urlsafe", repl: jraw(`"-_-_` + good[4:] + `"`)},
			)
		}
		if len(s.n.b) > 0 {
			ops = append(ops,
				nodeOp{label: "bytes:len-1", repl: jb64(s.n.b[:len(s.n.b)-1])},
				nodeOp{label: "bytes:flip-first", repl: jb64(flip(s.n.b, 0, 0x80))},
				nodeOp{label: "bytes:flip-last", repl: jb64(flip(s.n.b, len(s.n.b)-1, 0x01))},
			)
		}
		ops = append(ops, nodeOp{label: "bytes:len+1", repl: jb64(append(append([]byte{}, s.n.b...), 0))})
	case 'n':
		v, _ := strconv.ParseUint(s.n.txt, 10, 64)
		for _, t := range []string{"0", strconv.FormatUint(v+1, 10), "-1", "1.5", "1e3", "9223372036854775808", "18446744073709551616", `"` + s.n.txt + `"`} {
			if t != s.n.txt {
				ops = append(ops, nodeOp{label: "num:" + t, repl: jraw(t)})
			}
		}
	}
	if s.parent.kind == 'a' {
		ops = append(ops, nodeOp{label: "duplicated", repl: s.n, ins: true})
	}
	return ops
}

func applyOp(root *jn, s site, op nodeOp) *jn {
	if op.ins {
		c := root.clone()
		p := c
		for _, i := range s.path[:len(s.path)-1] {
			p = p.kids[i]
		}
		i := s.path[len(s.path)-1]
		p.kids = append(p.kids[:i+1:i+1], append([]*jn{s.n.clone()}, p.kids[i+1:]...)...)
		return c
	}
	return root.with(s.path, op.repl)
}

type bodyCase struct {
	label  string
	body   string
	benign bool // the reference accepts it and a correct client must too
}

func singleMutations(root *jn) []bodyCase {
	var out []bodyCase
	for _, s := range root.sites() {
		for _, op := range opsFor(s) {
			out = append(out, bodyCase{label: s.name + ":" + op.label, body: applyOp(root, s, op).String()})
		}
	}
	return out
}

func isPrefix(a, b []int) bool {
	if len(a) > len(b) {
		return false
	}
	for i := range a {
		if a[i] != b[i] {
			return false
		}
	}
	return true
}

// pairMutations applies two node-level mutations at two sites neither of which
// contains the other (the later site first, so that positions stay valid).
func pairMutations(root *jn, each func(bodyCase)) {
	ss := root.sites()
	for i := 0; i < len(ss); i++ {
		for j := i + 1; j < len(ss); j++ {
			if isPrefix(ss[i].path, ss[j].path) || isPrefix(ss[j].path, ss[i].path) {
				continue
			}
			for _, oj := range opsFor(ss[j]) {
				r1 := applyOp(root, ss[j], oj)
				for _, oi := range opsFor(ss[i]) {
					each(bodyCase{label: ss[i].name + ":" + oi.label + " + " + ss[j].name + ":" + oj.label, body: applyOp(r1, ss[i], oi).String()})
				}
			}
		}
	}
}

// ---- text-level mutations ------------------------------------------------------

// tokenEnds returns the offsets just after every JSON token of s.
func tokenEnds(s string) []int {
	var ends []int
	for i := 0; i < len(s); {
		c := s[i]
		switch {
		case c == ' ' || c == '\n' || c == '\t' || c == '\r':
			i++
			continue
		case c == '"':
			i++
			for i < len(s) && s[i] != '"' {
				if s[i] == '\\' {
					i++
				}
				i++
			}
			i++
		case strings.IndexByte("{}[],:", c) >= 0:
			i++
		default:
			for i < len(s) && strings.IndexByte("{}[],: \n\t\r\"", s[i]) < 0 {
				i++
			}
		}
		ends = append(ends, i)
	}
	return ends
}

const htmlBody = "<html><head><title>502 Bad Gateway</title></head><body><h1>Bad Gateway</h1></body></html>\n"

func textMutations(honest string, root *jn) []bodyCase {
	var out []bodyCase
	ends := tokenEnds(honest)
	for k, e := range ends {
		if e < len(honest) {
			out = append(out, bodyCase{label: fmt.Sprintf("truncated-after-token-%d", k+1), body: honest[:e]})
		}
		// inside the token (strings and numbers longer than one byte)
		start := 0
		if k > 0 {
			start = ends[k-1]
		}
		if e-start > 2 {
			out = append(out, bodyCase{label: fmt.Sprintf("truncated-inside-token-%d", k+1), body: honest[:start+(e-start)/2]})
		}
	}
	for _, w := range []struct{ l, b string }{
		{"empty-body", ""}, {"whitespace-body", " \n"}, {"json-null", "null"}, {"json-array", "[]"}, {"json-empty-object", "{}"},
		{"json-string", `"ok"`}, {"json-number", "123"}, {"json-true", "true"}, {"html", htmlBody}, {"text", "Internal error"},
		{"open-brace-garbage", "{garbage"}, {"invalid-utf8", "\xff\xfe{}"}, {"array-wrapped", "[" + honest + "]"},
		{"object-wrapped", `{"result":` + honest + `}`}, {"nul-bytes", "\x00\x00\x00\x00"},
	} {
		out = append(out, bodyCase{label: w.l, body: w.b})
	}
	// not demanded either way
	out = append(out, bodyCase{label: "trailing-garbage", body: honest + " xyz"}, bodyCase{label: "trailing-second-document", body: honest + "{}"})
	// benign re-writings: a correct client accepts them
	out = append(out, bodyCase{label: "benign:leading-whitespace", body: " \r\n\t" + honest + "\n", benign: true})
	if root.kind == 'o' && len(root.kids) > 0 {
		x := root.clone()
		x.keys = append(x.keys, "x_unknown")
		x.kids = append(x.kids, jraw(`{"a":[1,"b",null]}`))
		out = append(out, bodyCase{label: "benign:unknown-field", body: x.String(), benign: true})
		y := root.clone()
		for i, j := 0, len(y.kids)-1; i < j; i, j = i+1, j-1 {
			y.keys[i], y.keys[j] = y.keys[j], y.keys[i]
			y.kids[i], y.kids[j] = y.kids[j], y.kids[i]
		}
		out = append(out, bodyCase{label: "benign:fields-reversed", body: y.String(), benign: true})
		out = append(out, bodyCase{label: "benign:spaced", body: strings.NewReplacer(":", " : ", ",", " ,\n ").Replace(honest), benign: true})
	}
	return out
}

// ---- reference decoder ---------------------------------------------------------

type malformed struct{ why string }

func (m *malformed) Error() string { return m.why }

func bad(format string, a ...any) error { return &malformed{fmt.Sprintf(format, a...)} }

// firstDoc parses the first JSON document of body. trailing reports non-blank
// bytes after it (whose rejection is not demanded).
func firstDoc(body []byte) (v any, trailing bool, err error) {
	dec := json.NewDecoder(bytes.NewReader(body))
	dec.UseNumber()
	if e := dec.Decode(&v); e != nil {
		return nil, false, bad("not a JSON document: %v", e)
	}
	rest := body[dec.InputOffset():]
	return v, len(bytes.TrimSpace(rest)) > 0, nil
}

// b64dec is RFC 4648 section 4 with mandatory padding, no white space.
func b64dec(s string) ([]byte, error) {
	if len(s)%4 != 0 {
		return nil, bad("base64 length %d is not a multiple of 4", len(s))
	}
	val := func(c byte) int {
		switch {
		case c >= 'A' && c <= 'Z':
			return int(c - 'A')
		case c >= 'a' && c <= 'z':
			return int(c-'a') + 26
		case c >= '0' && c <= '9':
			return int(c-'0') + 52
		case c == '+':
			return 62
		case c == '/':
			return 63
		}
		return -1
	}
	out := make([]byte, 0, len(s)/4*3)
	for i := 0; i < len(s); i += 4 {
		q := s[i : i+4]
		pad := 0
		if i+4 == len(s) {
			if q[3] == '=' {
				pad = 1
				if q[2] == '=' {
					pad = 2
				}
			}
		}
		var x uint32
		for j := 0; j < 4-pad; j++ {
			v := val(q[j])
			if v < 0 {
				return nil, bad("base64 character %q", q[j])
			}
			x |= uint32(v) << uint(18-6*j)
		}
		out = append(out, byte(x>>16))
		if pad < 2 {
			out = append(out, byte(x>>8))
		}
		if pad < 1 {
			out = append(out, byte(x))
		}
	}
	return out, nil
}

// Leniences of the reference (documented as assumptions): an absent or null
// member is the zero value; a byte string may also be written as a JSON array of
// integers 0..255 (what encoding/json documents for []byte).
type robj map[string]any

func asObj(v any) (robj, error) {
	switch x := v.(type) {
	case nil:
		return robj{}, nil
	case map[string]any:
		return robj(x), nil
	}
	return nil, bad("top level is %T, not an object", v)
}

func (o robj) u64(name string) (uint64, error) {
	v, ok := o[name]
	if !ok || v == nil {
		return 0, nil
	}
	n, ok := v.(json.Number)
	if !ok {
		return 0, bad("%s is %T, not a number", name, v)
	}
	for _, c := range string(n) {
		if c < '0' || c > '9' {
			return 0, bad("%s = %s is not a non-negative decimal integer", name, n)
		}
	}
	x, err := strconv.ParseUint(string(n), 10, 64)
	if err != nil {
		return 0, bad("%s = %s out of range", name, n)
	}
	return x, nil
}

func (o robj) i64(name string) (int64, error) {
	v, ok := o[name]
	if !ok || v == nil {
		return 0, nil
	}
	n, ok := v.(json.Number)
	if !ok {
		return 0, bad("%s is %T, not a number", name, v)
	}
	s := strings.TrimPrefix(string(n), "-")
	for _, c := range s {
		if c < '0' || c > '9' {
			return 0, bad("%s = %s is not a decimal integer", name, n)
		}
	}
	x, err := strconv.ParseInt(string(n), 10, 64)
	if err != nil {
		return 0, bad("%s = %s out of range", name, n)
	}
	return x, nil
}

// byteVal decodes one byte-string value. strOnly: the member is declared as a
// JSON string in the library (extensions, certificates[]): the integer-array
// form is then not a byte string.
func byteVal(name string, v any, strOnly bool) ([]byte, error) {
	switch x := v.(type) {
	case nil:
		return nil, nil
	case string:
		b, err := b64dec(x)
		if err != nil {
			return nil, bad("%s: %v", name, err)
		}
		return b, nil
	case []any:
		if strOnly {
			return nil, bad("%s is an array, not a string", name)
		}
		out := []byte{}
		for _, e := range x {
			n, ok := e.(json.Number)
			if !ok {
				return nil, bad("%s: array element %T", name, e)
			}
			u, err := strconv.ParseUint(string(n), 10, 8)
			if err != nil {
				return nil, bad("%s: array element %s", name, n)
			}
			out = append(out, byte(u))
		}
		return out, nil
	}
	return nil, bad("%s is %T, not a string", name, v)
}

func (o robj) bytes(name string, strOnly bool) ([]byte, error) {
	v, ok := o[name]
	if !ok {
		return nil, nil
	}
	return byteVal(name, v, strOnly)
}

func (o robj) bytesArr(name string, strOnly bool) ([][]byte, error) {
	v, ok := o[name]
	if !ok || v == nil {
		return nil, nil
	}
	a, ok := v.([]any)
	if !ok {
		return nil, bad("%s is %T, not an array", name, v)
	}
	out := [][]byte{}
	for i, e := range a {
		b, err := byteVal(fmt.Sprintf("%s[%d]", name, i), e, strOnly)
		if err != nil {
			return nil, err
		}
		out = append(out, b)
	}
	return out, nil
}

type refSTH struct {
	size, ts  uint64
	root, sig []byte
}

type refSCT struct {
	version, ts  uint64
	id, ext, sig []byte
}

type refProof struct {
	index int64
	path  [][]byte
}

type refEntry struct{ leaf, extra []byte }

type refEAP struct {
	leaf, extra []byte
	path        [][]byte
}

// decodeBody is the reference decoding of the body of endpoint ep.
func decodeBody(ep string, body []byte) (val any, trailing bool, err error) {
	v, trailing, err := firstDoc(body)
	if err != nil {
		return nil, false, err
	}
	o, err := asObj(v)
	if err != nil {
		return nil, trailing, err
	}
	e := func(errs ...error) error {
		for _, x := range errs {
			if x != nil {
				return x
			}
		}
		return nil
	}
	switch ep {
	case "get-sth":
		var r refSTH
		var e1, e2, e3, e4 error
		r.size, e1 = o.u64("tree_size")
		r.ts, e2 = o.u64("timestamp")
		r.root, e3 = o.bytes("sha256_root_hash", false)
		r.sig, e4 = o.bytes("tree_head_signature", false)
		return r, trailing, e(e1, e2, e3, e4)
	case "add-chain":
		var r refSCT
		var e1, e2, e3, e4, e5 error
		r.version, e1 = o.u64("sct_version")
		r.id, e2 = o.bytes("id", false)
		r.ts, e3 = o.u64("timestamp")
		r.ext, e4 = o.bytes("extensions", true)
		r.sig, e5 = o.bytes("signature", false)
		return r, trailing, e(e1, e2, e3, e4, e5)
	case "get-sth-consistency":
		p, e1 := o.bytesArr("consistency", false)
		return p, trailing, e1
	case "get-proof-by-hash":
		var r refProof
		var e1, e2 error
		r.index, e1 = o.i64("leaf_index")
		r.path, e2 = o.bytesArr("audit_path", false)
		return r, trailing, e(e1, e2)
	case "get-entries":
		v, ok := o["entries"]
		out := []refEntry{}
		if !ok || v == nil {
			return out, trailing, nil
		}
		a, ok := v.([]any)
		if !ok {
			return nil, trailing, bad("entries is %T, not an array", v)
		}
		for i, x := range a {
			eo, err := asObj(x)
			if err != nil {
				return nil, trailing, bad("entries[%d]: %v", i, err)
			}
			var re refEntry
			var e1, e2 error
			re.leaf, e1 = eo.bytes("leaf_input", false)
			re.extra, e2 = eo.bytes("extra_data", false)
			if err := e(e1, e2); err != nil {
				return nil, trailing, err
			}
			out = append(out, re)
		}
		return out, trailing, nil
	case "get-roots":
		p, e1 := o.bytesArr("certificates", true)
		return p, trailing, e1
	case "get-entry-and-proof":
		var r refEAP
		var e1, e2, e3 error
		r.leaf, e1 = o.bytes("leaf_input", false)
		r.extra, e2 = o.bytes("extra_data", false)
		r.path, e3 = o.bytesArr("audit_path", false)
		return r, trailing, e(e1, e2, e3)
	}
	panic("unknown endpoint " + ep)
}
