//go:build go1.25

package c12

// TemporalLogClient.GetAcceptedRoots asks every shard: the result is the union of all shards' roots, or an
// error - never the roots of the shards that happened to answer. Every pair of per-shard behaviours
// (honest, 500, garbage body, transport error, no answer until the caller's deadline) in one bubble each.

import (
	"bytes"
	"context"
	"errors"
	"fmt"
	"io"
	"net/http"
	"strings"
	"testing"
	"testing/synctest"
	"time"

	"verif/engine/enum"

	"github.com/google/certificate-transparency-go/client"
	"github.com/google/certificate-transparency-go/client/configpb"
	"google.golang.org/protobuf/types/known/timestamppb"
)

type shardRT struct {
	honest string
	how    map[string]string // host -> behaviour
}

func (s shardRT) RoundTrip(req *http.Request) (*http.Response, error) {
	mk := func(status int, body string) (*http.Response, error) {
		return &http.Response{StatusCode: status, Status: fmt.Sprintf("%d %s", status, http.StatusText(status)), Header: http.Header{},
			Body: io.NopCloser(strings.NewReader(body)), Request: req, Proto: "HTTP/1.1", ProtoMajor: 1, ProtoMinor: 1, ContentLength: -1}, nil
	}
	switch s.how[req.URL.Host] {
	case "honest":
		return mk(200, s.honest)
	case "500":
		return mk(500, "internal error")
	case "garbage":
		return mk(200, `{"certificates": ["!!!"]}`)
	case "neterr":
		return nil, errors.New("connection refused")
	case "hang":
		<-req.Context().Done()
		return nil, req.Context().Err()
	}
	return nil, errors.New("harness: unknown shard " + req.URL.Host)
}

func (c *checker) temporalRoots(t *testing.T) {
	r := c.r
	honest := jobj("certificates", jb64s(c.w.roots)).String()
	kinds := []string{"honest", "500", "garbage", "neterr", "hang"}
	for _, a := range kinds {
		for _, b := range kinds {
			a, b := a, b
			r.Eval(1)
			r.Nontrivial("temporal-roots|" + a + "|" + b)
			pan, msg, stack := enum.Catch(func() {
				synctest.Test(t, func(t *testing.T) {
					cfg := &configpb.TemporalLogConfig{Shard: []*configpb.LogShardConfig{
						{Uri: "http://shard0.example/log", PublicKeyDer: kShard0.k.SPKI, NotAfterLimit: timestamppb.New(shardBoundary)},
						{Uri: "http://shard1.example/log", PublicKeyDer: kShard1.k.SPKI, NotAfterStart: timestamppb.New(shardBoundary)},
					}}
					tlc, err := client.NewTemporalLogClient(cfg, &http.Client{Transport: shardRT{honest, map[string]string{"shard0.example": a, "shard1.example": b}}})
					if err != nil {
						r.Violation("harness", "temporal client: "+err.Error(), nil)
						return
					}
					ctx, cancel := context.WithTimeout(context.Background(), 10*time.Second)
					defer cancel()
					roots, err := tlc.GetAcceptedRoots(ctx)
					desc := map[string]any{"shard0": a, "shard1": b, "returned_roots": len(roots), "error": fmt.Sprint(err)}
					if a == "honest" && b == "honest" {
						ok := err == nil
						for _, want := range c.w.roots {
							found := false
							for _, g := range roots {
								found = found || bytes.Equal(g.Data, want)
							}
							ok = ok && found
						}
						if !ok {
							r.Violation("TemporalLogClient.GetAcceptedRoots: both shards answer, yet no complete result", fmt.Sprintf("%d roots, err=%v", len(roots), err), desc)
						}
						return
					}
					if err == nil {
						r.Violation("TemporalLogClient.GetAcceptedRoots: partial result without an error", fmt.Sprintf("shard0 %s, shard1 %s: %d roots and a nil error", a, b, len(roots)), desc)
					} else if len(roots) != 0 {
						r.Violation("TemporalLogClient.GetAcceptedRoots: partially filled result next to an error", fmt.Sprintf("shard0 %s, shard1 %s: %d roots and error %v", a, b, len(roots), err), desc)
					}
				})
			})
			if pan {
				r.Violation("panic in TemporalLogClient.GetAcceptedRoots", msg+"\n"+stack, map[string]any{"shard0": a, "shard1": b})
			}
		}
	}
}
