//go:build go1.25

package c12

// The honest log: its keys, the chains submitted to it, its entries, tree and
// proofs, and the signing / verification of STHs and SCTs with std crypto over
// the reference signature inputs of verif/ref/ct6962.

import (
	"crypto"
	"crypto/ecdsa"
	"crypto/rand"
	"crypto/rsa"
	"crypto/sha256"
	"fmt"
	"sync"
	"time"

	"verif/ref/ct6962"
	"verif/ref/merkle"
	"verif/ref/pki"
)

// TLS SignatureAndHashAlgorithm codes (RFC 5246 s7.4.1.4.1).
const (
	hSHA256 = 4
	sRSA    = 1
	sECDSA  = 3
)

func stdHash(h uint8) (crypto.Hash, bool) {
	switch h {
	case 1:
		return crypto.MD5, true
	case 2:
		return crypto.SHA1, true
	case 3:
		return crypto.SHA224, true
	case 4:
		return crypto.SHA256, true
	case 5:
		return crypto.SHA384, true
	case 6:
		return crypto.SHA512, true
	}
	return 0, false
}

func sigAlgOf(k *pki.Key) uint8 {
	if k.Kind == "rsa2048" {
		return sRSA
	}
	return sECDSA
}

var sigCache sync.Map

// signRaw signs msg with k and TLS hash code h (std crypto only).
func signRaw(k *pki.Key, h uint8, msg []byte) []byte {
	ck := fmt.Sprintf("%s|%d|%x", k.Name, h, sha256.Sum256(msg))
	if v, ok := sigCache.Load(ck); ok {
		return v.([]byte)
	}
	ch, ok := stdHash(h)
	if !ok {
		panic("hash")
	}
	hh := ch.New()
	hh.Write(msg)
	d := hh.Sum(nil)
	var sig []byte
	var err error
	switch p := k.Priv.(type) {
	case *ecdsa.PrivateKey:
		sig, err = ecdsa.SignASN1(rand.Reader, p, d)
	case *rsa.PrivateKey:
		sig, err = rsa.SignPKCS1v15(nil, p, ch, d)
	default:
		panic("key kind")
	}
	if err != nil {
		panic(err)
	}
	sigCache.Store(ck, sig)
	return sig
}

// verifyStd: does ds verify over msg under k, by std crypto? The hash is the one
// ds declares (any of the RFC 5246 hashes); the signature algorithm must be the
// key's; the ECDSA signature must start with one DER ECDSA-Sig-Value.
func verifyStd(k *pki.Key, ds ct6962.DigitallySigned, msg []byte) bool {
	ch, ok := stdHash(ds.Hash)
	if !ok || ds.Sig != sigAlgOf(k) {
		return false
	}
	hh := ch.New()
	hh.Write(msg)
	d := hh.Sum(nil)
	switch pub := k.Priv.Public().(type) {
	case *ecdsa.PublicKey:
		// (C05) bytes after the complete DER SEQUENCE are ignored: cut the value at
		// the length its header announces and verify exactly those bytes.
		s := ds.Signature
		if len(s) < 2 || s[0] != 0x30 {
			return false
		}
		n := 2 + int(s[1])
		if s[1] == 0x81 && len(s) >= 3 {
			n = 3 + int(s[2])
		} else if s[1] >= 0x80 {
			return false
		}
		if len(s) < n {
			return false
		}
		return ecdsa.VerifyASN1(pub, d, s[:n])
	case *rsa.PublicKey:
		return rsa.VerifyPKCS1v15(pub, ch, d, ds.Signature) == nil
	}
	return false
}

func must[T any](v T, err error) T {
	if err != nil {
		panic(err)
	}
	return v
}

// keyCfg is a log key a client is configured with, plus the keys of other logs.
type keyCfg struct {
	name    string
	k       *pki.Key
	foreign *pki.Key // another log's key of the same kind
	other   *pki.Key // another log's key of the other kind
}

func (c *keyCfg) id() []byte { h := c.k.KeyHash(); return h[:] }

var (
	kP256 = &keyCfg{name: "P-256", k: pki.LoadKey("p256-0"), foreign: pki.LoadKey("p256-9"), other: pki.LoadKey("rsa2048-1")}
	kRSA  = &keyCfg{name: "RSA-2048", k: pki.LoadKey("rsa2048-0"), foreign: pki.LoadKey("rsa2048-1"), other: pki.LoadKey("p256-9")}
	// temporal log: shard 0 (NotAfter < 2025) has the P-256 key, shard 1 the RSA key; "other" is the sibling shard
	kShard0 = &keyCfg{name: "shard0/P-256", k: pki.LoadKey("p256-0"), foreign: pki.LoadKey("p256-9"), other: pki.LoadKey("rsa2048-0")}
	kShard1 = &keyCfg{name: "shard1/RSA-2048", k: pki.LoadKey("rsa2048-0"), foreign: pki.LoadKey("rsa2048-1"), other: pki.LoadKey("p256-0")}
)

var shardBoundary = time.Date(2025, 1, 1, 0, 0, 0, 0, time.UTC)

// submission is a chain handed to AddChain / AddPreChain with the reference
// signed entry (computed from the certificate templates, never by parsing).
type submission struct {
	name       string
	pre        bool
	chain      [][]byte
	entry      ct6962.SignedEntry  // what an honest log signs
	otherType  ct6962.SignedEntry  // the same certificate logged as the other entry type
	otherChain ct6962.SignedEntry  // same entry type, another certificate
	otherIssue *ct6962.SignedEntry // precert: right TBS, wrong issuer_key_hash
}

type world struct {
	root, ca, preIssuer           *pki.Cert
	subX509, subPre, subPreIssuer *submission // NotAfter 2025-06: shard 1
	subPreIssuer2                 *submission // ... under a signing certificate whose CT key usage is one of several
	subPreSameLeaf                *submission // subPre's precertificate submitted under another issuer certificate
	subX509Old, subPreOld         *submission // NotAfter 2024-06: shard 0

	entries  []refEntry // honest get-entries range [3,4]: one x509 entry, one precert entry
	leafHash [][]byte   // the 7 leaves of the honest tree
	treeRoot [32]byte
	consist  [][]byte // consistency 3 -> 7
	audit    [][]byte // inclusion of leaf 2 in 7
	roots    [][]byte
	sthTime  uint64
	sctTime  uint64
}

// defang is the TBSCertificate an RFC 6962 s3.2 log signs for a precertificate:
// the template without the poison extension, optionally re-issued under the
// final issuer's name and authority key id (precertificate signing certificate).
func defang(c *pki.Cert, issuer pki.Name, aki *pki.Ext) []byte {
	t := c.T
	var exts []pki.Ext
	for _, e := range c.T.Exts {
		switch {
		case e.Label == "poison":
		case e.Label == "aki" && aki != nil:
			exts = append(exts, *aki)
		default:
			exts = append(exts, e)
		}
	}
	t.Exts = exts
	if issuer != nil {
		t.Issuer = issuer
	}
	return t.TBS(c.Signer.SigAlgDER())
}

// stable rebuilds a certificate until its (randomised) ECDSA signature has the
// modal DER length, so that byte-length-indexed families (every prefix) have the
// same size in every run.
func stable(build func() *pki.Cert) *pki.Cert {
	for i := 0; i < 500; i++ {
		c := build()
		if c.Signer.Kind != "p256" {
			return c
		}
		n := len(c.DER) - 4 - len(c.TBS) - len(c.Signer.SigAlgDER()) - 3
		if n < 60 || n > 74 {
			panic(fmt.Sprintf("harness: unexpected signature length %d", n))
		}
		if n == 71 {
			return c
		}
	}
	panic("harness: no 71-byte signature in 500 attempts")
}

func newWorld() *world {
	w := &world{sthTime: 1700000000123, sctTime: 1700000001456}
	w.root = stable(func() *pki.Cert { return pki.NewRoot("c12-root", pki.LoadKey("p256-1")) })
	w.ca = stable(func() *pki.Cert { return pki.NewCA("c12-ca", pki.LoadKey("p256-2"), w.root, pki.CAOpts{}) })
	w.preIssuer = stable(func() *pki.Cert {
		return pki.NewCA("c12-preissuer", pki.LoadKey("p256-4"), w.ca, pki.CAOpts{EKUs: [][]int{pki.OIDEKUCT}})
	})
	caHash := w.ca.T.Key.KeyHash()
	rootHash := w.root.T.Key.KeyHash()
	piHash := w.preIssuer.T.Key.KeyHash()
	lk := pki.LoadKey("p256-3")
	na := map[bool]time.Time{false: time.Date(2025, 6, 1, 12, 0, 0, 0, time.UTC), true: time.Date(2024, 6, 1, 12, 0, 0, 0, time.UTC)}
	ser := 0
	serial := func() []byte { ser++; return []byte{0x12, byte(ser)} }
	leaf := func(cn string, old bool) *pki.Cert {
		sn := serial()
		return stable(func() *pki.Cert { return pki.NewLeaf(cn, lk, w.ca, pki.LeafOpts{NotAfter: na[old], Serial: sn}) })
	}
	pre := func(cn string, old bool, parent *pki.Cert) *pki.Cert {
		aki := parent.T.Key.KeyHash()
		sn := serial()
		return stable(func() *pki.Cert {
			return pki.NewLeaf(cn, lk, parent, pki.LeafOpts{NotAfter: na[old], Serial: sn,
				Exts: []pki.Ext{pki.ExtSAN(cn + ".example"), pki.ExtAKI(aki[:20]), pki.ExtPoison()}})
		})
	}
	mkX := func(name string, old bool) *submission {
		l, lx := leaf(name, old), leaf(name+"-other", old)
		return &submission{name: name, chain: pki.DERs(l, w.ca, w.root),
			entry:      ct6962.SignedEntry{EntryType: ct6962.X509Entry, Cert: l.DER},
			otherType:  ct6962.SignedEntry{EntryType: ct6962.PrecertEntry, IssuerKeyHash: caHash, TBS: l.TBS},
			otherChain: ct6962.SignedEntry{EntryType: ct6962.X509Entry, Cert: lx.DER}}
	}
	mkP := func(name string, old bool) *submission {
		p, px := pre(name, old, w.ca), pre(name+"-other", old, w.ca)
		return &submission{name: name, pre: true, chain: pki.DERs(p, w.ca, w.root),
			entry:      ct6962.SignedEntry{EntryType: ct6962.PrecertEntry, IssuerKeyHash: caHash, TBS: defang(p, nil, nil)},
			otherType:  ct6962.SignedEntry{EntryType: ct6962.X509Entry, Cert: p.DER},
			otherChain: ct6962.SignedEntry{EntryType: ct6962.PrecertEntry, IssuerKeyHash: caHash, TBS: defang(px, nil, nil)},
			otherIssue: &ct6962.SignedEntry{EntryType: ct6962.PrecertEntry, IssuerKeyHash: rootHash, TBS: defang(p, nil, nil)}}
	}
	w.subX509, w.subX509Old = mkX("x509", false), mkX("x509-old", true)
	w.subPre, w.subPreOld = mkP("precert", false), mkP("precert-old", true)
	// the very same precertificate bytes, submitted with a different certificate in the issuer position:
	// another entry (other issuer_key_hash), so another SCT
	w.subPreSameLeaf = &submission{name: "precert-same-leaf-other-issuer", pre: true, chain: [][]byte{w.subPre.chain[0], w.root.DER},
		entry:      *w.subPre.otherIssue,
		otherType:  w.subPre.otherType,
		otherChain: w.subPre.otherChain,
		otherIssue: &w.subPre.entry}
	// precertificate issued by a precertificate signing certificate
	p2 := pre("precert-pi", false, w.preIssuer)
	caAKI := pki.ExtAKI(caHash[:20])
	w.subPreIssuer = &submission{name: "precert-via-preissuer", pre: true, chain: pki.DERs(p2, w.preIssuer, w.ca, w.root),
		entry:     ct6962.SignedEntry{EntryType: ct6962.PrecertEntry, IssuerKeyHash: caHash, TBS: defang(p2, w.ca.T.Subject, &caAKI)},
		otherType: ct6962.SignedEntry{EntryType: ct6962.X509Entry, Cert: p2.DER},
		// what a log ignoring the signing certificate would sign
		otherChain: ct6962.SignedEntry{EntryType: ct6962.PrecertEntry, IssuerKeyHash: piHash, TBS: defang(p2, nil, nil)},
		otherIssue: &ct6962.SignedEntry{EntryType: ct6962.PrecertEntry, IssuerKeyHash: piHash, TBS: defang(p2, w.ca.T.Subject, &caAKI)}}

	pi2 := stable(func() *pki.Cert {
		return pki.NewCA("c12-preissuer-2", pki.LoadKey("p256-5"), w.ca, pki.CAOpts{EKUs: [][]int{pki.OIDEKUServerAuth, pki.OIDEKUCT, pki.OIDEKUClientAuth}})
	})
	pi2Hash := pi2.T.Key.KeyHash()
	p3 := pre("precert-pi2", false, pi2)
	w.subPreIssuer2 = &submission{name: "precert-via-preissuer-with-several-ekus", pre: true, chain: pki.DERs(p3, pi2, w.ca, w.root),
		entry:      ct6962.SignedEntry{EntryType: ct6962.PrecertEntry, IssuerKeyHash: caHash, TBS: defang(p3, w.ca.T.Subject, &caAKI)},
		otherType:  ct6962.SignedEntry{EntryType: ct6962.X509Entry, Cert: p3.DER},
		otherChain: ct6962.SignedEntry{EntryType: ct6962.PrecertEntry, IssuerKeyHash: pi2Hash, TBS: defang(p3, nil, nil)},
		otherIssue: &ct6962.SignedEntry{EntryType: ct6962.PrecertEntry, IssuerKeyHash: pi2Hash, TBS: defang(p3, w.ca.T.Subject, &caAKI)}}

	// entries 3 and 4 of the honest log
	l0 := must(ct6962.AppendMerkleTreeLeaf(nil, ct6962.MerkleTreeLeaf{Version: ct6962.V1, LeafType: ct6962.TimestampedEntryLeaf,
		Entry: ct6962.TimestampedEntry{Timestamp: w.sctTime, SignedEntry: w.subX509.entry}}))
	x0 := must(ct6962.AppendCertificateChain(nil, pki.DERs(w.ca, w.root)))
	l1 := must(ct6962.AppendMerkleTreeLeaf(nil, ct6962.MerkleTreeLeaf{Version: ct6962.V1, LeafType: ct6962.TimestampedEntryLeaf,
		Entry: ct6962.TimestampedEntry{Timestamp: w.sctTime + 1, SignedEntry: w.subPre.entry, Extensions: []byte{0xca, 0xfe}}}))
	x1 := must(ct6962.AppendPrecertChainEntry(nil, ct6962.PrecertChainEntry{PreCertificate: w.subPre.chain[0], Chain: pki.DERs(w.ca, w.root)}))
	w.entries = []refEntry{{l0, x0}, {l1, x1}}

	for i := 0; i < 7; i++ {
		switch i {
		case 3:
			w.leafHash = append(w.leafHash, merkle.LeafHash(l0))
		case 4:
			w.leafHash = append(w.leafHash, merkle.LeafHash(l1))
		default:
			w.leafHash = append(w.leafHash, merkle.LeafHash([]byte{byte(i)}))
		}
	}
	copy(w.treeRoot[:], merkle.Root(w.leafHash))
	w.consist = merkle.Proof(3, w.leafHash)
	w.audit = merkle.Path(3, w.leafHash)
	if !merkle.VerifyConsistency(3, 7, merkle.Root(w.leafHash[:3]), w.treeRoot[:], w.consist) ||
		!merkle.VerifyInclusion(3, 7, w.leafHash[3], w.audit, w.treeRoot[:]) {
		panic("harness: honest proofs do not verify")
	}
	w.roots = pki.DERs(w.root, pki.NewRoot("c12-root2", pki.LoadKey("rsa2048-2")))
	return w
}

// ---- honest and dishonest signed bodies ----------------------------------------

// sigMode describes how the DigitallySigned of a response is produced.
type sigMode struct {
	name string
	// make returns the encoded DigitallySigned given the configured key set and
	// the message an honest log would sign.
	make func(kc *keyCfg, msg []byte) []byte
	good bool // an honest signature by the configured key (response stays valid)
}

func dsEnc(hash, sig uint8, s []byte) []byte {
	return must(ct6962.AppendDigitallySigned(nil, ct6962.DigitallySigned{Hash: hash, Sig: sig, Signature: s}))
}

func honestDS(k *pki.Key, h uint8, msg []byte) []byte {
	return dsEnc(h, sigAlgOf(k), signRaw(k, h, msg))
}

func sigModes() []sigMode {
	ms := []sigMode{
		{name: "sig:good", good: true, make: func(kc *keyCfg, m []byte) []byte { return honestDS(kc.k, hSHA256, m) }},
		{name: "sig:good-sha384", good: true, make: func(kc *keyCfg, m []byte) []byte { return honestDS(kc.k, 5, m) }},
		{name: "sig:good-sha512", good: true, make: func(kc *keyCfg, m []byte) []byte { return honestDS(kc.k, 6, m) }},
		{name: "sig:foreign-key-same-kind", make: func(kc *keyCfg, m []byte) []byte { return honestDS(kc.foreign, hSHA256, m) }},
		{name: "sig:foreign-key-other-kind", make: func(kc *keyCfg, m []byte) []byte { return honestDS(kc.other, hSHA256, m) }},
		{name: "sig:foreign-key-other-kind-relabelled", make: func(kc *keyCfg, m []byte) []byte {
			return dsEnc(hSHA256, sigAlgOf(kc.k), signRaw(kc.other, hSHA256, m))
		}},
		{name: "sig:bit-flipped-last", make: func(kc *keyCfg, m []byte) []byte {
			s := signRaw(kc.k, hSHA256, m)
			return dsEnc(hSHA256, sigAlgOf(kc.k), flip(s, len(s)-1, 1))
		}},
		{name: "sig:bit-flipped-middle", make: func(kc *keyCfg, m []byte) []byte {
			s := signRaw(kc.k, hSHA256, m)
			return dsEnc(hSHA256, sigAlgOf(kc.k), flip(s, len(s)/2, 0x10))
		}},
		{name: "sig:over-flipped-message", make: func(kc *keyCfg, m []byte) []byte { return honestDS(kc.k, hSHA256, flip(m, len(m)-1, 1)) }},
		{name: "sig:over-wrong-signature-type", make: func(kc *keyCfg, m []byte) []byte { return honestDS(kc.k, hSHA256, flip(m, 1, 1)) }},
		{name: "sig:over-version-1", make: func(kc *keyCfg, m []byte) []byte { return honestDS(kc.k, hSHA256, flip(m, 0, 1)) }},
		{name: "sig:trailing-tls-byte-after-DigitallySigned", make: func(kc *keyCfg, m []byte) []byte { return append(honestDS(kc.k, hSHA256, m), 0) }},
		{name: "sig:trailing-byte-inside-signature-opaque", good: false, make: func(kc *keyCfg, m []byte) []byte {
			return dsEnc(hSHA256, sigAlgOf(kc.k), append(append([]byte{}, signRaw(kc.k, hSHA256, m)...), 0))
		}},
		{name: "sig:ecdsa-long-form-length", make: func(kc *keyCfg, m []byte) []byte {
			s := signRaw(kc.k, hSHA256, m) // 30 LL ... -> 30 81 LL ... (BER, not DER)
			return dsEnc(hSHA256, sigAlgOf(kc.k), append([]byte{s[0], 0x81}, s[1:]...))
		}},
		{name: "sig:ecdsa-r-zero-padded", make: func(kc *keyCfg, m []byte) []byte {
			s := signRaw(kc.k, hSHA256, m) // 30 LL 02 RL r.. -> 30 LL+1 02 RL+1 00 r..
			if s[0] != 0x30 || s[2] != 0x02 {
				return dsEnc(hSHA256, sigAlgOf(kc.k), append([]byte{0}, s...))
			}
			o := append([]byte{0x30, s[1] + 1, 0x02, s[3] + 1, 0x00}, s[4:]...)
			return dsEnc(hSHA256, sigAlgOf(kc.k), o)
		}},
		{name: "sig:DigitallySigned-cut-1", make: func(kc *keyCfg, m []byte) []byte { d := honestDS(kc.k, hSHA256, m); return d[:len(d)-1] }},
		{name: "sig:length-prefix+1", make: func(kc *keyCfg, m []byte) []byte { d := honestDS(kc.k, hSHA256, m); d[3]++; return d }},
		{name: "sig:empty-signature", make: func(kc *keyCfg, m []byte) []byte { return dsEnc(hSHA256, sigAlgOf(kc.k), nil) }},
		{name: "sig:algorithms-only", make: func(kc *keyCfg, m []byte) []byte { return []byte{hSHA256, sigAlgOf(kc.k)} }},
	}
	for _, h := range []uint8{0, 1, 2, 3, 5, 6, 7, 255} {
		ms = append(ms, sigMode{name: fmt.Sprintf("sig:hash-alg-changed-to-%d", h), make: func(kc *keyCfg, m []byte) []byte {
			return dsEnc(h, sigAlgOf(kc.k), signRaw(kc.k, hSHA256, m))
		}})
	}
	for _, s := range []uint8{0, 1, 2, 3, 4, 255} {
		ms = append(ms, sigMode{name: fmt.Sprintf("sig:sig-alg-changed-to-%d", s), make: func(kc *keyCfg, m []byte) []byte {
			if s == sigAlgOf(kc.k) {
				s2 := s ^ 2 // 1<->3
				return dsEnc(hSHA256, s2, signRaw(kc.k, hSHA256, m))
			}
			return dsEnc(hSHA256, s, signRaw(kc.k, hSHA256, m))
		}})
	}
	return ms
}

type sthContent struct {
	name     string
	size, ts uint64
	root     [32]byte
}

func (w *world) sthContents() []sthContent {
	return []sthContent{
		{"sth:honest", 7, w.sthTime, w.treeRoot},
		{"sth:empty-tree", 0, w.sthTime, sha256.Sum256(nil)},
		{"sth:timestamp-0", 7, 0, w.treeRoot},
		{"sth:max-uint64", ^uint64(0), ^uint64(0), w.treeRoot},
		{"sth:zero-root", 1, w.sthTime, [32]byte{}},
	}
}

func sthBody(c sthContent, ds []byte) *jn {
	return jobj("tree_size", jnum(c.size), "timestamp", jnum(c.ts), "sha256_root_hash", jb64(c.root[:]), "tree_head_signature", jb64(ds))
}

func sthInput(c sthContent) []byte {
	return must(ct6962.AppendSTHSignatureInput(nil, ct6962.V1, c.ts, c.size, c.root))
}

type sctContent struct {
	name string
	ts   uint64
	ext  []byte
}

func (w *world) sctContents() []sctContent {
	return []sctContent{
		{"sct:honest", w.sctTime, nil},
		{"sct:with-extensions", w.sctTime, []byte{1, 2, 3}},
		{"sct:timestamp-0", 0, nil},
		{"sct:timestamp-max", ^uint64(0), nil},
	}
}

func sctBody(id []byte, c sctContent, ds []byte) *jn {
	return jobj("sct_version", jnum(0), "id", jb64(id), "timestamp", jnum(c.ts), "extensions", jb64(c.ext), "signature", jb64(ds))
}

func sctInput(c sctContent, e ct6962.SignedEntry) []byte {
	return must(ct6962.AppendSCTSignatureInput(nil, ct6962.V1, c.ts, e, c.ext))
}
