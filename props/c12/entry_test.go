//go:build go1.25

package c12

// Totality and consistency of ct.RawLogEntryFromLeaf / ct.LogEntryFromLeaf.

import (
	"bytes"
	"fmt"
	"time"

	"verif/engine/enum"
	"verif/ref/ct6962"

	ct "github.com/google/certificate-transparency-go"
	"github.com/google/certificate-transparency-go/x509"
	"verif/ref/pki"
)

type refDecoded struct {
	leaf  ct6962.MerkleTreeLeaf
	cert  []byte   // x509: the logged certificate; precert: the submitted precertificate
	chain [][]byte // issuing chain
}

// refEntryDecode is the strict reference decoding of one get-entries element
// (RFC 6962 s3.4, s4.6): why != "" when it is not a well-formed entry.
func refEntryDecode(leafInput, extra []byte) (d refDecoded, class string, why string) {
	l, err := ct6962.ParseMerkleTreeLeaf(leafInput)
	if err != nil {
		return d, "leaf_input:" + ct6962.Class(err), "leaf_input: " + err.Error()
	}
	d.leaf = l
	switch l.Entry.EntryType {
	case ct6962.X509Entry:
		ch, err := ct6962.ParseCertificateChain(extra)
		if err != nil {
			return d, "extra_data:" + ct6962.Class(err), "extra_data (certificate_chain): " + err.Error()
		}
		d.cert, d.chain = l.Entry.Cert, ch
	case ct6962.PrecertEntry:
		p, err := ct6962.ParsePrecertChainEntry(extra)
		if err != nil {
			return d, "extra_data:" + ct6962.Class(err), "extra_data (PrecertChainEntry): " + err.Error()
		}
		d.cert, d.chain = p.PreCertificate, p.Chain
	}
	return d, "", ""
}

// leafOf converts the library's MerkleTreeLeaf into the reference value; ok is
// false when the library value is not a well-formed v1 leaf structure.
func leafOf(m *ct.MerkleTreeLeaf) (l ct6962.MerkleTreeLeaf, why string) {
	if uint64(m.Version) > 255 || uint64(m.LeafType) > 255 {
		return l, "version / leaf type out of range"
	}
	l.Version, l.LeafType = uint8(m.Version), uint8(m.LeafType)
	te := m.TimestampedEntry
	if te == nil {
		return l, "TimestampedEntry is nil"
	}
	l.Entry.Timestamp = te.Timestamp
	l.Entry.Extensions = te.Extensions
	if uint64(te.EntryType) > 65535 {
		return l, "entry type out of range"
	}
	l.Entry.EntryType = uint16(te.EntryType)
	switch te.EntryType {
	case ct.X509LogEntryType:
		if te.X509Entry == nil || te.PrecertEntry != nil || te.JSONEntry != nil {
			return l, "x509 entry: wrong arms set"
		}
		l.Entry.Cert = te.X509Entry.Data
	case ct.PrecertLogEntryType:
		if te.PrecertEntry == nil || te.X509Entry != nil || te.JSONEntry != nil {
			return l, "precert entry: wrong arms set"
		}
		l.Entry.IssuerKeyHash = te.PrecertEntry.IssuerKeyHash
		l.Entry.TBS = te.PrecertEntry.TBSCertificate
	default:
		return l, fmt.Sprintf("entry type %d", te.EntryType)
	}
	return l, ""
}

func chainOf(c []ct.ASN1Cert) [][]byte {
	out := make([][]byte, len(c))
	for i := range c {
		out[i] = c[i].Data
	}
	return out
}

// leafChainConsistent: the (leaf, chain) of a returned entry is the served one:
// equal to the reference decoding and re-encoding to the very bytes.
func leafChainConsistent(m *ct.MerkleTreeLeaf, chain []ct.ASN1Cert, index, wantIndex int64, leafInput, extra []byte) (refDecoded, string) {
	d, _, why := refEntryDecode(leafInput, extra)
	if why != "" {
		return d, "the reference refuses the input: " + why
	}
	if index != wantIndex {
		return d, fmt.Sprintf("index %d, want %d", index, wantIndex)
	}
	l, why := leafOf(m)
	if why != "" {
		return d, why
	}
	if !l.Equal(d.leaf) {
		return d, fmt.Sprintf("leaf %+v differs from the reference decoding %+v", l, d.leaf)
	}
	re, err := ct6962.AppendMerkleTreeLeaf(nil, l)
	if err != nil || !bytes.Equal(re, leafInput) {
		return d, fmt.Sprintf("leaf re-encodes to %x (err %v), given %x", re, err, leafInput)
	}
	if !ct6962.EqualChains(chainOf(chain), d.chain) {
		return d, fmt.Sprintf("chain has %d certificates, extra_data holds %d (or contents differ)", len(chain), len(d.chain))
	}
	return d, ""
}

func rawEntryConsistent(e *ct.RawLogEntry, wantIndex int64, leafInput, extra []byte) string {
	d, why := leafChainConsistent(&e.Leaf, e.Chain, e.Index, wantIndex, leafInput, extra)
	if why != "" {
		return why
	}
	if !bytes.Equal(e.Cert.Data, d.cert) {
		return "Cert differs from the logged certificate / submitted precertificate"
	}
	var xre []byte
	var err error
	if d.leaf.Entry.EntryType == ct6962.X509Entry {
		xre, err = ct6962.AppendCertificateChain(nil, chainOf(e.Chain))
	} else {
		xre, err = ct6962.AppendPrecertChainEntry(nil, ct6962.PrecertChainEntry{PreCertificate: e.Cert.Data, Chain: chainOf(e.Chain)})
	}
	if err != nil || !bytes.Equal(xre, extra) {
		return fmt.Sprintf("extra_data re-encodes to %x (err %v), given %x", xre, err, extra)
	}
	return ""
}

func logEntryConsistent(e *ct.LogEntry, wantIndex int64, leafInput, extra []byte) string {
	d, why := leafChainConsistent(&e.Leaf, e.Chain, e.Index, wantIndex, leafInput, extra)
	if why != "" {
		return why
	}
	switch d.leaf.Entry.EntryType {
	case ct6962.X509Entry:
		if e.X509Cert == nil || e.Precert != nil {
			return "x509 entry without X509Cert (or with Precert)"
		}
		if !bytes.Equal(e.X509Cert.Raw, d.leaf.Entry.Cert) {
			return "X509Cert.Raw differs from the logged certificate"
		}
	case ct6962.PrecertEntry:
		if e.Precert == nil || e.X509Cert != nil {
			return "precert entry without Precert (or with X509Cert)"
		}
		if !bytes.Equal(e.Precert.Submitted.Data, d.cert) {
			return "Precert.Submitted differs from extra_data's pre_certificate"
		}
		if e.Precert.IssuerKeyHash != d.leaf.Entry.IssuerKeyHash {
			return "Precert.IssuerKeyHash differs from the leaf"
		}
		if e.Precert.TBSCertificate == nil || !bytes.Equal(e.Precert.TBSCertificate.RawTBSCertificate, d.leaf.Entry.TBS) {
			return "Precert.TBSCertificate is not the leaf's tbs_certificate"
		}
	}
	return ""
}

type entryInput struct {
	label       string
	leaf, extra []byte
	certsIntact bool // every certificate inside is one of the honest ones
}

func be(b []byte, off, w int) uint64 {
	var x uint64
	for i := 0; i < w; i++ {
		x = x<<8 | uint64(b[off+i])
	}
	return x
}

func putBE(b []byte, off, w int, x uint64) []byte {
	c := append([]byte{}, b...)
	for i := w - 1; i >= 0; i-- {
		c[off+i] = byte(x)
		x >>= 8
	}
	return c
}

type bmut struct {
	label string
	b     []byte
}

// byteMutations: every prefix, one trailing byte (00, ff), every length field -1
// / +1 / 0 / max, every enum field set to every other small and boundary code.
func byteMutations(s ct6962.Structure, enc []byte) []bmut {
	var out []bmut
	for i := 0; i < len(enc); i++ {
		out = append(out, bmut{fmt.Sprintf("prefix-%d", i), enc[:i]})
	}
	out = append(out, bmut{"trailing-00", append(append([]byte{}, enc...), 0)}, bmut{"trailing-ff", append(append([]byte{}, enc...), 0xff)})
	marks, _, err := ct6962.Layout(s, enc)
	if err != nil {
		panic(err)
	}
	for _, m := range marks {
		v := be(enc, m.Off, m.Width)
		max := uint64(1)<<(8*uint(m.Width)) - 1
		switch m.Kind {
		case ct6962.MarkLength:
			for _, nv := range []uint64{v - 1, v + 1, 0, max} {
				if nv != v && nv <= max {
					out = append(out, bmut{fmt.Sprintf("%s=%d", m.Name, nv), putBE(enc, m.Off, m.Width, nv)})
				}
			}
		case ct6962.MarkEnum:
			for _, nv := range []uint64{0, 1, 2, 3, 0x80, 0x8000, max - 1, max} {
				if nv != v && nv <= max {
					out = append(out, bmut{fmt.Sprintf("%s=%d", m.Name, nv), putBE(enc, m.Off, m.Width, nv)})
				}
			}
		case ct6962.MarkUint:
			out = append(out, bmut{m.Name + "=max", putBE(enc, m.Off, m.Width, max)})
		}
	}
	return out
}

func (c *checker) decodeOne(in entryInput) {
	c.r.Eval(1)
	_, class, why := refEntryDecode(in.leaf, in.extra)
	const idx = 41
	le := &ct.LeafEntry{LeafInput: in.leaf, ExtraData: in.extra}
	desc := func(got string) map[string]any {
		return map[string]any{"case": in.label, "leaf_input": rep_hex(in.leaf), "extra_data": rep_hex(in.extra), "library": ascii(got), "reference": ascii(why)}
	}
	var raw *ct.RawLogEntry
	var err error
	pan, msg, stack := enum.Catch(func() { raw, err = ct.RawLogEntryFromLeaf(idx, le) })
	switch {
	case pan:
		c.violE("entry decoder panics [RawLogEntryFromLeaf]", in.label+": "+msg+"\n"+stack, desc("panic"))
	case err == nil && raw == nil:
		c.violE("entry decoder returns nil, nil [RawLogEntryFromLeaf]", in.label, desc("nil, nil"))
	case err != nil && raw != nil:
		c.violE("entry decoder returns an entry together with an error [RawLogEntryFromLeaf]", in.label, desc(err.Error()))
	case err == nil && why != "":
		c.violE("entry decoder accepts an ill-formed entry [RawLogEntryFromLeaf] "+class, in.label+": reference: "+why, desc("accepted"))
	case err == nil:
		c.r.Nontrivial("raw|" + in.label)
		c.r.Add("entries_decoded", 1)
		if w := rawEntryConsistent(raw, idx, in.leaf, in.extra); w != "" {
			c.violE("entry returned that is inconsistent with leaf_input / extra_data [RawLogEntryFromLeaf]", in.label+": "+w, desc(w))
		}
	case why == "":
		c.violE("entry decoder refuses a well-formed entry [RawLogEntryFromLeaf]", in.label+": "+err.Error(), desc(err.Error()))
	}
	rawOK := err == nil && !pan
	var ent *ct.LogEntry
	pan, msg, stack = enum.Catch(func() { ent, err = ct.LogEntryFromLeaf(idx, le) })
	switch {
	case pan:
		c.violE("entry decoder panics [LogEntryFromLeaf]", in.label+": "+msg+"\n"+stack, desc("panic"))
	case err == nil && ent == nil:
		c.violE("entry decoder returns nil, nil [LogEntryFromLeaf]", in.label, desc("nil, nil"))
	case ent != nil && x509.IsFatal(err):
		c.violE("entry decoder returns an entry together with a fatal error [LogEntryFromLeaf]", in.label, desc(err.Error()))
	case ent != nil && why != "":
		c.violE("entry decoder accepts an ill-formed entry [LogEntryFromLeaf] "+class, in.label+": reference: "+why, desc("accepted"))
	case ent != nil:
		c.r.Nontrivial("parsed|" + in.label)
		if w := logEntryConsistent(ent, idx, in.leaf, in.extra); w != "" {
			c.violE("entry returned that is inconsistent with leaf_input / extra_data [LogEntryFromLeaf]", in.label+": "+w, desc(w))
		}
	case ent == nil && rawOK && in.certsIntact:
		c.violE("entry decoder refuses a well-formed entry [LogEntryFromLeaf]", in.label+": "+err.Error(), desc(err.Error()))
	}
}

func rep_hex(b []byte) string {
	if len(b) > 64 {
		return fmt.Sprintf("%x...(%d bytes)", b[:32], len(b))
	}
	return fmt.Sprintf("%x", b)
}

func shortStrings() [][]byte {
	al := []byte{0, 1, 2, 0xff}
	out := [][]byte{{}}
	for l := 1; l <= 3; l++ {
		n := 1
		for i := 0; i < l; i++ {
			n *= len(al)
		}
		for k := 0; k < n; k++ {
			b := make([]byte, l)
			x := k
			for i := l - 1; i >= 0; i-- {
				b[i] = al[x%len(al)]
				x /= len(al)
			}
			out = append(out, b)
		}
	}
	return out
}

func (c *checker) entryDecoders() {
	w := c.w
	th := c.r.Thorough()
	x, p := w.entries[0], w.entries[1]
	// a third honest entry: a precert entry with an empty issuing chain; and an x509 entry with an empty chain
	pEmpty := refEntry{p.leaf, must(ct6962.AppendPrecertChainEntry(nil, ct6962.PrecertChainEntry{PreCertificate: w.subPre.chain[0]}))}
	xEmpty := refEntry{x.leaf, must(ct6962.AppendCertificateChain(nil, nil))}
	var ins []entryInput
	add := func(label string, leaf, extra []byte, intact bool) {
		ins = append(ins, entryInput{label: label, leaf: leaf, extra: extra, certsIntact: intact})
	}
	add("honest x509", x.leaf, x.extra, true)
	add("honest precert", p.leaf, p.extra, true)
	add("honest precert, empty chain", pEmpty.leaf, pEmpty.extra, true)
	add("honest x509, empty chain", xEmpty.leaf, xEmpty.extra, true)
	add("x509 leaf with precert extra_data", x.leaf, p.extra, true)
	add("precert leaf with x509 extra_data", p.leaf, x.extra, true)
	type fam struct {
		name string
		e    refEntry
		xs   ct6962.Structure
	}
	fams := []fam{{"x509", x, ct6962.SCertificateChain}, {"precert", p, ct6962.SPrecertChainEntry}}
	lm := map[string][]bmut{}
	xm := map[string][]bmut{}
	for _, f := range fams {
		lm[f.name] = byteMutations(ct6962.SMerkleTreeLeaf, f.e.leaf)
		xm[f.name] = byteMutations(f.xs, f.e.extra)
		for _, m := range lm[f.name] {
			add(f.name+" leaf_input "+m.label, m.b, f.e.extra, false)
		}
		for _, m := range xm[f.name] {
			add(f.name+" extra_data "+m.label, f.e.leaf, m.b, false)
		}
	}
	ss := shortStrings()
	for _, a := range ss {
		for _, f := range fams {
			add(fmt.Sprintf("short leaf_input %x with %s extra_data", a, f.name), a, f.e.extra, false)
			add(fmt.Sprintf("%s leaf_input with short extra_data %x", f.name, a), f.e.leaf, a, true)
		}
		for _, b := range ss {
			add(fmt.Sprintf("short leaf_input %x, short extra_data %x", a, b), a, b, false)
		}
	}
	// minimal well-formed leaves around short strings: a 1-byte "certificate"
	for _, cert := range [][]byte{{0}, {0x30, 0}} {
		ml := must(ct6962.AppendMerkleTreeLeaf(nil, ct6962.MerkleTreeLeaf{Entry: ct6962.TimestampedEntry{SignedEntry: ct6962.SignedEntry{Cert: cert}}}))
		mp := must(ct6962.AppendMerkleTreeLeaf(nil, ct6962.MerkleTreeLeaf{Entry: ct6962.TimestampedEntry{SignedEntry: ct6962.SignedEntry{EntryType: 1, TBS: cert}}}))
		for _, b := range ss {
			add(fmt.Sprintf("minimal x509 leaf (cert %x), short extra_data %x", cert, b), ml, b, false)
			add(fmt.Sprintf("minimal precert leaf (tbs %x), short extra_data %x", cert, b), mp, b, false)
		}
	}
	// a certificate only the lenient parser accepts (serial number with a superfluous leading zero), alone and followed
	// by further bytes inside the same ASN.1Cert field: an entry handed back carries the certificate bytes of the leaf
	laxCert := pki.Build(pki.Tmpl{Serial: []byte{0x12, 0x34}, SerialContent: []byte{0x00, 0x12, 0x34}, Issuer: w.ca.T.Subject, Subject: pki.CN("c12 lenient-only"),
		NotBefore: pki.T0, NotAfter: time.Date(2025, 6, 1, 12, 0, 0, 0, time.UTC), Key: pki.LoadKey("p256-3")}, w.ca.T.Key)
	for _, tail := range [][]byte{nil, {0}, {0x30, 0}, laxCert.DER[:7]} {
		ml := must(ct6962.AppendMerkleTreeLeaf(nil, ct6962.MerkleTreeLeaf{Entry: ct6962.TimestampedEntry{Timestamp: 77, SignedEntry: ct6962.SignedEntry{Cert: append(append([]byte{}, laxCert.DER...), tail...)}}}))
		add(fmt.Sprintf("x509 leaf: lenient-only certificate followed by %d further bytes", len(tail)), ml, x.extra, false)
		ms := must(ct6962.AppendMerkleTreeLeaf(nil, ct6962.MerkleTreeLeaf{Entry: ct6962.TimestampedEntry{Timestamp: 78, SignedEntry: ct6962.SignedEntry{Cert: append(append([]byte{}, w.subX509.chain[0]...), tail...)}}}))
		add(fmt.Sprintf("x509 leaf: honest certificate followed by %d further bytes", len(tail)), ms, x.extra, len(tail) == 0)
	}
	// well-formed shapes: entry type x certificate x extensions length x chain length
	for _, pre := range []bool{false, true} {
		for ci, cert := range [][]byte{{0x30}, w.subX509.chain[0]} {
			for _, el := range []int{0, 1, 300, 65535} {
				for cl := 0; cl <= 3; cl++ {
					se := ct6962.SignedEntry{Cert: cert}
					if pre {
						se = ct6962.SignedEntry{EntryType: 1, IssuerKeyHash: w.subPre.entry.IssuerKeyHash, TBS: w.subPre.entry.TBS}
						if ci == 0 {
							se.TBS = cert
						}
					}
					var chain [][]byte
					for k := 0; k < cl; k++ {
						chain = append(chain, [][]byte{w.ca.DER, {0xff}, w.root.DER}[k])
					}
					leaf := must(ct6962.AppendMerkleTreeLeaf(nil, ct6962.MerkleTreeLeaf{Entry: ct6962.TimestampedEntry{Timestamp: uint64(el), SignedEntry: se, Extensions: make([]byte, el)}}))
					extra := must(ct6962.AppendCertificateChain(nil, chain))
					if pre {
						extra = must(ct6962.AppendPrecertChainEntry(nil, ct6962.PrecertChainEntry{PreCertificate: w.subPre.chain[0], Chain: chain}))
					}
					add(fmt.Sprintf("well-formed pre=%v cert=%d ext=%d chain=%d", pre, ci, el, cl), leaf, extra, ci == 1)
				}
			}
		}
	}
	c.r.Set("entry_decoder_inputs", len(ins))
	done := enum.ParFor(len(ins), c.r.Expired, func(i int) { c.decodeOne(ins[i]) })
	if !done {
		c.r.Capped("deadline reached in the entry decoder inputs")
	}
	if th {
		// pairs: every leaf_input mutation x every extra_data mutation of the same family
		for _, f := range fams {
			ls, xs := lm[f.name], xm[f.name]
			c.r.Add("entry_decoder_pair_inputs", int64(len(ls)*len(xs)))
			done := enum.ParFor(len(ls)*len(xs), c.r.Expired, func(i int) {
				l, e := ls[i/len(xs)], xs[i%len(xs)]
				c.decodeOne(entryInput{label: f.name + " leaf_input " + l.label + " + extra_data " + e.label, leaf: l.b, extra: e.b})
			})
			if !done {
				c.r.Capped("deadline reached in the entry decoder pairs")
			}
		}
	}
}

func (c *checker) violE(sig, desc string, cs any) { c.r.Violation(sig, ascii(desc), cs) }
